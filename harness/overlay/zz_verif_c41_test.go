package overlay

// C41 — route configuration parses exactly.
// Binding of spec/RouteCfg.tla to overlay/route.go (parseRoutes / parseUnsafeRoutes), vector mode: every vector is rendered
// as real YAML, loaded with config.C.LoadString and parsed; refusal / acceptance and every field of the returned routes are
// compared with the specification. A panic is a failure to refuse.

import (
	"encoding/json"
	"fmt"
	"io"
	"log/slog"
	"net/netip"
	"sort"
	"strconv"
	"strings"
	"testing"

	"github.com/slackhq/nebula/config"
	"github.com/slackhq/nebula/routing"
)

type c41Num struct {
	Neg bool  `json:"neg"`
	D   []int `json:"d"`
}

func (n c41Num) String() string {
	var sb strings.Builder
	if n.Neg {
		sb.WriteByte('-')
	}
	for _, d := range n.D {
		sb.WriteByte(byte('0' + d))
	}
	return sb.String()
}

type c41Field struct {
	Kind string `json:"kind"`
	Num  c41Num `json:"num"`
	Txt  string `json:"txt"`
}
type c41Pfx struct {
	Fam int `json:"fam"`
	A   int `json:"a"`
	Len int `json:"len"`
}
type c41Route struct {
	Kind string `json:"kind"`
	P    c41Pfx `json:"p"`
	Txt  string `json:"txt"`
}
type c41Gw struct {
	Kind string   `json:"kind"`
	W    c41Field `json:"w"`
}
type c41Via struct {
	Kind string  `json:"kind"`
	Gws  []c41Gw `json:"gws"`
}
type c41Install struct {
	Kind string `json:"kind"`
	B    bool   `json:"b"`
}
type c41Entry struct {
	Shape   string     `json:"shape"`
	Mtu     c41Field   `json:"mtu"`
	Metric  c41Field   `json:"metric"`
	Via     c41Via     `json:"via"`
	Route   c41Route   `json:"route"`
	Install c41Install `json:"install"`
}
type c41ExpRoute struct {
	St      string   `json:"st"`
	Mtu     c41Num   `json:"mtu"`
	Metric  c41Num   `json:"metric"`
	Ws      []c41Num `json:"ws"`
	Install bool     `json:"install"`
}
type c41Vec struct {
	Kind string     `json:"kind"`
	Nets []c41Pfx   `json:"nets"`
	Es   []c41Entry `json:"es"`
	Exp  struct {
		St     string        `json:"st"`
		Routes []c41ExpRoute `json:"routes"`
	} `json:"exp"`
}

func (p c41Pfx) text() string {
	if p.Fam == 4 {
		return fmt.Sprintf("10.41.0.%d/%d", p.A, 24+p.Len)
	}
	return netip.MustParsePrefix(fmt.Sprintf("fd41::%x/%d", p.A, 120+p.Len)).String() // canonical spelling
}

// the node's own network: an address inside the prefix, as a certificate carries it
func (p c41Pfx) network() netip.Prefix {
	q := p
	q.A++
	return netip.MustParsePrefix(q.text())
}

func c41Scalar(f c41Field) (string, bool) {
	switch f.Kind {
	case "int":
		return f.Num.String(), true
	case "str":
		return strconv.Quote(f.Num.String()), true
	case "badstr":
		return strconv.Quote(f.Txt), true
	case "bool":
		return "true", true
	case "float":
		return f.Num.String() + ".0", true
	case "floatfrac":
		return f.Num.String() + ".5", true
	case "list":
		return "[1, 2]", true
	case "null":
		return "~", true
	case "missing":
		return "", false
	}
	panic("c41: field kind " + f.Kind)
}

func c41GwAddr(k int) string { return fmt.Sprintf("10.99.0.%d", k+1) }

func c41Yaml(v c41Vec) string {
	var sb strings.Builder
	key := "routes"
	if v.Kind == "unsafe" {
		key = "unsafe_routes"
	}
	if len(v.Es) == 0 {
		return "tun:\n  " + key + ": []\n"
	}
	sb.WriteString("tun:\n  " + key + ":\n")
	for _, e := range v.Es {
		if e.Shape != "map" {
			sb.WriteString("    - just-a-string\n")
			continue
		}
		var lines []string
		if s, ok := c41Scalar(e.Mtu); ok {
			lines = append(lines, "mtu: "+s)
		}
		switch e.Route.Kind {
		case "pfx":
			lines = append(lines, "route: "+e.Route.P.text())
		case "badstr":
			lines = append(lines, "route: "+strconv.Quote(e.Route.Txt))
		case "int":
			lines = append(lines, "route: 5")
		}
		if v.Kind == "unsafe" {
			if s, ok := c41Scalar(e.Metric); ok {
				lines = append(lines, "metric: "+s)
			}
			switch e.Via.Kind {
			case "addr":
				lines = append(lines, "via: "+c41GwAddr(0))
			case "badstr":
				lines = append(lines, `via: "not-an-address"`)
			case "int":
				lines = append(lines, "via: 7")
			case "list":
				lines = append(lines, "via:")
				for k, g := range e.Via.Gws {
					switch g.Kind {
					case "ok":
						lines = append(lines, "  - gateway: "+c41GwAddr(k))
						if s, ok := c41Scalar(g.W); ok {
							lines = append(lines, "    weight: "+s)
						}
					case "nomap":
						lines = append(lines, "  - "+c41GwAddr(k))
					case "nogw":
						lines = append(lines, "  - weight: 1")
					case "gwint":
						lines = append(lines, "  - gateway: 5")
					case "badaddr":
						lines = append(lines, `  - gateway: "nope"`)
					}
				}
			}
			switch e.Install.Kind {
			case "bool":
				lines = append(lines, fmt.Sprintf("install: %v", e.Install.B))
			case "str":
				lines = append(lines, fmt.Sprintf("install: %q", fmt.Sprint(e.Install.B)))
			case "badstr":
				lines = append(lines, `install: "maybe"`)
			case "list":
				lines = append(lines, "install: [true]")
			}
		}
		if len(lines) == 0 {
			sb.WriteString("    - {}\n")
			continue
		}
		for i, ln := range lines {
			if i == 0 {
				sb.WriteString("    - " + ln + "\n")
			} else {
				sb.WriteString("      " + ln + "\n")
			}
		}
	}
	return sb.String()
}

// deviations lists the fields of an entry that are not written the plain way, as "<field>=<kind>"
func c41Deviations(kind string, e c41Entry) []string {
	if e.Shape != "map" {
		return []string{"entry=" + e.Shape}
	}
	var d []string
	if e.Mtu.Kind != "int" {
		d = append(d, "mtu="+e.Mtu.Kind)
	}
	if e.Route.Kind != "pfx" {
		d = append(d, "route="+e.Route.Kind)
	}
	if kind == "unsafe" {
		if e.Metric.Kind != "int" && e.Metric.Kind != "missing" {
			d = append(d, "metric="+e.Metric.Kind)
		}
		switch e.Via.Kind {
		case "addr":
		case "list":
			for _, g := range e.Via.Gws {
				if g.Kind != "ok" {
					d = append(d, "gateway="+g.Kind)
				} else if g.W.Kind != "int" && g.W.Kind != "missing" {
					d = append(d, "weight="+g.W.Kind)
				}
			}
		default:
			d = append(d, "via="+e.Via.Kind)
		}
		if e.Install.Kind != "missing" && e.Install.Kind != "bool" {
			d = append(d, "install="+e.Install.Kind)
		}
	}
	sort.Strings(d)
	return d
}

func TestVerif_C41(t *testing.T) {
	res := vNewResult()
	defer res.Write(t)
	l := slog.New(slog.NewTextHandler(io.Discard, nil))
	seen := map[string]bool{}
	// a symptom is attributed to a single deviating field when that field alone already shows it
	report := func(kind, symptom string, devs []string, what string, detail any) {
		key := ""
		for _, d := range devs {
			if seen[kind+":"+d+":"+symptom] {
				key = kind + ":" + d + ":" + symptom
				break
			}
		}
		if key == "" {
			if len(devs) == 0 {
				devs = []string{"plain"}
			}
			key = kind + ":" + strings.Join(devs, ",") + ":" + symptom
		}
		seen[key] = true
		res.Mismatch(key, what, detail)
	}
	n := 0
	vReadNDJSON(t, "vectors.ndjson", func(line []byte) {
		var v c41Vec
		if err := json.Unmarshal(line, &v); err != nil {
			t.Fatalf("vector: %v: %s", err, line)
		}
		n++
		res.Case(string(line))
		res.Hit(v.Kind)
		res.Hit("exp:" + v.Exp.St)
		yml := c41Yaml(v)
		if n%400 == 1 {
			res.Sample(map[string]any{"yaml": yml, "expected": v.Exp})
		}
		c := config.NewC(l)
		if err := c.LoadString(yml); err != nil {
			t.Fatalf("c41: the harness produced YAML that does not load: %v\n%s", err, yml)
		}
		var nets []netip.Prefix
		for _, p := range v.Nets {
			nets = append(nets, p.network())
		}
		var routes []Route
		var err error
		panicked := ""
		func() {
			defer func() {
				if r := recover(); r != nil {
					panicked = fmt.Sprint(r)
				}
			}()
			if v.Kind == "routes" {
				routes, err = parseRoutes(c, nets)
			} else {
				routes, err = parseUnsafeRoutes(c, nets)
			}
		}()
		var devs []string
		for _, e := range v.Es {
			devs = append(devs, c41Deviations(v.Kind, e)...)
		}
		detail := map[string]any{"yaml": yml, "networks": fmt.Sprint(nets), "expected": v.Exp, "error": fmt.Sprint(err), "routes": fmt.Sprint(routes)}
		if panicked != "" {
			res.Hit("panic")
			report(v.Kind, "panic", devs, fmt.Sprintf("parsing panicked instead of refusing or loading: %s\n%s", panicked, yml), detail)
			return
		}
		if err != nil {
			res.Hit("refused")
			if v.Exp.St == "ok" {
				report(v.Kind, "refused", devs, fmt.Sprintf("a well formed configuration was refused (%v):\n%s", err, yml), detail)
			}
			return
		}
		res.Hit("loaded")
		if v.Exp.St == "refuse" {
			report(v.Kind, "loaded", devs, fmt.Sprintf("a configuration that must be refused loaded as %v:\n%s", routes, yml), detail)
			return
		}
		if len(routes) != len(v.Es) {
			report(v.Kind, "count", devs, fmt.Sprintf("%d entries gave %d routes", len(v.Es), len(routes)), detail)
			return
		}
		for k, e := range v.Es {
			x, r := v.Exp.Routes[k], routes[k]
			var wrong, fields []string
			if strconv.Itoa(r.MTU) != x.Mtu.String() {
				fields = append(fields, "mtu")
				wrong = append(wrong, fmt.Sprintf("mtu=%d (stated %s)", r.MTU, x.Mtu))
			}
			if strconv.Itoa(r.Metric) != x.Metric.String() {
				fields = append(fields, "metric")
				wrong = append(wrong, fmt.Sprintf("metric=%d (stated %s)", r.Metric, x.Metric))
			}
			if r.Cidr.String() != e.Route.P.text() {
				fields = append(fields, "route")
				wrong = append(wrong, fmt.Sprintf("route=%s (stated %s)", r.Cidr, e.Route.P.text()))
			}
			if r.Install != x.Install {
				fields = append(fields, "install")
				wrong = append(wrong, fmt.Sprintf("install=%v", r.Install))
			}
			if len(r.Via) != len(x.Ws) {
				fields = append(fields, "via")
				wrong = append(wrong, fmt.Sprintf("%d gateways (stated %d)", len(r.Via), len(x.Ws)))
			} else {
				for g := range r.Via {
					w, _ := strconv.Atoi(x.Ws[g].String())
					if r.Via[g] != routing.NewGateway(netip.MustParseAddr(c41GwAddr(g)), w) {
						fields = append(fields, "weight")
						wrong = append(wrong, fmt.Sprintf("gateway %d = %s (stated %s weight %d)", g+1, r.Via[g].String(), c41GwAddr(g), w))
					}
				}
			}
			if len(wrong) > 0 {
				report(v.Kind, "wrong-value:"+strings.Join(fields, "+"), devs, fmt.Sprintf("entry %d loaded with %s:\n%s", k+1, strings.Join(wrong, "; "), yml), detail)
				return
			}
		}
	})
	res.Extra["vectors"] = n
}
