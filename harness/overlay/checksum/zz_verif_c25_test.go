package checksum

// C25 — binding of spec/Checksum.tla (RFC 1071, vector mode) to checksum.Checksum, checksumAVX2 and the gvisor fallback.
//
// Every line of vectors.ndjson is one TLC state: a symbolic buffer (pattern, length, optional one-byte spike) with the
// checksum TLC computed from the RFC definition for every start offset 0..63 and every initial value. The buffer is
// materialised at that offset from a 64-byte aligned address, surrounded by poison bytes, and handed to the real code.

import (
	"encoding/json"
	"fmt"
	"testing"
	"unsafe"

	gvisorchecksum "gvisor.dev/gvisor/pkg/tcpip/checksum"
	"runtime/debug"
	"syscall"
)

type c25Pat struct {
	K string `json:"k"`
	A int    `json:"a"`
	B int    `json:"b"`
}

type c25Line struct {
	Kind      string  `json:"kind"`
	Inits     []int   `json:"inits"`
	Offs      []int   `json:"offs"`
	MixPeriod int     `json:"mixperiod"`
	P         c25Pat  `json:"p"`
	Len       int     `json:"len"`
	Sq        int     `json:"sq"` // spike: position (-1 = none), width, index of the non-zero byte, its delta
	Sw        int     `json:"sw"`
	So        int     `json:"so"`
	Sd        int     `json:"sd"`
	Exp       [][]int `json:"exp"`
	Probe     struct {
		Off  int   `json:"off"`
		Head []int `json:"head"`
		Last int   `json:"last"`
	} `json:"probe"`
}

// c25MixByte is MixByte of spec/Checksum.tla.
func c25MixByte(s, j int) byte {
	h1 := ((j+s)*25173 + 13849) % 65536
	h2 := (h1*((h1/256)+1) + 13849) % 65536
	return byte(((h2 / 256) + h2) % 256)
}

// c25Back is Back(p, j) of spec/Checksum.tla.
func c25Back(p c25Pat, mixPeriod, j int) byte {
	switch p.K {
	case "const":
		return byte(p.A)
	case "alt":
		if j%2 == 0 {
			return byte(p.A)
		}
		return byte(p.B)
	case "ramp":
		return byte((p.A + p.B*(j%256)) % 256)
	case "mix":
		return c25MixByte(p.A, j%mixPeriod)
	}
	panic("c25: unknown pattern " + p.K)
}

const (
	c25Guard = 128 // poison bytes kept on both sides of every buffer
	c25Align = 64
)

type c25Arena struct {
	work, poison []byte
	base         int // index of a 64-byte aligned address, >= c25Guard
}

func c25NewArena(maxLen int) *c25Arena {
	n := c25Guard + c25Align + c25Align + maxLen + c25Guard
	a := &c25Arena{work: make([]byte, n), poison: make([]byte, n)}
	addr := uintptr(unsafe.Pointer(&a.work[0]))
	a.base = c25Guard + int((c25Align-addr%c25Align)%c25Align)
	for i := range a.poison {
		a.poison[i] = byte(0x5b + 37*i + i/251)
	}
	copy(a.work, a.poison)
	return a
}

// c25Fenced is a mapping [no-access page][data pages][no-access page]: a buffer that ends flush with the end of the data
// pages (or starts at their start) lets a read outside the buffer fault instead of silently reading a neighbour.
type c25Fenced struct {
	mem  []byte
	page int
	data []byte
}

func c25NewFenced(maxLen int) (*c25Fenced, error) {
	page := syscall.Getpagesize()
	dataLen := ((maxLen + page - 1) / page) * page
	if dataLen == 0 {
		dataLen = page
	}
	mem, err := syscall.Mmap(-1, 0, dataLen+2*page, syscall.PROT_READ|syscall.PROT_WRITE, syscall.MAP_ANON|syscall.MAP_PRIVATE)
	if err != nil {
		return nil, err
	}
	if err := syscall.Mprotect(mem[:page], syscall.PROT_NONE); err != nil {
		return nil, err
	}
	if err := syscall.Mprotect(mem[page+dataLen:], syscall.PROT_NONE); err != nil {
		return nil, err
	}
	return &c25Fenced{mem: mem, page: page, data: mem[page : page+dataLen]}, nil
}

// atEnd / atStart copy src into the data pages flush with their end / start (cap == len)
func (f *c25Fenced) atEnd(src []byte) []byte {
	s := len(f.data) - len(src)
	copy(f.data[s:], src)
	return f.data[s:len(f.data):len(f.data)]
}
func (f *c25Fenced) atStart(src []byte) []byte {
	copy(f.data, src)
	return f.data[:len(src):len(src)]
}

// c25Faults runs fn and reports whether it faulted (an access outside accessible memory)
func c25Faults(fn func()) (fault any) {
	old := debug.SetPanicOnFault(true)
	defer debug.SetPanicOnFault(old)
	defer func() { fault = recover() }()
	fn()
	return nil
}

// place materialises src at start offset off from the aligned base and returns the slice (cap == len).
func (a *c25Arena) place(src []byte, off int) []byte {
	s := a.base + off
	copy(a.work[s:s+len(src)], src)
	return a.work[s : s+len(src) : s+len(src)]
}

func (a *c25Arena) restore(off, n int) {
	s := a.base + off
	copy(a.work[s:s+n], a.poison[s:s+n])
}

func c25BodyClass(n int) string {
	switch {
	case n < 32:
		return "len_lt32"
	case n < 64:
		return "len32-63"
	}
	return "len_ge64"
}

func c25TailClass(n int) string {
	switch t := n % 32; {
	case t == 0:
		return "tail0"
	case t == 1:
		return "tail1"
	case t < 4:
		return "tail2-3"
	case t < 8:
		return "tail4-7"
	case t < 16:
		return "tail8-15"
	}
	return "tail16-31"
}

func c25OffClass(off int) string {
	switch {
	case off%32 == 0:
		return "off_mod32_0"
	case off%2 == 1:
		return "off_odd"
	}
	return "off_even"
}

func c25PatClass(k string, spiked bool) string {
	if spiked {
		return k + "+spike"
	}
	return k
}

func c25Key(impl, pat string, n, off int, got, want uint16) string {
	k := fmt.Sprintf("%s:%s:%s:%s:%s", impl, pat, c25BodyClass(n), c25TailClass(n), c25OffClass(off))
	if (got == 0 || got == 0xffff) && (want == 0 || want == 0xffff) {
		k += ":zero-representation"
	}
	return k
}

type c25Impl struct {
	name string
	fn   func([]byte, uint16) uint16
}

func TestVerif_C25(t *testing.T) {
	res := vNewResult()
	defer res.Write(t)

	impls := []c25Impl{{"dispatch", Checksum}}
	if hasAVX2 {
		// the assembly routine itself, and the proof that Checksum dispatches to it on this CPU
		impls = append(impls, c25Impl{"avx2", checksumAVX2})
		res.Hit("avx2")
	} else {
		res.Hit("no-avx2")
	}
	fallback := c25Impl{"fallback", gvisorchecksum.Checksum}

	var (
		cfg          *c25Line
		arena        *c25Arena
		backs        = map[c25Pat][]byte{}
		maxLen       = 0
		vecs         []c25Line
		fallbackBad  = 0
		evaluations  = 0
		probeChecked = 0
		nFallback    = 0
		nDense       = 0
	)
	vReadNDJSON(t, "vectors.ndjson", func(line []byte) {
		var v c25Line
		if err := json.Unmarshal(line, &v); err != nil {
			t.Fatalf("vector: %v: %.200s", err, line)
		}
		switch v.Kind {
		case "cfg":
			cfg = &v
		case "vec":
			if v.Len > maxLen {
				maxLen = v.Len
			}
			vecs = append(vecs, v)
		default:
			t.Fatalf("unknown line kind %q", v.Kind)
		}
	})
	if cfg == nil || len(vecs) == 0 {
		t.Fatalf("no configuration line or no vectors")
	}
	for i, o := range cfg.Offs {
		if o != i || o >= c25Align {
			t.Fatalf("offsets must be 0..63 in order, got %v", cfg.Offs)
		}
	}
	arena = c25NewArena(maxLen)
	fenced, ferr := c25NewFenced(maxLen)
	if ferr != nil {
		res.Extra["fenced_unavailable"] = ferr.Error()
		fenced = nil
	}
	if uintptr(unsafe.Pointer(&arena.work[arena.base]))%c25Align != 0 {
		t.Fatalf("backing array is not 64-byte aligned")
	}
	back := func(p c25Pat) []byte {
		b, ok := backs[p]
		if !ok {
			b = make([]byte, maxLen+c25Align)
			for j := range b {
				b[j] = c25Back(p, cfg.MixPeriod, j)
			}
			backs[p] = b
		}
		return b
	}
	scratch := make([]byte, maxLen)
	// materialise(v, off) = the buffer of the vector at start offset off, inside the arena
	materialise := func(p c25Pat, n, sq, sw, so, sd, off int) []byte {
		src := back(p)[off : off+n]
		if sq >= 0 {
			copy(scratch[:n], src)
			for i := 0; i < sw; i++ {
				if i == so {
					scratch[sq+i] = byte((int(scratch[sq+i]) + sd) % 256)
				} else {
					scratch[sq+i] = 0
				}
			}
			src = scratch[:n]
		}
		return arena.place(src, off)
	}
	check := func(prefix string, im c25Impl, pat string, buf []byte, off int, init int, want uint16) bool {
		got := im.fn(buf, uint16(init))
		evaluations++
		if got == want {
			return true
		}
		head := buf
		if len(head) > 48 {
			head = head[:48]
		}
		res.Mismatch(prefix+c25Key(im.name, pat, len(buf), off, got, want),
			fmt.Sprintf("%s(len=%d, start offset %d from a 64-byte boundary, initial=%#04x) = %#04x, RFC 1071 (spec/Checksum.tla) = %#04x; pattern %s, first bytes % x",
				im.name, len(buf), off, init, got, want, pat, head),
			map[string]any{"impl": im.name, "pattern": pat, "len": len(buf), "off": off, "initial": init, "got": got, "want": want})
		return false
	}

	for vi := range vecs {
		v := &vecs[vi]
		spiked := v.Sq >= 0
		pat := c25PatClass(v.P.K, spiked)
		patDesc := fmt.Sprintf("%s(a=%d,b=%d)", v.P.K, v.P.A, v.P.B)
		if spiked {
			patDesc += fmt.Sprintf("+spike(pos=%d,width=%d,byte=%d,delta=%d)", v.Sq, v.Sw, v.So, v.Sd)
		}
		if len(v.Exp) != len(cfg.Offs) {
			t.Fatalf("vector %d: %d offsets expected, %d given", vi, len(cfg.Offs), len(v.Exp))
		}
		res.Hit("pattern:" + pat)
		res.Hit(c25BodyClass(v.Len))
		if vi%(len(vecs)/4+1) == 0 {
			res.Sample(map[string]any{"pattern": patDesc, "len": v.Len, "expected_off0": v.Exp[0], "inits": cfg.Inits})
		}
		for off := range cfg.Offs {
			buf := materialise(v.P, v.Len, v.Sq, v.Sw, v.So, v.Sd, off)
			if off == v.Probe.Off {
				// the harness' generator against the bytes TLC derived from the pattern definition
				for i, b := range v.Probe.Head {
					if int(buf[i]) != b {
						t.Fatalf("generator differs from spec/Checksum.tla: %s len=%d off=%d byte %d = %d, TLC %d", patDesc, v.Len, off, i, buf[i], b)
					}
				}
				if v.Len > 0 && int(buf[v.Len-1]) != v.Probe.Last {
					t.Fatalf("generator differs from spec/Checksum.tla: %s len=%d off=%d last byte = %d, TLC %d", patDesc, v.Len, off, buf[v.Len-1], v.Probe.Last)
				}
				probeChecked++
			}
			exp := v.Exp[off]
			if len(exp) != len(cfg.Inits) {
				t.Fatalf("vector %d: %d initial values expected, %d given", vi, len(cfg.Inits), len(exp))
			}
			res.Case(fmt.Sprintf("%s/%d/%d", patDesc, v.Len, off))
			// the same buffer flush with the end / the start of accessible memory: its start address modulo 64 is then
			// (-len) mod 64 / 0, so TLC's expectation for that start offset applies
			if fenced != nil && v.Len <= len(fenced.data) {
				var placements []string
				if off == (c25Align-v.Len%c25Align)%c25Align {
					placements = append(placements, "end")
				}
				if off == 0 {
					placements = append(placements, "start")
				}
				for _, where := range placements {
					fb := fenced.atStart(buf)
					if where == "end" {
						fb = fenced.atEnd(buf)
					}
					for n, init := range cfg.Inits {
						if n > 1 {
							break
						}
						for _, im := range impls {
							var got uint16
							if f := c25Faults(func() { got = im.fn(fb, uint16(init)) }); f != nil {
								res.Mismatch(fmt.Sprintf("fault:%s:%s:flush-with-%s-of-memory:%s", im.name, pat, where, c25TailClass(v.Len)),
									fmt.Sprintf("%s faulted on a %d-byte buffer that is flush with the %s of accessible memory (it reads outside the buffer): %v", im.name, v.Len, where, f),
									map[string]any{"impl": im.name, "len": v.Len, "off": off, "where": where})
								continue
							}
							res.Hit("fenced:" + where)
							if got != uint16(exp[n]) {
								check("fenced:", im, pat, fb, off, init, uint16(exp[n]))
							}
						}
					}
				}
			}
			for n, init := range cfg.Inits {
				for _, im := range impls {
					check("", im, pat, buf, off, init, uint16(exp[n]))
				}
				// the pure-Go routine Checksum falls back to on CPUs without AVX2 (all initial values on ordinary
				// buffers, two per offset on the very long ones)
				if v.Len <= 16384 || n == 0 || n == (off+v.Len)%len(cfg.Inits) {
					if !check("", fallback, pat, buf, off, init, uint16(exp[n])) {
						fallbackBad++
					}
					nFallback++
				}
			}
			arena.restore(off, v.Len)
		}
	}
	res.Hit("dispatch")
	res.Extra["vectors"] = len(vecs)
	res.Extra["probes_checked"] = probeChecked
	res.Extra["max_len"] = maxLen

	// Densification: the same patterns at neighbouring and arbitrary lengths, every offset, arbitrary 16-bit initial
	// values. The expectation here is the pure-Go fallback, which is admissible only because it has just been shown
	// equal to the TLA+ reference on every TLC vector.
	if fallbackBad > 0 {
		res.Hit("dense-skipped")
	} else {
		rnd := vRand()
		rounds := 150000
		if !vQuick() {
			rounds = 1500000
		}
		for k := 0; k < rounds; k++ {
			v := &vecs[rnd.Intn(len(vecs))]
			n := v.Len
			switch rnd.Intn(4) {
			case 0:
				n = rnd.Intn(4300)
			case 1:
				n = rnd.Intn(200)
			default:
				n += rnd.Intn(17) - 8
			}
			if n < 0 {
				n = 0
			}
			if n > maxLen {
				n = maxLen
			}
			if n > 9100 && k%64 != 0 {
				n %= 9100
			}
			sq, sw, so, sd := -1, 1, 0, 0
			if n > 0 && rnd.Intn(3) == 0 {
				sw = []int{1, 1, 2, 4, 8}[rnd.Intn(5)]
				if sw > n {
					sw = 1
				}
				sq, so, sd = rnd.Intn(n-sw+1), rnd.Intn(sw), 1+rnd.Intn(255)
			}
			off := rnd.Intn(c25Align)
			init := rnd.Intn(65536)
			buf := materialise(v.P, n, sq, sw, so, sd, off)
			want := fallback.fn(buf, uint16(init))
			pat := c25PatClass(v.P.K, sq >= 0)
			for _, im := range impls {
				check("dense:", im, pat, buf, off, init, want)
			}
			arena.restore(off, n)
			nDense++
		}
	}
	res.Actions["fallback"] += nFallback
	res.Actions["dense"] += nDense
	res.Evaluations = evaluations // calls of the code under test (res.Case counted the (vector, offset) pairs)
}
