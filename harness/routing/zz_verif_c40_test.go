package routing

// C40 — binding of spec/Balance.tla to CalculateBucketsForGateways / BalancePacket / hashPacket.
//
// V: every gateway list of the exhaustive H=8 model (<=4 gateways, weights 1..6) is scaled (x1, x1000, x(2^31-1)/MaxW so that
// the largest weight reaches 2^31-1) and given to the real code; the real 31-bit bounds must agree with TLC's 8-bit bounds
// up to the resolution of the small model, and are written to obs.ndjson.
// T: seeded random lists (1..16 gateways, weights up to 2^31-1, totals on both sides of 2^33-1) likewise. For every list a
// few port pairs are hashed and balanced; the choice must not depend on addresses, protocol or fragment flag and is
// recorded with its hash; port pairs whose hash is exactly a bucket bound (and bound+1, 0) are added. Trace_Balance judges all observations with the reference relation at H=31.

import (
	"log/slog"
	"io"
	"encoding/json"
	"fmt"
	"net/netip"
	"os"
	"strconv"
	"testing"

	"github.com/slackhq/nebula/firewall"
)

type c40Vec struct {
	W   []int `json:"w"`
	Exp struct {
		Ends  []int `json:"ends"`
		Total int   `json:"total"`
	} `json:"exp"`
}

func c40Limbs(u uint64) []int {
	out := []int{}
	for u > 0 {
		out = append(out, int(u&4095))
		u >>= 12
	}
	return out
}

// (the addresses of a list are distinct but NOT in address order: the order of a gateway list is the configuration's)
func c40Addr(i int) netip.Addr {
	return netip.AddrFrom4([4]byte{10, 77, byte(i >> 8), byte(i) ^ 0x55})
}

type c40Obs struct {
	K       int              `json:"k"`
	H       int              `json:"h"`
	W       [][]int          `json:"w"`
	E       [][]int          `json:"e"`
	Samples []map[string]any `json:"samples"`
	Weights []int            `json:"weights"`
	Bounds  []int            `json:"bounds"`
	Class   string           `json:"class"`
	Src     string           `json:"src"`
}

// c40PortsFor looks for a port pair whose flow hash is h by inverting the published hash construction (xorshift-multiply);
// the result is only used when the real hashPacket confirms it, so a different hash function just loses these samples.
func c40PortsFor(h int) ([2]uint16, bool) {
	inv := func(a uint32) uint32 {
		x := a
		for i := 0; i < 6; i++ {
			x *= 2 - a*x
		}
		return x
	}
	for _, top := range []uint32{0, 0x80000000} {
		x := uint32(h) | top
		x ^= x>>15 ^ x>>30
		x *= inv(0xd35a2d97)
		x ^= x>>15 ^ x>>30
		x *= inv(0x21f0aaad)
		x ^= x >> 16
		pp := [2]uint16{uint16(x >> 16), uint16(x)}
		if hashPacket(&firewall.Packet{LocalPort: pp[0], RemotePort: pp[1]}) == h {
			return pp, true
		}
	}
	return [2]uint16{}, false
}

// c40Run gives the list to the real code and records what it computed; ports are the port pairs to balance.
func c40Run(res *vResult, k int, src string, weights []int, ports [][2]uint16) (*c40Obs, []Gateway) {
	gws := make([]Gateway, len(weights))
	var total uint64
	for i, w := range weights {
		gws[i] = NewGateway(c40Addr(i), w)
		total += uint64(w)
	}
	CalculateBucketsForGateways(gws)
	// the list is looked at the way the node's own log lines look at it ("Adding route ... via <gateways>"): looking must
	// not change it
	before := append([]Gateway(nil), gws...)
	_ = Gateways(gws).String()
	_ = fmt.Sprintf("%v %s", Gateways(gws), Gateways(gws))
	slog.New(slog.NewTextHandler(io.Discard, nil)).Info("Adding route", "via", Gateways(gws))
	for i := range gws {
		_ = gws[i].String()
		if gws[i] != before[i] {
			res.Mismatch("formatting-changes-the-list", fmt.Sprintf("weights %v: formatting the gateway list for a log line changed entry %d from %v to %v", weights, i, before[i].String(), gws[i].String()), nil)
			return nil, gws
		}
	}
	res.Hit("formatted-like-a-log-line")
	// class of the list: does total*2^31 + total/2 (the rounding numerator of the last bucket) need more than 64 bits?
	o := &c40Obs{K: k, H: 31, Weights: weights, Src: src, Class: "total<2^33-1", Samples: []map[string]any{}}
	if total >= 1<<33-1 {
		o.Class = "total>=2^33-1"
	}
	res.Hit("buckets:" + o.Class)
	for i := range gws {
		b := gws[i].BucketUpperBound()
		o.Bounds = append(o.Bounds, b)
		o.W = append(o.W, c40Limbs(uint64(weights[i])))
		if b < -1 {
			res.Mismatch("bounds:negative:"+o.Class, fmt.Sprintf("weights %v: bucket upper bound %d of gateway %d is below -1", weights, b, i), o)
			return nil, gws
		}
		o.E = append(o.E, c40Limbs(uint64(b+1)))
	}
	index := map[netip.Addr]int{}
	for i := range gws {
		index[gws[i].Addr()] = i + 1
	}
	// flows whose hash sits exactly on and just after a bucket bound (first, last and one other gateway)
	for _, i := range []int{0, len(gws) - 1, len(gws) / 2} {
		for _, h := range []int{o.Bounds[i], o.Bounds[i] + 1, 0} {
			if h < 0 || h > 0x7fffffff {
				continue
			}
			if pp, ok := c40PortsFor(h); ok {
				ports = append(ports, pp)
				res.Hit("boundary-hash")
			}
		}
	}
	for _, pp := range ports {
		base := firewall.Packet{LocalAddr: netip.MustParseAddr("192.168.1.1"), RemoteAddr: netip.MustParseAddr("10.0.0.1"),
			LocalPort: pp[0], RemotePort: pp[1], Protocol: 6}
		h := hashPacket(&base)
		if h < 0 || h > 0x7fffffff {
			res.Mismatch("hash:range", fmt.Sprintf("hashPacket(%d,%d) = %d is outside 0..2^31-1", pp[0], pp[1], h), nil)
			continue
		}
		addr, ok := BalancePacket(&base, gws)
		g := index[addr]
		if !ok {
			g = 0 // the code itself says the buckets do not cover this hash
		}
		// same flow again, and the same port pair with every other field changed
		variants := []firewall.Packet{base, base, base, base, base, base}
		variants[1].LocalAddr = netip.MustParseAddr("fd00::1")
		variants[2].RemoteAddr = netip.MustParseAddr("172.16.9.9")
		variants[3].Protocol = 17
		variants[4].Fragment = true
		variants[5] = firewall.Packet{LocalAddr: netip.MustParseAddr("1.2.3.4"), RemoteAddr: netip.MustParseAddr("fd00::2"), LocalPort: pp[0], RemotePort: pp[1], Protocol: 1, Fragment: true}
		names := []string{"repeat", "LocalAddr", "RemoteAddr", "Protocol", "Fragment", "all-other-fields"}
		for vi := range variants {
			a2, ok2 := BalancePacket(&variants[vi], gws)
			res.Hit("independence")
			if a2 != addr || ok2 != ok {
				res.Mismatch("independence:"+names[vi], fmt.Sprintf("weights %v ports %v: gateway %v/%v, after changing %s: %v/%v", weights, pp, addr, ok, names[vi], a2, ok2), nil)
			}
		}
		o.Samples = append(o.Samples, map[string]any{"x": c40Limbs(uint64(h)), "g": g, "ports": pp, "hash": h})
	}
	return o, gws
}

func TestVerif_C40(t *testing.T) {
	res := vNewResult()
	defer res.Write(t)
	f, err := os.Create(vOut("obs.ndjson"))
	if err != nil {
		t.Fatal(err)
	}
	defer f.Close()
	enc := json.NewEncoder(f)
	rnd := vRand()
	randPorts := func(n int) [][2]uint16 {
		out := make([][2]uint16, n)
		for i := range out {
			out[i] = [2]uint16{uint16(rnd.Intn(65536)), uint16(rnd.Intn(65536))}
			if rnd.Intn(8) == 0 {
				out[i] = [2]uint16{[]uint16{0, 65535, 1}[rnd.Intn(3)], []uint16{0, 65535, 443}[rnd.Intn(3)]}
			}
		}
		return out
	}
	k := 0
	maxW, _ := strconv.Atoi(os.Getenv("C40_MAXW"))
	if maxW < 1 {
		t.Fatalf("C40_MAXW not set")
	}
	scales := []int{1, 1000, (1<<31 - 1) / maxW} // the largest weight of the model reaches (almost) 2^31-1
	n := 0
	vReadNDJSON(t, "vectors.ndjson", func(line []byte) {
		var v c40Vec
		if err := json.Unmarshal(line, &v); err != nil {
			t.Fatalf("vector: %v: %s", err, line)
		}
		if v.Exp.Total <= 0 {
			return // root / staging states of the model
		}
		n++
		if n%700 == 1 {
			res.Sample(json.RawMessage(append([]byte(nil), line...)))
		}
		for si, sc := range scales {
			ws := make([]int, len(v.W))
			for i, w := range v.W {
				ws[i] = w * sc
			}
			res.Case(fmt.Sprintf("V/%v", ws))
			res.Hit("V")
			o, _ := c40Run(res, k, "vector", ws, randPorts(2))
			if o == nil {
				continue
			}
			// the 31-bit table against TLC's 8-bit table of the same list: equal up to the resolution of the small model
			for i := range ws {
				d := int64(o.Bounds[i]+1) - int64(v.Exp.Ends[i])<<23
				if d < -(1<<22+1) || d > (1<<22 + 1) {
					res.Mismatch("share:vector:"+o.Class, fmt.Sprintf("weights %v: end of bucket %d is %d, the exhaustive model (H=8) has %d/256", ws, i, o.Bounds[i]+1, v.Exp.Ends[i]), o)
				}
			}
			if si == n%len(scales) && n%3 == 0 { // one scale of every third vector goes to TLC
				o.K = k
				if err := enc.Encode(o); err != nil {
					t.Fatal(err)
				}
				k++
			}
		}
	})
	// ---- T: random lists
	N := 400
	if !vQuick() {
		N = 4000
	}
	for j := 0; j < N; j++ {
		ng := 1 + rnd.Intn(8)
		if rnd.Intn(10) == 0 {
			ng = 9 + rnd.Intn(8)
		}
		style := rnd.Intn(5)
		ws := make([]int, ng)
		for i := range ws {
			switch {
			case style == 0: // all maximal: total >= 2^33 from 5 gateways on
				ws[i] = 1<<31 - 1
			case style == 1:
				ws[i] = 1 + rnd.Intn(100)
			case style == 2:
				ws[i] = []int{1, 1<<31 - 1, 1 << 30, 1<<30 + 1, 3}[rnd.Intn(5)]
			default:
				ws[i] = 1 + rnd.Intn(1<<31-1)
			}
		}
		res.Case(fmt.Sprintf("T/%v", ws))
		res.Hit("T")
		o, _ := c40Run(res, k, "random", ws, randPorts(4))
		if o == nil {
			continue
		}
		o.K = k
		if err := enc.Encode(o); err != nil {
			t.Fatal(err)
		}
		k++
	}
}
