//go:build linux

package cpupick

// C46 — binding of spec/CpuPick.tla to pickCandidates / arrange / parseCPUList (+ perfCPUsFrom / readTopologyFrom).
//
// V (pin): every TLC vector (allowed set, performance mask, NUMA and SMT layout, routines, whether CPU 0's core is known)
// is given to the real pickCandidates and arrange under several instance hashes; the output is compared with the
// acceptable member sets and CPU 0's core computed by TLC (the clauses of Post), and must be identical on repetition.
// V (list): every string is parsed by the real parseCPUList and compared with its class / value.
// T: seeded random machines are written out as a fake sysfs tree (node cpulists, topology ids, cpu_capacity / P-core
// mask / max_freq), run through the same pipeline as Default (perfCPUsFrom -> pickCandidates -> readTopologyFrom ->
// arrange(splitmix64(key))) and recorded in obs.ndjson for Trace_CpuPick; longer random cpulist strings likewise.

import (
	"encoding/json"
	"fmt"
	"os"
	"path/filepath"
	"slices"
	"sort"
	"strings"
	"testing"
)

type c46Topo struct {
	C    int `json:"c"`
	Node int `json:"node"`
	Core int `json:"core"`
}
type c46Vec struct {
	Q struct {
		Kind string `json:"kind"`
	} `json:"q"`
	In struct {
		Allowed   []int     `json:"allowed"`
		Perf      []int     `json:"perf"`
		Routines  int       `json:"routines"`
		ZeroKnown bool      `json:"zeroKnown"`
		Topo      []c46Topo `json:"topo"`
		Str       []string  `json:"str"`
	} `json:"in"`
	Exp struct {
		OkAllowed [][]int `json:"okAllowed"`
		OkPerf    [][]int `json:"okPerf"`
		ZeroCore  []int   `json:"zerocore"`
		Class     string  `json:"class"`
		Value     []int   `json:"value"`
	} `json:"exp"`
}

func c46Sorted(x []int) []int {
	y := slices.Clone(x)
	sort.Ints(y)
	return y
}

func c46MkTopo(ts []c46Topo, zeroKnown bool) topology {
	t := topology{nodeOf: map[int]int{}, coreOf: map[int]int{}, zeroCore: -1}
	for _, r := range ts {
		t.nodeOf[r.C] = r.Node
		t.coreOf[r.C] = r.Core
		if r.C == 0 && zeroKnown {
			t.zeroCore = r.Core
		}
	}
	return t
}

// c46CheckPin evaluates the clauses of Post against the sets TLC computed.
func c46CheckPin(res *vResult, v *c46Vec, cands, out []int, what string, detail any) {
	allowed := map[int]bool{}
	for _, c := range v.In.Allowed {
		allowed[c] = true
	}
	seen := map[int]bool{}
	for _, c := range out {
		if !allowed[c] {
			res.Mismatch("pin:not-allowed", fmt.Sprintf("%s: CPU %d is not allowed; out=%v", what, c, out), detail)
		}
		if seen[c] {
			res.Mismatch("pin:duplicate", fmt.Sprintf("%s: CPU %d listed twice; out=%v", what, c, out), detail)
		}
		seen[c] = true
	}
	var ok [][]int
	switch {
	case slices.Equal(c46Sorted(cands), v.In.Allowed):
		ok = v.Exp.OkAllowed
	case slices.Equal(c46Sorted(cands), v.In.Perf):
		ok = v.Exp.OkPerf
	default:
		res.Mismatch("pin:candidates", fmt.Sprintf("%s: candidates %v are neither the allowed nor the performance CPUs", what, cands), detail)
		return
	}
	member := false
	for _, s := range ok {
		if slices.Equal(s, c46Sorted(out)) {
			member = true
		}
	}
	if !member {
		res.Mismatch("pin:members", fmt.Sprintf("%s: out=%v is not the candidate set of one large-enough NUMA node (or all candidates when none is): acceptable %v", what, out, ok), detail)
	}
	zc := map[int]bool{}
	for _, c := range v.Exp.ZeroCore {
		zc[c] = true
	}
	inTail := false
	for _, c := range out {
		if zc[c] {
			inTail = true
		} else if inTail {
			res.Mismatch("pin:zero-core-not-last", fmt.Sprintf("%s: CPU %d follows a CPU of CPU 0's core %v; out=%v", what, c, v.Exp.ZeroCore, out), detail)
			break
		}
	}
	if seen[0] && out[len(out)-1] != 0 {
		res.Mismatch("pin:zero-not-at-end", fmt.Sprintf("%s: CPU 0 is not the last entry; out=%v", what, out), detail)
	}
}

func TestVerif_C46(t *testing.T) {
	res := vNewResult()
	defer res.Write(t)
	hashes := []uint64{0, 1, 1 << 32, 3<<32 | 1, splitmix64(4242), splitmix64(4243), splitmix64(0), ^uint64(0)}
	n := 0
	vReadNDJSON(t, "vectors.ndjson", func(line []byte) {
		var v c46Vec
		if err := json.Unmarshal(line, &v); err != nil {
			t.Fatalf("vector: %v: %s", err, line)
		}
		n++
		raw := json.RawMessage(append([]byte(nil), line...))
		if n%5000 == 1 {
			res.Sample(raw)
		}
		switch v.Q.Kind {
		case "pin":
			cands := pickCandidates(slices.Clone(v.In.Allowed), slices.Clone(v.In.Perf), v.In.Routines)
			for hi, h := range hashes {
				if vQuick() && hi%2 == n%2 {
					continue
				}
				res.Case(fmt.Sprintf("%d/%s", h, line))
				res.Hit("pin")
				out := arrange(slices.Clone(cands), c46MkTopo(v.In.Topo, v.In.ZeroKnown), v.In.Routines, h)
				what := fmt.Sprintf("allowed=%v perf=%v routines=%d hash=%#x", v.In.Allowed, v.In.Perf, v.In.Routines, h)
				c46CheckPin(res, &v, cands, out, what, raw)
				// same key, same topology (rebuilt: fresh maps) -> same list
				again := arrange(slices.Clone(cands), c46MkTopo(v.In.Topo, v.In.ZeroKnown), v.In.Routines, h)
				if !slices.Equal(out, again) {
					res.Mismatch("pin:unstable", fmt.Sprintf("%s: %v then %v", what, out, again), raw)
				}
			}
		case "list":
			s := strings.Join(v.In.Str, "")
			res.Case("list/" + s)
			res.Hit("list:" + v.Exp.Class)
			got, err := parseCPUList(s)
			sub := "other"
			if strings.Contains(s, "+") || strings.Contains(s, "--") {
				sub = "signed-number"
			}
			switch v.Exp.Class {
			case "accept":
				if err != nil {
					res.Mismatch("cpulist:refuses-kernel-output", fmt.Sprintf("parseCPUList(%q) refused (%v); the kernel prints this for %v", s, err, v.Exp.Value), raw)
				} else if !slices.Equal(c46Sorted(got), v.Exp.Value) {
					res.Mismatch("cpulist:value", fmt.Sprintf("parseCPUList(%q) = %v, denotes %v", s, got, v.Exp.Value), raw)
				}
			case "refuse":
				if err == nil {
					res.Mismatch("cpulist:accepts-non-kernel-syntax:"+sub, fmt.Sprintf("parseCPUList(%q) = %v, but this is not cpulist syntax (the kernel's parser refuses it)", s, got), raw)
				}
			}
		default:
			t.Fatalf("unknown kind %q", v.Q.Kind)
		}
	})
	c46Random(t, res)
}

// c46Fmt prints a CPU set the way the kernel does (%*pbl).
func c46Fmt(set []int) string {
	s := c46Sorted(set)
	var parts []string
	for i := 0; i < len(s); {
		j := i
		for j+1 < len(s) && s[j+1] == s[j]+1 {
			j++
		}
		if j > i {
			parts = append(parts, fmt.Sprintf("%d-%d", s[i], s[j]))
		} else {
			parts = append(parts, fmt.Sprint(s[i]))
		}
		i = j + 1
	}
	return strings.Join(parts, ",")
}

func c46Write(t *testing.T, path, content string) {
	if err := os.MkdirAll(filepath.Dir(path), 0o755); err != nil {
		t.Fatal(err)
	}
	if err := os.WriteFile(path, []byte(content), 0o644); err != nil {
		t.Fatal(err)
	}
}

func c46Random(t *testing.T, res *vResult) {
	rnd := vRand()
	f, err := os.Create(vOut("obs.ndjson"))
	if err != nil {
		t.Fatal(err)
	}
	defer f.Close()
	enc := json.NewEncoder(f)
	N := 300
	if !vQuick() {
		N = 2000
	}
	k := 0
	for j := 0; j < N; j++ {
		root := t.TempDir()
		cpuDir, nodeDir := filepath.Join(root, "cpu"), filepath.Join(root, "node")
		ncpu := 2 + rnd.Intn(15)
		stride := 1 + rnd.Intn(2) // CPU ids 0,1,2.. or 0,2,4..
		nnodes := 1 + rnd.Intn(3)
		smt := rnd.Intn(3) // 0: none, 1: neighbours, 2: half apart
		var topo []c46Topo
		ids := make([]int, ncpu)
		for i := range ids {
			ids[i] = i * stride
		}
		half := (ncpu + 1) / 2
		perNode := map[int][]int{}
		// a platform that does not describe sockets: the kernel prints physical_package_id -1 for every CPU; cores are
		// then told apart by core_id alone
		noPkg := rnd.Intn(4) == 0
		if noPkg {
			res.Hit("T:package-id-unknown")
		}
		for i, c := range ids {
			node := i * nnodes / ncpu
			if rnd.Intn(8) == 0 {
				node = rnd.Intn(nnodes)
			}
			phys := i
			switch smt {
			case 1:
				phys = i / 2
			case 2:
				phys = i % half
			}
			// core ids repeat across packages: package = node, core_id = phys within the package numbering
			pkg, coreKey := node, node*1000+phys
			if noPkg {
				pkg, coreKey = -1, phys
			}
			topo = append(topo, c46Topo{c, node, coreKey})
			perNode[node] = append(perNode[node], c)
			c46Write(t, filepath.Join(cpuDir, fmt.Sprintf("cpu%d", c), "topology", "physical_package_id"), fmt.Sprintf("%d\n", pkg))
			c46Write(t, filepath.Join(cpuDir, fmt.Sprintf("cpu%d", c), "topology", "core_id"), fmt.Sprintf("%d\n", phys))
		}
		for node, cs := range perNode {
			c46Write(t, filepath.Join(nodeDir, fmt.Sprintf("node%d", node), "cpulist"), c46Fmt(cs)+"\n")
		}
		c46Write(t, filepath.Join(nodeDir, "possible"), "0-7\n")
		// allowed: everything, or a random subset (a cpuset), possibly without CPU 0
		var allowed []int
		for _, c := range ids {
			if rnd.Intn(4) != 0 {
				allowed = append(allowed, c)
			}
		}
		if len(allowed) == 0 {
			allowed = []int{ids[rnd.Intn(len(ids))]}
		}
		// performance signal
		maskPath := filepath.Join(root, "cpu_core_cpus")
		switch rnd.Intn(4) {
		case 0: // big.LITTLE capacities
			for i, c := range ids {
				capv := 1024
				if i%2 == 1 || rnd.Intn(5) == 0 {
					capv = 300
				}
				c46Write(t, filepath.Join(cpuDir, fmt.Sprintf("cpu%d", c), "cpu_capacity"), fmt.Sprintf("%d\n", capv))
			}
		case 1: // Intel P-core mask
			var p []int
			for _, c := range ids {
				if rnd.Intn(2) == 0 {
					p = append(p, c)
				}
			}
			if len(p) > 0 {
				c46Write(t, maskPath, c46Fmt(p)+"\n")
			}
		case 2: // max_freq
			for _, c := range ids {
				fr := 3000000
				if rnd.Intn(3) == 0 {
					fr = 2000000
				}
				c46Write(t, filepath.Join(cpuDir, fmt.Sprintf("cpu%d", c), "cpufreq", "cpuinfo_max_freq"), fmt.Sprintf("%d\n", fr))
			}
		}
		routines := 1 + rnd.Intn(5)
		key := uint64(rnd.Intn(65536))
		run := func() (perf, cands, out []int) {
			perf, _ = perfCPUsFrom(cpuDir, maskPath, slices.Clone(allowed))
			cands = pickCandidates(slices.Clone(allowed), perf, routines)
			out = arrange(cands, readTopologyFrom(nodeDir, cpuDir, cands), routines, splitmix64(key))
			return
		}
		perf, cands, out := run()
		_, _, again := run()
		res.Hit("T:pin")
		res.Case(fmt.Sprintf("T/%d", j))
		if perf == nil {
			perf = []int{}
		}
		if out == nil {
			out = []int{}
		}
		if again == nil {
			again = []int{}
		}
		o := map[string]any{"k": k, "kind": "pin", "i": map[string]any{"allowed": allowed, "perf": perf, "routines": routines, "zeroKnown": true, "topo": topo},
			"cands": cands, "out": out, "again": again, "key": key}
		k++
		if err := enc.Encode(o); err != nil {
			t.Fatal(err)
		}
	}
	// longer cpulist strings: kernel output of random sets, and damaged variants
	M := 400
	if !vQuick() {
		M = 3000
	}
	for j := 0; j < M; j++ {
		var set []int
		for c := 0; c < 40; c++ {
			if rnd.Intn(3) != 0 {
				set = append(set, c+rnd.Intn(2)*100)
			}
		}
		s := c46Fmt(set)
		if rnd.Intn(2) == 0 && len(s) > 0 {
			b := []byte(s)
			pos := rnd.Intn(len(b) + 1)
			ins := []string{"+", ":", "-", ",", " ", "x", "0", "\n"}[rnd.Intn(8)]
			s = string(b[:pos]) + ins + string(b[pos:])
		}
		got, err := parseCPUList(s)
		if got == nil {
			got = []int{}
		}
		chars := strings.Split(s, "")
		if s == "" {
			chars = []string{}
		}
		res.Hit("T:list")
		res.Case("T/list/" + s)
		if err := enc.Encode(map[string]any{"k": k, "kind": "list", "str": chars, "accepted": err == nil, "got": c46Sorted(got), "s": s}); err != nil {
			t.Fatal(err)
		}
		k++
	}
}
