SPECIFICATION Spec
CONSTANTS Nodes <- MCNodes
          AddrOf <- MCAddrOf
          AmRelay <- MCAmRelay
          MaxRecs = 2
INVARIANTS OnlyRelaysForward RecordsOnLiveTunnels NotToSelf IndexesUnique
CONSTRAINT Bound
CHECK_DEADLOCK FALSE
