SPECIFICATION Spec
CONSTANTS Nodes <- MCNodes
          AddrOf <- MCAddrOf
          AmRelay <- MCAmRelay
INVARIANTS OnlyRelaysForward RecordsOnLiveTunnels NotToSelf IndexesUnique
CONSTRAINT Bound
CHECK_DEADLOCK FALSE
