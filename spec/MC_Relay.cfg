SPECIFICATION Spec
CONSTANTS ReloadNodes <- MCReload
          Nodes <- MCNodes
          AddrOf <- MCAddrOf
          AmRelay <- MCAmRelay
          MaxRecs = 2
INVARIANTS OnlyRelaysForward RecordsOnLiveTunnels NotToSelf IndexesUnique IndexesOwned
CONSTRAINT Bound
CHECK_DEADLOCK FALSE
