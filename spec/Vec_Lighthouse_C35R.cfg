SPECIFICATION Spec
CONSTANTS Mode = "C35R"
          Thorough = FALSE
INVARIANTS Link
CHECK_DEADLOCK FALSE
