SPECIFICATION Spec
CONSTANTS Mode = "C35R"
          Thorough = FALSE
          Salt = 0
INVARIANTS Link
CHECK_DEADLOCK FALSE
