----------------------------- MODULE PayloadWire -----------------------------
(***************************************************************************)
(* C08 - the handshake payload (handshake/payload.go) as protobuf wire     *)
(* grammar.  Schema (handshake/handshake.proto):                           *)
(*   NebulaHandshake        { Details = 1 (message); Hmac = 2 (bytes) }    *)
(*   NebulaHandshakeDetails { Cert = 1 (bytes); InitiatorIndex = 2,        *)
(*       ResponderIndex = 3, CertVersion = 8 (uint32); Cookie = 4,         *)
(*       Time = 5 (uint64); 6, 7 reserved }                                *)
(*                                                                         *)
(* A message is a sequence of wire tokens  (level, field number, wire      *)
(* type, value, truncation).  TLC integers are 32-bit, so varint values    *)
(* are SYMBOLS for the boundary numbers:  "0" "1" "M32" = 2^32-1           *)
(* "P32" = 2^32  "M64" = 2^64-1  (observations of the random driver add    *)
(* "R32" = some other value below 2^32 and "R64" = some other value above).*)
(* Byte-string values are the symbols "empty" "A" "B" ("R" = random).      *)
(*                                                                         *)
(* Layers:                                                                 *)
(*  reference  - the statement: rejected iff some token is bad; otherwise  *)
(*               every field is the value of its LAST token (default when  *)
(*               there is none).  Declarative, position-free.              *)
(*  machine    - the decoder as the Go code is shaped: outer loop over the *)
(*               envelope, inner loop over each Details occurrence         *)
(*               mutating one Payload in place, return at the first error. *)
(*  link       - machine(grouping(tokens)) = reference(tokens) for both    *)
(*               groupings (all Details tokens of a run in one nested      *)
(*               message / one nested message per token = "Details may     *)
(*               repeat and merges").                                      *)
(* The module is a specification of functions (vector mode): every         *)
(* initial state is one vector, TLC checks the laws on each.               *)
(***************************************************************************)
EXTENDS Integers, Sequences, FiniteSets, TLC

CONSTANTS Mode,      \* "vec": token sequences + payload lattice; "alphabet": one state per token kind; "none"
          Alpha,     \* "quick" | "full": the alphabet of the sequences whose length is in Lens
          Lens,      \* subset of 0..5: every sequence over the alphabet of each of these lengths
          SmallAlpha,\* "core" | "quick": the alphabet of the sequences whose length is in SmallLens
          SmallLens, \* subset of 0..5
          Lattice,   \* BOOLEAN: the payload lattice (encoder vectors) is part of the run
          AsWritten  \* TRUE: the machine skips a wrong-typed outer field 1 like payload.go does (documentation only)

-----------------------------------------------------------------------------
(* schema *)
Wide    == {"P32", "M64", "R64"}                     \* values that do not fit 32 bits
KnownD  == {1, 2, 3, 5, 8}                           \* fields of Details the payload carries
KnownO  == {1}                                       \* the Details field of the envelope
SchemaD == KnownD \cup {4}                           \* + Cookie (deprecated, never carried, skipped by the decoder)
SchemaO == KnownO \cup {2}                           \* + Hmac (never carried)
WType(lvl, f) == IF lvl = "o" THEN "bytes" ELSE IF f = 1 THEN "bytes" ELSE "varint"
Narrow(lvl, f) == lvl = "d" /\ f \in {2, 3, 8}       \* uint32 fields
Known(lvl, f)  == IF lvl = "o" THEN f \in KnownO  ELSE f \in KnownD
InSchema(lvl, f) == IF lvl = "o" THEN f \in SchemaO ELSE f \in SchemaD

\* a token: tr = "" complete, "tag" = the message ends inside the tag varint, "val" = ends inside the value
K(id, lvl, f, wt, v, tr) == [id |-> id, lvl |-> lvl, f |-> f, wt |-> wt, v |-> v, tr |-> tr]

-----------------------------------------------------------------------------
(* reference layer: the statement *)
Bad(t) == \/ t.tr # ""                                                   \* truncated varint / length
          \/ Known(t.lvl, t.f) /\ t.wt # WType(t.lvl, t.f)               \* known field, wrong wire type
          \/ Narrow(t.lvl, t.f) /\ t.wt = "varint" /\ t.v \in Wide       \* out of range on a 32-bit field

\* what a decoder generated from the schema accepts as well-formed: additionally Cookie and Hmac carry their schema type
SchemaBad(t) == \/ t.tr # ""
                \/ InSchema(t.lvl, t.f) /\ t.wt # WType(t.lvl, t.f)
                \/ Narrow(t.lvl, t.f) /\ t.wt = "varint" /\ t.v \in Wide

RefOk(ts)      == \A i \in DOMAIN ts : ~Bad(ts[i])
WellFormed(ts) == \A i \in DOMAIN ts : ~SchemaBad(ts[i])

SetMax(S) == CHOOSE x \in S : \A y \in S : y <= x
LastIdx(ts, f) == LET I == {i \in DOMAIN ts : ts[i].lvl = "d" /\ ts[i].f = f} IN IF I = {} THEN 0 ELSE SetMax(I)
Default(f) == IF f = 1 THEN "empty" ELSE "0"
RefVal(ts, f) == LET i == LastIdx(ts, f) IN IF i = 0 THEN Default(f) ELSE ts[i].v

\* a result: accepted + the five fields <<Cert, InitiatorIndex, ResponderIndex, Time, CertVersion>>, or rejected
Rejected == [ok |-> FALSE, v |-> <<>>]
Ref(ts) == IF RefOk(ts)
           THEN [ok |-> TRUE, v |-> <<RefVal(ts, 1), RefVal(ts, 2), RefVal(ts, 3), RefVal(ts, 5), RefVal(ts, 8)>>]
           ELSE Rejected

-----------------------------------------------------------------------------
(* implementation-shaped machine *)
\* a message = sequence of segments of the envelope: a Details occurrence (det, nested tokens) or one envelope token
Seg(det, toks) == [det |-> det, toks |-> toks]

GroupEach(ts) == [i \in DOMAIN ts |-> Seg(ts[i].lvl = "d", <<ts[i]>>)]

\* maximal runs of Details tokens share one nested message; a truncated token ends its nested message
RECURSIVE G1(_, _)
G1(ts, acc) ==
    IF ts = <<>> THEN acc
    ELSE LET t == Head(ts)  n == Len(acc) IN
         IF t.lvl = "d" /\ n > 0 /\ acc[n].det /\ acc[n].toks[Len(acc[n].toks)].tr = ""
         THEN G1(Tail(ts), [acc EXCEPT ![n].toks = Append(@, t)])
         ELSE G1(Tail(ts), Append(acc, Seg(t.lvl = "d", <<t>>)))
GroupOne(ts) == G1(ts, <<>>)

P0 == [cert |-> "empty", init |-> "0", resp |-> "0", time |-> "0", ver |-> "0"]
Fail(p) == [ok |-> FALSE, p |-> p]

\* unmarshalPayloadDetails: one switch per tag, the Payload is mutated in place
RECURSIVE MDetails(_, _)
MDetails(p, toks) ==
    IF toks = <<>> THEN [ok |-> TRUE, p |-> p]
    ELSE LET t == Head(toks) IN
         IF t.tr = "tag" THEN Fail(p)
         ELSE CASE t.f = 1 -> IF t.wt # "bytes" \/ t.tr # "" THEN Fail(p)
                              ELSE MDetails([p EXCEPT !.cert = t.v], Tail(toks))
                [] t.f \in {2, 3, 8} ->
                              IF t.wt # "varint" \/ t.tr # "" \/ t.v \in Wide THEN Fail(p)
                              ELSE MDetails(IF t.f = 2 THEN [p EXCEPT !.init = t.v]
                                            ELSE IF t.f = 3 THEN [p EXCEPT !.resp = t.v]
                                            ELSE [p EXCEPT !.ver = t.v], Tail(toks))
                [] t.f = 5 -> IF t.wt # "varint" \/ t.tr # "" THEN Fail(p)
                              ELSE MDetails([p EXCEPT !.time = t.v], Tail(toks))
                [] OTHER   -> IF t.tr # "" THEN Fail(p) ELSE MDetails(p, Tail(toks))      \* ConsumeFieldValue

\* UnmarshalPayload: the envelope loop
RECURSIVE MOuter(_, _)
MOuter(p, segs) ==
    IF segs = <<>> THEN [ok |-> TRUE, p |-> p]
    ELSE LET s == Head(segs) IN
         IF s.det
         THEN LET r == MDetails(p, s.toks) IN IF r.ok THEN MOuter(r.p, Tail(segs)) ELSE r
         ELSE LET t == s.toks[1] IN
              IF t.tr # "" THEN Fail(p)
              ELSE IF t.f = 1 /\ t.wt # "bytes" /\ ~AsWritten THEN Fail(p)   \* the statement; payload.go falls through to skip
              ELSE MOuter(p, Tail(segs))                                     \* empty Details or skipped field

Machine(segs) == LET r == MOuter(P0, segs) IN
                 IF r.ok THEN [ok |-> TRUE, v |-> <<r.p.cert, r.p.init, r.p.resp, r.p.time, r.p.ver>>]
                 ELSE Rejected

-----------------------------------------------------------------------------
(* encoder: MarshalPayload - one Details occurrence, non-default fields in field order *)
Tok(f, v) == K("enc", "d", f, WType("d", f), v, "")
Opt(f, v) == IF v = Default(f) THEN <<>> ELSE <<Tok(f, v)>>
Encode(p)      == Opt(1, p.cert) \o Opt(2, p.init) \o Opt(3, p.resp) \o Opt(5, p.time) \o Opt(8, p.ver)
\* an encoder that also writes default values (legal protobuf; other implementations may)
EncodeAll(p)   == <<Tok(8, p.ver), Tok(5, p.time), Tok(3, p.resp), Tok(2, p.init), Tok(1, p.cert)>>
EmptyDetails   == K("o.det.empty", "o", 1, "bytes", "empty", "")
EncodeMsg(p)   == IF Encode(p) = <<>> THEN <<EmptyDetails>> ELSE Encode(p)

Payloads == [cert : {"empty", "A", "B"}, init : {"0", "1", "M32"}, resp : {"0", "1", "M32"},
             time : {"0", "1", "M32", "P32", "M64"}, ver : {"0", "1", "M32"}]
AsResult(p) == [ok |-> TRUE, v |-> <<p.cert, p.init, p.resp, p.time, p.ver>>]

-----------------------------------------------------------------------------
(* the alphabets *)
Core == {
    K("d.cert.A",      "d", 1, "bytes",  "A",     ""),
    K("d.cert.empty",  "d", 1, "bytes",  "empty", ""),
    K("d.init.1",      "d", 2, "varint", "1",     ""),
    K("d.init.M32",    "d", 2, "varint", "M32",   ""),
    K("d.init.P32",    "d", 2, "varint", "P32",   ""),       \* out of range
    K("d.init.bytes",  "d", 2, "bytes",  "A",     ""),       \* wrong wire type
    K("d.time.M64",    "d", 5, "varint", "M64",   ""),
    K("d.unk.varint",  "d", 9, "varint", "M64",   ""),       \* unknown field
    K("o.det.empty",   "o", 1, "bytes",  "empty", ""),       \* a Details occurrence without content
    K("o.unk.group",   "o", 3, "group",  "G",     "") }      \* unknown envelope field, group wire type

Quick == Core \cup {
    K("d.cert.varint", "d", 1, "varint", "1",     ""),       \* wrong wire type
    K("d.resp.1",      "d", 3, "varint", "1",     ""),
    K("d.resp.M64",    "d", 3, "varint", "M64",   ""),       \* out of range
    K("d.resp.bytes",  "d", 3, "bytes",  "empty", ""),       \* wrong wire type
    K("d.time.1",      "d", 5, "varint", "1",     ""),
    K("d.time.fixed64","d", 5, "fixed64","X",     ""),       \* wrong wire type
    K("d.ver.1",       "d", 8, "varint", "1",     ""),
    K("d.ver.P32",     "d", 8, "varint", "P32",   ""),       \* out of range
    K("d.ver.fixed32", "d", 8, "fixed32","X",     ""),       \* wrong wire type
    K("d.cookie.varint","d", 4, "varint","P32",   ""),       \* in the schema, not carried: skipped
    K("d.unk.bytes",   "d", 6, "bytes",  "A",     ""),       \* reserved number
    K("d.trunc.init",  "d", 2, "varint", "1",     "val"),    \* truncated varint of a known field
    K("o.det.varint",  "o", 1, "varint", "1",     ""),       \* envelope field 1 with the wrong wire type
    K("o.hmac",        "o", 2, "bytes",  "A",     ""),
    K("o.trunc.tag",   "o", 3, "varint", "1",     "tag") }   \* truncated tag

Full == Quick \cup {
    K("d.cert.B",      "d", 1, "bytes",  "B",     ""),
    K("d.cert.fixed32","d", 1, "fixed32","X",     ""),
    K("d.init.0",      "d", 2, "varint", "0",     ""),
    K("d.init.M64",    "d", 2, "varint", "M64",   ""),
    K("d.init.fixed32","d", 2, "fixed32","X",     ""),
    K("d.resp.0",      "d", 3, "varint", "0",     ""),
    K("d.resp.M32",    "d", 3, "varint", "M32",   ""),
    K("d.resp.P32",    "d", 3, "varint", "P32",   ""),
    K("d.resp.group",  "d", 3, "group",  "G",     ""),
    K("d.time.0",      "d", 5, "varint", "0",     ""),
    K("d.time.M32",    "d", 5, "varint", "M32",   ""),
    K("d.time.P32",    "d", 5, "varint", "P32",   ""),
    K("d.time.bytes",  "d", 5, "bytes",  "A",     ""),
    K("d.ver.0",       "d", 8, "varint", "0",     ""),
    K("d.ver.M32",     "d", 8, "varint", "M32",   ""),
    K("d.ver.M64",     "d", 8, "varint", "M64",   ""),
    K("d.ver.bytes",   "d", 8, "bytes",  "empty", ""),
    K("d.cookie.bytes","d", 4, "bytes",  "A",     ""),       \* not a well-formed schema message, still skipped
    K("d.unk.fixed32", "d", 9, "fixed32","X",     ""),
    K("d.unk.fixed64", "d", 7, "fixed64","X",     ""),
    K("d.unk.group",   "d", 9, "group",  "G",     ""),
    K("d.unk.far",     "d", 2000, "varint", "1",  ""),       \* two-byte tag
    K("d.trunc.tag",   "d", 2000, "varint", "1",  "tag"),
    K("d.trunc.cert",  "d", 1, "bytes",  "A",     "val"),    \* length beyond the end
    K("d.trunc.resp",  "d", 3, "varint", "M32",   "val"),
    K("d.trunc.time",  "d", 5, "varint", "M64",   "val"),
    K("d.trunc.ver",   "d", 8, "varint", "1",     "val"),
    K("d.trunc.unkbytes","d", 9, "bytes","A",     "val"),
    K("d.trunc.unkvarint","d", 9, "varint","M64", "val"),
    K("d.trunc.group", "d", 9, "group",  "G",     "val"),    \* group never closed
    K("o.unk.varint",  "o", 3, "varint", "M64",   ""),
    K("o.unk.fixed32", "o", 3, "fixed32","X",     ""),
    K("o.unk.fixed64", "o", 3, "fixed64","X",     ""),
    K("o.unk.bytes",   "o", 15, "bytes", "B",     ""),
    K("o.hmac.varint", "o", 2, "varint", "1",     ""),       \* not a well-formed schema message, still skipped
    K("o.det.fixed32", "o", 1, "fixed32","X",     ""),
    K("o.det.group",   "o", 1, "group",  "G",     ""),
    K("o.trunc.det",   "o", 1, "bytes",  "A",     "val"),    \* Details length beyond the end
    K("o.trunc.unkvarint","o", 3, "varint","1",   "val") }

Alphabet == IF Alpha = "full" THEN Full ELSE Quick
Small    == IF SmallAlpha = "quick" THEN Quick ELSE Core

\* a truncation of the envelope can only be the end of the message
Concretisable(ts) == \A i \in 1..(Len(ts) - 1) : ~(ts[i].lvl = "o" /\ ts[i].tr # "")

Ids(ts) == [i \in DOMAIN ts |-> ts[i].id]
\* why a message is refused: the class of its first bad token (names the mismatch key when the code accepts it)
FieldName(lvl, f) == IF lvl = "o" THEN "Details"
                     ELSE CASE f = 1 -> "Cert" [] f = 2 -> "InitiatorIndex" [] f = 3 -> "ResponderIndex"
                            [] f = 5 -> "Time" [] f = 8 -> "CertVersion" [] OTHER -> "unknown"
WhyBad(t) == IF t.tr # "" THEN "truncated:" \o (IF t.lvl = "o" THEN "envelope" ELSE "details")
             ELSE IF Known(t.lvl, t.f) /\ t.wt # WType(t.lvl, t.f) THEN "wiretype:" \o FieldName(t.lvl, t.f)
             ELSE "range:" \o FieldName(t.lvl, t.f)
Why(ts) == LET I == {i \in DOMAIN ts : Bad(ts[i])} IN
           IF I = {} THEN "" ELSE WhyBad(ts[CHOOSE i \in I : \A j \in I : i <= j])
Expected(ts) == [r |-> Ref(ts), wf |-> WellFormed(ts), why |-> Why(ts)]
PSeq(p) == <<p.cert, p.init, p.resp, p.time, p.ver>>
PRec(s) == [cert |-> s[1], init |-> s[2], resp |-> s[3], time |-> s[4], ver |-> s[5]]

-----------------------------------------------------------------------------
VARIABLES in,    \* [kind |-> "dec", ids |-> token kind names] or [kind |-> "enc", ids |-> the five fields of a payload]
          exp    \* [r |-> [ok, v] result, wf |-> well-formed schema message, why |-> class of the first bad token]
vars == <<in, exp>>

\* the vectors name their tokens; the alphabet (name -> token) is dumped once by Mode = "alphabet"
ById == [i \in {k.id : k \in Full} |-> CHOOSE k \in Full : k.id = i]
Toks == IF in.kind = "enc" THEN EncodeMsg(PRec(in.ids)) ELSE [i \in DOMAIN in.ids |-> ById[in.ids[i]]]

Dec(ts) == /\ Concretisable(ts)
           /\ in = [kind |-> "dec", ids |-> Ids(ts)]
           /\ exp = Expected(ts)

SeqsOf(A, n) ==
    \/ n = 0 /\ Dec(<<>>)
    \/ n = 1 /\ \E a \in A : Dec(<<a>>)
    \/ n = 2 /\ \E a \in A : \E b \in A : Dec(<<a, b>>)
    \/ n = 3 /\ \E a \in A : \E b \in A : \E c \in A : Dec(<<a, b, c>>)
    \/ n = 4 /\ \E a \in A : \E b \in A : \E c \in A : \E d \in A : Dec(<<a, b, c, d>>)
    \/ n = 5 /\ \E a \in A : \E b \in A : \E c \in A : \E d \in A : \E e \in A : Dec(<<a, b, c, d, e>>)

Init ==
    \/ Mode = "vec" /\ \E n \in Lens : SeqsOf(Alphabet, n)
    \/ Mode = "vec" /\ \E n \in SmallLens : SeqsOf(Small, n)
    \/ Mode = "vec" /\ Lattice /\ \E p \in Payloads :
           /\ in = [kind |-> "enc", ids |-> PSeq(p)]
           /\ exp = Expected(EncodeMsg(p))
    \/ Mode = "alphabet" /\ \E k \in Full :
           /\ in = [kind |-> "tok", ids |-> <<k.id>>]
           /\ exp = k
Next == UNCHANGED vars
Spec == Init /\ [][Next]_vars

-----------------------------------------------------------------------------
(* laws checked by TLC on every vector *)
IsVec == in.kind \in {"dec", "enc"}

\* link: the machine on either grouping computes the reference result (fold = last wins; repeated Details merge)
LinkOn(ts) == /\ Machine(GroupOne(ts)) = exp.r
              /\ Machine(GroupEach(ts)) = exp.r
Link == IsVec => LinkOn(Toks)

\* Decode(Encode(p)) = p, the encoding is a well-formed schema message, and an encoder that writes defaults decodes alike
RoundTripOn(p) ==
    /\ exp.r = AsResult(p) /\ exp.wf
    /\ Ref(EncodeAll(p)) = AsResult(p) /\ WellFormed(EncodeAll(p))
    /\ Machine(GroupOne(EncodeAll(p))) = AsResult(p)
RoundTrip == in.kind = "enc" => RoundTripOn(PRec(in.ids))

\* a well-formed schema message is never refused
WfAccepted == IsVec => (exp.wf => exp.r.ok)

\* an accepted message has only accepted prefixes; a refused one stays refused whatever follows
PrefixOn(ts) == \A n \in 0..Len(ts) : RefOk(SubSeq(ts, 1, n))
PrefixClosed == (IsVec /\ exp.r.ok) => PrefixOn(Toks)

\* unknown fields do not matter: dropping every complete token of a field the decoder does not know changes nothing
SkipOn(ts) == Ref(SelectSeq(ts, LAMBDA t : Known(t.lvl, t.f) \/ t.tr # "")) = exp.r
SkipUnknown == IsVec => SkipOn(Toks)

\* only the last token of a field matters
LastOn(ts, r) ==
    \A f \in KnownD :
        LET I == {i \in DOMAIN ts : ts[i].lvl = "d" /\ ts[i].f = f /\ \A j \in (i + 1)..Len(ts) : ~(ts[j].lvl = "d" /\ ts[j].f = f)}
            got == r.v[CASE f = 1 -> 1 [] f = 2 -> 2 [] f = 3 -> 3 [] f = 5 -> 4 [] OTHER -> 5]
        IN IF I = {} THEN got = Default(f) ELSE \A i \in I : got = ts[i].v
LastWins == (IsVec /\ exp.r.ok) => LastOn(Toks, exp.r)
=============================================================================
