SPECIFICATION Spec
CONSTANTS W = 8
          B = 4
          MaxC = 26
INVARIANTS TypeOK ResultAgrees CheckAgrees Link
VIEW View
CHECK_DEADLOCK FALSE
