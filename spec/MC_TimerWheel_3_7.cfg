SPECIFICATION Spec
CONSTANTS TickD = 3
          Span = 7
          Items = {1}
          Timeouts = {0, 2, 3, 4, 7, 8}
          Gaps = {1, 13}
          CacheMax = 1
          StaleAdds = TRUE
INVARIANTS TypeOK ExactlyOnce NotEarly NotLate PurgeAgrees
VIEW View
CHECK_DEADLOCK FALSE
