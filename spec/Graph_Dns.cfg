SPECIFICATION Spec
CONSTANTS MaxHist = 4
          Patched = TRUE
          Wide = FALSE
VIEW View
CHECK_DEADLOCK FALSE
