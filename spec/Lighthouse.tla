----------------------------- MODULE Lighthouse -----------------------------
(***************************************************************************)
(* Lighthouse message gates and the underlay-address pipeline              *)
(* (lighthouse.go, remote_list.go, allow_list.go, punchy.go), C35 and C36. *)
(*                                                                         *)
(* Reference layer (the statements)                                        *)
(*   Permitted(n, m)   C35: which kinds of effect a message may have, and  *)
(*                     under which keys / owners it may be recorded        *)
(*   OwnerAuth         C35: entries owned by A were written in a step      *)
(*                     whose authenticated sender's certificate lists A    *)
(*   BadFor(n, p, x)   C36: x lies in my overlay networks, is denied by    *)
(*                     the remote allow list (globally / for p's range),   *)
(*                     or was marked bad for p                             *)
(*   NoBadDest, Cap10, StaticKept   C36                                    *)
(* Machine layer: the design of the code -- addrMap : overlay address ->   *)
(*   RemoteList (shared between the addresses of one certificate), a cache *)
(*   cell per owner, the four message handlers, static / calculated /      *)
(*   learned / roamed / resolved sources, block, delete; one action per    *)
(*   call.  Destinations are derived from it.                              *)
(* Link: TLC checks the reference invariants on every state of every       *)
(*   behaviour it emits (vector mode: one state = one history).            *)
(*                                                                         *)
(* Overlay addresses are strings, underlay address:port are integers; the  *)
(* harness concretises both (table in harness/_root/zz_verif_lh_test.go).  *)
(*                                                                         *)
(* Encoding: an IPv4 underlay address may travel as a V4AddrPort or as an  *)
(* IPv4-mapped entry of V6AddrPorts (::ffff:a.b.c.d); id + 100 is the      *)
(* mapped spelling of the IPv4 address id.  An address is judged by what   *)
(* it IS (Unmap); destinations are addresses, not spellings.               *)
(* Configuration: lighthouse.hosts is state (Reload); the role             *)
(* (am_lighthouse) is fixed at start-up, a reload that flips it in the     *)
(* file changes nothing.                                                   *)
(***************************************************************************)
EXTENDS Integers, Sequences, FiniteSets, TLC

CONSTANTS Mode,       \* "C35V" gate table, "C35R" histories, "C36R" pipeline histories
          Thorough,
          Salt        \* rotates the samples of the quick tier (VERIF_SEED)

MaxRemotes == 10
Range(s) == {s[i] : i \in 1..Len(s)}
First(s, n) == IF Len(s) <= n THEN s ELSE SubSeq(s, 1, n)
Min(S) == CHOOSE x \in S : \A y \in S : x <= y
EmptyF == [x \in {} |-> 0]
Put(f, k, v) == [x \in DOMAIN f \cup {k} |-> IF x = k THEN v ELSE f[x]]
Drop(f, ks) == [x \in DOMAIN f \ ks |-> f[x]]
Slot(x) == IF x = 0 THEN <<>> ELSE <<x>>

-----------------------------------------------------------------------------
(* The world *)
Me == "M1"                                   \* my primary overlay address; my networks 10.128.0.1/16, fd00:80::1/64
Overlay6 == {"M6", "S6", "R6", "T6"}               \* IPv6 overlay addresses
OFam(a) == IF a \in Overlay6 THEN 6 ELSE 4
RangePeers == {"P1", "P3"}                   \* overlay addresses inside remote_allow_ranges 10.128.1.0/24
\* a second remote_allow_ranges entry, 10.128.0.0/24, holds the lighthouses (and the C35 hosts) and denies other
\* addresses: the sender of a message and the peer it is about fall under DIFFERENT range lists
LhRangePeers == {"M1", "L0", "L1", "L2", "S1", "S2", "T1", "O1", "U1", "R1", "R2"}

\* underlay addresses by class
InOverlaySet    == {4, 5, 41}                \* 10.128.7.7  fd00:80::77  10.128.7.5      inside my overlay networks
DeniedGlobalSet == {6, 8, 42}                \* 203.0.113.9 2001:db8:dead::8 203.0.113.5 remote_allow_list: false
DeniedPeerSet   == {7, 43, 44}               \* 198.51.100.9 198.51.100.5 2001:db8:beef::9  remote_allow_ranges[10.128.1.0/24]: false
DeniedLhSet     == {45, 46}                  \* 192.0.2.200 2001:db8:cafe::9            remote_allow_ranges[10.128.0.0/24]: false
\* spelling: id + 100 = the IPv4 address id written as an IPv4-mapped IPv6 address (only IPv4 ids have one)
IsMapped(x) == x > 100
Unmap(x)    == IF x > 100 THEN x - 100 ELSE x
UnmapSeq(s) == [i \in 1..Len(s) |-> Unmap(s[i])]
UFam(x) == IF Unmap(x) \in {3, 5, 8, 44, 46, 47, 48} THEN 6 ELSE 4  \* what the address is; everything else: 192.0.2.x (and 2001:db8:1::3, ::47, ::48), allowed
WFam(x) == IF IsMapped(x) THEN 6 ELSE UFam(x)                       \* which list of a message / which half of a cell carries it
PreferredSet == {2, 5}                       \* preferred_ranges 192.0.2.2/32, fd00:80::/64

\* the classes are properties of the address, whatever its spelling
InOverlay(x)    == Unmap(x) \in InOverlaySet
DeniedGlobal(x) == Unmap(x) \in DeniedGlobalSet
DeniedFor(p, x) == (Unmap(x) \in DeniedPeerSet /\ p \in RangePeers) \/ (Unmap(x) \in DeniedLhSet /\ p \in LhRangePeers)
Allow(p, x)     == ~DeniedGlobal(x) /\ ~DeniedFor(p, x)                \* RemoteAllowList.Allow(p, x)
AllowAll(ps, x) == \A p \in ps : Allow(p, x)                           \* RemoteAllowList.AllowAll
ShouldAdd(p, x) == Allow(p, x) /\ ~InOverlay(x)                        \* LightHouse.unlockedShouldAddV4/V6
ShouldAddAll(ps, x) == AllowAll(ps, x) /\ ~InOverlay(x)                \* LightHouse.shouldAdd

-----------------------------------------------------------------------------
(* Machine: node state *)
\* list : [vpn : Seq(overlay), c : owner -> cell, dns : set, bad : set]
\* cell : [v4, v6 : Seq(underlay)  (reported), rel : Seq(overlay), l4, l6 : underlay or 0 (learned)]
EmptyCell == [v4 |-> <<>>, v6 |-> <<>>, rel |-> <<>>, l4 |-> 0, l6 |-> 0]
NewList(vpn) == [vpn |-> vpn, c |-> EmptyF, dns |-> {}, bad |-> {}]

\* n : [am (role, fixed at start-up), amf (lighthouse.am_lighthouse in the configuration file now), lhs (lighthouse.hosts now),
\*      static, map : overlay -> list number, lists : Seq(list), remote : peer -> underlay or 0,
\*      wr : <<key, owner>> -> set of overlay addresses of the certificate that wrote the cell (history, for OwnerAuth)]

AnyLH(n, from) == Range(from) \cap n.lhs # {}                          \* IsAnyLighthouseAddr

\* unlockedGetRemoteList: the first of the addresses that already has a list shares it with the primary; else a new list
\* (LET-bound values are re-evaluated by TLC at every use; values used more than once are operator arguments instead)
GetHit(n, addrs, id)  == [n |-> [n EXCEPT !.map = Put(@, addrs[1], id)], id |-> id]
GetNew(n, addrs, id)  == [n |-> [n EXCEPT !.map = [x \in DOMAIN n.map \cup Range(addrs) |-> IF x \in Range(addrs) THEN id ELSE n.map[x]],
                                         !.lists = Append(@, NewList(addrs))], id |-> id]
GetList2(n, addrs, hits) == IF hits # {} THEN GetHit(n, addrs, n.map[addrs[Min(hits)]]) ELSE GetNew(n, addrs, Len(n.lists) + 1)
GetList(n, addrs) == GetList2(n, addrs, {i \in 1..Len(addrs) : addrs[i] \in DOMAIN n.map})

CellOf(l, o) == IF o \in DOMAIN l.c THEN l.c[o] ELSE EmptyCell
Keys(n, id) == {k \in DOMAIN n.map : n.map[k] = id}

\* unlockedSetV4 / unlockedSetV6 / unlockedSetRelay under owner o; addresses are checked for overlay address p
Keep(p, s) == SelectSeq(First(s, MaxRemotes), LAMBDA x : ShouldAdd(p, x))
SetCell2(n, id, o, cell, ks, fromset) ==
    [n EXCEPT !.lists[id].c = Put(@, o, cell),
              !.wr = [x \in DOMAIN @ \cup {<<k, o>> : k \in ks} |-> IF x[2] = o /\ x[1] \in ks THEN fromset ELSE @[x]]]
SetCell(n, id, o, p, v4, v6, rel, from) ==
    SetCell2(n, id, o, [CellOf(n.lists[id], o) EXCEPT !.v4 = Keep(p, v4), !.v6 = Keep(p, v6), !.rel = First(rel, MaxRemotes)],
             Keys(n, id), Range(from))

\* queryAndPrepMessage: the cell a lighthouse answers from
HasAnswer(n, q) == /\ q \in DOMAIN n.map
                   /\ LET l == n.lists[n.map[q]] IN (IF q \in Range(l.vpn) THEN l.vpn[1] ELSE q) \in DOMAIN l.c
Answer(n, q) == LET l == n.lists[n.map[q]] IN l.c[IF q \in Range(l.vpn) THEN l.vpn[1] ELSE q]

NoEff == [sends |-> <<>>, punches |-> {}, back |-> <<>>, trig |-> <<>>]
RelFor(enc, rel) == IF enc = 1 THEN SelectSeq(rel, LAMBDA r : OFam(r) = 4) ELSE rel
Send(to, t, cl, enc, c) == [to |-> to, t |-> t, cl |-> cl, enc |-> enc, v4 |-> Slot(c.l4) \o c.v4, v6 |-> Slot(c.l6) \o c.v6,
                            rel |-> RelFor(enc, c.rel)]

\* m : [from : Seq(overlay) (the certificate's addresses, primary first), t, cl ("" = unset), enc, v4, v6, rel]
HQuery(n, m) ==
    IF ~n.am \/ m.cl = "" \/ ~HasAnswer(n, m.cl) THEN [n |-> n, eff |-> NoEff]
    ELSE LET reply == Send(m.from[1], "QueryReply", m.cl, m.enc, Answer(n, m.cl))
             notif == IF HasAnswer(n, m.from[1]) THEN <<Send(m.cl, "Punch", m.from[1], 2, Answer(n, m.from[1]))>> ELSE <<>>
         IN [n |-> n, eff |-> [NoEff EXCEPT !.sends = <<reply>> \o notif]]

HReply2(g, m) == [n |-> SetCell(g.n, g.id, m.from[1], m.cl, m.v4, m.v6, RelFor(m.enc, m.rel), m.from),
                  eff |-> [NoEff EXCEPT !.trig = <<m.cl>>]]
HReply(n, m) ==
    IF ~AnyLH(n, m.from) \/ m.cl = "" THEN [n |-> n, eff |-> NoEff]
    ELSE HReply2(GetList(n, <<m.cl>>), m)

UpdAck(m) == IF m.enc = 1 /\ m.cl # ""
             THEN (IF OFam(m.from[1]) = 4
                   THEN <<[to |-> m.from[1], t |-> "UpdateAck", cl |-> m.from[1], enc |-> 1, v4 |-> <<>>, v6 |-> <<>>, rel |-> <<>>]>>
                   ELSE <<>>)                        \* a v1 ack cannot name an IPv6 address: none is sent
             ELSE <<[to |-> m.from[1], t |-> "UpdateAck", cl |-> "", enc |-> 0, v4 |-> <<>>, v6 |-> <<>>, rel |-> <<>>]>>
HUpdate2(g, m) == [n |-> SetCell(g.n, g.id, m.from[1], m.from[1], m.v4, m.v6, RelFor(m.enc, m.rel), m.from),
                   eff |-> [NoEff EXCEPT !.sends = UpdAck(m)]]
HUpdate(n, m) ==
    IF ~n.am \/ (m.cl # "" /\ m.cl \notin Range(m.from)) THEN [n |-> n, eff |-> NoEff]
    ELSE HUpdate2(GetList(n, m.from), m)

\* static_host_map (at start-up and when a reload changes it): addStaticRemotes (owner = me) + the resolver results kept
\* for collect time.  A literal is the address it spells (an IPv4-mapped literal is that IPv4 address).  Entries are
\* prepended to my cell of the list (empty at start-up; after a reload a list shared by two static addresses of one
\* certificate holds the entries of both).
AddStatic3(n, id, p, addrs, ok) ==
    [n EXCEPT !.lists[id].c = Put(@, Me, [CellOf(n.lists[id], Me) EXCEPT
                                            !.v4 = First(SelectSeq(ok, LAMBDA x : UFam(x) = 4) \o @, MaxRemotes),
                                            !.v6 = First(SelectSeq(ok, LAMBDA x : UFam(x) = 6) \o @, MaxRemotes)]),
              !.lists[id].dns = Range(addrs), !.static = @ \cup {p}]
AddStatic2(g, p, addrs) == AddStatic3(g.n, g.id, p, addrs, SelectSeq(addrs, LAMBDA x : ShouldAddAll({p}, x)))
AddStatic(n, p, addrs) == AddStatic2(GetList(n, <<p>>), p, UnmapSeq(addrs))
RECURSIVE WithStatics(_, _)
WithStatics(n, ss) == IF ss = <<>> THEN n ELSE WithStatics(AddStatic(n, Head(ss)[1], Head(ss)[2]), Tail(ss))
\* every configured lighthouse has a static_host_map entry (30 + k = 192.0.2.(30+k))
StaticsOf(lhs) == LET s == <<"L0", "S1", "S2", "S6", "O1">> IN
                  SelectSeq([i \in 1..5 |-> <<s[i], <<30 + i>>>>], LAMBDA e : e[1] \in lhs)

\* punch targets: allowed for the peer AND outside my overlay networks (the design; C36)
HPunch(n, m) ==
    IF ~AnyLH(n, m.from) \/ m.cl = "" THEN [n |-> n, eff |-> NoEff]
    ELSE [n |-> n, eff |-> [NoEff EXCEPT !.punches = {Unmap(x) : x \in {y \in Range(m.v4) \cup Range(m.v6) : ShouldAdd(m.cl, y)}},
                                         !.back = <<m.cl>>]]

\* SIGHUP: lighthouse.hosts is replaced (every lighthouse needs a static_host_map entry: the entries of new lighthouses are
\* added in the same reload, entries of former lighthouses stay).  lighthouse.am_lighthouse is read once at start-up:
\* the role does not change.  Handlers (one per reader routine) outlive reloads: nothing else changes.
\* When static_host_map changed, my cells of all formerly static hosts are emptied (ResetForOwner) and every entry of the
\* new map is added again.
ResetMine(n, ids) == [n EXCEPT !.lists = [i \in 1..Len(n.lists) |->
                         IF i \in ids /\ Me \in DOMAIN n.lists[i].c THEN [n.lists[i] EXCEPT !.c[Me].v4 = <<>>, !.c[Me].v6 = <<>>]
                         ELSE n.lists[i]]]
HReload2(n, n1, m) == IF m.lhs \subseteq n.static THEN n1
                      ELSE WithStatics(ResetMine(n1, {n.map[p] : p \in n.static}), StaticsOf(n.static \cup m.lhs))
HReload(n, m) == [n |-> HReload2(n, [n EXCEPT !.lhs = m.lhs, !.amf = IF m.flip THEN ~n.am ELSE n.am], m), eff |-> NoEff]

Handle(n, m) == CASE m.t = "Query"      -> HQuery(n, m)
                  [] m.t = "QueryReply" -> HReply(n, m)
                  [] m.t = "Update"     -> HUpdate(n, m)
                  [] m.t = "Punch"      -> HPunch(n, m)
                  [] m.t = "Reload"     -> HReload(n, m)
                  [] OTHER              -> [n |-> n, eff |-> NoEff]     \* UpdateAck, Moved, unknown types

\* what the harness compares: for every addrMap key, the cells reachable under it
View(n) == [k \in DOMAIN n.map |-> n.lists[n.map[k]].c]

-----------------------------------------------------------------------------
(* Reference, C35 *)
\* kinds of effect the statement allows message m to have on node n, and where it may be recorded
\* "configured as a lighthouse": the role the node started with; after a reload whose file says otherwise the statement
\* can be read either way (the weaker reading: what either role may do), the machine keeps the start-up role.
\* "its configured lighthouses": lighthouse.hosts as of the last reload (n.lhs is state).
AmRole(n) == n.am \/ n.amf
Permitted(n, m) ==
    [kinds |-> (IF AmRole(n) /\ m.t = "Query" THEN {"answer"} ELSE {})
               \cup (IF AmRole(n) /\ m.t = "Update" /\ (m.cl = "" \/ m.cl \in Range(m.from)) THEN {"store", "ack"} ELSE {})
               \cup (IF AnyLH(n, m.from) /\ m.t = "QueryReply" /\ m.cl # "" THEN {"store", "trigger"} ELSE {})
               \cup (IF AnyLH(n, m.from) /\ m.t = "Punch" THEN {"punch"} ELSE {}),
     keys   |-> IF m.t = "Update" THEN Range(m.from) ELSE IF m.t = "QueryReply" THEN {m.cl} ELSE {},
     owners |-> Range(m.from)]

Kinds(e) == (IF \E i \in 1..Len(e.sends) : e.sends[i].t \in {"QueryReply", "Punch"} THEN {"answer"} ELSE {})
            \cup (IF \E i \in 1..Len(e.sends) : e.sends[i].t = "UpdateAck" THEN {"ack"} ELSE {})
            \cup (IF e.punches # {} \/ e.back # <<>> THEN {"punch"} ELSE {})
            \cup (IF e.trig # <<>> THEN {"trigger"} ELSE {})

\* cells (list, owner) written by a step
Changed(n1, n2) == {x \in (1..Len(n2.lists)) \X UNION {DOMAIN n2.lists[i].c : i \in 1..Len(n2.lists)} :
                      /\ x[2] \in DOMAIN n2.lists[x[1]].c
                      /\ (x[1] > Len(n1.lists) \/ x[2] \notin DOMAIN n1.lists[x[1]].c
                          \/ n1.lists[x[1]].c[x[2]] # n2.lists[x[1]].c[x[2]])}

\* one step of the machine stays inside what the statement permits: only permitted kinds of effect; a host update is
\* recorded under the sender's own addresses only, a lighthouse's answer under the address it is about; the owner of
\* every written cell is one of the sender's addresses
StepOK3(n2, m, e, p, ch) ==
    /\ Kinds(e) \subseteq p.kinds
    /\ (ch # {} => "store" \in p.kinds)
    /\ \A x \in ch : /\ x[2] \in p.owners
                     /\ (m.t = "Update" => Keys(n2, x[1]) \subseteq p.keys)
                     /\ (m.t = "QueryReply" => p.keys \subseteq Keys(n2, x[1]))
StepOK2(n, m, r) == StepOK3(r.n, m, r.eff, Permitted(n, m), Changed(n, r.n))
\* a reload has no effect of its own: the role stays, the lighthouses are the configured ones, only my own (static) cells change
ReloadOK(n, m, r) == /\ r.eff = NoEff /\ r.n.am = n.am /\ r.n.lhs = m.lhs
                     /\ \A x \in Changed(n, r.n) : x[2] = Me
\* (r = Handle(n, m), passed in so that TLC evaluates it once)
StepOKr(n, m, r) == IF m.t = "Reload" THEN ReloadOK(n, m, r) ELSE StepOK2(n, m, r)
StepOK(n, m) == StepOKr(n, m, Handle(n, m))
\* every cell not owned by me was written by a certificate that lists the owner
OwnerAuthOK(n) == \A x \in DOMAIN n.wr : x[2] \in n.wr[x]

-----------------------------------------------------------------------------
(* C36: the other sources, and the destinations *)
Peers == {"P1", "P2", "P3"}
ListOf(n, p) == n.lists[n.map[p]]
Known(n, p) == p \in DOMAIN n.map

\* addCalculatedRemotes (only for peers that are not static: StartHandshake)
Calc2(n, id, p, addrs) ==
    [n EXCEPT !.lists[id].c = Put(@, Me, [CellOf(n.lists[id], Me) EXCEPT
                                            !.v4 = SelectSeq(First(addrs, MaxRemotes), LAMBDA x : ShouldAdd(p, x))])]
Calc1(g, p, addrs) == Calc2(g.n, g.id, p, addrs)
Calc(n, p, addrs) == Calc1(GetList(n, <<p>>), p, addrs)

\* a completed handshake from x / a roam to x: allow-list check on all of the peer's addresses, then HostInfo.SetRemote
Learn3(n, id, p, x, c) == [n EXCEPT !.remote[p] = x,
                                   !.lists[id].c = Put(@, p, IF UFam(x) = 4 THEN [c EXCEPT !.l4 = x] ELSE [c EXCEPT !.l6 = x])]
Learn2(g, p, x) == Learn3(g.n, g.id, p, x, CellOf(g.n.lists[g.id], p))
Learn(n, p, x) == IF ~AllowAll({p}, x) \/ n.remote[p] = x THEN n ELSE Learn2(GetList(n, <<p>>), p, x)

SetDns(n, p, S) == [n EXCEPT !.lists[n.map[p]].dns = S]
Block2(g, x)    == [g.n EXCEPT !.lists[g.id].bad = @ \cup {x}]
Block(n, p, x)  == Block2(GetList(n, <<p>>), x)
\* DeleteVpnAddrs: nothing for a static host; else the addresses are forgotten (the tunnel is gone: no data destination)
Delete(n, p) == IF p \in n.static \/ ~Known(n, p) THEN n
                ELSE [n EXCEPT !.map = Drop(@, Keys(n, n.map[p])), !.remote[p] = 0]

\* the candidate list of a peer (C37 orders it; here it is a set): addresses, whatever spelling the cache holds
CandL(l) == ({Unmap(x) : x \in UNION {Range(l.c[o].v4) \cup Range(l.c[o].v6) \cup ({l.c[o].l4, l.c[o].l6} \ {0}) : o \in DOMAIN l.c}}
             \cup {x \in l.dns : ShouldAddAll(Range(l.vpn), x)}) \ l.bad
Candidates(n, p) == IF ~Known(n, p) THEN {} ELSE CandL(ListOf(n, p))

\* destinations
DestOf(cand, data) == [hs |-> cand,                        \* handshake packets
                       probe |-> cand \cap PreferredSet,    \* TryPromoteBest test packets
                       data |-> data]                       \* tunnel traffic, keep-alive punch
Dest(n) == [p \in Peers |-> DestOf(Candidates(n, p), n.remote[p])]

\* Reference, C36
StaticBad(p, x) == InOverlay(x) \/ DeniedGlobal(x) \/ DeniedFor(p, x)
\* "marked bad" is a mark on the peer's candidate list; targets named by a lighthouse's punch request and the address a
\* tunnel currently answers from are judged by StaticBad only
BadFor(n, p, x) == StaticBad(p, x) \/ (Known(n, p) /\ x \in ListOf(n, p).bad)
NoBad2(n, p, cand) == /\ \A x \in cand : ~BadFor(n, p, x)
                      /\ (n.remote[p] # 0 => ~StaticBad(p, n.remote[p]))
NoBadDestOK(n) == \A p \in Peers : NoBad2(n, p, Candidates(n, p))
Cap10OK(n) == \A i \in 1..Len(n.lists) : \A o \in DOMAIN n.lists[i].c :
                 Len(n.lists[i].c[o].v4) <= MaxRemotes /\ Len(n.lists[i].c[o].v6) <= MaxRemotes /\ Len(n.lists[i].c[o].rel) <= MaxRemotes

-----------------------------------------------------------------------------
(* Nodes *)
Node0(am, lhs) == [am |-> am, amf |-> am, lhs |-> lhs, static |-> {}, map |-> EmptyF, lists |-> <<>>,
                   remote |-> [p \in Peers |-> 0], wr |-> EmptyF]

-----------------------------------------------------------------------------
(* C35 vectors *)
Senders == [single  |-> <<"S1">>, multi44 |-> <<"S1", "S2">>, multi46 |-> <<"S1", "S6">>, multi64 |-> <<"S6", "S1">>]
Claim(from, c) == CASE c = "pri" -> from[1]
                    [] c = "sec" -> IF Len(from) > 1 THEN from[2] ELSE "-"
                    [] c = "other" -> "O1"
                    [] c = "unknown" -> "U1"
                    [] c = "unset" -> ""
Payloads == [none |-> [v4 |-> <<>>, v6 |-> <<>>, rel |-> <<>>],
             v4   |-> [v4 |-> <<1>>, v6 |-> <<>>, rel |-> <<>>],
             all  |-> [v4 |-> <<1, 2>>, v6 |-> <<3>>, rel |-> <<"R1", "R6", "R2">>],
             six  |-> [v4 |-> <<2>>, v6 |-> <<47, 48>>, rel |-> <<"R2">>],     \* other and more IPv6 addresses than `all`:
                                                                                 \* whatever one message leaves behind in the handler shows
             nd   |-> [v4 |-> <<>>, v6 |-> <<>>, rel |-> <<>>]]        \* message without a Details field at all

Msg(from, t, cl, enc, pl) == [from |-> from, t |-> t, cl |-> IF pl = "nd" THEN "" ELSE cl, enc |-> enc, v4 |-> Payloads[pl].v4, v6 |-> Payloads[pl].v6,
                              rel |-> Payloads[pl].rel, nd |-> pl = "nd"]

\* a configuration reload: lighthouse.hosts := lhs; flip: the file's lighthouse.am_lighthouse is the opposite of the start-up role
Rl(lhs, flip) == [from |-> <<>>, t |-> "Reload", cl |-> "", enc |-> 0, v4 |-> <<>>, v6 |-> <<>>, rel |-> <<>>, nd |-> FALSE,
                  lhs |-> lhs, flip |-> flip]

LhSet(from, mode) == {"L0"} \cup (CASE mode = "none" -> {} [] mode = "pri" -> {from[1]} [] mode = "sec" -> {from[2]})
C35Node(am, lhs) == WithStatics(Node0(am, lhs), StaticsOf(lhs))

\* a v1 message cannot name an IPv6 overlay address
Representable(m) == ~(m.enc = 1 /\ m.cl # "" /\ OFam(m.cl) = 6)

\* legitimate warm-up: O and the sender register with a lighthouse; a lighthouse tells a client about O
WarmUp(am, from) == IF am THEN << Msg(<<"O1">>, "Update", "O1", 2, "all"), Msg(from, "Update", "", 2, "v4") >>
                    ELSE << Msg(<<"L0">>, "QueryReply", "O1", 2, "all") >>

\* a history on a node: per step the message, the expected effects and view, and what the statement permits
RECURSIVE RunMsgs(_, _)
MsgStep(n, r, ms) ==
    << [eff |-> r.eff, view |-> View(r.n), perm |-> Permitted(n, Head(ms)),
        ok |-> StepOKr(n, Head(ms), r) /\ OwnerAuthOK(r.n) /\ Cap10OK(r.n)] >> \o RunMsgs(r.n, Tail(ms))
RunMsgs(n, ms) == IF ms = <<>> THEN <<>> ELSE MsgStep(n, Handle(n, Head(ms)), ms)

\* alphabet of the C35 histories; an overlay address belongs to one certificate: S = (S1, S2), T = (T6, T1), O, L0
Alphabet ==
    << Msg(<<"S1", "S2">>, "Update", "S1", 1, "v4"),   Msg(<<"S1", "S2">>, "Update", "S2", 2, "all"),
       Msg(<<"S1", "S2">>, "Update", "O1", 2, "v4"),   Msg(<<"S1", "S2">>, "Update", "", 2, "none"),
       Msg(<<"O1">>, "Update", "O1", 1, "all"),        Msg(<<"O1">>, "Update", "S2", 1, "v4"),
       Msg(<<"O1">>, "Update", "", 2, "v4"),           Msg(<<"T6", "T1">>, "Update", "T1", 1, "v4"),
       Msg(<<"S1", "S2">>, "Query", "O1", 1, "none"),  Msg(<<"O1">>, "Query", "S2", 2, "none"),
       Msg(<<"O1">>, "Query", "S1", 1, "none"),        Msg(<<"L0">>, "Query", "O1", 2, "none"),
       Msg(<<"L0">>, "QueryReply", "O1", 2, "all"),    Msg(<<"L0">>, "QueryReply", "S2", 1, "v4"),
       Msg(<<"S1", "S2">>, "QueryReply", "O1", 2, "v4"), Msg(<<"O1">>, "QueryReply", "S1", 1, "all"),
       Msg(<<"L0">>, "Punch", "O1", 2, "all"),         Msg(<<"O1">>, "Punch", "S1", 1, "v4"),
       Msg(<<"S1", "S2">>, "Punch", "O1", 2, "v4"),    Msg(<<"L0">>, "QueryReply", "", 2, "v4"),
       \* the same kinds of message carrying other IPv6 addresses (legitimate and not)
       Msg(<<"S1", "S2">>, "Update", "S1", 2, "six"),  Msg(<<"O1">>, "Update", "S2", 2, "six"),
       Msg(<<"O1">>, "Query", "S1", 2, "six"),         Msg(<<"S1", "S2">>, "QueryReply", "O1", 2, "six"),
       Msg(<<"L0">>, "QueryReply", "S1", 2, "six"),    Msg(<<"O1">>, "Punch", "S1", 2, "six"),
       \* reloads: a lighthouse (S = (S1, S2), O) is added to / removed from lighthouse.hosts; the role flips in the file
       Rl({"L0"}, FALSE),  Rl({"L0", "S2"}, FALSE),  Rl({"L0", "O1"}, FALSE),  Rl({"L0", "S2"}, TRUE) >>

-----------------------------------------------------------------------------
(* C36 vectors *)
C36Lhs == {"L1", "L2"}
C36Statics == << <<"L1", <<31>>>>, <<"L2", <<32>>>>, <<"P2", <<33, 4, 6, 7, 3, 44>>>>, <<"P3", <<34, 7, 5, 8, 44, 46>>>> >>
\* the same with literals spelled as IPv4-mapped IPv6 addresses: allowed (140, 139), inside my overlay networks (141), denied
\* globally (142), denied for P3's range (143)
C36StaticsM == << <<"L1", <<31>>>>, <<"L2", <<32>>>>, <<"P2", <<33, 4, 6, 7, 3, 44, 140, 141, 142>>>>,
                  <<"P3", <<34, 7, 5, 8, 44, 46, 139, 143>>>> >>
StaticsFor(sm) == IF sm THEN C36StaticsM ELSE C36Statics
C36Node(am, sm) == WithStatics(Node0(am, C36Lhs), StaticsFor(sm))
CalcAddrs == <<40, 41, 42, 43>>              \* lighthouse.calculated_remotes for 10.128.1.0/24 applied to P1 = 10.128.1.5

\* what a source offers: an allowed address together with one address of the class
Offer(c) == CASE c = "ok"  -> <<1, 2>>   [] c = "ov4" -> <<1, 4>>   [] c = "ov6" -> <<3, 5>>
              [] c = "dg"  -> <<6, 1, 8>> [] c = "dp"  -> <<7, 2>>   [] c = "bad" -> <<9, 1>>
              [] c = "dp6" -> <<44, 3, 7>>              \* denied for the peer's range only, IPv6 (and IPv4)
              [] c = "dl"  -> <<45, 46, 1>>             \* denied for the SENDER's (lighthouse's) range only: usable for the peer
              [] c = "many" -> <<11, 12, 13, 14, 15, 16, 17, 18, 19, 20, 21, 22>>
              \* the IPv4 classes once more, spelled as IPv4-mapped entries of V6AddrPorts
              [] c = "mok"  -> <<101, 2>>               \* allowed
              [] c = "mov4" -> <<1, 104, 3>>            \* inside my overlay networks
              [] c = "mdg"  -> <<106, 1>>               \* denied globally
              [] c = "mdp"  -> <<107, 2, 143>>          \* denied for the peer's range
              [] c = "mdl"  -> <<145, 1>>               \* denied for the SENDER's range only
              [] c = "mbad" -> <<109, 1>>               \* (to be) marked bad
Classes == <<"ok", "ov4", "ov6", "dg", "dp", "dp6", "dl", "bad", "many", "mok", "mov4", "mdg", "mdp", "mdl", "mbad">>
MappedClasses == {"mok", "mov4", "mdg", "mdp", "mdl", "mbad"}
V4s(s) == SelectSeq(s, LAMBDA x : WFam(x) = 4)
V6s(s) == SelectSeq(s, LAMBDA x : WFam(x) = 6)

\* events: <<kind, args...>>
Ev(n, e) ==
    LET k == e[1] IN
    CASE k = "reply"  -> Handle(n, [from |-> <<e[2]>>, t |-> "QueryReply", cl |-> e[3], enc |-> 2, v4 |-> V4s(e[4]), v6 |-> V6s(e[4]), rel |-> <<>>, nd |-> FALSE])
      [] k = "update" -> Handle(n, [from |-> <<e[2]>>, t |-> "Update", cl |-> e[2], enc |-> 2, v4 |-> V4s(e[3]), v6 |-> V6s(e[3]), rel |-> <<>>, nd |-> FALSE])
      [] k = "punch"  -> Handle(n, [from |-> <<e[2]>>, t |-> "Punch", cl |-> e[3], enc |-> 2, v4 |-> V4s(e[4]), v6 |-> V6s(e[4]), rel |-> <<>>, nd |-> FALSE])
      [] k = "learn"  -> [n |-> Learn(n, e[2], e[3]), eff |-> NoEff]
      [] k = "roam"   -> [n |-> Learn(n, e[2], e[3]), eff |-> NoEff]
      [] k = "calc"   -> [n |-> Calc(n, e[2], CalcAddrs), eff |-> NoEff]
      [] k = "dns"    -> [n |-> SetDns(n, e[2], Range(e[3])), eff |-> NoEff]
      [] k = "block"  -> [n |-> Block(n, e[2], e[3]), eff |-> NoEff]
      [] k = "delete" -> [n |-> Delete(n, e[2]), eff |-> NoEff]
      [] k = "none"   -> [n |-> n, eff |-> NoEff]
      [] k = "static" -> [n |-> n, eff |-> NoEff]        \* (the state after start-up is observed)

\* static entries that pass the filters stay candidates whatever happens (unless marked bad)
StaticKept2(n, p, addrs, cand) == \A x \in Range(addrs) : (ShouldAddAll({p}, x) /\ Unmap(x) \notin ListOf(n, p).bad) => Unmap(x) \in cand
StaticKeptOK(n, st) == \A i \in 1..Len(st) :
    st[i][1] \in Peers => StaticKept2(n, st[i][1], st[i][2], Candidates(n, st[i][1]))

\* (the result of a step is passed as an operator argument so that TLC evaluates it once)
RECURSIVE RunEvs(_, _, _)
EvStep(r, es, st) ==
    << [punches |-> r.eff.punches, dest |-> Dest(r.n), view |-> View(r.n),
        ok |-> NoBadDestOK(r.n) /\ Cap10OK(r.n) /\ StaticKeptOK(r.n, st) /\ OwnerAuthOK(r.n)
               /\ \A x \in r.eff.punches : ~StaticBad(Head(es)[3], x)] >> \o RunEvs(r.n, Tail(es), st)
RunEvs(n, es, st) == IF es = <<>> THEN <<>> ELSE EvStep(Ev(n, Head(es)), es, st)

\* a source event for peer p offering class c
SrcEv(s, p, c) == CASE s = "reply1" -> <<"reply", "L1", p, Offer(c)>>
                    [] s = "reply2" -> <<"reply", "L2", p, Offer(c)>>
                    [] s = "update" -> <<"update", p, Offer(c)>>
                    [] s = "punch"  -> <<"punch", "L1", p, Offer(c)>>
                    [] s = "learn"  -> <<"learn", p, IF c = "dg" THEN 8 ELSE Offer(c)[1]>>
                    [] s = "roam"   -> <<"roam", p, Offer(c)[1]>>
                    [] s = "dns"    -> <<"dns", p, Offer(c)>>
                    [] s = "calc"   -> <<"calc", p>>
Sources == <<"reply1", "reply2", "update", "punch", "learn", "roam", "dns", "calc">>
\* events that make sense: updates only reach a lighthouse; dns results exist for static hosts; calculated remotes for
\* non-static peers in the configured range; learned sources never see a datagram from inside my overlay networks
\* (outside.go drops those before any tunnel lookup)
\* the spelling is a property of lighthouse messages: addresses learned from a socket and resolver results arrive as
\* the udp layer / the resolver loop hand them over (unmapped)
Sensible(am, s, p, c) == /\ (s = "update" => am)
                         /\ (c \in MappedClasses => s \in {"reply1", "reply2", "update", "punch"})
                         /\ (s = "dns" => p \in {"P2", "P3"})
                         /\ (s = "calc" => p = "P1" /\ c = "ok")
                         /\ (s \in {"learn", "roam"} => c \notin {"ov4", "ov6", "many"})
Thirds(p) == << <<"none">>, <<"block", p, 9>>, <<"delete", p>>, <<"block", p, 1>> >>
\* second events of the histories on the node whose static_host_map holds IPv4-mapped literals
SmSeconds == << <<"none">>, <<"block", "P2", 40>>, <<"block", "P3", 39>>, <<"delete", "P2">>, <<"dns", "P2", <<33, 40, 41>>>>,
                <<"reply", "L1", "P2", <<101, 104, 2>>>>, <<"reply", "L2", "P3", <<107, 139>>>>, <<"punch", "L1", "P3", <<143, 139, 1>>>>,
                <<"learn", "P2", 40>>, <<"roam", "P3", 39>> >>

-----------------------------------------------------------------------------
VARIABLES in, exp
vars == <<in, exp>>

SkS == <<"single", "multi44", "multi46", "multi64">>
ModeS == <<"none", "pri", "sec">>
TypeS == <<"Query", "QueryReply", "Update", "UpdateAck", "Moved", "Punch", "Unknown">>
ClaimS == <<"pri", "sec", "other", "unknown", "unset">>
PlS == <<"none", "v4", "all", "six", "nd">>

Init ==
    \/ /\ Mode = "C35V"       \* the gate table: every single message after the legitimate warm-up; and every row once more
                              \* after a reload that adds the sender to / removes it from lighthouse.hosts (m0 -> m1: the
                              \* sender's certificate lists no / its primary / only its secondary address among the
                              \* configured lighthouses) and / or flips lighthouse.am_lighthouse in the file
       /\ \E am \in BOOLEAN, ski \in 1..Len(SkS), m0 \in 1..3, m1 \in 1..3, flip \in BOOLEAN, ti \in 1..Len(TypeS),
             ci \in 1..Len(ClaimS), enc \in {1, 2}, pli \in 1..Len(PlS) :
            LET from == Senders[SkS[ski]]
                m == Msg(from, TypeS[ti], Claim(from, ClaimS[ci]), enc, PlS[pli])
                rl == m1 # m0 \/ flip IN
            /\ (ModeS[m0] = "sec" \/ ModeS[m1] = "sec" \/ ClaimS[ci] = "sec") => Len(from) > 1
            /\ Representable(m)
            \* quick: a sample of the reload rows (thinner for the message types no node reacts to)
            /\ (~rl \/ Thorough \/ (ski + 3 * ci + enc + 2 * pli + ti + m0 + 2 * m1 + Salt) % (IF ti \in {4, 5, 7} THEN 40 ELSE 8) = 0)
            /\ in = [am |-> am, lhs |-> LhSet(from, ModeS[m0]),
                     msgs |-> WarmUp(am, from) \o (IF rl THEN <<Rl(LhSet(from, ModeS[m1]), flip)>> ELSE <<>>) \o <<m>>]
            /\ exp = RunMsgs(C35Node(am, in.lhs), in.msgs)
    \/ /\ Mode = "C35R"       \* histories of at most 3 steps (messages and reloads)
       /\ \E am \in BOOLEAN, lhs \in {{"L0"}, {"L0", "S2"}} :
          \E i \in 1..Len(Alphabet), j \in 0..Len(Alphabet), k \in 0..Len(Alphabet) :
            /\ (j = 0 => k = 0)
            /\ (k = 0 \/ (i + 2 * j + k + Salt) % (IF Thorough THEN 2 ELSE 24) = 0)   \* three steps: a sample
            /\ in = [am |-> am, lhs |-> lhs,
                     msgs |-> <<Alphabet[i]>> \o (IF j = 0 THEN <<>> ELSE <<Alphabet[j]>>) \o (IF k = 0 THEN <<>> ELSE <<Alphabet[k]>>)]
            /\ exp = RunMsgs(C35Node(am, lhs), in.msgs)
    \/ /\ Mode = "C36R"       \* every source offering every class, then a second source, a block/delete, a third source
       /\ \E am \in BOOLEAN, s1 \in 1..Len(Sources), c1 \in 1..Len(Classes), p1 \in Peers,
             s2 \in 1..Len(Sources), t3 \in 1..4 :
            LET c2 == ((s1 + 2 * c1 + 3 * s2 + t3) % Len(Classes)) + 1
                p2 == IF (s1 + s2 + c1) % 3 = 0 THEN "P2" ELSE p1
                s4 == ((s1 + c1 + 2 * s2 + t3) % Len(Sources)) + 1
                c4 == ((2 * s1 + c1 + s2 + 3 * t3) % Len(Classes)) + 1 IN
            /\ Sensible(am, Sources[s1], p1, Classes[c1])
            /\ Sensible(am, Sources[s2], p2, Classes[c2])
            /\ Sensible(am, Sources[s4], p1, Classes[c4])
            /\ (Thorough \/ (s1 + c1 + s2 + t3) % 2 = 0 \/ s2 = s1)
            /\ in = [am |-> am, sm |-> FALSE,
                     evs |-> << SrcEv(Sources[s1], p1, Classes[c1]), SrcEv(Sources[s2], p2, Classes[c2]),
                                Thirds(p1)[t3], SrcEv(Sources[s4], p1, Classes[c4]) >>]
            /\ exp = RunEvs(C36Node(am, FALSE), in.evs, C36Statics)
    \/ /\ Mode = "C36R"       \* static_host_map with IPv4-mapped literals: the state after start-up, an event, a message source
       /\ \E am \in BOOLEAN, e2 \in 1..Len(SmSeconds), s3 \in 1..4, c3 \in 1..Len(Classes), p3 \in {"P2", "P3"} :
            /\ Sensible(am, Sources[s3], p3, Classes[c3])
            /\ (Thorough \/ (e2 + s3 + c3 + Salt) % 8 = 0)
            /\ in = [am |-> am, sm |-> TRUE,
                     evs |-> << <<"static">>, SmSeconds[e2], SrcEv(Sources[s3], p3, Classes[c3]) >>]
            /\ exp = RunEvs(C36Node(am, TRUE), in.evs, C36StaticsM)

Next == UNCHANGED vars
Spec == Init /\ [][Next]_vars

\* Link: the machine satisfies the reference on every step of every emitted history
Link == \A i \in 1..Len(exp) : exp[i].ok
=============================================================================
