------------------------------ MODULE Converge ------------------------------
(***************************************************************************)
(* Two nodes A and B (overlay address of A < overlay address of B) start   *)
(* handshakes with each other -- C31.                                      *)
(*                                                                         *)
(* Tunnel pair "x" comes from A's handshake (A holds the initiator side,   *)
(* B the responder side), pair "y" from B's. Each side adds a tunnel as    *)
(* primary when it is created (handshake_manager.go / hostmap.go); the     *)
(* connection manager (connection_manager.go makeTrafficDecision) then     *)
(* works per tunnel: inbound traffic keeps it (and a non-primary tunnel    *)
(* with inbound traffic is swapped to primary by the node whose own        *)
(* address is not greater than the peer's), a tunnel without inbound       *)
(* traffic is marked and deleted one interval later (a silent primary only *)
(* when the node is sending on it).                                        *)
(*                                                                         *)
(* Phase 1 (hs): the four handshake datagrams are delivered in any order,  *)
(* lost, or duplicated. Phase 2 (steady): both nodes keep sending on their *)
(* primary, the connection managers tick.                                  *)
(***************************************************************************)
EXTENDS Integers, Sequences, FiniteSets, TLC

CONSTANTS MaxHist,    \* bound on the environment history that is replayed on real nodes
          RecordHist  \* TRUE: carry the history (bounded exploration for replay); FALSE: finite graph for liveness

Pairs == {"x", "y"}
Other(p) == IF p = "x" THEN "y" ELSE "x"

VARIABLES ta, tb,         \* tunnel pairs present at A / at B
          pa, pb,         \* primary at A / at B ("none" while there is no tunnel)
          inA, inB,       \* inbound traffic seen since the last check, per pair
          outA, outB,     \* node sent on the pair since the last check
          pdA, pdB,       \* pendingDeletion mark, per pair
          net,            \* handshake datagrams in flight (a set: the network may deliver them again)
          sent,           \* which stage-1 datagrams were emitted
          phase,          \* "hs" | "steady"
          swaps,          \* history: nodes that decided to swap their primary
          dropped,        \* history: a data packet was sent on a primary whose peer side does not exist (yet)
          hist            \* history of environment actions, for replay

vars == <<ta, tb, pa, pb, inA, inB, outA, outB, pdA, pdB, net, sent, phase, swaps, dropped, hist>>

F == [p \in Pairs |-> FALSE]

Init == /\ ta = {} /\ tb = {} /\ pa = "none" /\ pb = "none"
        /\ inA = F /\ inB = F /\ outA = F /\ outB = F /\ pdA = F /\ pdB = F
        /\ net = {} /\ sent = {} /\ phase = "hs" /\ swaps = {} /\ dropped = FALSE /\ hist = <<>>

Log(e) == hist' = IF RecordHist THEN Append(hist, e) ELSE hist

(* ---- phase 1: handshakes ---- *)
\* an inside packet at A / B while it has no tunnel to the peer: stage 1 goes out
StartA == /\ phase = "hs" /\ ta = {} /\ "hs1x" \notin sent /\ sent' = sent \cup {"hs1x"} /\ net' = net \cup {"hs1x"} /\ Log("StartA")
          /\ UNCHANGED <<ta, tb, pa, pb, inA, inB, outA, outB, pdA, pdB, phase, swaps, dropped>>
StartB == /\ phase = "hs" /\ tb = {} /\ "hs1y" \notin sent /\ sent' = sent \cup {"hs1y"} /\ net' = net \cup {"hs1y"} /\ Log("StartB")
          /\ UNCHANGED <<ta, tb, pa, pb, inA, inB, outA, outB, pdA, pdB, phase, swaps, dropped>>

\* stage 1 of pair x reaches B: B adds its responder side as primary (first time) or resends the cached stage 2
Hs1AtB == /\ phase = "hs" /\ "hs1x" \in net /\ Log("Deliver:hs1x")
          /\ IF "x" \in tb THEN UNCHANGED <<tb, pb>> ELSE tb' = tb \cup {"x"} /\ pb' = "x"
          /\ net' = net \cup {"hs2x"}
          /\ UNCHANGED <<ta, pa, inA, inB, outA, outB, pdA, pdB, sent, phase, swaps, dropped>>
Hs1AtA == /\ phase = "hs" /\ "hs1y" \in net /\ Log("Deliver:hs1y")
          /\ IF "y" \in ta THEN UNCHANGED <<ta, pa>> ELSE ta' = ta \cup {"y"} /\ pa' = "y"
          /\ net' = net \cup {"hs2y"}
          /\ UNCHANGED <<tb, pb, inA, inB, outA, outB, pdA, pdB, sent, phase, swaps, dropped>>
\* stage 2 of pair x reaches A: the pending handshake completes (first time) and the tunnel becomes primary
Hs2AtA == /\ phase = "hs" /\ "hs2x" \in net /\ Log("Deliver:hs2x")
          /\ IF "x" \in ta THEN UNCHANGED <<ta, pa>> ELSE ta' = ta \cup {"x"} /\ pa' = "x"
          /\ UNCHANGED <<tb, pb, inA, inB, outA, outB, pdA, pdB, net, sent, phase, swaps, dropped>>
Hs2AtB == /\ phase = "hs" /\ "hs2y" \in net /\ Log("Deliver:hs2y")
          /\ IF "y" \in tb THEN UNCHANGED <<tb, pb>> ELSE tb' = tb \cup {"y"} /\ pb' = "y"
          /\ UNCHANGED <<ta, pa, inA, inB, outA, outB, pdA, pdB, net, sent, phase, swaps, dropped>>

\* the handshake phase ends when every handshake that was started has completed on both sides (single copies may
\* have been lost or duplicated on the way: the initiator retransmits and the responder resends its cached reply)
Settle == /\ phase = "hs" /\ sent # {}
          /\ ("hs1x" \in sent => ("x" \in ta /\ "x" \in tb)) /\ ("hs1y" \in sent => ("y" \in ta /\ "y" \in tb))
          /\ phase' = "steady" /\ Log("Settle")
          /\ UNCHANGED <<ta, tb, pa, pb, inA, inB, outA, outB, pdA, pdB, net, sent, swaps, dropped>>

\* ... or when the network has lost every copy of a handshake that is still incomplete and goes on losing the
\* retransmissions until its initiator gives up: a node may be left with the responder side of a handshake whose
\* initiator never completed it (a half-open tunnel, which only the connection manager's probe discovers)
Complete(p) == p \in ta /\ p \in tb
GiveUp == /\ phase = "hs" /\ sent # {} /\ (ta # {} \/ tb # {})
          /\ \E p \in Pairs : ("hs1" \o p) \in sent /\ ~Complete(p)
          /\ phase' = "steady" /\ Log("GiveUp")
          /\ UNCHANGED <<ta, tb, pa, pb, inA, inB, outA, outB, pdA, pdB, net, sent, swaps, dropped>>

(* ---- traffic, in both phases ---- *)
DataA == /\ pa # "none" /\ Log("DataA")
         /\ outA' = [outA EXCEPT ![pa] = TRUE]
         /\ IF pa \in tb THEN inB' = [inB EXCEPT ![pa] = TRUE] /\ UNCHANGED dropped
                         ELSE dropped' = TRUE /\ UNCHANGED inB
         /\ UNCHANGED <<ta, tb, pa, pb, inA, outB, pdA, pdB, net, sent, phase, swaps>>
DataB == /\ pb # "none" /\ Log("DataB")
         /\ outB' = [outB EXCEPT ![pb] = TRUE]
         /\ IF pb \in ta THEN inA' = [inA EXCEPT ![pb] = TRUE] /\ UNCHANGED dropped
                         ELSE dropped' = TRUE /\ UNCHANGED inA
         /\ UNCHANGED <<ta, tb, pa, pb, inB, outA, pdA, pdB, net, sent, phase, swaps>>

(* ---- phase 2: connection manager check of one tunnel ---- *)
\* "Traffic flows": between two connection manager checks both nodes have sent on their primary. The traffic since
\* the previous check is folded into the check step.
TinA  == IF pb # "none" /\ pb \in ta THEN [inA EXCEPT ![pb] = TRUE] ELSE inA
TinB  == IF pa # "none" /\ pa \in tb THEN [inB EXCEPT ![pa] = TRUE] ELSE inB
ToutA == IF pa # "none" THEN [outA EXCEPT ![pa] = TRUE] ELSE outA
ToutB == IF pb # "none" THEN [outB EXCEPT ![pb] = TRUE] ELSE outB

\* A's address is smaller than B's: shouldSwapPrimary is true at A (peer address not less than mine), false at B
CheckA(t) ==
    /\ phase = "steady" /\ t \in ta /\ Log("CheckA")
    /\ LET iA == TinA  iB == TinB  oA == ToutA IN
       /\ IF iA[t]
            THEN /\ pdA' = [pdA EXCEPT ![t] = FALSE]
                 /\ IF t # pa THEN pa' = t /\ swaps' = swaps \cup {"A"} ELSE UNCHANGED <<pa, swaps>>
                 /\ inB' = iB /\ UNCHANGED ta
          ELSE IF pdA[t]
            THEN /\ ta' = ta \ {t}
                 /\ pa' = IF pa # t THEN pa ELSE IF Other(t) \in ta THEN Other(t) ELSE "none"
                 /\ pdA' = [pdA EXCEPT ![t] = FALSE]
                 /\ inB' = iB /\ UNCHANGED swaps
          ELSE IF t = pa /\ ~oA[t]
            THEN inB' = iB /\ UNCHANGED <<ta, pa, pdA, swaps>>                 \* idle primary: left alone
          ELSE /\ pdA' = [pdA EXCEPT ![t] = TRUE]                            \* probe (primary) or mark (non-primary)
               \* the test request of a primary reaches the peer if it still holds the pair
               /\ inB' = IF t = pa /\ t \in tb THEN [iB EXCEPT ![t] = TRUE] ELSE iB
               /\ UNCHANGED <<ta, pa, swaps>>
       \* inbound flag of t is consumed by the check; a probe that is answered sets it again
       /\ inA' = [iA EXCEPT ![t] = ~iA[t] /\ ~pdA[t] /\ t = pa /\ oA[t] /\ t \in tb]
       /\ outA' = [oA EXCEPT ![t] = FALSE]
    /\ outB' = ToutB
    /\ UNCHANGED <<tb, pb, pdB, net, sent, phase, dropped>>

CheckB(t) ==
    /\ phase = "steady" /\ t \in tb /\ Log("CheckB")
    /\ LET iA == TinA  iB == TinB  oB == ToutB IN
       /\ IF iB[t]
            THEN /\ pdB' = [pdB EXCEPT ![t] = FALSE]
                 /\ inA' = iA /\ UNCHANGED <<tb, pb>>                          \* B never swaps: migrate relays only
          ELSE IF pdB[t]
            THEN /\ tb' = tb \ {t}
                 /\ pb' = IF pb # t THEN pb ELSE IF Other(t) \in tb THEN Other(t) ELSE "none"
                 /\ pdB' = [pdB EXCEPT ![t] = FALSE]
                 /\ inA' = iA
          ELSE IF t = pb /\ ~oB[t]
            THEN inA' = iA /\ UNCHANGED <<tb, pb, pdB>>
          ELSE /\ pdB' = [pdB EXCEPT ![t] = TRUE]
               /\ inA' = IF t = pb /\ t \in ta THEN [iA EXCEPT ![t] = TRUE] ELSE iA
               /\ UNCHANGED <<tb, pb>>
       /\ inB' = [iB EXCEPT ![t] = ~iB[t] /\ ~pdB[t] /\ t = pb /\ oB[t] /\ t \in ta]
       /\ outB' = [oB EXCEPT ![t] = FALSE]
    /\ outA' = ToutA
    /\ UNCHANGED <<ta, pa, pdA, swaps, net, sent, phase, dropped>>

Next == /\ (RecordHist => Len(hist) < MaxHist)
        /\ \/ StartA \/ StartB \/ Hs1AtB \/ Hs1AtA \/ Hs2AtA \/ Hs2AtB \/ Settle \/ GiveUp \/ DataA \/ DataB
           \/ \E t \in Pairs : CheckA(t) \/ CheckB(t)

\* "traffic flows": both nodes keep sending; "quiet network": every tunnel is checked again and again
Fairness == /\ WF_vars(DataA) /\ WF_vars(DataB)
            /\ \A t \in Pairs : WF_vars(CheckA(t)) /\ WF_vars(CheckB(t))
Spec == Init /\ [][Next]_vars /\ Fairness

-----------------------------------------------------------------------------
(* C31 *)
AtMostOneSwaps == Cardinality(swaps) <= 1
Converged == ta = tb /\ Cardinality(ta) = 1 /\ pa = pb /\ pa \in ta
\* once the network is quiet (steady phase with traffic in both directions) both nodes end with the same single tunnel
Convergence == (phase = "steady" /\ ta # {} /\ tb # {}) ~> Converged
\* "traffic flows as soon as either handshake completes": data on a primary is never sent into the void.
\* NOT an invariant of the design: B adopts its responder side of pair x as primary when stage 1 arrives, before A has
\* seen stage 2 (named deviation, see DroppedOnFreshPrimary in the C31 check)
NeverDropped == ~dropped
TypeOK == pa \in Pairs \cup {"none"} /\ pb \in Pairs \cup {"none"} /\ ta \subseteq Pairs /\ tb \subseteq Pairs
View == <<ta, tb, pa, pb, inA, inB, outA, outB, pdA, pdB, net, sent, phase, swaps, dropped>>
=============================================================================
