SPECIFICATION Spec
INVARIANTS AttributionByKey AlteredDropped RelayBlind
CHECK_DEADLOCK FALSE
