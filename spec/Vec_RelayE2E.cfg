SPECIFICATION Spec
CONSTANTS FlipBits <- QuickBits
          Retypes <- MCRetypes
INVARIANTS AttributionByKey AlteredDropped RelayBlind
CHECK_DEADLOCK FALSE
