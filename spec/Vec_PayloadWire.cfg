SPECIFICATION Spec
CONSTANTS Mode = "vec"
          Alpha = "quick"
          MaxLen = 3
          SmallAlpha = "core"
          CoreLen = 4
          AsWritten = FALSE
INVARIANTS Link RoundTrip WfAccepted PrefixClosed SkipUnknown LastWins
CHECK_DEADLOCK FALSE
