SPECIFICATION Spec
CONSTANTS Mode = "vec"
          Alpha = "quick"
          Lens = {0, 1, 2, 3}
          SmallAlpha = "core"
          SmallLens = {4}
          Lattice = TRUE
          AsWritten = FALSE
INVARIANTS Link RoundTrip WfAccepted PrefixClosed SkipUnknown LastWins
CHECK_DEADLOCK FALSE
