SPECIFICATION Spec
CONSTANTS W = 4
          B = 2
          MaxC = 14
INVARIANTS TypeOK ResultAgrees CheckAgrees Link
VIEW View
CHECK_DEADLOCK FALSE
