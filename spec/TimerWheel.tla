----------------------------- MODULE TimerWheel -----------------------------
(***************************************************************************)
(* Hashed timing wheel of nebula (timeout.go): C33 "fires each item once,  *)
(* on time".                                                               *)
(*                                                                         *)
(* Reference layer : now, adv, st, addedAt, tmo, fresh, firedAt            *)
(*    the statement's vocabulary: a clock, the time of the latest Advance, *)
(*    per item whether it is outstanding, when it was added, with which    *)
(*    timeout, whether the wheel "was advanced to the current time" when   *)
(*    it was added, and when it became returnable.  RefPurgeOK says which  *)
(*    results of Purge the statement permits; it is all a recorded trace   *)
(*    is validated against (Trace_TimerWheel.tla).                         *)
(* Machine layer   : w = [cur, last, slots, exp, cached]                   *)
(*    TimerWheel.current / lastTick / wheel / expired / itemsCached, as    *)
(*    pure operators WNew / WAdd / WAdvance / WPurge on a record so that   *)
(*    Conntrack.tla embeds the same wheel.                                 *)
(* Link            : ExactlyOnce, NotEarly, NotLate, PurgeAgrees           *)
(*                                                                         *)
(* Time is an integer number of units; TickD units = one tick.  Item       *)
(* values are positive integers (NoItem = 0).                              *)
(***************************************************************************)
EXTENDS Integers, Sequences, FiniteSets, TLC

CONSTANTS TickD,      \* tick duration in time units        (NewTimerWheel min)
          Span,       \* wheel duration in time units        (NewTimerWheel max)
          Items,      \* item identities (positive integers)
          Timeouts,   \* timeouts offered to Add
          Gaps,       \* clock steps offered to Tick
          CacheMax,   \* timerCacheMax (50000 in the code)
          StaleAdds   \* TRUE: Add is also explored on a wheel that was not advanced to the current time

ASSUME TickD >= 1 /\ Span >= TickD /\ CacheMax >= 0

L      == (Span \div TickD) + 2         \* wheelLen
NoTick == -1
NoItem == 0

Min(a, b) == IF a < b THEN a ELSE b
Max(a, b) == IF a > b THEN a ELSE b
RoundUp(d) == ((d + TickD - 1) \div TickD) * TickD
Range(s) == {s[k] : k \in 1..Len(s)}

-----------------------------------------------------------------------------
(* Machine: timeout.go, one operator per method *)

WNew == [cur |-> 0, last |-> NoTick, slots |-> [s \in 0..L-1 |-> <<>>], exp |-> <<>>, cached |-> 0]

\* findWheel
WFind(w, to) ==
    LET t1 == IF to < TickD THEN TickD ELSE IF to > Span THEN Span ELSE to
        k  == ((t1 - 1) \div TickD) + 1 + w.cur + 1
    IN IF k >= L THEN k - L ELSE k

\* Add: take a TimeoutItem from the cache if there is one, append to the slot's list
WAdd(w, v, to) ==
    LET i == WFind(w, to)
    IN [w EXCEPT !.slots[i] = Append(@, v), !.cached = IF @ > 0 THEN @ - 1 ELSE 0]

\* the loop of Advance: n single ticks, each moves the list of the new current slot behind expired
RECURSIVE WStep(_, _)
WStep(w, n) ==
    IF n = 0 THEN w
    ELSE LET c == IF w.cur + 1 >= L THEN 0 ELSE w.cur + 1
         IN WStep([w EXCEPT !.cur = c, !.exp = @ \o w.slots[c], !.slots[c] = <<>>], n - 1)

\* Advance(now): lazy ticking, at most one revolution, lastTick moves by whole ticks
WAdvance(w, t) ==
    LET lt  == IF w.last = NoTick THEN t ELSE w.last
        a   == (t - lt) \div TickD
        n   == IF a > L THEN L ELSE a
        w1  == WStep(w, n)
    IN [w1 EXCEPT !.last = lt + a * TickD]

\* Purge: pop the head of expired, recycle the TimeoutItem unless the cache is full
WPurge(w) ==
    IF w.exp = <<>> THEN [w |-> w, has |-> FALSE, v |-> NoItem]
    ELSE [w   |-> [w EXCEPT !.exp = Tail(@), !.cached = IF @ < CacheMax THEN @ + 1 ELSE @],
          has |-> TRUE, v |-> Head(w.exp)]

WInSlots(w) == UNION {Range(w.slots[s]) : s \in 0..L-1}
WCount(w, v) == LET Cnt(s) == Cardinality({k \in 1..Len(s) : s[k] = v})
                    RECURSIVE Sum(_)
                    Sum(n) == IF n < 0 THEN 0 ELSE Cnt(w.slots[n]) + Sum(n - 1)
                IN Sum(L - 1) + Cnt(w.exp)

-----------------------------------------------------------------------------
VARIABLES now,       \* the clock
          adv,       \* argument of the latest Advance (-1: never advanced)
          w,         \* the machine
          st,        \* st[i] \in {"free", "pending"}: i is outstanding (added, not yet returned)
          addedAt, tmo, fresh,   \* of the outstanding incarnation of i
          firedAt,   \* history: value of adv when the machine moved i to expired (-1: not yet)
          res,       \* result of the latest Purge: [has, v]
          ok         \* the latest Purge result was permitted by the statement

refvars == <<now, adv, st, addedAt, tmo, fresh>>
vars    == <<now, adv, w, st, addedAt, tmo, fresh, firedAt, res, ok>>

NoRes == [has |-> FALSE, v |-> NoItem]

(* Reference: the statement.  Bounds are relative to the time of the Add.                   *)
(* "no earlier than its timeout rounded up to the tick (capped at the span)": the weaker of *)
(* the two orders of capping and rounding is taken for each bound.                          *)
LoOff(to) == Min(RoundUp(to), Span)
UpOff(to) == RoundUp(Min(to, Span)) + 2 * TickD
LoDue(i)  == addedAt[i] + LoOff(tmo[i])
UpDue(i)  == addedAt[i] + UpOff(tmo[i])

Claimed(i) == st[i] = "pending" /\ fresh[i]
Overdue    == {i \in Items : Claimed(i) /\ adv >= UpDue(i)}

\* Which results may Purge deliver?
RefPurgeOK(has, v) ==
    IF has THEN /\ v \in Items /\ st[v] = "pending"                  \* at most once per Add
                /\ fresh[v] => adv >= LoDue(v)                        \* not early
           ELSE Overdue = {}                                          \* not late: something must come out

RefAddAt(i, to, t) == /\ st[i] = "free"
                      /\ st' = [st EXCEPT ![i] = "pending"]
                      /\ addedAt' = [addedAt EXCEPT ![i] = t]
                      /\ tmo' = [tmo EXCEPT ![i] = to]
                      /\ fresh' = [fresh EXCEPT ![i] = (adv = t)]    \* "a wheel that was advanced to the current time"
RefAdd(i, to) == RefAddAt(i, to, now)
RefReturn(has, v) == /\ st' = IF has /\ v \in Items THEN [st EXCEPT ![v] = "free"] ELSE st
                     /\ UNCHANGED <<addedAt, tmo, fresh>>

-----------------------------------------------------------------------------
Init == /\ now = 0 /\ adv = -1 /\ w = WNew
        /\ st = [i \in Items |-> "free"]
        /\ addedAt = [i \in Items |-> 0] /\ tmo = [i \in Items |-> 0] /\ fresh = [i \in Items |-> FALSE]
        /\ firedAt = [i \in Items |-> -1]
        /\ res = NoRes /\ ok = TRUE

Tick(d) == /\ now' = now + d
           /\ UNCHANGED <<adv, w, st, addedAt, tmo, fresh, firedAt>> /\ res' = NoRes /\ ok' = TRUE

Advance == /\ adv' = now
           /\ w' = WAdvance(w, now)
           /\ firedAt' = [i \in Items |-> IF i \in Range(w'.exp) /\ i \notin Range(w.exp) THEN now ELSE firedAt[i]]
           /\ UNCHANGED <<now, st, addedAt, tmo, fresh>> /\ res' = NoRes /\ ok' = TRUE

AddStep(i, to) == /\ RefAdd(i, to)
                  /\ StaleAdds \/ adv = now
                  /\ \A j \in Items : j < i => st[j] # "free"       \* items are interchangeable: take the smallest free one
                  /\ w' = WAdd(w, i, to)
                  /\ firedAt' = [firedAt EXCEPT ![i] = -1]
                  /\ UNCHANGED <<now, adv>> /\ res' = NoRes /\ ok' = TRUE

\* The recycled-item cache (a bounded freelist of TimeoutItems, timerCacheMax = CacheMax): one action per path of
\* Add (cache empty: a new TimeoutItem / cache non-empty: a recycled one) and of Purge (nothing expired / the
\* TimeoutItem goes to the cache / the cache is full and the TimeoutItem is dropped), so that the paths are
\* distinguishable in TLC's state graph.  The reference does not know the cache: every path must give the same
\* reference-level result.
AddNew(i, to)      == w.cached = 0 /\ AddStep(i, to)
AddRecycled(i, to) == w.cached > 0 /\ AddStep(i, to)
Add(i, to)         == AddNew(i, to) \/ AddRecycled(i, to)

PurgeStep == LET r == WPurge(w) IN
             /\ w' = r.w
             /\ res' = [has |-> r.has, v |-> r.v]
             /\ ok' = RefPurgeOK(r.has, r.v)
             /\ RefReturn(r.has, r.v)
             /\ UNCHANGED <<now, adv, firedAt>>
PurgeEmpty == w.exp = <<>> /\ PurgeStep
PurgeCache == w.exp # <<>> /\ w.cached < CacheMax /\ PurgeStep
PurgeDrop  == w.exp # <<>> /\ w.cached >= CacheMax /\ PurgeStep
Purge      == PurgeEmpty \/ PurgeCache \/ PurgeDrop

Next == \/ \E d \in Gaps : Tick(d)
        \/ Advance
        \/ \E i \in Items, to \in Timeouts : AddNew(i, to) \/ AddRecycled(i, to)
        \/ PurgeEmpty \/ PurgeCache \/ PurgeDrop

Spec == Init /\ [][Next]_vars

-----------------------------------------------------------------------------
(* Link between machine and reference *)
TypeOK == /\ w.cur \in 0..L-1 /\ w.cached \in 0..CacheMax
          /\ w.last = NoTick \/ (w.last <= now /\ adv >= w.last /\ adv - w.last < TickD)
          /\ adv <= now

\* an outstanding item sits in exactly one place of the machine, a returned one nowhere
ExactlyOnce == \A i \in Items : WCount(w, i) = (IF st[i] = "pending" THEN 1 ELSE 0)

\* the machine makes an item returnable no earlier than permitted ...
NotEarly == \A i \in Items : Claimed(i) /\ i \in Range(w.exp) => firedAt[i] >= LoDue(i) /\ adv >= LoDue(i)
\* ... and an Advance(now) with now >= added + RoundUp(min(timeout, span)) + 2 ticks has moved it to expired
NotLate  == \A i \in Overdue : i \in Range(w.exp)
\* every result of the machine's Purge is one the statement permits
PurgeAgrees == ok

(* Exploration view: only differences of times matter, and only up to a bound *)
D      == IF w.last = NoTick THEN -1 ELSE now - w.last
NormD  == IF D >= (L + 1) * TickD THEN (L + 1) * TickD + (D % TickD) ELSE D
MaxAge == RoundUp(Span) + 2 * TickD
Clip(x) == IF x > MaxAge THEN MaxAge ELSE x
ItemView(i) == IF st[i] = "free" THEN <<0>>
               ELSE IF ~fresh[i] THEN <<1>>
               ELSE <<2, Clip(adv - addedAt[i]), tmo[i],
                      IF i \in Range(w.exp) THEN Clip(firedAt[i] - addedAt[i]) ELSE -1>>
\* the wheel is invariant under rotation: slots are viewed relative to the current one
RotSlots == [k \in 0..L-1 |-> w.slots[(w.cur + k) % L]]
View == <<NormD, IF adv = -1 THEN -1 ELSE Clip(now - adv), RotSlots, w.exp, w.cached,
          [i \in Items |-> ItemView(i)], res, ok>>
=============================================================================
