SPECIFICATION TraceSpec
CONSTANTS TcpT = 2
          UdpT = 1
          OthT = 3
          MaxFlow = 6
          Flows <- TraceFlows
          ProtoOf <- TraceProto
          TO <- TraceTO
          InitRules <- NoSets
          RuleSets <- NoSets
          Reloads = FALSE
          Cfgs <- NoCfgs
          InitCfg = 0
          EffOf <- EffNone
          VerMod = 4
          Gaps <- NoSets
          MaxItems = 0
          IdleMatters = TRUE
          CheckExpiry = TRUE
          WrapKeeps = TRUE
          Routines <- NoRoutines
          CachePeriod = 1
          CacheSlack = 0
POSTCONDITION TraceAccepted
CHECK_DEADLOCK FALSE
