SPECIFICATION Spec
CONSTANTS Thorough = FALSE
          WalkLimit = 8
          Design = "as-written"
INVARIANTS Link ProtoNeverExt
CHECK_DEADLOCK FALSE
