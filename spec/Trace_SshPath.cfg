SPECIFICATION TraceSpec
CONSTANT MaxLen = 4
CHECK_DEADLOCK FALSE
