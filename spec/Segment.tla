------------------------------- MODULE Segment -------------------------------
(***************************************************************************)
(* C24 -- segmentation of a TCP/UDP offload superpacket read from the tun  *)
(* device (overlay/tio/virtio/segment_linux.go: SegmentTCP, SegmentUDP;    *)
(* overlay/tio: SegmentSuperpacket).                                       *)
(*                                                                         *)
(* A superpacket is abstract: [fam, proto, ipopt, l4opt, paylen, gso, seq, *)
(* id, flags].  seq and id are integers; the harness maps them to the wire *)
(* modulo 2^32 / 2^16, so a negative value is a value just below the wrap  *)
(* (TLC integers are 32-bit; addition commutes with the reduction).  A     *)
(* segment is [len, seq, id, flags, ok]: payload length, sequence number,  *)
(* IPv4 ID, TCP flags, and ok = the harness' independent judgement that    *)
(* the bytes are a valid IP packet with correct IP and transport checksums *)
(* and lengths, whose payload is the next len bytes of the original        *)
(* payload and whose other header fields are the superpacket's.            *)
(*                                                                         *)
(* Reference layer : IsSegmentation(out, sup) -- the statement             *)
(* Machine layer   : Segments(sup) -- the loop of SegmentTCP / SegmentUDP  *)
(* Link            : MachineOK, checked by TLC on every vector             *)
(***************************************************************************)
EXTENDS Integers, Sequences, FiniteSets, TLC

CONSTANT Thorough

RECURSIVE SumSeq(_)
SumSeq(s) == IF s = <<>> THEN 0 ELSE Head(s) + SumSeq(Tail(s))
Lens(out) == [j \in 1..Len(out) |-> out[j].len]
Before(out, j) == SumSeq(SubSeq(Lens(out), 1, j - 1))
ToSet(f) == { f[j] : j \in DOMAIN f }

FirstOnly == {"CWR"}
LastOnly  == {"FIN", "PSH"}

-----------------------------------------------------------------------------
(* Reference (the statement) *)
IsSegmentation(out, sup) ==
    LET n == Len(out) IN
    /\ n >= 1
    /\ SumSeq(Lens(out)) = sup.paylen                         \* payloads concatenate to the original payload
    /\ \A j \in 1..n :
         /\ out[j].ok                                         \* valid packet, checksums, lengths, payload in order
         /\ out[j].len <= sup.gso                             \* at most the segment size
         /\ out[j].len >= 0 /\ (out[j].len = 0 => sup.paylen = 0)   \* header-only input: one header-only segment
         /\ sup.proto = "tcp" =>
              /\ out[j].seq = sup.seq + Before(out, j)        \* sequence numbers advance by payload
              /\ ToSet(out[j].flags) \ (FirstOnly \cup LastOnly) = ToSet(sup.flags) \ (FirstOnly \cup LastOnly)
              /\ \A f \in FirstOnly : f \in ToSet(out[j].flags) <=> (j = 1 /\ f \in ToSet(sup.flags))
              /\ \A f \in LastOnly  : f \in ToSet(out[j].flags) <=> (j = n /\ f \in ToSet(sup.flags))
         /\ sup.fam = 4 => out[j].id = sup.id + j - 1         \* IPv4 IDs increment
    /\ sup.paylen = 0 => n = 1

-----------------------------------------------------------------------------
(* Machine (SegmentTCP / SegmentUDP): numSeg = max(1, ceil(paylen / gso)), slices at i * gso *)
NumSeg(sup) == IF sup.paylen = 0 THEN 1 ELSE (sup.paylen + sup.gso - 1) \div sup.gso
Order == <<"FIN", "SYN", "RST", "PSH", "ACK", "URG", "ECE", "CWR">>
SortFlags(S) == SelectSeq(Order, LAMBDA f : f \in S)
Segments(sup) ==
    LET n == NumSeg(sup) IN
    [j \in 1..n |->
       LET start == (j - 1) * sup.gso
           end   == IF start + sup.gso > sup.paylen THEN sup.paylen ELSE start + sup.gso
           fl    == (ToSet(sup.flags) \ (IF j # 1 THEN FirstOnly ELSE {})) \ (IF j # n THEN LastOnly ELSE {})
       IN [len |-> end - start,
           seq |-> IF sup.proto = "tcp" THEN sup.seq + start ELSE 0,
           id  |-> IF sup.fam = 4 THEN sup.id + j - 1 ELSE 0,
           flags |-> IF sup.proto = "tcp" THEN SortFlags(fl) ELSE <<>>,
           ok |-> TRUE]]

\* what the machine fixes beyond the statement: the packing is maximal (all but the last segment are full)
SameAsMachine(out, sup) ==
    /\ Len(out) = NumSeg(sup)
    /\ \A j \in 1..Len(out) : out[j].len = Segments(sup)[j].len

-----------------------------------------------------------------------------
(* Vectors *)
Geo(g) == { [gso |-> g, paylen |-> p] : p \in 0..(3 * g + 1) }
BigGeo(g) == { [gso |-> g, paylen |-> p] : p \in {0, 1, g - 1, g, g + 1, 2 * g - 1, 2 * g, 2 * g + 1, 3 * g, 3 * g + 1} }
Geos == UNION { Geo(g) : g \in {1, 2, 3, 4, 7} } \cup
        (IF Thorough THEN BigGeo(1448) \cup BigGeo(1398) \cup BigGeo(536) \cup Geo(13) \cup BigGeo(9000) ELSE BigGeo(1448))

\* header variants: IPv4 without / with options, IPv6 without / with an 8-byte extension header; TCP options; UDP
Hdrs == { [fam |-> 4, proto |-> "tcp", ipopt |-> a, l4opt |-> b] : a \in {0, 4, 40}, b \in {0, 12, 40} } \cup
        { [fam |-> 6, proto |-> "tcp", ipopt |-> a, l4opt |-> b] : a \in {0, 8}, b \in {0, 12, 40} } \cup
        { [fam |-> 4, proto |-> "udp", ipopt |-> a, l4opt |-> 0] : a \in {0, 4, 40} } \cup
        { [fam |-> 6, proto |-> "udp", ipopt |-> a, l4opt |-> 0] : a \in {0, 8} }
PlainHdrs == { h \in Hdrs : h.ipopt = 0 /\ h.l4opt = 0 }

FlagSets == { <<"ACK">>, <<"PSH", "ACK">>, <<"FIN", "PSH", "ACK">>, <<"ACK", "ECE", "CWR">>,
              <<"FIN", "PSH", "ACK", "URG", "ECE", "CWR">>, <<>>, <<"FIN", "ACK">>, <<"PSH", "ACK", "CWR">> }
\* <<seq, id>>: at the wrap (-1 = 2^32-1 / 65535), wrapping inside the burst, mid-range
Wraps(g) == IF Thorough THEN {1000, -1, 0 - (g + 1), 1073741824} \X {1000, -1, -2, 0}
            ELSE {<<1000, -1>>, <<-1, 1000>>, <<0 - (g + 1), -2>>, <<1073741824, 0>>}
WrapHdrs == { h \in Hdrs : \/ (h.fam = 4 /\ h.proto = "tcp" /\ h.ipopt = 4 /\ h.l4opt = 12)
                           \/ (h.fam = 6 /\ h.proto = "tcp" /\ h.ipopt = 0 /\ h.l4opt = 0)
                           \/ (h.fam = 4 /\ h.proto = "udp" /\ h.ipopt = 0)
                           \/ (Thorough /\ h.ipopt \in {0, 4} /\ h.l4opt \in {0, 12}) }

Sup(h, g, s, d, f) == [fam |-> h.fam, proto |-> h.proto, ipopt |-> h.ipopt, l4opt |-> h.l4opt,
                       paylen |-> g.paylen, gso |-> g.gso, seq |-> IF h.proto = "tcp" THEN s ELSE 0,
                       id |-> IF h.fam = 4 THEN d ELSE 0, flags |-> IF h.proto = "tcp" THEN f ELSE <<>>]

Inputs ==
    \* every header variant x every geometry
    { Sup(h, g, 1000, 1000, <<"PSH", "ACK">>) : h \in Hdrs, g \in Geos } \cup
    \* every flag set x every geometry
    { Sup(h, g, 1000, 1000, f) : h \in { x \in PlainHdrs : x.proto = "tcp" }, g \in Geos, f \in FlagSets } \cup
    \* sequence numbers and IDs at the wrap x every geometry
    UNION { { Sup(h, g, w[1], w[2], <<"FIN", "PSH", "ACK", "CWR">>) : w \in Wraps(g.gso), h \in WrapHdrs } : g \in Geos } \cup
    (IF Thorough THEN { Sup(h, g, -1, -1, f) : h \in Hdrs, g \in Geos,
                                               f \in {<<"FIN", "PSH", "ACK", "URG", "ECE", "CWR">>, <<"ACK">>, <<"PSH", "ACK", "CWR">>} }
     ELSE {})

VARIABLES in, exp
vars == <<in, exp>>
Init == in \in Inputs /\ exp = Segments(in)
Next == UNCHANGED vars
Spec == Init /\ [][Next]_vars

(* Link *)
MachineOK == IsSegmentation(exp, in) /\ SameAsMachine(exp, in)
\* all but the last segment are full, the last is not empty unless the input is header-only
Packing == /\ \A j \in 1..(Len(exp) - 1) : exp[j].len = in.gso
           /\ (in.paylen > 0 => exp[Len(exp)].len \in 1..in.gso)
\* the statement rejects the classic mistakes (so that the relation is not vacuous)
Mut(j, f(_)) == [exp EXCEPT ![j] = f(exp[j])]
Rejects ==
    LET n == Len(exp) IN
    /\ (n >= 2 /\ in.proto = "tcp" /\ "PSH" \in ToSet(in.flags)) =>
          ~IsSegmentation(Mut(1, LAMBDA s : [s EXCEPT !.flags = SortFlags(ToSet(s.flags) \cup {"PSH"})]), in)
    /\ (n >= 2 /\ in.proto = "tcp" /\ "CWR" \in ToSet(in.flags)) =>
          ~IsSegmentation(Mut(n, LAMBDA s : [s EXCEPT !.flags = SortFlags(ToSet(s.flags) \cup {"CWR"})]), in)
    /\ (n >= 2 /\ in.fam = 4) => ~IsSegmentation(Mut(2, LAMBDA s : [s EXCEPT !.id = in.id]), in)
    /\ (n >= 2 /\ in.proto = "tcp") => ~IsSegmentation(Mut(2, LAMBDA s : [s EXCEPT !.seq = in.seq]), in)
    /\ n >= 2 => ~IsSegmentation(SubSeq(exp, 1, n - 1), in)
    /\ ~IsSegmentation(Mut(1, LAMBDA s : [s EXCEPT !.ok = FALSE]), in)
=============================================================================
