---------------------------- MODULE Trace_Hostmap ----------------------------
(* Trace validation of recorded operations on a real HostMap / HandshakeManager against   *)
(* Hostmap.tla.  One ndjson line per call: event, arguments, observed result, and the     *)
(* projected maps after the call (tunnel ids; arrays indexed by address / index value,    *)
(* 0 = no entry):                                                                         *)
(*   {"ev":"reset"}                                                                       *)
(*   {"ev":"Delete","t":3,"res":"final","hosts":[[1],[]],"indexes":[1,0],...}             *)
(* Which tunnels an Add evicts is NOT prescribed: any admissible eviction set (AddAny) is *)
(* accepted.  Index draws are logged; a successful allocation must end on a free drawn    *)
(* value, a failed one must have seen only taken values.  tun / nused are inferred.       *)
EXTENDS Hostmap, Json

Log == ndJsonDeserialize("trace.ndjson")

VARIABLE l
tvars == <<vars, l>>

TraceInit == Init /\ l = 1

IsEvent(e) == l <= Len(Log) /\ Log[l].ev = e /\ l' = l + 1

LoggedMain == [hosts |-> Log[l].hosts, indexes |-> Log[l].indexes,
               remoteIndexes |-> Log[l].remoteIndexes, relays |-> Log[l].relays]
Logged == /\ hosts' = Log[l].hosts /\ indexes' = Log[l].indexes
          /\ remoteIndexes' = Log[l].remoteIndexes /\ relays' = Log[l].relays
          /\ vpnIps' = Log[l].vpnIps /\ pIndexes' = Log[l].pIndexes

NonZeroDraws(d) == SelectSeq(d, LAMBDA x : x # 0)

TraceReset == /\ IsEvent("reset")
              /\ tun' = [t \in Tunnels |-> NoTun] /\ nused' = 0
              /\ hosts' = [a \in Addrs |-> <<>>]
              /\ indexes' = [i \in Idx |-> None] /\ remoteIndexes' = [r \in RIdx |-> None]
              /\ relays' = [i \in Idx |-> None]
              /\ vpnIps' = [a \in Addrs |-> None] /\ pIndexes' = [i \in Idx |-> None]
              /\ step' = Step("Init", 0, <<>>, 0, 0, 0, FALSE, "")

\* arguments outside the model's domains make a line unacceptable (instead of a TLC evaluation error)
OkT(t)   == t \in Tunnels
OkSh(sh) == sh # <<>> /\ \A k \in DOMAIN sh : sh[k] \in Addrs

TraceStart == /\ IsEvent("StartHandshake")
              /\ Log[l].a \in Addrs /\ OkT(Log[l].t)
              /\ StartHandshake(Log[l].a, Log[l].t)
              /\ Logged

TraceAlloc == /\ IsEvent("AllocateIndex")
              /\ OkT(Log[l].t) /\ (Log[l].res = "ok" => Log[l].i \in Idx)
              /\ LET nz == NonZeroDraws(Log[l].draws)
                 IN IF Log[l].res = "ok"
                    THEN /\ Log[l].i \in Range(nz)
                         /\ AllocateIndex(Log[l].t, Log[l].i)
                    ELSE /\ Log[l].res = "exhausted"
                         /\ \A k \in DOMAIN nz : nz[k] \in Idx /\ Taken(nz[k])
                         /\ AllocateIndexFail(Log[l].t)
              /\ Logged

TraceCAC == /\ IsEvent("CheckAndComplete")
            /\ Log[l].i \in Idx /\ Log[l].r \in RIdx /\ OkSh(Log[l].sh) /\ Log[l].dup \in 0..NT
            /\ Log[l].res = "ok" => Log[l].t = nused + 1
            /\ CheckAndCompleteW(Log[l].sh, Log[l].i, Log[l].r, Log[l].dup, Log[l].older, Log[l].res, LoggedMain)
            /\ Logged

TraceComplete == /\ IsEvent("Complete")
                 /\ OkT(Log[l].t) /\ Log[l].r \in RIdx /\ OkSh(Log[l].sh)
                 /\ CompleteW(Log[l].t, Log[l].sh, Log[l].r, LoggedMain)
                 /\ Logged

TraceDelete == /\ IsEvent("Delete")
               /\ OkT(Log[l].t)
               /\ Delete(Log[l].t, Log[l].res = "final")
               /\ Log[l].res \in {"final", "more"}
               /\ Logged

TraceMakePrimary == /\ IsEvent("MakePrimary")
                    /\ OkT(Log[l].t)
                    /\ MakePrimary(Log[l].t)
                    /\ Logged

TraceAddRelay == /\ IsEvent("AddRelay")
                 /\ OkT(Log[l].t) /\ (Log[l].res # "exhausted" => Log[l].i \in Idx)
                 /\ LET nz == NonZeroDraws(Log[l].draws)
                    IN IF Log[l].res = "exhausted"
                       THEN /\ \A k \in DOMAIN nz : nz[k] \in Idx /\ relays[nz[k]] # None
                            /\ AddRelayFail(Log[l].t)
                       ELSE /\ Log[l].i \in Range(nz)
                            /\ AddRelay(Log[l].t, Log[l].i, Log[l].res)
                 /\ Logged

TraceDeletePending == /\ IsEvent("DeletePending")
                      /\ OkT(Log[l].t)
                      /\ DeletePending(Log[l].t)
                      /\ Logged

TraceNext == \/ TraceReset \/ TraceStart \/ TraceAlloc \/ TraceCAC \/ TraceComplete
             \/ TraceDelete \/ TraceMakePrimary \/ TraceAddRelay \/ TraceDeletePending
TraceSpec == TraceInit /\ [][TraceNext]_tvars

TraceAccepted == TLCGet("stats").diameter - 1 = Len(Log)
=============================================================================
