CONSTANTS Which = "good"
          MaxLocks = 3
INIT Init
NEXT Next
INVARIANTS TypeOK NoWaitCycle NoSelfRelock NoBadUnlock
CHECK_DEADLOCK TRUE
