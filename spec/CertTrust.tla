------------------------------ MODULE CertTrust ------------------------------
(***************************************************************************)
(* Certificate trust (cert/ca_pool.go, cert/sign.go): C01 and C04.         *)
(*                                                                         *)
(* Reference layer : Within, Accept, SignOK -- written from the statements *)
(*                   of C01/C04 (validity as a closed interval of seconds, *)
(*                   network "inside" as inclusion of address ranges).     *)
(* Machine layer   : ConstraintsM (checkCAConstraints), VerifyM (verify),  *)
(*                   FullM (VerifyCertificate), CachedM                    *)
(*                   (VerifyCachedCertificate with the cached signer       *)
(*                   fingerprint), SignM (SignWith) -- the code's order of *)
(*                   tests and its error kinds; and the cached-check       *)
(*                   machine FullCheck/CachedCheck/Blocklist/Unblock/      *)
(*                   ReplacePool/Tick.                                     *)
(* Link            : ConstraintLink, VerifyRefines, CachedRefines,         *)
(*                   SignLink, IssuedVerifies (vector modes);              *)
(*                   FullAgrees, LinkHonest, LinkSafe (machine mode).      *)
(*                                                                         *)
(* Abstract values.  Addresses are AB-bit numbers, a prefix is             *)
(* [f: family, a: address (host bits allowed), b: length]; the harness     *)
(* embeds them order-preservingly into IPv4/IPv6.  Times are 0..TMax       *)
(* (seconds after a base).  A CA is [id, gen, ver, curve, nb, na, groups,  *)
(* nets, unsafe]: (id, curve) names the key pair, the whole record stands  *)
(* for the fingerprint (two CA certificates with the same key but another  *)
(* field differ in fingerprint).  A certificate is [ver, curve, isCA, nb,  *)
(* na, groups, nets, unsafe, issuer (a CA record = its fingerprint), sig,  *)
(* badf]; sig: good = low-S signature by the issuer's key, twin = the same *)
(* signature in the other S form (P-256), bad = signature made before      *)
(* field badf was altered, wrongkey = signed by the key of CA "cax".       *)
(* Fingerprints of a certificate are symbolic: "fp" as presented, "fp2"    *)
(* with the signature in the other S form (P-256 only).                    *)
(* A pool is a set of entries [key, ca]; pools built by AddCA have         *)
(* key = ca (keyed by fingerprint).                                        *)
(***************************************************************************)
EXTENDS Integers, Sequences, FiniteSets, TLC

CONSTANTS Mode,       \* "c01" | "c04" : vector modes;  "machine" : cached-check machine;  "trace" : Init supplied elsewhere
          Thorough,   \* BOOLEAN: size of the lattice
          AB,         \* address bits of the abstract universe
          TMax        \* times are 0..TMax

Times == 0..TMax

Pow2(n) == 2 ^ n

-----------------------------------------------------------------------------
(* Reference layer: the statements of C01 / C04                              *)

\* first and last address of the range a prefix denotes
Lo(p) == (p.a \div Pow2(AB - p.b)) * Pow2(AB - p.b)
Hi(p) == Lo(p) + Pow2(AB - p.b) - 1

\* "stays inside the CA's network ranges": the range of n lies inside the range of one entry m
NetInside(n, m)   == n.f = m.f /\ Lo(m) <= Lo(n) /\ Hi(n) <= Hi(m)
NetsWithin(cn, can) == can = {} \/ \A n \in cn : \E m \in can : NetInside(n, m)

Within(ca, c) == /\ ca.nb <= c.nb /\ c.na <= ca.na                   \* validity window
                 /\ (ca.groups = {} \/ c.groups \subseteq ca.groups)  \* group list
                 /\ NetsWithin(c.nets, ca.nets)                       \* network ranges
                 /\ NetsWithin(c.unsafe, ca.unsafe)                   \* unsafe-network ranges

\* valid at t: NotBefore <= t <= NotAfter (whole seconds)
Expired(x, t) == t < x.nb \/ t > x.na

NoCA == [id |-> "none", gen |-> 0, ver |-> 0, curve |-> "none", nb |-> 0, na |-> 0,
         groups |-> {}, nets |-> {}, unsafe |-> {}]

Honest(S) == {[key |-> x, ca |-> x] : x \in S}
IsHonest(pool) == \A e \in pool : e.key = e.ca
Lookup(pool, iss) == {e.ca : e \in {x \in pool : x.key = iss}}

Forms(c) == IF c.curve = "p256" THEN {"fp", "fp2"} ELSE {"fp"}

\* the signature verifies under the key of CA s
SigVerifies(c, s) == \/ c.sig \in {"good", "twin"} /\ s.id = c.issuer.id /\ s.curve = c.issuer.curve
                     \/ c.sig = "wrongkey" /\ s.id = "cax" /\ s.curve = c.issuer.curve

TrustedBy(c, s, t) == /\ s.curve = c.curve
                      /\ ~Expired(s, t) /\ ~Expired(c, t)
                      /\ SigVerifies(c, s)
                      /\ Within(s, c)

Accept(c, pool, bl, t) == /\ Forms(c) \cap bl = {}
                          /\ \E s \in Lookup(pool, c.issuer) : TrustedBy(c, s, t)

\* C04: issuer = NoCA stands for self-signing (signer = nil)
SignOK(c) == IF c.issuer = NoCA THEN c.isCA
             ELSE c.curve = c.issuer.curve /\ ~c.isCA /\ Within(c.issuer, c)

SignWhy(c) == IF SignOK(c) THEN "ok"
              ELSE IF c.issuer = NoCA THEN "selfnotca"
              ELSE IF c.curve # c.issuer.curve THEN "curve"
              ELSE IF c.isCA THEN "isca"
              ELSE IF ~(c.issuer.nb <= c.nb /\ c.na <= c.issuer.na) THEN "win"
              ELSE IF ~(c.issuer.groups = {} \/ c.groups \subseteq c.issuer.groups) THEN "grp"
              ELSE IF ~NetsWithin(c.nets, c.issuer.nets) THEN "net"
              ELSE "unsafe"

\* first failing clause of the rule in a fixed order: used to *name* the class of a vector only
Why(c, pool, bl, t) ==
    IF Accept(c, pool, bl, t) THEN "ok"
    ELSE IF Accept(c, pool, {}, t) THEN "bl!"              \* the blocklist is the only reason
    ELSE IF Forms(c) \cap bl # {} THEN "bl"
    ELSE IF Lookup(pool, c.issuer) = {} THEN "noca"
    ELSE LET s == CHOOSE x \in Lookup(pool, c.issuer) : TRUE IN
         IF s.curve # c.curve THEN "curve"
         ELSE IF Expired(s, t) THEN "caexp"
         ELSE IF Expired(c, t) THEN "exp"
         ELSE IF ~SigVerifies(c, s) THEN "sig"
         ELSE IF ~(s.nb <= c.nb /\ c.na <= s.na) THEN "win"
         ELSE IF ~(s.groups = {} \/ c.groups \subseteq s.groups) THEN "grp"
         ELSE IF ~NetsWithin(c.nets, s.nets) THEN "net"
         ELSE "unsafe"

-----------------------------------------------------------------------------
(* Machine layer: what the Go code does                                      *)

\* netip.Prefix.Contains(addr) && signing.Bits() <= cert.Bits()
ContainsM(m, a) == a \div Pow2(AB - m.b) = m.a \div Pow2(AB - m.b)
NetOkM(n, m)    == m.f = n.f /\ ContainsM(m, n.a) /\ m.b <= n.b

\* checkCAConstraints: "" = nil
ConstraintsM(s, c) ==
    IF c.na > s.na THEN "after"
    ELSE IF c.nb < s.nb THEN "before"
    ELSE IF s.groups # {} /\ \E g \in c.groups : g \notin s.groups THEN "group"
    ELSE IF s.nets # {} /\ \E n \in c.nets : ~\E m \in s.nets : NetOkM(n, m) THEN "net"
    ELSE IF s.unsafe # {} /\ \E n \in c.unsafe : ~\E m \in s.unsafe : NetOkM(n, m) THEN "unsafe"
    ELSE ""

\* CAPool.verify(c, now, certFp, signerFp); signer = NoCA for a full check
VerifyM(c, pool, bl, t, signer) ==
    IF "fp" \in bl THEN "blocklisted"
    ELSE IF Lookup(pool, c.issuer) = {} THEN "nocafound"
    ELSE LET s == CHOOSE x \in Lookup(pool, c.issuer) : TRUE IN
         IF s.curve # c.curve THEN "curve"
         ELSE IF Expired(s, t) THEN "rootexpired"
         ELSE IF Expired(c, t) THEN "expired"
         ELSE IF signer # NoCA THEN (IF signer # s THEN "fpmismatch" ELSE "")
         ELSE IF ~SigVerifies(c, s) THEN "signature"
         ELSE ConstraintsM(s, c)

HasFp2(c) == c.curve = "p256"

\* VerifyCertificate: verify, then the alternate fingerprint against the blocklist
FullM(c, pool, bl, t) ==
    LET e == VerifyM(c, pool, bl, t, NoCA) IN
    IF e # "" THEN e ELSE IF HasFp2(c) /\ "fp2" \in bl THEN "blocklisted" ELSE ""

\* VerifyCachedCertificate: alternate fingerprint first, then verify with the cached signer fingerprint
CachedM(c, signer, pool, bl, t) ==
    IF HasFp2(c) /\ "fp2" \in bl THEN "blocklisted" ELSE VerifyM(c, pool, bl, t, signer)

\* the CA that a successful full check caches
SignerOf(c, pool) == CHOOSE x \in Lookup(pool, c.issuer) : TRUE

\* SignWith: the key handed in is the signer's own key (its curve is the signer's curve);
\* for self-signing the caller's key matches the certificate's curve
SignM(c) ==
    IF c.issuer # NoCA
    THEN IF c.issuer.curve # c.curve THEN "curve"
         ELSE IF c.isCA THEN "isca"
         ELSE ConstraintsM(c.issuer, c)
    ELSE IF ~c.isCA THEN "notca" ELSE ""

Verdict(e) == IF e = "" THEN "ok" ELSE IF e = "blocklisted" THEN "blocked" ELSE "rej"

-----------------------------------------------------------------------------
(* The abstract lattice (vector modes)                                       *)

P(a, b)  == [f |-> 4, a |-> a, b |-> b]
P6(a, b) == [f |-> 6, a |-> a, b |-> b]
\* with AB = 3: ranges  nR 0..7 | nA 0..3 | nB, nG 2..3 | nC {2} | nD {3} | nE 4..7 | nF {5}
nR == P(1, 0)  nA == P(2, 1)  nB == P(2, 2)  nG == P(3, 2)  nC == P(2, 3)  nD == P(3, 3)
nE == P(5, 1)  nF == P(5, 3)  nH == P(0, 1)  nI == P(4, 1)

UpTo2(S)   == {{}} \cup {{x} : x \in S} \cup {{x, y} : x, y \in S}
NonEmpty(SS) == SS \ {{}}

Combos == <<[cv |-> 1, av |-> 1, cu |-> "x25519"], [cv |-> 2, av |-> 2, cu |-> "p256"],
            [cv |-> 2, av |-> 1, cu |-> "x25519"], [cv |-> 1, av |-> 2, cu |-> "p256"],
            [cv |-> 2, av |-> 2, cu |-> "x25519"], [cv |-> 1, av |-> 1, cu |-> "p256"],
            [cv |-> 1, av |-> 2, cu |-> "x25519"], [cv |-> 2, av |-> 1, cu |-> "p256"]>>

MkCA(id, av, cu, w, g, n, u) ==
    [id |-> id, gen |-> 0, ver |-> av, curve |-> cu, nb |-> w[1], na |-> w[2], groups |-> g, nets |-> n, unsafe |-> u]
MkCert(cv, cu, isca, w, g, n, u, iss, sig, badf) ==
    [ver |-> cv, curve |-> cu, isCA |-> isca, nb |-> w[1], na |-> w[2], groups |-> g, nets |-> n, unsafe |-> u,
     issuer |-> iss, sig |-> sig, badf |-> badf]

Mid == TMax \div 2
CaWindows == <<<<1, TMax - 1>>, <<0, TMax>>, <<Mid, Mid>>>>
AllWindows == Times \X Times
Vec == Mode \in {"c01", "c04"}          \* the lattice is only built in the vector modes

\* quick: version/curve combinations rotate with the index of the vector; thorough: full product
Rot(k0, h) == IF Thorough THEN k0 ELSE (h % 8) + 1
KSet == IF Thorough THEN 1..4 ELSE {0}          \* thorough: both curves, equal and mixed versions (Combos[1..4])
WIdx(w) == w[1] * (TMax + 1) + w[2]

\* (1) every certificate window x CA windows x one (in / out) choice per other dimension
Other == <<[cg |-> {},           cn |-> {},   cun |-> {},   g |-> {"g1"}, n |-> {nC}, u |-> {nC}],
           [cg |-> {"g2"},       cn |-> {},   cun |-> {},   g |-> {"g1"}, n |-> {nC}, u |-> {nC}],
           [cg |-> {},           cn |-> {nF}, cun |-> {},   g |-> {"g1"}, n |-> {nC}, u |-> {}],
           [cg |-> {"g1", "g2"}, cn |-> {nB}, cun |-> {nA}, g |-> {"g1"}, n |-> {nC}, u |-> {nC}],
           [cg |-> {},           cn |-> {},   cun |-> {nE}, g |-> {},     n |-> {nC}, u |-> {nC}]>>
\* versions matter for time (Expired is implemented per version): all four version pairs, the curve rotates
SweepTime == IF ~Vec THEN {} ELSE
    { LET k == IF Thorough THEN k0 ELSE 2 * (k0 - 1) + ((WIdx(w) + cw + o) % 2) + 1 IN
      MkCert(Combos[k].cv, Combos[k].cu, FALSE, w, Other[o].g, Other[o].n, Other[o].u,
             MkCA("ca1", Combos[k].av, Combos[k].cu, CaWindows[cw], Other[o].cg, Other[o].cn, Other[o].cun),
             "good", "") :
      w \in AllWindows, cw \in 1..3, o \in 1..5, k0 \in IF Thorough THEN 1..8 ELSE 1..4 }

\* (2) groups x networks x unsafe networks x window crossed
GPairs == IF Thorough
          THEN <<<<{}, {}>>, <<{}, {"g1"}>>, <<{"g1"}, {}>>, <<{"g1"}, {"g1"}>>, <<{"g1"}, {"g2"}>>, <<{"g1"}, {"g1", "g2"}>>,
                 <<{"g1", "g2"}, {"g1"}>>, <<{"g1", "g2"}, {"g1", "g2"}>>, <<{"g1", "g2"}, {"g2", "g3"}>>,
                 <<{"g2"}, {"g1", "g2"}>>>>
          ELSE <<<<{}, {"g1"}>>, <<{"g1"}, {}>>, <<{"g1"}, {"g1"}>>, <<{"g1"}, {"g2"}>>, <<{"g1", "g2"}, {"g1"}>>,
                 <<{"g2"}, {"g1", "g2"}>>>>                  \* <<CA groups, certificate groups>>
XCertNets == <<{nC}, {nC, nF}, {nA}>>
XCaNets   == <<{}, {nB}, {nB, nE}, {nF}>>
XCertUns  == <<{}, {nC}, {nC, nF}, {nA}>>
XWin      == <<<<1, TMax - 1>>, <<0, TMax - 1>>, <<2, TMax>>>>      \* inside, early, late  (CA: 1..TMax-1)
SweepCross == IF ~Vec THEN {} ELSE
    { LET k == Rot(k0, w + 3 * g + 7 * n + 11 * cn + 13 * u + 17 * cu) IN
      MkCert(Combos[k].cv, Combos[k].cu, FALSE, XWin[w], GPairs[g][2], XCertNets[n], XCertUns[u],
             MkCA("ca1", Combos[k].av, Combos[k].cu, CaWindows[1], GPairs[g][1], XCaNets[cn], XCaNets[cu]), "good", "") :
      w \in 1..3, g \in 1..Len(GPairs), n \in 1..3, cn \in 1..4, u \in 1..4, cu \in 1..4, k0 \in KSet }

\* (3) one dimension exhaustively: all pairs of small network sets
NetUniverse   == IF Thorough THEN {nR, nA, nB, nG, nC, nD, nE, nF} ELSE {nR, nA, nB, nC, nE, nF}
CaNetUniverse == IF Thorough THEN {nR, nA, nH, nB, nG, nC, nE, nI, nF} ELSE {nR, nA, nB, nC, nE}
SameCombos == IF Thorough THEN {1, 2, 5, 6} ELSE {1, 2}
SweepNets == IF ~Vec THEN {} ELSE
    { MkCert(Combos[k].cv, Combos[k].cu, FALSE, <<1, 2>>, {}, n, {},
             MkCA("ca1", Combos[k].av, Combos[k].cu, CaWindows[1], {}, cn, {}), "good", "") :
      n \in NonEmpty(UpTo2(NetUniverse)), cn \in UpTo2(CaNetUniverse), k \in SameCombos }
SweepUnsafe == IF ~Vec THEN {} ELSE
    { MkCert(Combos[k].cv, Combos[k].cu, FALSE, <<1, 2>>, {}, {nR}, u,
             MkCA("ca1", Combos[k].av, Combos[k].cu, CaWindows[1], {}, {}, cu), "good", "") :
      u \in UpTo2(NetUniverse), cu \in UpTo2(CaNetUniverse), k \in SameCombos }

\* (4) IPv6 and mixed families (version 2 only)
n6B == P6(2, 2)  n6C == P6(2, 3)  n6F == P6(5, 3)
SweepV6 == IF ~Vec THEN {} ELSE
    { MkCert(2, cu, FALSE, <<1, 2>>, {}, n, u, MkCA("ca1", av, cu, CaWindows[1], {}, cn, cun), "good", "") :
      n \in {{n6C}, {nC, n6C}, {nC, n6F}}, u \in {{}, {n6C}, {nC, n6C}},
      cn \in {{}, {nB}, {n6B}, {nB, n6B}}, cun \in {{}, {n6B}, {nB, n6B}},
      av \in IF Thorough THEN {1, 2} ELSE {2}, cu \in {"x25519", "p256"} }

\* (5) signature forms, pools, curve mismatch, isCA, issuer
OtherCA(cu)   == MkCA("cao", 2, cu, <<0, TMax>>, {}, {}, {})
Renewed(ca)   == [ca EXCEPT !.gen = 1, !.na = TMax]          \* same key, another certificate
BadFields     == IF Thorough THEN {"name", "nb", "na", "groups", "nets", "unsafe", "isCA", "key"} ELSE {"na", "nets", "key"}
SigForms(cu, acu) == {<<"good", "">>, <<"wrongkey", "">>} \cup {<<"bad", f>> : f \in BadFields}
                     \cup (IF cu = "p256" /\ acu = "p256" THEN {<<"twin", "">>} ELSE {})
TrustCA(av, acu, inside) == MkCA("ca1", av, acu, CaWindows[1], IF inside THEN {} ELSE {"g2"}, {}, {})
SweepTrustCerts == IF Mode # "c01" THEN {} ELSE
    { MkCert(cv, cu, isca, <<1, 2>>, {"g1"}, {nC}, {}, TrustCA(av, acu, inside), sf[1], sf[2]) :
      cv \in {1, 2}, av \in {1, 2}, cu \in {"x25519", "p256"}, acu \in {"x25519", "p256"},
      isca \in BOOLEAN, inside \in BOOLEAN, sf \in {<<"good", "">>, <<"wrongkey", "">>, <<"twin", "">>} \cup {<<"bad", f>> : f \in BadFields} }
PoolKinds(c) == LET i == c.issuer  o == OtherCA(i.curve)  r == Renewed(i)
                    x == MkCA("cax", 2, i.curve, <<0, TMax>>, {}, {}, {}) IN
                <<{i}, {i, o}, {}, {o}, {r}, {i, r, o}, {x}, {i, x}>>
NPools(c) == IF c.sig = "bad" /\ ~Thorough THEN 2 ELSE 8
SelfCerts == { MkCert(cv, cu, isca, <<1, 2>>, {}, {nC}, {}, NoCA, "good", "") :
               cv \in {1, 2}, cu \in {"x25519", "p256"}, isca \in BOOLEAN }

VerifyInputs == IF Mode # "c01" THEN {} ELSE
    {[kind |-> "verify", c |-> c, cas |-> {c.issuer}] : c \in SweepTime \cup SweepCross \cup SweepNets \cup SweepUnsafe \cup SweepV6}
    \cup {[kind |-> "verify", c |-> x[1], cas |-> PoolKinds(x[1])[x[2]]] :
             x \in {y \in SweepTrustCerts \X (1..8) : /\ <<y[1].sig, y[1].badf>> \in SigForms(y[1].curve, y[1].issuer.curve)
                                                      /\ y[2] <= NPools(y[1])}}
    \cup {[kind |-> "verify", c |-> c, cas |-> IF p = 1 THEN {} ELSE {OtherCA(c.curve)}] : c \in SelfCerts, p \in 1..2}

\* C04: the same certificates as things to be signed, plus isCA / curve / self-signing
SweepSign == IF Mode # "c04" THEN {} ELSE
    { MkCert(cv, cu, isca, w, {"g1"}, {nC}, {}, iss, "good", "") :
      cv \in {1, 2}, cu \in {"x25519", "p256"}, isca \in BOOLEAN, w \in {<<1, 2>>, <<0, 2>>, <<3, 1>>},
      iss \in {NoCA} \cup {MkCA("ca1", av, acu, CaWindows[1], cg, {}, {}) :
                             av \in {1, 2}, acu \in {"x25519", "p256"}, cg \in {{}, {"g1"}, {"g2"}}} }
SignInputs == IF Mode # "c04" THEN {} ELSE
    {[kind |-> "sign", c |-> c, cas |-> {c.issuer} \ {NoCA}] :
       c \in SweepTime \cup SweepCross \cup SweepNets \cup SweepUnsafe \cup SweepV6 \cup SweepSign}

\* The per-entry reading ("contained by an entry of the list") and the union reading of "inside the CA's ranges"
\* differ when a network is covered only by several CA entries together: such vectors are left out.
Covered(n, can) == \A x \in Lo(n)..Hi(n) : \E m \in can : m.f = n.f /\ Lo(m) <= x /\ x <= Hi(m)
Ambig(cn, can)  == Cardinality(can) >= 2 /\ \E n \in cn : (~\E m \in can : NetInside(n, m)) /\ Covered(n, can)
Ambiguous(c, ca) == Ambig(c.nets, ca.nets) \/ Ambig(c.unsafe, ca.unsafe)

\* Structural rules (C03) bound the lattice to certificates that can exist: version 1 is IPv4 only; a version 2 host
\* certificate needs an assigned network of the family of each of its unsafe networks; host certificates have a network.
V4Only(x)     == \A n \in x.nets \cup x.unsafe : n.f = 4
WellFormedCA(ca) == ca.ver = 1 => V4Only(ca)
WellFormed(c) == /\ c.ver = 1 => V4Only(c)
                 /\ ~c.isCA => c.nets # {}
                 /\ (c.ver = 2 /\ ~c.isCA) => \A u \in c.unsafe : \E n \in c.nets : n.f = u.f
                 /\ WellFormedCA(c.issuer)

Inputs == LET raw == IF Mode = "c01" THEN VerifyInputs ELSE IF Mode = "c04" THEN SignInputs ELSE {}
          IN {i \in raw : WellFormed(i.c) /\ ~Ambiguous(i.c, i.c.issuer)}

\* blocklists tried on a vector: subsets of the symbolic fingerprints (fp2 only where it exists) and a foreign one
CanTwin(c) == c.curve = "p256" /\ c.issuer.curve = "p256"
\* Accept(c, pool, bl, t) = (no form of c in bl) /\ Accept(c, pool, {}, t): the rule is evaluated once per time
Expected(i) ==
    LET pool == Honest(i.cas)
        base == [k \in 1..(TMax + 1) |-> Why(i.c, pool, {}, k - 1)]
        bls  == IF \E k \in 1..(TMax + 1) : base[k] = "ok"
                THEN IF CanTwin(i.c) THEN <<{}, {"fp"}, {"fp2"}, {"fp", "fp2"}, {"foreign"}>> ELSE <<{}, {"fp"}, {"foreign"}>>
                ELSE <<{}, {"fp"}>>
    IN
    IF i.kind = "verify"
    THEN [rows |-> [r \in 1..Len(bls) |->
                      [bl |-> bls[r],
                       acc |-> [k \in 1..(TMax + 1) |-> IF Forms(i.c) \cap bls[r] = {} THEN base[k]
                                                         ELSE IF base[k] = "ok" THEN "bl!" ELSE "bl"]]]]
    ELSE [ok  |-> SignOK(i.c), why |-> SignWhy(i.c), acc |-> base]

-----------------------------------------------------------------------------
(* The cached-check machine (machine mode)                                   *)

MCa(av, cu)  == MkCA("ca1", av, cu, <<1, TMax - 1>>, {"g1", "g2"}, {nB}, {})
MachCerts == { MkCert(2, "p256",   FALSE, <<1, 2>>,        {"g1"}, {nC}, {}, MCa(2, "p256"),   "good", ""),
               MkCert(1, "p256",   FALSE, <<1, 2>>,        {"g1"}, {nC}, {}, MCa(1, "p256"),   "twin", ""),
               MkCert(2, "x25519", FALSE, <<1, TMax - 1>>, {},     {nC}, {}, MCa(1, "x25519"), "good", ""),
               MkCert(1, "x25519", FALSE, <<2, 2>>,        {"g2"}, {nC}, {}, MCa(2, "x25519"), "good", "") }
MachPools(c) == LET i == c.issuer  o == OtherCA(i.curve)  r == Renewed(i) IN
    [ none    |-> {},
      iss     |-> Honest({i}),
      other   |-> Honest({o}),
      both    |-> Honest({i, o}),
      renew   |-> Honest({r}),
      misother |-> {[key |-> i, ca |-> o]},          \* not keyed by fingerprint: another CA, another key
      misrenew |-> {[key |-> i, ca |-> r]} ]         \* not keyed by fingerprint: same key, another certificate
PoolTags == {"none", "iss", "other", "both", "renew", "misother", "misrenew"}

VARIABLES in, exp,      \* vector modes: the input and the expected result; machine mode: the certificate and the pool table
          m             \* vector modes: "in" (exp not yet computed) / "out";
                        \* machine mode: [pool (tag), bl, now, cache (signer CA or NoCA), full, cached, strong]
vars == <<in, exp, m>>

MPool == exp[m.pool]

\* one vector = one initial state; its expected result is computed by a step so that TLC's workers share the work
VecInit  == /\ in \in Inputs /\ exp = <<>> /\ m = "in"
VecNext  == /\ m = "in" /\ m' = "out" /\ exp' = Expected(in) /\ UNCHANGED in
MachInit == /\ in \in MachCerts /\ exp = MachPools(in)
            /\ m = [pool |-> "iss", bl |-> {}, now |-> 0, cache |-> NoCA, full |-> "-", cached |-> "-", strong |-> FALSE]
Init == IF Mode = "machine" THEN MachInit ELSE VecInit

Keep == UNCHANGED <<in, exp>>
\* VerifyCertificate on the current trust state; a success replaces the cached certificate
FullCheck ==
    LET e == FullM(in, MPool, m.bl, m.now) IN
    /\ m' = [m EXCEPT !.full = Verdict(e), !.cached = "-", !.strong = FALSE,
                      !.cache = IF e = "" THEN SignerOf(in, MPool) ELSE @]
    /\ Keep
\* VerifyCachedCertificate of the cached certificate, next to a fresh full check of the same certificate
CachedCheck ==
    /\ m.cache # NoCA
    /\ m' = [m EXCEPT !.cached = Verdict(CachedM(in, m.cache, MPool, m.bl, m.now)),
                      !.full   = Verdict(FullM(in, MPool, m.bl, m.now)),
                      \* strong: pool keyed by fingerprint and certificate cached from such a pool -> cached = full is demanded;
                      \* otherwise only "cached accepts => full accepts" (LinkSafe)
                      !.strong = IsHonest(MPool) /\ m.cache = in.issuer]
    /\ Keep
Blocklist(f) == /\ f \in Forms(in) \ m.bl
                /\ m' = [m EXCEPT !.bl = @ \cup {f}, !.full = "-", !.cached = "-", !.strong = FALSE]
                /\ Keep
Unblock      == /\ m.bl # {}
                /\ m' = [m EXCEPT !.bl = {}, !.full = "-", !.cached = "-", !.strong = FALSE]
                /\ Keep
ReplacePool(p) == /\ p # m.pool
                  /\ m' = [m EXCEPT !.pool = p, !.full = "-", !.cached = "-", !.strong = FALSE]
                  /\ Keep
Tick         == /\ m.now < TMax
                /\ m' = [m EXCEPT !.now = @ + 1, !.full = "-", !.cached = "-", !.strong = FALSE]
                /\ Keep

MachNext == \/ FullCheck \/ CachedCheck \/ Unblock \/ Tick
            \/ \E f \in {"fp", "fp2"} : Blocklist(f)
            \/ \E p \in PoolTags : ReplacePool(p)
Next == IF Mode = "machine" THEN MachNext ELSE VecNext
Spec == Init /\ [][Next]_vars

-----------------------------------------------------------------------------
(* Links, checked by TLC on every vector / state                             *)

\* checkCAConstraints decides exactly Within
ConstraintLink == Mode \in {"c01", "c04"} /\ m = "out" /\ in.c.issuer # NoCA =>
                    ((ConstraintsM(in.c.issuer, in.c) = "") <=> Within(in.c.issuer, in.c))

\* VerifyCertificate decides exactly Accept, and says "blocklisted" when that is the only reason
VerifyRefines == Mode = "c01" /\ m = "out" =>
    LET pool == Honest(in.cas) IN
    \A r \in 1..Len(exp.rows) : \A t \in Times :
       LET bl == exp.rows[r].bl   e == FullM(in.c, pool, bl, t)   a == Accept(in.c, pool, bl, t) IN
       /\ (e = "") <=> a
       /\ (exp.rows[r].acc[t + 1] = "ok") <=> a
       /\ exp.rows[r].acc[t + 1] = "bl!" => e = "blocklisted"
       /\ e = "blocklisted" => Forms(in.c) \cap bl # {}

\* a certificate accepted once is re-checked with the cached signer: same verdict as the full check, everywhere
CachedRefines == Mode = "c01" /\ m = "out" =>
    LET pool == Honest(in.cas) IN
    (\E r \in 1..Len(exp.rows) : \E t \in Times : exp.rows[r].acc[t + 1] = "ok") =>
       \A r \in 1..Len(exp.rows) : \A t \in Times :
          LET ce == CachedM(in.c, SignerOf(in.c, pool), pool, exp.rows[r].bl, t) IN
          /\ (ce = "") <=> (exp.rows[r].acc[t + 1] = "ok")
          /\ exp.rows[r].acc[t + 1] = "bl!" => ce = "blocklisted"

\* SignWith decides exactly SignOK; whatever is issued verifies whenever certificate and CA are valid
SignLink == Mode = "c04" /\ m = "out" => ((SignM(in.c) = "") <=> exp.ok)
IssuedVerifies == Mode = "c04" /\ m = "out" /\ exp.ok /\ in.c.issuer # NoCA =>
    \A t \in Times : (~Expired(in.c, t) /\ ~Expired(in.c.issuer, t)) => exp.acc[t + 1] = "ok"

\* machine mode
FullAgrees == Mode = "machine" /\ m.full # "-" => ((m.full = "ok") <=> Accept(in, MPool, m.bl, m.now))
LinkHonest == Mode = "machine" /\ m.cached # "-" /\ m.strong => ((m.cached = "ok") <=> (m.full = "ok"))
LinkSafe   == Mode = "machine" /\ m.cached = "ok" => m.full = "ok"
CacheSound == Mode = "machine" /\ m.cache # NoCA => SigVerifies(in, m.cache) /\ Within(m.cache, in)
=============================================================================
