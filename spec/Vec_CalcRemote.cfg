SPECIFICATION Spec
CONSTANTS L = 8
          Thorough = FALSE
INVARIANTS MachineRefines OnlyInsideSameFamily NothingWhenRefused
CHECK_DEADLOCK FALSE
