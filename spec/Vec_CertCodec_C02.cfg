SPECIFICATION Spec
CONSTANTS Prop = "C02"
          Thorough = FALSE
INVARIANTS C02MachineRefines C02SignedIsAll
CHECK_DEADLOCK FALSE
