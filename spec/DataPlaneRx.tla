---------------------------- MODULE DataPlaneRx ----------------------------
(***************************************************************************)
(* Receive side of one tunnel (C12): several goroutines each handle one    *)
(* arriving copy of a packet (ConnectionState.Decrypt for data/control/    *)
(* lighthouse/test packets, VerifyRelay for relayed ones):                 *)
(*                                                                         *)
(*     lock; ok := window.Check(c); unlock      -- Check(g)                *)
(*     AEAD open (no lock held)                 -- Auth(g)                 *)
(*     lock; ok := window.Update(c); unlock     -- Update(g)               *)
(*     deliver iff ok                                                      *)
(*                                                                         *)
(* The window is the reference layer of Window.tla (max, seen).            *)
(* Grain = "fine": the three steps are separate (as in the code);          *)
(* Grain = "gate": Auth and Update are one step, the grain at which the    *)
(* harness imposes schedules (goroutines are parked inside the AEAD call). *)
(***************************************************************************)
EXTENDS Integers, Sequences, FiniteSets, TLC

CONSTANTS Receivers, W, HsMsgs, Counters, Grain

VARIABLES max, seen,        \* replay window (reference level)
          ctr, genuine,     \* the copy each receiver handles: counter, and whether its AEAD tag is valid
          pc,               \* "idle" | "checked" | "authed" | "delivered" | "replay" | "forged"
          delivered         \* history: counter -> number of times it was acted upon

vars == <<max, seen, ctr, genuine, pc, delivered>>

RefAccept(i) == /\ i \notin seen
                /\ \/ i > max
                   \/ i + W > max

Init == /\ max = HsMsgs /\ seen = 0..HsMsgs        \* handshake counters are pre-marked
        /\ ctr \in [Receivers -> Counters]
        /\ genuine \in [Receivers -> BOOLEAN]
        /\ pc = [g \in Receivers |-> "idle"]
        /\ delivered = [c \in Counters |-> 0]

Check(g) == /\ pc[g] = "idle"
            /\ pc' = [pc EXCEPT ![g] = IF RefAccept(ctr[g]) THEN "checked" ELSE "replay"]
            /\ UNCHANGED <<max, seen, ctr, genuine, delivered>>

DoUpdate(g) == LET c == ctr[g] IN
    IF RefAccept(c)
      THEN /\ seen' = seen \cup {c}
           /\ max' = IF c > max THEN c ELSE max
           /\ delivered' = [delivered EXCEPT ![c] = @ + 1]
           /\ pc' = [pc EXCEPT ![g] = "delivered"]
      ELSE /\ pc' = [pc EXCEPT ![g] = "replay"]
           /\ UNCHANGED <<max, seen, delivered>>

Auth(g) == /\ Grain = "fine" /\ pc[g] = "checked"
           /\ pc' = [pc EXCEPT ![g] = IF genuine[g] THEN "authed" ELSE "forged"]
           /\ UNCHANGED <<max, seen, ctr, genuine, delivered>>

Update(g) == /\ Grain = "fine" /\ pc[g] = "authed"
             /\ DoUpdate(g)
             /\ UNCHANGED <<ctr, genuine>>

\* gate grain: AEAD open followed at once by the update
Finish(g) == /\ Grain = "gate" /\ pc[g] = "checked"
             /\ IF genuine[g] THEN DoUpdate(g)
                ELSE /\ pc' = [pc EXCEPT ![g] = "forged"]
                     /\ UNCHANGED <<max, seen, delivered>>
             /\ UNCHANGED <<ctr, genuine>>

Next == \E g \in Receivers : Check(g) \/ Auth(g) \/ Update(g) \/ Finish(g)
Spec == Init /\ [][Next]_vars

-----------------------------------------------------------------------------
(* C12 *)
AtMostOnce == \A c \in Counters : delivered[c] <= 1
\* a copy that fails authentication changes nothing and is never delivered
ForgedInert == \A g \in Receivers : ~genuine[g] => pc[g] \in {"idle", "checked", "forged", "replay"}
\* handshake counters are never delivered as data
NoHandshakeCounter == \A c \in Counters : c <= HsMsgs => delivered[c] = 0
\* what is delivered is exactly what is marked seen
SeenMatches == seen = (0..HsMsgs) \cup {c \in Counters : delivered[c] > 0}
=============================================================================
