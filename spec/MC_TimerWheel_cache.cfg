SPECIFICATION Spec
CONSTANTS TickD = 1
          Span = 2
          Items = {1, 2}
          Timeouts = {1}
          Gaps = {1, 5}
          CacheMax = 1
          StaleAdds = FALSE
INVARIANTS TypeOK ExactlyOnce NotEarly NotLate PurgeAgrees
VIEW View
CHECK_DEADLOCK FALSE
