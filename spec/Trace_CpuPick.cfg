SPECIFICATION TraceSpec
CONSTANTS NCpu = 4
          MaxStr = 4
CHECK_DEADLOCK FALSE
