SPECIFICATION TraceSpec
CONSTANTS NCpu = 5
          MaxStr = 4
CHECK_DEADLOCK FALSE
