------------------------------ MODULE RelayE2E ------------------------------
(***************************************************************************)
(* End-to-end protection of relayed traffic (C15).                         *)
(*                                                                         *)
(* A relayed datagram is  Outer(hopKey, relayIndex, AD = Inner, tag)  with *)
(* Inner = header(endpoint index, counter) + E2E(k_XT, payload).           *)
(* The relay R knows only hop keys. The target T handles it as             *)
(*   VerifyRelay(outer under the hop key)  ->  look up the relay record of *)
(*   relayIndex (it names a claimed peer)  ->  process Inner as a packet   *)
(*   of its own: index lookup, AEAD under the key of the tunnel found,     *)
(*   replay window, then the firewall with the certificate of THAT tunnel. *)
(* A vector is what a (possibly lying) relay sends to T: whose genuine     *)
(* inner packet it carries, how it altered it, and under which of its      *)
(* relay records (claimed peer) it forwards it.                            *)
(***************************************************************************)
EXTENDS Integers, Sequences, FiniteSets, TLC

CONSTANTS FlipBits,     \* bit positions the relay flips: 0..127 = the clear-text inner header, 128.. = ciphertext/tag
          Retypes       \* 16*type + subtype the relay writes into the clear-text inner header (ciphertext untouched)

Senders == {"A", "M"}                       \* endpoints that both reach T through R
SimpleAlter == {"none", "truncate", "splice", "replayed", "garbage", "newcounter", "recverr_self", "recverr_third"}
        \* splice: header of this sender's packet + ciphertext of the other sender's packet
        \* replayed: the unaltered inner packet a second time
        \* newcounter: a fresh, never used counter in the clear-text header over the genuine ciphertext
        \* recverr_self / recverr_third: instead of the inner packet the relay forwards a recv_error (16 clear-text bytes, no
        \*   key involved) that names the index of the sender's relayed tunnel / of the target's DIRECT tunnel with a third
        \*   host: no endpoint key authenticates it, so it must not be acted on for anybody
InnerAlter == SimpleAlter \cup {"flipbit", "retype"}
Claims == {"own", "other"}                  \* relay record used: the sender's own leg, or the other endpoint's leg

Inputs == [sender : Senders, alter : SimpleAlter, claim : Claims, arg : {0}]
          \cup [sender : Senders, alter : {"flipbit"}, claim : Claims, arg : FlipBits]
          \cup [sender : Senders, alter : {"retype"}, claim : Claims, arg : Retypes]

\* Reference: the packet is attributed to the endpoint whose tunnel key authenticates Inner -- never to the
\* claimed peer -- and anything else is dropped without effect.
Expected(i) == IF i.alter = "none" THEN [deliver |-> TRUE, as |-> i.sender]
               ELSE [deliver |-> FALSE, as |-> "nobody"]

\* what the relay can learn: it holds hop keys only, so no term encrypted under k_AT or k_MT is derivable
RelayKnows == {"hopkey_AR", "hopkey_RT", "hopkey_MR"}
Plaintext(x) == <<"payload", x>>
CanDerive(term, keys) == term[1] # "payload"  \* symbolic: payload terms need an endpoint key, which R does not hold

VARIABLES in, exp
vars == <<in, exp>>
Init == in \in Inputs /\ exp = Expected(in)
Next == UNCHANGED vars
Spec == Init /\ [][Next]_vars

AttributionByKey == exp.deliver => exp.as = in.sender            \* whatever the relay claims
AlteredDropped   == in.alter # "none" => ~exp.deliver
RelayBlind       == \A s \in Senders : ~CanDerive(Plaintext(s), RelayKnows)
=============================================================================
