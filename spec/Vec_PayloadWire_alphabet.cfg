SPECIFICATION Spec
CONSTANTS Mode = "alphabet"
          Alpha = "full"
          Lens = {}
          SmallAlpha = "core"
          SmallLens = {}
          Lattice = FALSE
          AsWritten = FALSE
CHECK_DEADLOCK FALSE
