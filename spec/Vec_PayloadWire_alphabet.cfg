SPECIFICATION Spec
CONSTANTS Mode = "alphabet"
          Alpha = "full"
          MaxLen = 0
          SmallAlpha = "core"
          CoreLen = 0
          AsWritten = FALSE
CHECK_DEADLOCK FALSE
