INIT VecInit
NEXT VecNext
CONSTANTS MaxHist = 1
          Patched = TRUE
          Wide = FALSE
INVARIANTS AnswerLink TxtRestricted
VIEW View
CHECK_DEADLOCK FALSE
