INIT MachInit
NEXT MachNext
CONSTANTS Mode = "machine"
          Thorough = FALSE
          AB = 3
          TMax = 4
INVARIANTS FullAgrees LinkHonest LinkSafe CacheSound
CHECK_DEADLOCK FALSE
