SPECIFICATION Spec
CONSTANT Thorough = FALSE
INVARIANTS Link NoDup KeyPacking
CHECK_DEADLOCK FALSE
