SPECIFICATION Spec
CONSTANTS Prop = "C03"
          Thorough = FALSE
INVARIANTS C03RoundTrip C03DecodedShape C03MachineRefines
CHECK_DEADLOCK FALSE
