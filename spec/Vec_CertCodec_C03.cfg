SPECIFICATION Spec
CONSTANTS Prop = "C03"
          Thorough = FALSE
INVARIANTS C03RoundTrip C03DecodedShape C03MachineRefines C03SizeBoundary
CHECK_DEADLOCK FALSE
