\* C06: R graph - two initiators x one responder, one initiator x two responders, five version configurations
\* (bin/check builds the same text with tools/props/C05.py:cfg(); this file is the quick-tier instance, for running TLC by hand)
SPECIFICATION Spec
CONSTANTS
  HI = {"I1", "I2"}
  HR = {"R1", "R2"}
  AI = {}
  AR = {}
  AdvIds = {"M"}
  VerCfgs = {1, 2, 3, 4, 5}
  Ops = {"id", "hdrflip", "idx", "splice_e", "flip_p"}
  PKinds = {"full"}
  SKinds = {"own"}
  Misuse = FALSE
  Scns = {"two_i", "two_r"}
  Impl = "spec"
  Budget = 0
INVARIANTS TypeOK C05_Auth C05_Secrecy C06_Agree C06_Exclusive C07_RejectClean
CHECK_DEADLOCK FALSE
