INIT HInit
NEXT HNext
CONSTANTS Mode = "hist"
          Thorough = FALSE
          AB = 3
          TMax = 4
          HLen = 3
INVARIANTS RetNamesSigner RetWhenOK TblWellFormed TblSignLink TblIssuedVerifies TblAnyPool
CHECK_DEADLOCK FALSE
