SPECIFICATION TraceSpec
CONSTANT Thorough = FALSE
INVARIANTS RefSegmentation Maximal
POSTCONDITION TraceAccepted
CHECK_DEADLOCK FALSE
