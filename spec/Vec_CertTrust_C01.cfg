SPECIFICATION Spec
CONSTANTS Mode = "c01"
          Thorough = FALSE
          AB = 3
          TMax = 4
INVARIANTS ConstraintLink VerifyRefines CachedRefines
CHECK_DEADLOCK FALSE
