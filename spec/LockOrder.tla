------------------------------ MODULE LockOrder ------------------------------
(* C34 (A): deadlock freedom of nebula's locking protocol, predictively.      *)
(*                                                                          *)
(* The data (module LockOrderData) is GENERATED from traces recorded on the  *)
(* real code                                                                 *)
(* (tools/lockinst instruments every sync.Mutex / sync.RWMutex operation of  *)
(* the current tree; tools/props/C34.py cuts every goroutine's event stream  *)
(* into lock EPISODES: maximal segments from acquiring a first lock while    *)
(* holding none until holding none again).                                   *)
(*                                                                          *)
(*   Progs[e]   program of episode e: a sequence of steps                    *)
(*                [op |-> "want"|"got"|"try"|"rel", l |-> local lock number, *)
(*                 m |-> "w"|"r", s |-> "file:line"]                         *)
(*              want = the goroutine calls Lock/RLock (from now on a pending *)
(*              writer is visible to readers), got = the call returns,       *)
(*              try = a TryLock that succeeded in the recording,             *)
(*              rel = Unlock/RUnlock.                                        *)
(*   Combos[c]  a set of 2 (thorough: 3) episodes that DIFFERENT real        *)
(*              goroutines executed on overlapping real lock instances:      *)
(*                eps  |-> <<e1, e2(, e3)>>                                   *)
(*                lk   |-> per episode: local lock number -> instance 1..n   *)
(*                kind |-> per instance "m" (sync.Mutex) / "rw" (RWMutex)    *)
(*                gate |-> per episode <<j, k>>: may only start once         *)
(*                         episode j is past step k (<<0,0>>: no constraint) *)
(*                         - fork edges: what a parent did before `go` is    *)
(*                         ordered before its child.                         *)
(*                                                                          *)
(* TLC explores ALL interleavings of the episodes of every combo.            *)
(*                                                                          *)
(* How instances are generalised (decided in tools/props/C34.py):            *)
(*  - a combo pairs episodes ON THE RECORDED INSTANCES: the episodes are     *)
(*    projected onto the lock instances (addresses, pinned, never reused)    *)
(*    they really shared, and "instance 1..n" are those addresses. This is   *)
(*    precise: both goroutines existed, on those very objects.               *)
(*  - thorough tier also adds, for a pair that nests two shared instances,   *)
(*    every third episode that write-locks a shared RWMutex (the pending     *)
(*    writer that turns two nested readers into a cycle).                    *)
(*  - DIAGNOSTIC only (thorough): combos "cls" pair episode shapes that nest *)
(*    two lock classes in opposite orders as if they had met on the same     *)
(*    instances (renaming). They can predict impossible deadlocks, so they   *)
(*    are only ever listed as unconfirmed unless reproduced on real          *)
(*    goroutines.                                                            *)
(*                                                                          *)
(* Lock semantics (Go): a Mutex / a write lock is exclusive; RLock is shared; *)
(* a goroutine that has called Lock and waits EXCLUDES NEW READERS           *)
(* (sync.RWMutex: "a blocked Lock call excludes new readers from acquiring   *)
(* the lock") - this is what makes a recursive RLock deadlock. Locks are not *)
(* reentrant. Pending writers are a set (any of them may win).               *)
(*                                                                          *)
(* A counterexample of this module is a PREDICTION, never a verdict: C34.py  *)
(* turns it into a gate plan and only a demonstration on real goroutines is  *)
(* reported as a violation.                                                  *)
EXTENDS Integers, Sequences, FiniteSets, TLC, LockOrderData

CONSTANTS Which,     \* name of the combo sequence of LockOrderData to explore
          MaxLocks   \* largest number of lock instances of a combo

Combos == ComboSets[Which]

VARIABLES c,        \* the combo being explored (chosen in Init, then fixed)
          pc,       \* pc[i] = index of the next step of episode i of the combo
          writer,   \* writer[L] = goroutine holding L exclusively, 0 = none
          readers,  \* readers[L][i] = number of read holds of goroutine i on L
          pend      \* pend[L] = goroutines that called Lock on L and wait
vars == <<c, pc, writer, readers, pend>>

MaxG == 3
Cb == Combos[c]
NG == Len(Cb.eps)
Gs == 1..NG
Prog(i) == Progs[Cb.eps[i]]
Done(i) == pc[i] > Len(Prog(i))
Cur(i) == Prog(i)[pc[i]]
LockOf(i, st) == Cb.lk[i][st.l]

MayStart(i) == LET g == Cb.gate[i] IN IF g[1] = 0 THEN TRUE ELSE pc[g[1]] > g[2]

HoldsW(i, L) == writer[L] = i
HoldsR(i, L) == readers[L][i] > 0
NoReaders(L) == \A j \in 1..MaxG : readers[L][j] = 0

(* Can goroutine i complete an acquisition of L in mode m now? *)
Avail(i, L, m) == IF m = "w" THEN writer[L] = 0 /\ NoReaders(L)
                  ELSE writer[L] = 0 /\ pend[L] = {}

TypeOK == /\ c \in 1..Len(Combos)
          /\ \A i \in Gs : pc[i] \in 1..(Len(Prog(i)) + 1)
          /\ \A L \in 1..MaxLocks : writer[L] \in 0..MaxG /\ pend[L] \subseteq 1..MaxG

Init == /\ c \in 1..Len(Combos)
        /\ pc = [i \in 1..MaxG |-> 1]
        /\ writer = [L \in 1..MaxLocks |-> 0]
        /\ readers = [L \in 1..MaxLocks |-> [i \in 1..MaxG |-> 0]]
        /\ pend = [L \in 1..MaxLocks |-> {}]

Advance(i) == pc' = [pc EXCEPT ![i] = @ + 1]

Acquire(i, L, m) ==
    /\ writer' = IF m = "w" THEN [writer EXCEPT ![L] = i] ELSE writer
    /\ readers' = IF m = "r" THEN [readers EXCEPT ![L][i] = @ + 1] ELSE readers
    /\ pend' = [pend EXCEPT ![L] = @ \ {i}]

(* the goroutine calls Lock / RLock *)
Want(i) == /\ ~Done(i) /\ Cur(i).op = "want"
           /\ IF pc[i] > 1 THEN TRUE ELSE MayStart(i)
           /\ LET L == LockOf(i, Cur(i)) IN
              pend' = IF Cur(i).m = "w" /\ Cb.kind[L] = "rw" THEN [pend EXCEPT ![L] = @ \cup {i}] ELSE pend
           /\ Advance(i) /\ UNCHANGED <<c, writer, readers>>

(* the blocking call returns *)
Got(i) == /\ ~Done(i) /\ Cur(i).op = "got"
          /\ LET L == LockOf(i, Cur(i)) IN Avail(i, L, Cur(i).m) /\ Acquire(i, L, Cur(i).m)
          /\ Advance(i) /\ UNCHANGED c

(* TryLock / TryRLock never blocks. The recording only knows the successful branch: if the lock is not available the   *)
(* episode is abandoned (everything it holds is released) - the optimistic reading, so that Try* never predicts.        *)
Try(i) == /\ ~Done(i) /\ Cur(i).op = "try"
          /\ IF pc[i] > 1 THEN TRUE ELSE MayStart(i)
          /\ LET L == LockOf(i, Cur(i)) IN
             IF Avail(i, L, Cur(i).m)
             THEN Acquire(i, L, Cur(i).m) /\ Advance(i)
             ELSE /\ writer' = [K \in 1..MaxLocks |-> IF writer[K] = i THEN 0 ELSE writer[K]]
                  /\ readers' = [K \in 1..MaxLocks |-> [readers[K] EXCEPT ![i] = 0]]
                  /\ pend' = [K \in 1..MaxLocks |-> pend[K] \ {i}]
                  /\ pc' = [pc EXCEPT ![i] = Len(Prog(i)) + 1]
          /\ UNCHANGED c

HeldFor(i, L, m) == IF m = "w" THEN HoldsW(i, L) ELSE HoldsR(i, L)

Rel(i) == /\ ~Done(i) /\ Cur(i).op = "rel"
          /\ LET L == LockOf(i, Cur(i)) IN
             IF HeldFor(i, L, Cur(i).m)
             THEN /\ writer' = IF Cur(i).m = "w" THEN [writer EXCEPT ![L] = 0] ELSE writer
                  /\ readers' = IF Cur(i).m = "r" THEN [readers EXCEPT ![L][i] = @ - 1] ELSE readers
             ELSE UNCHANGED <<writer, readers>>      \* flagged by NoBadUnlock
          /\ Advance(i) /\ UNCHANGED <<c, pend>>

Terminated == \A i \in Gs : Done(i)

Next == \/ \E i \in Gs : Want(i) \/ Got(i) \/ Try(i) \/ Rel(i)
        \/ Terminated /\ UNCHANGED vars        \* the terminal-state disjunct: only a stuck, unfinished combo is a TLC deadlock

Spec == Init /\ [][Next]_vars

-----------------------------------------------------------------------------
(* The wait-for relation *)
Blocked(i) == /\ ~Done(i) /\ Cur(i).op = "got"
              /\ ~Avail(i, LockOf(i, Cur(i)), Cur(i).m)

WaitsFor(i, j) == /\ Blocked(i)
                  /\ LET L == LockOf(i, Cur(i))
                         m == Cur(i).m IN
                     \/ writer[L] = j
                     \/ m = "w" /\ readers[L][j] > 0
                     \/ m = "r" /\ j \in pend[L]

Succ(S) == S \cup {j \in Gs : \E i \in S : WaitsFor(i, j)}
InCycle(i) == LET R1 == {j \in Gs : WaitsFor(i, j)}
                  R2 == Succ(R1)
                  R3 == Succ(R2) IN i \in R3
WaitCycle == \E i \in Gs : InCycle(i)

(* INVARIANT: no cycle in the wait-for relation (a state some goroutine can never leave) *)
NoWaitCycle == ~WaitCycle

(* Go-specific hazards, as invariants *)
(* Lock of an instance the goroutine already holds (any mode) / RLock while holding the write lock: certain self-deadlock *)
SelfRelock(i) == /\ ~Done(i) /\ Cur(i).op \in {"want", "got"}
                 /\ LET L == LockOf(i, Cur(i)) IN
                    \/ HoldsW(i, L)
                    \/ Cur(i).m = "w" /\ HoldsR(i, L)
NoSelfRelock == \A i \in Gs : ~SelfRelock(i)

(* recursive RLock of one instance by one goroutine while another goroutine of the combo may still request Lock on it *)
MayLock(j, L) == \E k \in pc[j]..Len(Prog(j)) : /\ Prog(j)[k].op = "got" /\ Prog(j)[k].m = "w"
                                                /\ LockOf(j, Prog(j)[k]) = L
RecursiveRLock(i) == /\ ~Done(i) /\ Cur(i).op \in {"want", "got"} /\ Cur(i).m = "r"
                     /\ LET L == LockOf(i, Cur(i)) IN
                        /\ HoldsR(i, L)
                        /\ \E j \in Gs \ {i} : MayLock(j, L)
NoRecursiveRLock == \A i \in Gs : ~RecursiveRLock(i)

(* unlock of a lock the goroutine does not hold in that mode *)
BadUnlock(i) == /\ ~Done(i) /\ Cur(i).op = "rel"
                /\ ~HeldFor(i, LockOf(i, Cur(i)), Cur(i).m)
NoBadUnlock == \A i \in Gs : ~BadUnlock(i)

-----------------------------------------------------------------------------
(* Enumeration mode (used only after the checking mode failed): the same state space, nothing stops TLC, every state    *)
(* that violates one of the invariants above is printed once so that C34.py can build one gate plan per prediction.     *)
EnumReport ==
    /\ WaitCycle => PrintT(<<"VLK", "cycle", c, pc>>)
    /\ (\E i \in Gs : RecursiveRLock(i)) => PrintT(<<"VLK", "rrlock", c, pc>>)
    /\ (\E i \in Gs : SelfRelock(i)) => PrintT(<<"VLK", "self", c, pc>>)
    /\ (\E i \in Gs : BadUnlock(i)) => PrintT(<<"VLK", "badunlock", c, pc>>)
=============================================================================
