SPECIFICATION Spec
CONSTANTS NCpu = 4
          MaxStr = 4
INVARIANTS MachineRefines PrintsAreRead
CHECK_DEADLOCK FALSE
