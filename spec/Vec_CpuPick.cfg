SPECIFICATION Spec
CONSTANTS NCpu = 5
          MaxStr = 4
INVARIANTS MachineRefines PrintsAreRead
CHECK_DEADLOCK FALSE
