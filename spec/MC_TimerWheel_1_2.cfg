SPECIFICATION Spec
CONSTANTS TickD = 1
          Span = 2
          Items = {1, 2}
          Timeouts = {0, 1, 2, 3}
          Gaps = {1, 5}
          CacheMax = 1
          StaleAdds = TRUE
INVARIANTS TypeOK ExactlyOnce NotEarly NotLate PurgeAgrees
VIEW View
CHECK_DEADLOCK FALSE
