---------------------------- MODULE Trace_SendQueue ----------------------------
(* Trace validation of recorded SendBatch histories (real SendBatch on a real Linux batchWriter, kernel answers        *)
(* imposed through sendFn) against SendQueue.tla.  One ndjson line per event:                                          *)
(*   {"ev":"reset"}                                              a fresh SendBatch on a fresh writer                    *)
(*   {"ev":"commit","id":n,"qlen":k}                             Reserve+Commit of datagram n; Len() afterwards          *)
(*   {"ev":"flush","shown":[ids],"acc":[ids],"written":w,"err":b,"qlen":k}                                             *)
(*        one Flush: the ids the kernel was shown in any sendmmsg call of it (decoded from the iovecs' bytes), the ids in *)
(*        entries the kernel reported as sent, in that order, what Flush returned, and Len() afterwards                  *)
EXTENDS SendQueue, Json, TLC

Log == ndJsonDeserialize("trace.ndjson")
VARIABLE tl
tvars == <<vars, tl>>

TraceInit == Init /\ tl = 1
IsEvent(e) == tl <= Len(Log) /\ Log[tl].ev = e /\ tl' = tl + 1
SeqRange(s) == { s[j] : j \in 1..Len(s) }

TraceReset == /\ IsEvent("reset")
              /\ queue' = <<>> /\ next' = 1 /\ acc' = [d \in Ids |-> 0] /\ offered' = [d \in Ids |-> 0] /\ wire' = <<>>
TraceCommit == /\ IsEvent("commit") /\ Log[tl].id = next /\ Commit /\ Len(queue') = Log[tl].qlen
TraceFlush == /\ IsEvent("flush")
              /\ LET S == SeqRange(Log[tl].shown)  A == SeqRange(Log[tl].acc) IN
                   /\ IF queue = <<>> THEN FlushEmpty /\ S = {} /\ A = {}
                      ELSE /\ Flush(S, A)
                           /\ Log[tl].acc = Keep(queue, A)          \* accepted in queue order, each once
                   /\ Log[tl].written = Len(Log[tl].acc)
              /\ Len(queue') = Log[tl].qlen
TraceNext == TraceReset \/ TraceCommit \/ TraceFlush
TraceSpec == TraceInit /\ [][TraceNext]_tvars
TraceAccepted == TLCGet("stats").diameter - 1 = Len(Log)
=============================================================================
