SPECIFICATION TraceSpec
CONSTANTS ReloadNodes <- TNodes
          Nodes <- TNodes
          AddrOf <- TAddrOf
          AmRelay <- TAmRelay
INVARIANTS OnlyRelaysForward RecordsOnLiveTunnels NotToSelf IndexesUnique IndexesOwned
POSTCONDITION TraceAccepted
CHECK_DEADLOCK FALSE
