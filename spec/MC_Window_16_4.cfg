SPECIFICATION Spec
CONSTANTS W = 16
          B = 4
          MaxC = 50
INVARIANTS TypeOK ResultAgrees CheckAgrees Link
VIEW View
CHECK_DEADLOCK FALSE
