SPECIFICATION TraceSpec
CONSTANTS Mode = "none"
          Alpha = "quick"
          Lens = {}
          SmallAlpha = "core"
          SmallLens = {}
          Lattice = FALSE
          AsWritten = FALSE
CHECK_DEADLOCK FALSE
