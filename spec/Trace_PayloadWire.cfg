SPECIFICATION TraceSpec
CONSTANTS Mode = "none"
          Alpha = "quick"
          MaxLen = 0
          SmallAlpha = "core"
          CoreLen = 0
          AsWritten = FALSE
CHECK_DEADLOCK FALSE
