------------------------------ MODULE KeyFile ------------------------------
(***************************************************************************)
(* Key files of nebula (cert/pem.go, cert/crypto.go), C43:                 *)
(*   "An encrypted signing key decrypts back to exactly the original key   *)
(*    with the passphrase used to encrypt it and is refused with any other *)
(*    passphrase or any alteration of the encrypted data.  Key PEM         *)
(*    encodings round-trip for every curve and are refused under the wrong *)
(*    banner."                                                             *)
(*                                                                         *)
(* A key file is a TERM: [banner, body].  The body is either raw key bytes *)
(* (identity + length) or an encrypted message [algorithm, KDF variant     *)
(* parameters (version, memory, iterations, parallelism, salt), nonce,     *)
(* ciphertext, tag].  Cryptography is symbolic (Dolev-Yao): Derive(pass,   *)
(* params, salt) is an opaque term, and a sealed box opens only under the  *)
(* very term it was sealed with and with nonce / ciphertext / tag intact.  *)
(*                                                                         *)
(* Reference layer  = Expected(v): what the statement demands of opening   *)
(*                    file v.f with opener v.o and passphrase v.prel       *)
(*                    ("accept" exactly this key / "refuse" / "free" where *)
(*                    the statement is silent: if a key comes back it must *)
(*                    still be exactly this key).                          *)
(* Machine layer    = OpenM: the shape of the Go code (PEM block -> banner *)
(*                    switch -> protobuf parse -> parameter bounds ->      *)
(*                    algorithm -> KDF -> AEAD open -> length per curve).  *)
(* Link             = invariants checked by TLC on every vector.           *)
(*                                                                         *)
(* Specification of functions (vector mode): one initial state = one       *)
(* vector (which API wrote the file, curve, alteration applied to the      *)
(* encoded file, which API opens it, with which passphrase).               *)
(***************************************************************************)
EXTENDS Integers, Sequences, FiniteSets, TLC

CONSTANTS Thorough,     \* BOOLEAN: size of the lattice
          StrictBytes,  \* BOOLEAN: TRUE = "alteration of the encrypted data" also covers re-encodings of the
                        \* encrypted message that leave every decoded value unchanged (unknown field, duplicated
                        \* identical field, over-long varint ...).  FALSE (default) = the weaker reading.
          Def64         \* BOOLEAN: include the 2 GiB default parameters of 64-bit nebula-cert

Curves     == {"25519", "p256"}
Kinds      == {"priv", "spriv", "pub", "spub", "enc"}  \* ECDH private, signing private, ECDH public, signing public,
                                                       \* encrypted signing private
PlainKinds == Kinds \ {"enc"}
Openers    == {"priv", "spriv", "pub", "spub", "dec"}  \* Unmarshal{PrivateKey,SigningPrivateKey,PublicKey,SigningPublicKey}FromPEM,
                                                       \* DecryptAndUnmarshalSigningPrivateKey
KindOfOpener(o) == IF o = "dec" THEN "enc" ELSE o

\* the banner table (documentation of the file formats; transcribed, not read from the code)
Banner(k, c) ==
    CASE k = "priv"  /\ c = "25519" -> "NEBULA X25519 PRIVATE KEY"
      [] k = "priv"  /\ c = "p256"  -> "NEBULA P256 PRIVATE KEY"
      [] k = "pub"   /\ c = "25519" -> "NEBULA X25519 PUBLIC KEY"
      [] k = "pub"   /\ c = "p256"  -> "NEBULA P256 PUBLIC KEY"
      [] k = "spriv" /\ c = "25519" -> "NEBULA ED25519 PRIVATE KEY"
      [] k = "spriv" /\ c = "p256"  -> "NEBULA ECDSA P256 PRIVATE KEY"
      [] k = "spub"  /\ c = "25519" -> "NEBULA ED25519 PUBLIC KEY"
      [] k = "spub"  /\ c = "p256"  -> "NEBULA ECDSA P256 PUBLIC KEY"
      [] k = "enc"   /\ c = "25519" -> "NEBULA ED25519 ENCRYPTED PRIVATE KEY"
      [] k = "enc"   /\ c = "p256"  -> "NEBULA ECDSA P256 ENCRYPTED PRIVATE KEY"
KnownBanners   == {Banner(k, c) : k \in Kinds, c \in Curves}
ForeignBanners == {"NEBULA CERTIFICATE", "NEBULA CERTIFICATE V2", "NEBULA ED25519 PRIVATE KEY V2",
                   "nebula x25519 private key", "PRIVATE KEY", "NEBULA ECDSA P256 ENCRYPTED PUBLIC KEY"}
AllBanners     == KnownBanners \cup ForeignBanners
KindOfBanner(b)  == IF b \in KnownBanners THEN CHOOSE k \in Kinds : \E c \in Curves : Banner(k, c) = b ELSE "foreign"
CurveOfBanner(b) == IF b \in KnownBanners THEN CHOOSE c \in Curves : \E k \in Kinds : Banner(k, c) = b ELSE "-"

\* length in bytes of a key of a kind on a curve (for "enc": of the sealed plaintext)
KeyLen(k, c) == CASE k = "priv"            -> 32
                  [] k \in {"spriv", "enc"} -> IF c = "25519" THEN 64 ELSE 32
                  [] k \in {"pub", "spub"}  -> IF c = "25519" THEN 32 ELSE 65

ASSUME Cardinality(KnownBanners) = 10                       \* the banner table is injective
ASSUME KnownBanners \cap ForeignBanners = {}
\* nothing but the plaintext length binds an encrypted file to its curve: the lengths must differ
ASSUME KeyLen("enc", "25519") # KeyLen("enc", "p256")

(***************************************************************************)
(* KDF parameters.  Argon2id, version 0x13.  Bounds of the statement       *)
(* ("KDF parameters within bounds"): memory, iterations >= 1 (32 bit),     *)
(* 1 <= parallelism <= 255.  The 32-bit upper bounds are beyond TLC's      *)
(* integers and beyond any machine; they are not modelled.                 *)
(***************************************************************************)
ArgonVersion == 19
Algorithm    == "AES-256-GCM"
MaxPar       == 255
Prof(p) == CASE p = "min"    -> [mem |-> 1,       it |-> 1, par |-> 1]
             [] p = "mid"    -> [mem |-> 136,     it |-> 2, par |-> 4]    \* 2-byte varint memory; parallelism = the default
             [] p = "par255" -> [mem |-> 1,       it |-> 1, par |-> 255]
             [] p = "def32"  -> [mem |-> 65536,   it |-> 3, par |-> 4]    \* nebula-cert defaults, 32-bit platforms
             [] p = "def64"  -> [mem |-> 2097152, it |-> 1, par |-> 4]    \* nebula-cert defaults, 64-bit platforms
             [] OTHER        -> [mem |-> 0,       it |-> 0, par |-> 0]    \* "-": plain files
InBounds(q) == q.mem >= 1 /\ q.it >= 1 /\ q.par >= 1 /\ q.par <= MaxPar
ASSUME \A p \in {"min", "mid", "par255", "def32", "def64"} : InBounds(Prof(p))

(***************************************************************************)
(* Terms                                                                   *)
(***************************************************************************)
NoSalt == [id |-> "-", len |-> 0]
\* the KDF output as an opaque term: equal iff every input is equal
Derive(pass, ver, mem, it, par, salt) == <<pass, ver, mem, it, par, salt.id, salt.len>>
NoTerm == <<"-", 0, 0, 0, 0, "-", 0>>

\* what a Marshal API writes.  m \in PlainKinds: Marshal{Private,SigningPrivate,Public,SigningPublic}KeyToPEM(c, k0);
\* m = "enc": EncryptAndMarshalSigningPrivateKey(c, k0, p0, Prof(prof)) with fresh salt s0 and nonce n0.
Marshal(m, c, prof) ==
    IF m = "enc"
    THEN LET q == Prof(prof) s == [id |-> "s0", len |-> 32] IN
         [banner |-> Banner("enc", c), enc |-> TRUE, key |-> "k0", len |-> KeyLen("enc", c), wf |-> TRUE,
          alg |-> Algorithm, ver |-> ArgonVersion, mem |-> q.mem, it |-> q.it, par |-> q.par, salt |-> s,
          nonce |-> "n0", ct |-> "c0", tag |-> "t0", shape |-> "ok",
          sealed |-> Derive("p0", ArgonVersion, q.mem, q.it, q.par, s),
          canon |-> TRUE, pem |-> "canon", rest |-> "none"]
    ELSE [banner |-> Banner(m, c), enc |-> FALSE, key |-> "k0", len |-> KeyLen(m, c), wf |-> TRUE,
          alg |-> "-", ver |-> 0, mem |-> 0, it |-> 0, par |-> 0, salt |-> NoSalt,
          nonce |-> "-", ct |-> "-", tag |-> "-", shape |-> "-", sealed |-> NoTerm,
          canon |-> TRUE, pem |-> "canon", rest |-> "none"]

(***************************************************************************)
(* Alterations of the encoded file between writing and opening.            *)
(* <<op, arg>>; the harness implements each on the real bytes.             *)
(***************************************************************************)
\* decoded values of the encrypted message change (or it stops being a message): the statement demands refusal
FieldAlts == {"alg:alt", "alg:case", "alg:absent",
              "ver:+", "ver:-", "ver:absent",
              "mem:+", "mem:-", "mem:x2", "mem:absent",
              "it:+", "it:-", "it:absent",
              "par:+", "par:-", "par:+256", "par:absent",
              "salt:flip", "salt:trunc", "salt:ext", "salt:short", "salt:empty", "salt:absent",
              "nonce:flip", "ct:flip", "tag:flip",
              "blob:trunc1", "blob:trunc16", "blob:ext1", "blob:pre1", "blob:nonceonly", "blob:empty", "blob:absent",
              "meta:absent", "argon:absent",
              "dup-last:mem", "dup-last:salt", "dup-last:blob"}     \* field twice, the LAST occurrence altered (last one wins)
WireAlts  == {"trunc:mid", "trunc:boundary", "trunc:empty",       \* a proper prefix of the message
              "append:ff", "append:00", "append:half",             \* bytes that are no protobuf field
              "flip:changed", "flip:malformed"}                     \* any one byte of the message changed (walk)
\* every decoded value is unchanged, only the bytes of the message differ
ReencAlts == {"unknown:top", "unknown:top-bytes", "unknown:meta", "unknown:argon",
              "dup-same:salt", "dup-same:blob", "dup-same:meta", "dup-first:mem",
              "overlong:mem", "hibits:mem", "hibits:par", "reorder:top", "reorder:argon", "split:meta",
              "flip:same"}
\* the PEM text changes, the block it carries (banner, body bytes) does not
PemAlts   == {"trail-text", "trail-block", "lead-text", "headers", "crlf", "nofinalnl", "wrap76", "oneline",
              "padbits", "spaces", "flip:same"}
\* the PEM text is damaged: a standard PEM reader finds no block (or walk: whatever it finds)
PemBroken == {"begin-dash", "end-mismatch", "b64-char", "flip:noblock"}
\* raw key bytes of a plain file
BodyAlts  == {"flip", "trunc1", "ext1", "empty"}

AlterBody(arg, f) ==
    CASE arg = "flip"   -> [f EXCEPT !.key = "k1"]
      [] arg = "trunc1" -> [f EXCEPT !.key = "k1", !.len = @ - 1]
      [] arg = "ext1"   -> [f EXCEPT !.key = "k1", !.len = @ + 1]
      [] arg = "empty"  -> [f EXCEPT !.key = "k1", !.len = 0]

AlterWire(arg, f) ==
    CASE arg = "trunc:boundary" -> [f EXCEPT !.shape = "absent", !.canon = FALSE]   \* cut between metadata and ciphertext
      [] arg = "flip:changed"   -> [f EXCEPT !.ct = "c1", !.canon = FALSE]          \* some decoded value differs
      [] OTHER                  -> [f EXCEPT !.wf = FALSE, !.canon = FALSE]         \* no longer a message

AlterField(arg, f) ==
    CASE arg = "alg:alt"     -> [f EXCEPT !.alg = "AES-128-GCM"]
      [] arg = "alg:case"    -> [f EXCEPT !.alg = "aes-256-gcm"]
      [] arg = "alg:absent"  -> [f EXCEPT !.alg = ""]
      [] arg = "ver:+"       -> [f EXCEPT !.ver = @ + 1]
      [] arg = "ver:-"       -> [f EXCEPT !.ver = @ - 1]
      [] arg = "ver:absent"  -> [f EXCEPT !.ver = 0]
      [] arg = "mem:+"       -> [f EXCEPT !.mem = @ + 1]
      [] arg = "mem:-"       -> [f EXCEPT !.mem = @ - 1]
      [] arg = "mem:x2"      -> [f EXCEPT !.mem = @ * 2]
      [] arg = "mem:absent"  -> [f EXCEPT !.mem = 0]
      [] arg = "it:+"        -> [f EXCEPT !.it = @ + 1]
      [] arg = "it:-"        -> [f EXCEPT !.it = @ - 1]
      [] arg = "it:absent"   -> [f EXCEPT !.it = 0]
      [] arg = "par:+"       -> [f EXCEPT !.par = @ + 1]
      [] arg = "par:-"       -> [f EXCEPT !.par = @ - 1]
      [] arg = "par:+256"    -> [f EXCEPT !.par = @ + 256]
      [] arg = "par:absent"  -> [f EXCEPT !.par = 0]
      [] arg = "salt:flip"   -> [f EXCEPT !.salt = [id |-> "s1", len |-> 32]]
      [] arg = "salt:trunc"  -> [f EXCEPT !.salt = [id |-> "s1", len |-> 31]]
      [] arg = "salt:ext"    -> [f EXCEPT !.salt = [id |-> "s1", len |-> 33]]
      [] arg = "salt:short"  -> [f EXCEPT !.salt = [id |-> "s1", len |-> 15]]
      [] arg \in {"salt:empty", "salt:absent"} -> [f EXCEPT !.salt = NoSalt]
      [] arg = "nonce:flip"  -> [f EXCEPT !.nonce = "n1"]
      [] arg = "ct:flip"     -> [f EXCEPT !.ct = "c1"]
      [] arg = "tag:flip"    -> [f EXCEPT !.tag = "t1"]
      [] arg \in {"blob:trunc1", "blob:trunc16", "blob:ext1", "blob:pre1"} -> [f EXCEPT !.shape = "shifted"]
      [] arg \in {"blob:nonceonly", "blob:empty"} -> [f EXCEPT !.shape = "short"]
      [] arg = "blob:absent"   -> [f EXCEPT !.shape = "absent"]
      [] arg = "argon:absent"  -> [f EXCEPT !.ver = 0, !.mem = 0, !.it = 0, !.par = 0, !.salt = NoSalt]
      [] arg = "meta:absent"   -> [f EXCEPT !.alg = "", !.ver = 0, !.mem = 0, !.it = 0, !.par = 0, !.salt = NoSalt]
      [] arg = "dup-last:mem"  -> [f EXCEPT !.mem = @ + 1, !.canon = FALSE]
      [] arg = "dup-last:salt" -> [f EXCEPT !.salt = [id |-> "s1", len |-> 32], !.canon = FALSE]
      [] arg = "dup-last:blob" -> [f EXCEPT !.ct = "c1", !.canon = FALSE]

RestOf(arg) == CASE arg = "trail-text" -> "text" [] arg = "trail-block" -> "block" [] OTHER -> "none"

Alter(op, arg, f) ==
    CASE op = "none"   -> f
      [] op = "banner" -> [f EXCEPT !.banner = arg]
      [] op = "pem"    -> [f EXCEPT !.pem = IF arg \in PemBroken THEN "broken" ELSE "variant", !.rest = RestOf(arg)]
      [] op = "body"   -> AlterBody(arg, f)
      [] op = "reenc"  -> [f EXCEPT !.canon = FALSE]
      [] op = "wire"   -> AlterWire(arg, f)
      [] op = "field"  -> AlterField(arg, f)

(***************************************************************************)
(* Vectors                                                                 *)
(*  m, c, prof, penc  what wrote the file (penc: class of the passphrase   *)
(*                    used to encrypt: ascii / empty / binary / long)      *)
(*  op, arg           alteration                                           *)
(*  o, prel           opener, and the passphrase it is given relative to   *)
(*                    the encryption passphrase                            *)
(***************************************************************************)
PassRels   == {"same", "other", "empty", "ext", "ext0", "trunc", "bit", "mid", "tail"}
             \* bit / mid / tail: one byte of the passphrase changed at its start / in its middle / at its end: every byte
             \* of a passphrase of any length matters
PassId(r)  == IF r = "same" THEN "p0" ELSE r              \* every other relation is another passphrase
RelOk(penc, r) == penc = "empty" => r \notin {"empty", "trunc", "bit", "mid", "tail"}

V(m, c, prof, penc, op, arg, o, prel) ==
    [m |-> m, c |-> c, prof |-> prof, penc |-> penc, op |-> op, arg |-> arg, o |-> o, prel |-> prel]

BannerSwaps(m, c) == {<<"banner", b>> : b \in AllBanners \ {Banner(m, c)}}
AnyFileAlts == {<<"pem", a>> : a \in PemAlts \cup PemBroken}
EncAlts     == {<<"field", a>> : a \in FieldAlts} \cup {<<"wire", a>> : a \in WireAlts} \cup {<<"reenc", a>> : a \in ReencAlts}
PlainAlts   == {<<"body", a>> : a \in BodyAlts}

BigProfs   == IF Thorough THEN {"min", "mid", "par255"} ELSE {"min", "mid"}
DefProfs   == {"def32"} \cup (IF Def64 THEN {"def64"} ELSE {})
PEncs      == {"ascii", "empty", "binary", "long"}        \* long: 300 bytes

\* A  every alteration of an encrypted file, right passphrase, opened by Decrypt...
AltsA(c) == {<<"none", "-">>} \cup EncAlts \cup AnyFileAlts \cup BannerSwaps("enc", c)
LatA == UNION {{V("enc", c, p, pe, a[1], a[2], "dec", "same") :
                  p \in BigProfs, pe \in (IF Thorough THEN PEncs ELSE {"ascii"}), a \in AltsA(c)} : c \in Curves}
\* P  passphrases x parameter profiles, file intact or altered without touching a decoded value
LatP == {V("enc", c, p, pe, a[1], a[2], "dec", r) :
           c \in Curves, p \in BigProfs \cup {"par255"}, pe \in PEncs, r \in PassRels,
           a \in {<<"none", "-">>, <<"reenc", "unknown:top">>, <<"pem", "trail-block">>}}
\* D  the default parameters of nebula-cert: a handful
AltsD(p) == IF p = "def32" THEN {<<"none", "-">>, <<"field", "par:+">>, <<"field", "mem:-">>, <<"field", "it:+">>}
            ELSE {<<"none", "-">>}
LatD == UNION {{V("enc", c, p, "ascii", a[1], a[2], "dec", r) :
                  c \in (IF Thorough THEN Curves ELSE {"25519"}), r \in {"same", "ext"}, a \in AltsD(p)} : p \in DefProfs}
\* X  every file under every banner into every opener
LatXmc(m, c) == {V(m, c, IF m = "enc" THEN "min" ELSE "-", IF m = "enc" THEN "ascii" ELSE "-", a[1], a[2], o, "same") :
                   o \in Openers, a \in {<<"none", "-">>} \cup BannerSwaps(m, c)}
LatX == UNION {LatXmc(mc[1], mc[2]) : mc \in Kinds \X Curves}
\* B  plain files: key bytes and PEM text altered, opened by the API of their kind
LatB == {V(m, c, "-", "-", a[1], a[2], m, "same") :
           m \in PlainKinds, c \in Curves, a \in PlainAlts \cup AnyFileAlts}

Inputs == {v \in LatA \cup LatP \cup LatD \cup LatX \cup LatB : RelOk(v.penc, v.prel)}

File(v) == Alter(v.op, v.arg, Marshal(v.m, v.c, v.prof))

(***************************************************************************)
(* Reference layer: the statement                                          *)
(***************************************************************************)
\* the decoded values of the encrypted message
Content(f) == <<f.alg, f.ver, f.mem, f.it, f.par, f.salt, f.nonce, f.ct, f.tag, f.shape>>
DataAltered(f0, f) == f0.enc /\ (~f.wf \/ Content(f) # Content(f0))
Reencoded(f)       == ~f.canon
TextAltered(f)     == f.pem # "canon"

Refuse       == [verdict |-> "refuse", key |-> "-", curve |-> "-", rest |-> "-"]
Give(w, k, c, r) == [verdict |-> w, key |-> k, curve |-> c, rest |-> r]

Expected(v) ==
    LET f0 == Marshal(v.m, v.c, v.prof)
        f  == File(v)
        bk == KindOfBanner(f.banner)
        bc == CurveOfBanner(f.banner)
    IN
    IF bk # KindOfOpener(v.o) THEN Refuse                     \* "refused under the wrong banner"
    ELSE IF v.o = "dec" THEN
         IF ~f0.enc THEN Refuse                               \* nothing was encrypted: raw bytes under an ENCRYPTED banner
         ELSE IF bc # v.c THEN Refuse                         \* the other curve's ENCRYPTED banner is a wrong banner
         ELSE IF PassId(v.prel) # "p0" THEN Refuse            \* "refused with any other passphrase"
         ELSE IF DataAltered(f0, f) THEN Refuse               \* "... or any alteration of the encrypted data"
         ELSE IF Reencoded(f) THEN (IF StrictBytes THEN Refuse ELSE Give("free", "k0", v.c, f.rest))
         ELSE IF TextAltered(f) THEN Give("free", "k0", v.c, f.rest)
         ELSE Give("accept", "k0", v.c, f.rest)               \* "decrypts back to exactly the original key"
    ELSE \* a plain opener and a banner of its kind: the file IS Marshal_bk(bc, body); "round-trip for every curve"
         IF f.enc \/ f.len # KeyLen(bk, bc) THEN Give("free", "body", bc, f.rest)   \* not a key of that curve: silent
         ELSE IF TextAltered(f) THEN Give("free", "body", bc, f.rest)
         ELSE Give("accept", "body", bc, f.rest)

(***************************************************************************)
(* Machine layer: the shape of the Go code                                 *)
(* pemok: the PEM reader found the block with banner and body unchanged    *)
(* (always TRUE for canonical text; either for a changed text).            *)
(***************************************************************************)
No(stage)      == [ok |-> FALSE, stage |-> stage, key |-> "-", curve |-> "-"]
Yes(k, c)      == [ok |-> TRUE, stage |-> "done", key |-> k, curve |-> c]

AcceptsM(o) == CASE o = "priv"  -> {Banner("priv", c) : c \in Curves}
                 [] o = "spriv" -> {Banner("spriv", c) : c \in Curves}
                 [] o = "pub"   -> {Banner("pub", c) : c \in Curves}
                 [] o = "spub"  -> {Banner("spub", c) : c \in Curves}
                 [] o = "dec"   -> {Banner("enc", c) : c \in Curves}

OpenPlainM(o, f) ==
    IF o = "spriv" /\ f.banner \in AcceptsM("dec") THEN No("encrypted")        \* ErrPrivateKeyEncrypted
    ELSE IF f.banner \notin AcceptsM(o) THEN No("banner")
    ELSE LET c == CurveOfBanner(f.banner)
             n == IF f.enc THEN 150 ELSE f.len                                 \* an encrypted message is ~150 bytes
         IN IF n # KeyLen(o, c) THEN No("length") ELSE Yes("body", c)

OpenDecM(pass, f) ==
    IF f.banner \notin AcceptsM("dec") THEN No("banner")
    ELSE LET c == CurveOfBanner(f.banner) IN
    IF ~f.enc THEN No("parse")                       \* raw key bytes are no RawNebulaEncryptedData with metadata
    ELSE IF ~f.wf THEN No("parse")                   \* proto.Unmarshal
    ELSE IF ~(f.mem >= 1 /\ f.par >= 1 /\ f.par <= MaxPar /\ f.it >= 1) THEN No("bounds")   \* unmarshalArgon2Parameters
    ELSE IF f.alg # Algorithm THEN No("algorithm")
    ELSE IF f.ver # ArgonVersion THEN No("version")  \* deriveKey
    ELSE IF f.salt.id # "-" /\ f.salt.len < 16 THEN No("salt")
    ELSE LET s == IF f.salt.id = "-" THEN [id |-> "fresh", len |-> 32] ELSE f.salt   \* nil salt: a random one is drawn
             k == Derive(pass, f.ver, f.mem, f.it, f.par, s)
         IN
         IF f.shape \in {"short", "absent"} THEN No("split")                         \* blob not longer than a nonce
         ELSE IF ~(k = f.sealed /\ f.nonce = "n0" /\ f.ct = "c0" /\ f.tag = "t0" /\ f.shape = "ok") THEN No("open")
         ELSE IF f.len # KeyLen("enc", c) THEN No("length")
         ELSE Yes(f.key, c)

OpenM(o, pass, f, pemok) ==
    IF ~pemok THEN No("pem")
    ELSE IF o = "dec" THEN OpenDecM(pass, f) ELSE OpenPlainM(o, f)

PemOutcomes(f) == CASE f.pem = "canon" -> {TRUE} [] f.pem = "broken" -> {FALSE} [] OTHER -> BOOLEAN

(***************************************************************************)
(* One state = one vector                                                  *)
(***************************************************************************)
VARIABLES in,     \* the vector
          orig,   \* the term the Marshal API wrote
          file,   \* ... after the alteration
          exp,    \* reference: what the statement demands
          mach    \* what the code-shaped machine does (PEM reader delivering the block, if it can)
vars == <<in, orig, file, exp, mach>>
Init == /\ in \in Inputs
        /\ orig = Marshal(in.m, in.c, in.prof)
        /\ file = File(in)
        /\ exp = Expected(in)
        /\ mach = OpenM(in.o, PassId(in.prel), File(in), File(in).pem # "broken")
Next == UNCHANGED vars
Spec == Init /\ [][Next]_vars

(***************************************************************************)
(* Link, checked by TLC on every vector                                    *)
(***************************************************************************)
\* the machine refines the reference: what it returns is what the statement allows, and what the statement demands it returns
MachineRefines ==
    \A pemok \in PemOutcomes(file) :
      LET r == OpenM(in.o, PassId(in.prel), file, pemok) IN
        /\ r.ok => /\ exp.verdict # "refuse"
                   /\ r.key = exp.key
                   /\ r.curve = exp.curve
        /\ exp.verdict = "accept" => r.ok

\* the statement itself, on the machine: an encrypted key opens only with its passphrase and its data unaltered ...
OnlyRightPassphraseAndData ==
    (in.m = "enc" /\ in.o = "dec") =>
       \A pemok \in PemOutcomes(file) :
          OpenM("dec", PassId(in.prel), file, pemok).ok =>
             /\ in.prel = "same"
             /\ ~DataAltered(Marshal(in.m, in.c, in.prof), file)
             /\ file.banner = Banner("enc", in.c)
\* ... and then it does open, to exactly the original key
RoundTrip ==
    (in.op = "none" /\ in.prel = "same" /\ KindOfOpener(in.o) = in.m) =>
       /\ mach.ok /\ mach.curve = in.c
       /\ mach.key = (IF in.m = "enc" THEN "k0" ELSE "body")
       /\ exp.verdict = "accept"
\* a key never comes back from an opener of another kind
WrongBannerRefused ==
    KindOfBanner(file.banner) # KindOfOpener(in.o) => (~mach.ok /\ exp.verdict = "refuse")
\* every vector of the A lattice that changes a decoded value is expected to be refused, every re-encoding is not (weak reading)
ClassesAsIntended ==
    (in.m = "enc" /\ in.o = "dec" /\ in.prel = "same") =>
       /\ in.op \in {"field", "wire"} => exp.verdict = "refuse"
       /\ (in.op = "reenc" /\ ~StrictBytes) => exp.verdict = "free"
       /\ in.op = "pem" => exp.verdict = "free"
=============================================================================
