\* Diagnostic only (never part of a verdict): the delete sections WITHOUT an ownership test on the local /
\* pending / relay index, as in hostmap.go and handshake_manager.go at the pinned commit.  TLC reports
\* HostsOK violated at depth 5: Add t1 (index 1); Delete t1; Add t2 (index 1 re-used); Delete t1 again.
SPECIFICATION Spec
CONSTANTS NT = 2
          NA = 3
          NI = 2
          NR = 1
          Shapes <- ShapesA
          MaxPerAddr = 1
          MaxRel = 1
          OwnerTest = FALSE
INVARIANTS TypeOK HostsOK LiveListed NoDangling IndexesOK Disjoint PendingOK UniqueIdx UniqueRel
PROPERTIES IndexOwner RemoteOwner
VIEW View
CHECK_DEADLOCK FALSE
