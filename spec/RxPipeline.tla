----------------------------- MODULE RxPipeline -----------------------------
(***************************************************************************)
(* The underlay receive pipeline (outside.go readOutsidePackets) against   *)
(* altered copies of genuine encrypted packets -- C14.                     *)
(*                                                                         *)
(* A vector is a genuine packet g of some kind on tunnel T (peer -> node   *)
(* under test) with up to MaxMut fields altered. The pipeline is modelled  *)
(* stage by stage in the order of the code:                                *)
(*   parse(16 bytes) -> version -> type/subtype table -> source address    *)
(*   not inside the overlay -> unencrypted branches (handshake, recv_error)*)
(*   -> index lookup -> length -> window pre-check -> AEAD over            *)
(*   (key of the tunnel found, counter, header as additional data, body,   *)
(*   tag) -> window update -> roam / liveness / dispatch                   *)
(* Symbolic AEAD: it opens iff key, counter, all 16 header bytes, body and *)
(* tag are exactly those of one genuine encryption.                        *)
(***************************************************************************)
EXTENDS Integers, Sequences, FiniteSets, TLC

CONSTANTS MaxMut,            \* how many fields may be altered at once
          AcceptRecvError    \* listen.accept_recv_error is not "never"

Kinds == {"data", "testreq", "testreply", "close", "lighthouse", "control", "relayed"}

\* alterations per field ("orig" = untouched)
Ver   == {"orig", "other"}
Typ   == {"orig", "handshake", "recverror", "othertype", "invalid"}
        \* othertype: another encrypted type with a valid subtype (e.g. data -> close, test -> data)
        \* invalid  : a type/subtype pair outside the table
Resv  == {"orig", "flipped"}
Index == {"orig", "otherlive", "unknown", "reverse"}
        \* otherlive: local index of another live tunnel of the node; reverse: the index the PEER uses for
        \* this tunnel (what an unencrypted recv_error names)
Ctr   == {"orig", "fresh", "seen", "ceiling", "max"}   \* ceiling: 2^64-1-2^40 (RejectAfterMessages), max: 2^64-1: far ahead of the window
        \* fresh: another counter value not yet accepted; seen: the packet is delivered after the genuine one
Body  == {"orig", "bitflip", "headeronly", "short", "cut1", "extended", "otherbody"}
Tag   == {"orig", "flipped"}
Src   == {"orig", "spoofed", "overlay"}

Muts == [ver : Ver, typ : Typ, resv : Resv, idx : Index, ctr : Ctr, body : Body, tag : Tag, src : Src]
NMut(m) == Cardinality({f \in {"ver", "typ", "resv", "idx", "ctr", "body", "tag", "src"} : m[f] # "orig"})

Inputs == {[kind |-> k, m |-> m] : k \in Kinds, m \in {x \in Muts : NMut(x) <= MaxMut}}

-----------------------------------------------------------------------------
(* Reference: what the statement allows *)
\* produced by the tunnel's peer and not yet accepted: nothing altered (the claimed source may differ: roaming)
Genuine(m) == /\ m.ver = "orig" /\ m.typ = "orig" /\ m.resv = "orig" /\ m.idx = "orig" /\ m.ctr = "orig"
              /\ m.body = "orig" /\ m.tag = "orig"

(* Machine: the pipeline, stage by stage. Result: "effect" (acted upon), "none", "recverr-reply" (state    *)
(* unchanged, a recv_error is sent back), "hs-refused" (handed to the handshake manager which must refuse  *)
(* it without any change), "recverr-teardown" (the named deviation: an unencrypted recv_error closes the   *)
(* tunnel).                                                                                                  *)
Pipeline(k, m) ==
    IF m.body = "headeronly" /\ FALSE THEN "none"
    ELSE IF m.ver # "orig" THEN "none"
    ELSE IF m.typ = "invalid" THEN "none"
    ELSE IF m.src = "overlay" THEN "none"
    ELSE IF m.typ = "handshake" THEN "hs-refused"
    ELSE IF m.typ = "recverror"
      THEN IF AcceptRecvError /\ m.idx = "reverse" /\ m.src = "orig" THEN "recverr-teardown" ELSE "none"
    ELSE IF m.idx \in {"unknown", "reverse"} THEN "recverr-reply"
    \* "seen" vectors arrive after the genuine packet was accepted: a genuine close has removed the tunnel
    ELSE IF k = "close" /\ m.ctr = "seen" /\ m.idx = "orig" THEN "recverr-reply"
    \* relayed packets are looked up among the relay indexes, everything else among the tunnel indexes: an index
    \* of the other namespace is an unknown index
    ELSE IF k = "relayed" /\ (m.idx = "otherlive" \/ m.typ = "othertype") THEN "recverr-reply"
    ELSE IF m.body \in {"headeronly", "short"} THEN "none"                  \* shorter than header + tag
    ELSE IF m.ctr = "seen" /\ m.idx = "orig" THEN "none"                    \* window pre-check
    ELSE IF m.idx = "otherlive" THEN "none"                                 \* AEAD under another tunnel's key
    ELSE IF m.typ # "orig" \/ m.resv # "orig" \/ m.ctr # "orig" \/ m.body # "orig" \/ m.tag # "orig" THEN "none"
    ELSE "effect"

VARIABLES in, exp
vars == <<in, exp>>
Init == in \in Inputs /\ exp = Pipeline(in.kind, in.m)
Next == UNCHANGED vars
Spec == Init /\ [][Next]_vars

\* C14: only a genuine packet is acted upon; the only state change an altered packet can cause is the named
\* recv_error deviation (and that one only when the configuration accepts recv_error)
OnlyGenuineActs == exp = "effect" => Genuine(in.m)
AlteredInert    == ~Genuine(in.m) => exp \in {"none", "recverr-reply", "hs-refused", "recverr-teardown"}
TeardownOnlyByConfig == exp = "recverr-teardown" => AcceptRecvError
GenuineActsUnlessFiltered == (Genuine(in.m) /\ in.m.src # "overlay") => exp = "effect"
=============================================================================
