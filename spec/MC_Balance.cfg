SPECIFICATION Spec
CONSTANTS H = 8
          MaxGw = 4
          MaxW = 6
INVARIANTS MachineRefines WalkRefines ExactlyOneBucket PortPairOnly WideAgrees WideArithmetic
CHECK_DEADLOCK FALSE
