INIT McInit
NEXT McNext
CONSTANT Thorough = FALSE
CONSTANT NSample = 0
INVARIANTS McGuard
CHECK_DEADLOCK FALSE
