SPECIFICATION TSpec
CONSTANT Thorough = FALSE
CHECK_DEADLOCK FALSE
