----------------------------- MODULE Trace_Relay -----------------------------
(* Trace validation for C39: four complete nodes (A initiator, R relay, T target, M hostile but authenticated   *)
(* peer) in a synctest bubble. One line per stimulus handled to quiescence by node n:                           *)
(*  {"ev":"Recv","n":"R","s":"A","typ":"control|relay|data|...","recs":[...],"tuns":[...],"fwd":["T"]}          *)
(*        an encrypted datagram that n authenticated under its tunnel with s                                     *)
(*  {"ev":"Local","n":"A","recs":[...],"tuns":[...]}   anything else (inside packet, handshake datagram, timer,  *)
(*        tunnel closed): relay records may only follow tunnel loss or the node starting its own relays          *)
(*  recs = all relay records of n after the step: {peer, tun, addr, type, state, lidx, ridx}                     *)
(*  live = the tunnels (by local index name) n holds after the step; ridx = HostMap.Relays as [index, tunnel]       *)
EXTENDS Relay, Json

Log == ndJsonDeserialize("trace.ndjson")
VARIABLE l
tvars == <<vars, l>>

SetOfSeq(s) == {s[i] : i \in 1..Len(s)}
TraceInit == Init /\ l = 1
IsEvent(e) == l <= Len(Log) /\ Log[l].ev = e /\ l' = l + 1

TraceReset == /\ IsEvent("reset") /\ recs' = [n \in Nodes |-> {}] /\ tuns' = [n \in Nodes |-> {}] /\ ridx' = [n \in Nodes |-> {}]
              /\ am' = [n \in Nodes |-> IF AmRelay[n] THEN "on" ELSE "off"]
\* {"ev":"Reload","n":"R","am":false}: the node's configuration was reloaded with this relay.am_relay
TraceReload == IsEvent("Reload") /\ Reload(Log[l].n, Log[l].am)
\* "ridx":[[index, tunnel],..] = HostMap.Relays after the step (tunnel 0: the index leads to a tunnel the node no longer holds)
Ridx(e) == {<<x[1], x[2]>> : x \in SetOfSeq(e.ridx)}

TraceRecv == /\ IsEvent("Recv")
             /\ LET e == Log[l] IN
                /\ Recv(e.n, e.s, e.typ, SetOfSeq(e.recs), SetOfSeq(e.fwd), SetOfSeq(e.tuns), Ridx(e))

\* a close message is a tunnel loss and is logged as Local
TraceLocal == /\ IsEvent("Local")
              /\ LET e == Log[l] IN Local(e.n, SetOfSeq(e.recs), SetOfSeq(e.tuns), Ridx(e), LAMBDA r : r.tun \in SetOfSeq(e.live))

TraceNext == TraceReset \/ TraceRecv \/ TraceLocal \/ TraceReload
TraceSpec == TraceInit /\ [][TraceNext]_tvars
TraceAccepted == TLCGet("stats").diameter - 1 = Len(Log)
=============================================================================
