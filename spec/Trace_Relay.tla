----------------------------- MODULE Trace_Relay -----------------------------
(* Trace validation for C39: four complete nodes (A initiator, R relay, T target, M hostile but authenticated   *)
(* peer) in a synctest bubble. One line per stimulus handled to quiescence by node n:                           *)
(*  {"ev":"Recv","n":"R","s":"A","typ":"control|relay|data|...","recs":[...],"tuns":[...],"fwd":["T"]}          *)
(*        an encrypted datagram that n authenticated under its tunnel with s                                     *)
(*  {"ev":"Local","n":"A","recs":[...],"tuns":[...]}   anything else (inside packet, handshake datagram, timer,  *)
(*        tunnel closed): relay records may only follow tunnel loss or the node starting its own relays          *)
(*  recs = all relay records of n after the step: {peer, addr, type, state, lidx, ridx}                          *)
EXTENDS Relay, Json

Log == ndJsonDeserialize("trace.ndjson")
VARIABLE l
tvars == <<vars, l>>

SetOfSeq(s) == {s[i] : i \in 1..Len(s)}
TraceInit == Init /\ l = 1
IsEvent(e) == l <= Len(Log) /\ Log[l].ev = e /\ l' = l + 1

TraceReset == IsEvent("reset") /\ recs' = [n \in Nodes |-> {}] /\ tuns' = [n \in Nodes |-> {}]

TraceRecv == /\ IsEvent("Recv")
             /\ LET e == Log[l] IN
                /\ Recv(e.n, e.s, e.typ, SetOfSeq(e.recs), SetOfSeq(e.fwd), SetOfSeq(e.tuns))

\* a close message is a tunnel loss and is logged as Local
TraceLocal == /\ IsEvent("Local")
              /\ LET e == Log[l] IN Local(e.n, SetOfSeq(e.recs), SetOfSeq(e.tuns))

TraceNext == TraceReset \/ TraceRecv \/ TraceLocal
TraceSpec == TraceInit /\ [][TraceNext]_tvars
TraceAccepted == TLCGet("stats").diameter - 1 = Len(Log)
=============================================================================
