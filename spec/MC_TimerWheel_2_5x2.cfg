SPECIFICATION Spec
CONSTANTS TickD = 2
          Span = 5
          Items = {1, 2}
          Timeouts = {1, 3, 6}
          Gaps = {1, 9}
          CacheMax = 1
          StaleAdds = FALSE
INVARIANTS TypeOK ExactlyOnce NotEarly NotLate PurgeAgrees
VIEW View
CHECK_DEADLOCK FALSE
