---------------------------- MODULE LockOrderData ----------------------------
(* The data of LockOrder.tla: Progs (episode programs) and ComboSets (named sequences of combos; the cfg picks one with  *)
(* the constant Which). THIS file holds hand-written demo data: the self-test of the model, run by every bin/check C34   *)
(* as a vacuity guard, and the shape of what tools/props/C34.py generates from the recorded traces - at check time a      *)
(* generated LockOrderData.tla (Progs + ComboSets.run) replaces this file in the scratch copy of spec/; it is never       *)
(* stored. (Plain definitions on purpose: TLC re-evaluates a definition substituted for a CONSTANT with `<-` at every     *)
(* use, which made the generated model 1000x slower.)                                                                     *)
EXTENDS Integers, Sequences

W(l, s) == [op |-> "want", l |-> l, m |-> "w", s |-> s]
G(l, s) == [op |-> "got", l |-> l, m |-> "w", s |-> s]
U(l, s) == [op |-> "rel", l |-> l, m |-> "w", s |-> s]
RW_(l, s) == [op |-> "want", l |-> l, m |-> "r", s |-> s]
RG(l, s) == [op |-> "got", l |-> l, m |-> "r", s |-> s]
RU(l, s) == [op |-> "rel", l |-> l, m |-> "r", s |-> s]

DemoProgs == <<
  (* 1: Lock a; Lock b; Unlock b; Unlock a *)
  << W(1, "x.go:1"), G(1, "x.go:1"), W(2, "x.go:2"), G(2, "x.go:2"), U(2, "x.go:3"), U(1, "x.go:4") >>,
  (* 2: RLock a; RLock a (nested); RUnlock; RUnlock *)
  << RW_(1, "y.go:1"), RG(1, "y.go:1"), RW_(1, "y.go:2"), RG(1, "y.go:2"), RU(1, "y.go:3"), RU(1, "y.go:4") >>,
  (* 3: Lock a; Unlock a *)
  << W(1, "z.go:1"), G(1, "z.go:1"), U(1, "z.go:2") >>,
  (* 4: RLock a; Lock b; Unlock b; RUnlock a *)
  << RW_(1, "v.go:1"), RG(1, "v.go:1"), W(2, "v.go:2"), G(2, "v.go:2"), U(2, "v.go:3"), RU(1, "v.go:4") >>
>>

NoGate == << <<0, 0>>, <<0, 0>>, <<0, 0>> >>

(* no deadlock: same order; readers on a, each takes the mutex b; a lone recursive reader; AB-BA made impossible by a fork edge *)
DemoGood == <<
  [eps |-> <<1, 1>>, lk |-> << <<1, 2>>, <<1, 2>> >>, kind |-> <<"rw", "m">>, gate |-> NoGate],
  [eps |-> <<4, 4>>, lk |-> << <<1, 2>>, <<1, 2>> >>, kind |-> <<"rw", "m">>, gate |-> NoGate],
  [eps |-> <<2, 2>>, lk |-> << <<1>>, <<1>> >>, kind |-> <<"rw">>, gate |-> NoGate],
  [eps |-> <<1, 1>>, lk |-> << <<1, 2>>, <<2, 1>> >>, kind |-> <<"rw", "m">>, gate |-> << <<0, 0>>, <<1, 6>>, <<0, 0>> >>]
>>

(* each of these must be reported *)
DemoABBA == << [eps |-> <<1, 1>>, lk |-> << <<1, 2>>, <<2, 1>> >>, kind |-> <<"rw", "m">>, gate |-> NoGate] >>
DemoRRLock == << [eps |-> <<2, 3>>, lk |-> << <<1>>, <<1>> >>, kind |-> <<"rw">>, gate |-> NoGate] >>
DemoThree == << [eps |-> <<1, 1, 1>>, lk |-> << <<1, 2>>, <<2, 3>>, <<3, 1>> >>, kind |-> <<"m", "m", "m">>, gate |-> NoGate] >>
DemoBad == DemoABBA \o DemoRRLock \o DemoThree

Progs == DemoProgs
ComboSets == [good |-> DemoGood, bad |-> DemoBad]
=============================================================================
