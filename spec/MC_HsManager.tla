---------------------------- MODULE MC_HsManager ----------------------------
EXTENDS HsManager
\* A: honest initiator/responder; B: honest, certificate with two addresses; M: honest identity that A's
\* address book wrongly lists for b1 (wrong responder); X: holds a certificate for b1 issued by an untrusted CA;
\* S: a second machine holding a trusted certificate for A's own address a1.
MCNodes == {"A", "B", "M", "X"}
MCAddrs == {"a1", "b1", "b2", "m1"}
MCCert  == [n \in MCNodes |-> CASE n = "A" -> <<"a1">> [] n = "B" -> <<"b1", "b2">> [] n = "M" -> <<"m1">> [] n = "X" -> <<"b1">>]
MCOwn == [n \in MCNodes |-> {MCCert[n][k] : k \in 1..Len(MCCert[n])}]
MCTrusts == [n \in MCNodes |-> IF n = "X" THEN {"X"} ELSE {"A", "B", "M"}]
MCRoute == [n \in MCNodes |-> [a \in MCAddrs |->
              CASE n = "A" /\ a = "b1" -> <<"M", "B">>
                [] n = "A" /\ a = "b2" -> <<"B">>
                [] n = "A" /\ a = "m1" -> <<"M">>
                [] n = "B" /\ a = "a1" -> <<"A">>
                [] n = "X" /\ a = "a1" -> <<"A">>
                [] OTHER -> <<>>]]
=============================================================================
