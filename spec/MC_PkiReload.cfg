SPECIFICATION Spec
CONSTANTS Patched = TRUE
          Wide = FALSE
INVARIANTS Link PoolLink SharedKeyAndPrimary
PROPERTIES CurveFixed PrimaryFixed V2Only NoSilentSwap UnreadableKeepsPool
CHECK_DEADLOCK FALSE
