SPECIFICATION Spec
CONSTANTS Senders = {s1, s2, s3}
          Ceiling = 8
          HsMsgs = 2
          Starts = {2, 5, 6, 7, 8, 9}
          LockNeeded = FALSE
          Grain = "gate"
INVARIANTS TypeOK NoReuse AboveHs BelowCeil Increasing Accounted
PROPERTIES NoRewind Monotone
CHECK_DEADLOCK FALSE
