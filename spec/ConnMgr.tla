------------------------------- MODULE ConnMgr -------------------------------
(***************************************************************************)
(* Periodic tunnel check of the connection manager (connection_manager.go) *)
(* C30: tunnel teardown decisions follow the liveness policy.              *)
(*                                                                         *)
(* Reference layer : CertStatus, Fates, PolicyOK -- the clauses of the     *)
(*                   statement as a relation between the state a check     *)
(*                   finds and the outcome it may produce.                 *)
(* Machine layer   : Decide -- makeTrafficDecision followed by             *)
(*                   doTrafficCheck, branch by branch.                     *)
(* Link            : DecideInPolicy (every lattice state / every check of  *)
(*                   every history), NoRemovalWithInbound, SilenceRemoval. *)
(*                                                                         *)
(* Two uses: vector mode (INIT VecInit NEXT VecNext: every abstract state  *)
(* is one vector with the expected outcome and the set of outcomes the     *)
(* statement allows) and history mode (INIT Init NEXT Next: environment    *)
(* actions and checks over an explicit clock).                             *)
(***************************************************************************)
EXTENDS Integers, FiniteSets, Sequences, TLC

CONSTANTS CheckI,      \* timers.connection_alive_interval   (clock units)
          PendI,       \* timers.pending_deletion_interval
          Timeouts,    \* values tunnels.inactivity_timeout takes
          ExpAt,       \* clock value from which the peer certificate is expired (history mode)
          MaxClock, MaxChecks,
          Acts,        \* environment action groups enabled (history mode)
          WithOk,      \* BOOLEAN: history mode records the whole set Policy(state) at every check (needed for replay only)
          MaxEnv,      \* > 0: at most this many environment actions (other than the clock) between two checks; 0: unlimited
          LateBy,      \* the clock may pass the due time of the check by at most this much
          FatalAfter,  \* blocklisting / distrust / counter exhaustion only from this many checks on (shapes simulated histories)
          Full         \* BOOLEAN: size of the vector lattice

Never == -1000         \* lastUsed of a tunnel that was never seen in use (zero time.Time)

VARIABLES t,           \* the tunnel under observation
          cfg,         \* [di, drop, timeout]: pki.disconnect_invalid, tunnels.drop_inactive, tunnels.inactivity_timeout
          clock, due,  \* now; earliest time of the next check (the timer wheel never fires early)
          last,        \* what the last step did (for a check: expected outcome and allowed outcomes)
          markAt, inSinceMark, nchecks,  \* history variables
          nenv         \* environment actions since the last check (only counted when MaxEnv > 0)
vars == <<t, cfg, clock, due, last, markAt, inSinceMark, nchecks, nenv>>

CCs == {"lt_rekey", "ge_rekey", "ge_reject"}                 \* message counter class
VCs == {"same", "removed", "peerHigher", "peerHigherNoCert", "belowInit"}
  \* local certificate versus the one the tunnel was built with:
  \*  same             the version used by the tunnel is still configured, nothing newer applies
  \*  removed          the certificate of the tunnel's version was reloaded away
  \*  peerHigher       the peer uses a higher version and we now hold a certificate of that version
  \*  peerHigherNoCert the peer uses a higher version, we have none of it
  \*  belowInit        pki.initiating_version is now above the tunnel's version
  \* mycur = the configured certificate of the tunnel's version is the very one the tunnel uses

-----------------------------------------------------------------------------
(* Reference layer: the statement *)

CertStatus(s) == IF s.bl THEN "blocklisted"
                 ELSE IF ~s.trusted \/ s.expired \/ s.caexp THEN "invalid" ELSE "ok"

CertBad(s, c)   == CertStatus(s) = "blocklisted" \/ (CertStatus(s) = "invalid" /\ c.di)
Exhausted(s)    == s.cc = "ge_reject"
Changed(s)      == ~s.mycur \/ s.vc \in {"removed", "peerHigher", "belowInit"}   \* the local certificate changed
RekeyDue(s)     == s.cc # "lt_rekey"
IdleAtLeast(s, now, d) == s.lastUsed = Never \/ now - s.lastUsed >= d

\* what may happen to the tunnel: kept, closed (peer notified), dropped (deleted locally)
Fates(s, c, now) ==
    IF CertBad(s, c) \/ Exhausted(s)
      THEN (IF CertBad(s, c) THEN {"close"} ELSE {}) \cup (IF Exhausted(s) THEN {"drop"} ELSE {})
    ELSE IF s.in THEN {"keep"}                 \* received traffic since the last check: never removed for lack of traffic
    ELSE IF s.pd THEN {"drop"}                 \* nothing inbound since it was probed / marked
    ELSE IF s.primary /\ ~s.out                \* idle primary tunnel
      THEN (IF c.drop /\ IdleAtLeast(s, now, c.timeout) THEN {"close"} ELSE {"keep"})
    ELSE {"keep"}

Outcomes == [fate : {"keep", "close", "drop"}, probe : BOOLEAN, hs : BOOLEAN, pd : BOOLEAN,
             rearm : {"none", "check", "pending"}]

LongEnough(r) == r = "pending" \/ (r = "check" /\ CheckI >= PendI)

PolicyOK(s, c, now, o) ==
    /\ o.fate \in Fates(s, c, now)
    /\ o.fate # "keep" => (o.rearm = "none" /\ ~o.probe /\ o.hs = s.hs /\ o.pd = s.pd)  \* normal form of a removed tunnel
    /\ o.fate = "keep" =>
         /\ o.rearm # "none"                                  \* it will be checked again
         /\ s.in => (~o.pd /\ ~o.probe)                       \* inbound traffic clears the mark
         /\ o.probe => (~s.in /\ s.out /\ o.pd)               \* a probe goes to a tunnel that sends but does not receive, and marks it
         /\ (~s.in /\ s.out /\ s.primary) => o.probe
         /\ (~s.in /\ ~s.out /\ s.primary) => ~o.pd           \* an idle primary tunnel is not put on the way to removal
         /\ (o.pd /\ ~s.pd) => LongEnough(o.rearm)            \* a whole pending interval before the verdict
         /\ s.hs => o.hs
         /\ o.hs => (s.hs \/ Changed(s) \/ RekeyDue(s))       \* re-handshake only for the two stated reasons
         /\ (s.in /\ s.primary /\ (Changed(s) \/ RekeyDue(s))) => o.hs

\* Policy(s, c, now) = {o \in Outcomes : PolicyOK(s, c, now, o)}, evaluated over the candidates that can satisfy the
\* first two clauses (the fate is allowed; a removed tunnel is in normal form)
Cand(s, F) == {[fate |-> f, probe |-> FALSE, hs |-> s.hs, pd |-> s.pd, rearm |-> "none"] : f \in F \ {"keep"}}
              \cup (IF "keep" \in F THEN [fate : {"keep"}, probe : BOOLEAN, hs : BOOLEAN, pd : BOOLEAN,
                                          rearm : {"none", "check", "pending"}] ELSE {})
Policy(s, c, now) == LET F == Fates(s, c, now) IN {o \in Cand(s, F) : PolicyOK(s, c, now, o)}

\* compact image of an outcome (what the harness compares): fate, probe, hs, pd, rearm
Bit(b) == IF b THEN "1" ELSE "0"
Enc(o) == (CASE o.fate = "keep" -> "k" [] o.fate = "close" -> "c" [] OTHER -> "d") \o Bit(o.probe) \o Bit(o.hs) \o Bit(o.pd)
          \o (CASE o.rearm = "none" -> "n" [] o.rearm = "check" -> "c" [] OTHER -> "p")

-----------------------------------------------------------------------------
(* Machine layer: makeTrafficDecision + doTrafficCheck *)

NeedRehs(s)   == s.vc \in {"removed", "peerHigher", "belowInit"} \/ ~s.mycur \/ s.cc # "lt_rekey"    \* tryRehandshake
ShouldSwap(s) == ~s.peerLower /\ s.cc = "lt_rekey" /\ (s.vc = "removed" \/ s.mycur)                   \* shouldSwapPrimary
Inactive(s, c, now) == c.drop /\ (s.lastUsed = Never \/ ~(now - s.lastUsed < c.timeout))             \* isInactive

Decide(s, c, now) ==
    LET base  == [dec |-> "doNothing", fate |-> "keep", probe |-> FALSE, notify |-> FALSE, hs |-> s.hs, pd |-> s.pd,
                  rearm |-> "none", in |-> s.in, out |-> s.out, lastUsed |-> s.lastUsed, primary |-> s.primary]
        \* getAndResetTrafficCheck
        reset == [base EXCEPT !.in = FALSE, !.out = FALSE, !.lastUsed = IF s.in \/ s.out THEN now ELSE s.lastUsed]
    IN IF CertBad(s, c)                                       \* isInvalidCertificate
         THEN [base EXCEPT !.dec = "closeTunnel", !.fate = "close", !.notify = (s.cc # "ge_reject")]
       ELSE IF s.cc = "ge_reject"
         THEN [base EXCEPT !.dec = "deleteTunnel", !.fate = "drop"]
       ELSE IF s.in
         THEN [reset EXCEPT !.pd = FALSE, !.rearm = "check",
                            !.dec = IF s.primary THEN "tryRehandshake"
                                    ELSE IF ShouldSwap(s) THEN "swapPrimary" ELSE "migrateRelays",
                            !.hs = s.hs \/ (s.primary /\ NeedRehs(s)),
                            !.primary = s.primary \/ ShouldSwap(s)]
       ELSE IF s.pd
         THEN [reset EXCEPT !.dec = "deleteTunnel", !.fate = "drop"]
       ELSE IF s.primary
         THEN IF ~s.out
                THEN IF Inactive(s, c, now)
                       THEN [reset EXCEPT !.dec = "closeTunnel", !.fate = "close", !.notify = TRUE]
                       ELSE [reset EXCEPT !.rearm = "check"]
                \* the probe itself is outbound traffic (Interface.send marks the tunnel)
                ELSE [reset EXCEPT !.dec = "sendTestPacket", !.probe = TRUE, !.pd = TRUE, !.rearm = "pending", !.out = TRUE]
       ELSE [reset EXCEPT !.pd = TRUE, !.rearm = "pending"]    \* "hostinfo sadness": non-primary without inbound traffic

\* reference-level image of a machine outcome (removed tunnels in normal form)
Tuple(s, o) == IF o.fate = "keep"
                 THEN [fate |-> o.fate, probe |-> o.probe, hs |-> o.hs, pd |-> o.pd, rearm |-> o.rearm]
                 ELSE [fate |-> o.fate, probe |-> FALSE, hs |-> s.hs, pd |-> s.pd, rearm |-> "none"]

NoCheck == [act |-> "none", arg |-> "", now |-> 0, o |-> Decide([in |-> FALSE, out |-> FALSE, pd |-> FALSE, lastUsed |-> 0,
                primary |-> TRUE, peerLower |-> FALSE, cc |-> "lt_rekey", bl |-> FALSE, trusted |-> TRUE, expired |-> FALSE,
                caexp |-> FALSE, mycur |-> TRUE, vc |-> "same", hs |-> FALSE, alive |-> TRUE],
                [di |-> FALSE, drop |-> FALSE, timeout |-> 0], 0),
            tup |-> "", ok |-> {}, inpol |-> TRUE, hadIn |-> FALSE, bad |-> FALSE, exh |-> FALSE, markAt |-> Never, inSinceMark |-> FALSE]

-----------------------------------------------------------------------------
(* Vector mode *)

\* The lattice. Factor groups: traffic (in, out, pd, primary) x one of
\*   idle    (lastUsed around the timeout, drop_inactive)
\*   cert    (blocklisted / trusted / expired / CA expired, disconnect_invalid) x counter class
\*   local   (own certificate current?, version situation, address order) x counter class
\* with the other groups at their defaults; Full adds the complete product over the main values.
VecNow   == 20
VecT     == CHOOSE x \in Timeouts : TRUE
CertAll  == [bl : BOOLEAN, trusted : BOOLEAN, expired : BOOLEAN, caexp : BOOLEAN]
CertOK   == [bl |-> FALSE, trusted |-> TRUE, expired |-> FALSE, caexp |-> FALSE]
CertMain == {CertOK, [CertOK EXCEPT !.bl = TRUE], [CertOK EXCEPT !.expired = TRUE], [CertOK EXCEPT !.trusted = FALSE],
             [CertOK EXCEPT !.bl = TRUE, !.expired = TRUE]}
LastAll  == {Never, VecNow - VecT - 1, VecNow - VecT, VecNow - VecT + 1, VecNow}
RestDef  == [lu |-> VecNow, drop |-> FALSE, k |-> CertOK, di |-> FALSE, cc |-> "lt_rekey", mc |-> TRUE, vc |-> "same", pl |-> FALSE]
Rests == {[RestDef EXCEPT !.lu = a, !.drop = d] : a \in LastAll, d \in BOOLEAN}
         \cup {[RestDef EXCEPT !.k = k, !.di = d, !.cc = c] : k \in CertAll, d \in BOOLEAN, c \in CCs}
         \cup {[RestDef EXCEPT !.mc = m, !.vc = v, !.pl = p, !.cc = c] : m \in BOOLEAN, v \in VCs, p \in BOOLEAN, c \in CCs}
         \cup (IF Full THEN [lu : LastAll, drop : BOOLEAN, k : CertMain, di : BOOLEAN, cc : CCs, mc : BOOLEAN,
                             vc : {"same", "removed", "belowInit"}, pl : BOOLEAN] ELSE {})

Seeds == { [alive |-> TRUE, in |-> i, out |-> o, pd |-> p, lastUsed |-> VecNow, primary |-> pr, peerLower |-> FALSE,
            cc |-> "lt_rekey", bl |-> FALSE, trusted |-> TRUE, expired |-> FALSE, caexp |-> FALSE,
            mycur |-> TRUE, vc |-> "same", hs |-> FALSE] : i \in BOOLEAN, o \in BOOLEAN, p \in BOOLEAN, pr \in BOOLEAN }
Fill(x, r) == [x EXCEPT !.lastUsed = r.lu, !.bl = r.k.bl, !.trusted = r.k.trusted, !.expired = r.k.expired, !.caexp = r.k.caexp,
                        !.cc = r.cc, !.mycur = r.mc, !.vc = r.vc, !.peerLower = r.pl]

\* Initial states are seeds (one per traffic-flag combination); every vector is a successor of a seed, so that TLC's
\* workers evaluate Decide and Policy in parallel. A vector = (t, cfg, last.o, last.tup, last.ok).
VecRec(x, c) == LET d == Decide(x, c, VecNow)
                IN [NoCheck EXCEPT !.act = "Vec", !.now = VecNow, !.o = d, !.tup = Enc(Tuple(x, d)),
                                   !.inpol = PolicyOK(x, c, VecNow, Tuple(x, d)),
                                   !.ok = {Enc(o) : o \in Policy(x, c, VecNow)}]
VecInit == /\ t \in Seeds /\ cfg = [di |-> FALSE, drop |-> FALSE, timeout |-> VecT]
           /\ clock = VecNow /\ due = 0 /\ markAt = Never /\ inSinceMark = FALSE /\ nchecks = 0 /\ nenv = 0
           /\ last = [NoCheck EXCEPT !.act = "Seed"]
VecNext == /\ last.act = "Seed"
           /\ \E r \in Rests :
                 /\ t' = Fill(t, r) /\ cfg' = [di |-> r.di, drop |-> r.drop, timeout |-> VecT]
                 /\ last' = VecRec(t', cfg')
           /\ UNCHANGED <<clock, due, markAt, inSinceMark, nchecks, nenv>>

-----------------------------------------------------------------------------
(* History mode *)

T0 == [alive |-> TRUE, in |-> FALSE, out |-> TRUE, pd |-> FALSE, lastUsed |-> Never, primary |-> TRUE, peerLower |-> FALSE,
       cc |-> "lt_rekey", bl |-> FALSE, trusted |-> TRUE, expired |-> FALSE, caexp |-> FALSE, mycur |-> TRUE, vc |-> "same",
       hs |-> FALSE]      \* unlockedAddHostInfo: out is set, first check after CheckI

Init == /\ t \in {[T0 EXCEPT !.peerLower = pl] : pl \in BOOLEAN}
        /\ cfg \in [di : BOOLEAN, drop : BOOLEAN, timeout : Timeouts]
        /\ clock = 0 /\ due = CheckI /\ markAt = Never /\ inSinceMark = FALSE /\ nchecks = 0 /\ nenv = 0
        /\ last = NoCheck

Env(a, x) == /\ last' = [NoCheck EXCEPT !.act = a, !.arg = x, !.now = clock']
             /\ IF MaxEnv = 0 \/ a = "Tick" THEN nenv' = nenv ELSE (nenv < MaxEnv /\ nenv' = nenv + 1)

SetIn  == /\ t.alive /\ ~t.in  /\ t' = [t EXCEPT !.in = TRUE]  /\ inSinceMark' = TRUE
          /\ UNCHANGED <<cfg, clock, due, markAt, nchecks>> /\ Env("SetIn", "")
SetOut == /\ t.alive /\ ~t.out /\ t' = [t EXCEPT !.out = TRUE]
          /\ UNCHANGED <<cfg, clock, due, markAt, inSinceMark, nchecks>> /\ Env("SetOut", "")
Tick   == /\ clock < MaxClock /\ (t.alive => clock < due + LateBy) /\ clock' = clock + 1
          /\ t' = [t EXCEPT !.expired = (clock' >= ExpAt)]
          /\ UNCHANGED <<cfg, due, markAt, inSinceMark, nchecks>> /\ Env("Tick", "")
\* reload of pki.ca / pki.blocklist
Pool(b, tr) == /\ t.alive /\ (t.bl # b \/ t.trusted # tr) /\ ((b \/ ~tr) => nchecks >= FatalAfter)
               /\ t' = [t EXCEPT !.bl = b, !.trusted = tr]
               /\ UNCHANGED <<cfg, clock, due, markAt, inSinceMark, nchecks>>
               /\ Env("Pool", (IF b THEN "b" ELSE "-") \o (IF tr THEN "t" ELSE "-"))
\* reload of pki.cert
MyCert(v, mc) == /\ t.alive /\ (t.vc # v \/ t.mycur # mc) /\ t' = [t EXCEPT !.vc = v, !.mycur = mc]
                 /\ UNCHANGED <<cfg, clock, due, markAt, inSinceMark, nchecks>>
                 /\ Env("MyCert", v \o (IF mc THEN "+" ELSE "-"))
Counter(c) == /\ t.alive /\ \/ (t.cc = "lt_rekey" /\ c \in {"ge_rekey", "ge_reject"})
                            \/ (t.cc = "ge_rekey" /\ c = "ge_reject")
              /\ (c = "ge_reject" => nchecks >= FatalAfter)
              /\ t' = [t EXCEPT !.cc = c]
              /\ UNCHANGED <<cfg, clock, due, markAt, inSinceMark, nchecks>> /\ Env("Counter", c)
Toggle(f) == /\ cfg' = IF f = "di" THEN [cfg EXCEPT !.di = ~@] ELSE [cfg EXCEPT !.drop = ~@]
             /\ UNCHANGED <<t, clock, due, markAt, inSinceMark, nchecks>> /\ Env("Toggle", f)
SetTimeout(d) == /\ cfg.timeout # d /\ cfg' = [cfg EXCEPT !.timeout = d]
                 /\ UNCHANGED <<t, clock, due, markAt, inSinceMark, nchecks>> /\ Env("Timeout", ToString(d))
\* another tunnel to the same peer completes (ours is no longer primary) / goes away again
Demote  == /\ t.alive /\ t.primary /\ t' = [t EXCEPT !.primary = FALSE]
           /\ UNCHANGED <<cfg, clock, due, markAt, inSinceMark, nchecks>> /\ Env("Demote", "")
Promote == /\ t.alive /\ ~t.primary /\ t' = [t EXCEPT !.primary = TRUE]
           /\ UNCHANGED <<cfg, clock, due, markAt, inSinceMark, nchecks>> /\ Env("Promote", "")

Check == /\ t.alive /\ clock >= due /\ nchecks < MaxChecks
         /\ LET o == Decide(t, cfg, clock)
                newly == o.fate = "keep" /\ o.pd /\ ~t.pd
            IN /\ t' = IF o.fate = "keep"
                         THEN [t EXCEPT !.in = o.in, !.out = o.out, !.pd = o.pd, !.lastUsed = o.lastUsed,
                                        !.primary = o.primary, !.hs = o.hs]
                         ELSE [t EXCEPT !.alive = FALSE]
               /\ due' = IF o.rearm = "check" THEN clock + CheckI ELSE IF o.rearm = "pending" THEN clock + PendI ELSE due
               /\ markAt' = IF newly THEN clock ELSE IF ~o.pd THEN Never ELSE markAt
               /\ inSinceMark' = IF newly THEN FALSE ELSE inSinceMark
               /\ last' = [act |-> "Check", arg |-> "", now |-> clock, o |-> o, tup |-> Enc(Tuple(t, o)),
                           ok |-> IF WithOk THEN {Enc(x) : x \in Policy(t, cfg, clock)} ELSE {},
                           inpol |-> PolicyOK(t, cfg, clock, Tuple(t, o)),
                           hadIn |-> t.in, bad |-> CertBad(t, cfg), exh |-> Exhausted(t),
                           markAt |-> markAt, inSinceMark |-> inSinceMark]
         /\ nchecks' = nchecks + 1 /\ nenv' = 0
         /\ UNCHANGED <<cfg, clock>>

Next == \/ Tick \/ Check
        \/ ("traffic" \in Acts /\ (SetIn \/ SetOut))
        \/ ("prim" \in Acts /\ (Demote \/ Promote))
        \/ ("pool" \in Acts /\ \E b, tr \in BOOLEAN : Pool(b, tr))
        \/ ("mycert" \in Acts /\ \E v \in {"same", "removed", "belowInit"}, mc \in BOOLEAN : MyCert(v, mc))
        \/ ("counter" \in Acts /\ \E c \in CCs : Counter(c))
        \/ ("cfg" \in Acts /\ ((\E f \in {"di", "drop"} : Toggle(f)) \/ (\E d \in Timeouts : SetTimeout(d))))

Spec == Init /\ [][Next]_vars

-----------------------------------------------------------------------------
(* Link *)

\* Decide(state) \in Policy(state): on every vector and on every check of every history
DecideInPolicy == last.act \in {"Vec", "Check"} => (last.inpol /\ (last.ok # {} => last.tup \in last.ok))

\* a tunnel with inbound traffic since the last check is never removed by that check for lack of traffic
NoRemovalWithInbound == (last.act = "Check" /\ last.hadIn /\ last.o.fate # "keep") => (last.bad \/ last.exh)

\* removal for silence only after a check that probed / marked it and a whole pending interval without inbound
SilenceRemoval == (last.act = "Check" /\ last.o.fate = "drop" /\ ~last.bad /\ ~last.exh) =>
                     /\ last.markAt # Never
                     /\ last.now - last.markAt >= PendI
                     /\ ~last.inSinceMark

TypeOK == /\ t.cc \in CCs /\ t.vc \in VCs /\ clock \in 0..MaxClock /\ nchecks \in 0..MaxChecks

=============================================================================
