SPECIFICATION TraceSpec
CONSTANTS W = 2
          Thorough = FALSE
CHECK_DEADLOCK FALSE
