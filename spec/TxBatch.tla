------------------------------- MODULE TxBatch -------------------------------
(***************************************************************************)
(* C26 -- batched underlay sends (udp/udp_linux_writebatch.go: WriteBatch, *)
(* planRun, writeEntryCmsg) against a kernel that answers every sendmmsg   *)
(* call as it likes.                                                       *)
(*                                                                         *)
(* Reference layer : what the kernel was handed and took -- acc (how often *)
(*                   each datagram was in an entry the kernel accepted),   *)
(*                   wire (accepted datagrams in order of acceptance), ret *)
(*                   (the reported count).  The statement is AtMostOnce,   *)
(*                   CountOK, OrderOK, ShapeOK.  An entry as the kernel    *)
(*                   sees it is [dst, seg, ids, lens] (one sockaddr, the   *)
(*                   UDP_SEGMENT size or 0, the datagrams behind the       *)
(*                   iovecs); WireOf(e) is what the kernel would transmit. *)
(* Machine layer   : the loop of WriteBatch as functions on the machine    *)
(*                   record [i, ents, iov, done, gso, pc, written, reterr] *)
(*                   -- Step (plan a run and pack it into an entry / skip  *)
(*                   an unroutable run / close the chunk / next chunk) and *)
(*                   Answer (what the loop does with the kernel's answer)  *)
(*                   -- and one action per step: PackRun, SkipUnroutable,  *)
(*                   CloseChunk, NextChunk, SendOk(k), SendNoProgress,     *)
(*                   SendEIOReplan, SendReject(err).                       *)
(* Link            : the invariants hold in every reachable state of the   *)
(*                   machine, for every batch and every sequence of kernel *)
(*                   answers (TLC, exhaustive within the constants).       *)
(*                                                                         *)
(* Datagram indices are 1-based here (bufs[d-1] in the code); destinations *)
(* are integers.                                                           *)
(***************************************************************************)
EXTENDS Integers, Sequences, FiniteSets, TLC

CONSTANTS MaxEntries,   \* len(w.msgs) = len(w.iovs): entries and iovecs per sendmmsg call (128 in the code)
          MaxSegs,      \* w.maxGSOSegments (63 / 127 in the code)
          MaxBytes,     \* maxGSOBytes (65000 in the code)
          Bad,          \* destinations of the wrong address family (v6 on a v4 socket)
          GsoInit,      \* subset of BOOLEAN: GSO state at the start
          Batches,      \* the batches explored
          N, Dests, Sizes   \* AllBatches: up to N datagrams, to Dests \cup Bad, of Sizes

VARIABLES batch,                                          \* the caller's bufs/addrs: sequence of [dst, size]
          i, ents, iov, done, gso, pc, written, reterr,   \* machine
          me, ms,                                         \* the writer's configuration (constant during a run)
          acc, wire, ret,                                 \* reference / observation
          faulty                                          \* the kernel rejected an entry or the call gave up

mvars == <<i, ents, iov, done, gso, pc, written, reterr, me, ms>>
rvars == <<acc, wire, ret>>
vars  == <<batch, mvars, rvars, faulty>>

NB == Len(batch)
Min2(a, b) == IF a < b THEN a ELSE b
MinOf(S) == CHOOSE x \in S : \A y \in S : x <= y

RECURSIVE SumSeq(_)
SumSeq(s) == IF s = <<>> THEN 0 ELSE Head(s) + SumSeq(Tail(s))
RECURSIVE Flat(_)
Flat(ss) == IF ss = <<>> THEN <<>> ELSE Head(ss) \o Flat(Tail(ss))
Count(s, x) == Cardinality({ j \in 1..Len(s) : s[j] = x })

-----------------------------------------------------------------------------
(* Reference layer *)

\* what the kernel transmits for one accepted entry: without a segment size one datagram made of all the
\* iovecs; with one, the concatenation cut into pieces of that size (the last may be shorter)
RECURSIVE Cut(_, _)
Cut(total, seg) == IF total <= seg THEN <<total>> ELSE <<seg>> \o Cut(total - seg, seg)
WireOf(e) == IF e.seg <= 0 THEN <<SumSeq(e.lens)>> ELSE Cut(SumSeq(e.lens), e.seg)

\* an entry is well formed for a batch b: every datagram behind it goes to the entry's one destination and has the
\* length of its iovec, and the kernel would transmit exactly those datagrams; an offloaded entry (seg > 0) stays within
\* the segment and byte limits.  ids[j] = 0 stands for an empty datagram (empty datagrams to one destination cannot be
\* told apart at the kernel boundary).
EntryOK(b, e, maxSegs) ==
    /\ e.seg >= 0 /\ Len(e.ids) >= 1 /\ Len(e.lens) = Len(e.ids)
    /\ \A j \in 1..Len(e.ids) :
          IF e.ids[j] = 0
          THEN e.lens[j] = 0 /\ \E d \in 1..Len(b) : b[d] = [dst |-> e.dst, size |-> 0]
          ELSE e.ids[j] \in 1..Len(b) /\ b[e.ids[j]] = [dst |-> e.dst, size |-> e.lens[j]]
    /\ WireOf(e) = e.lens
    /\ e.seg > 0 => /\ Len(e.ids) <= maxSegs
                    /\ SumSeq(e.lens) <= MaxBytes
\* (WireOf(e) = e.lens says: equal sizes except a shorter last one, no empty segment, and no entry of several
\*  datagrams without a segment size)

AtMostOnce == \A d \in 1..NB : acc[d] <= 1
Accepted   == { d \in 1..NB : acc[d] >= 1 }
CountOK    == /\ written = SumSeq([d \in 1..NB |-> acc[d]])
              /\ pc = "done" => ret = Cardinality(Accepted)
OrderOK    == \A p, q \in 1..Len(wire) :
                 (p < q /\ batch[wire[p]].dst = batch[wire[q]].dst) => wire[p] < wire[q]

\* The same two clauses as they can be observed at the kernel boundary, where an empty datagram has no identity: the
\* datagrams accepted for each destination, in order of acceptance, are a subsequence of the batch's datagrams to that
\* destination.  taken = sequence of <<id, dst>> (id 0: an empty datagram), p = last matched index per destination.
DestsOf(b) == { b[d].dst : d \in 1..Len(b) }
NoPtr(b) == [ok |-> TRUE, p |-> [x \in DestsOf(b) |-> 0]]
MatchOne(b, m, id, dst) ==
    IF ~m.ok \/ dst \notin DOMAIN m.p THEN [m EXCEPT !.ok = FALSE]
    ELSE IF id > 0
         THEN IF id > m.p[dst] THEN [m EXCEPT !.p[dst] = id] ELSE [m EXCEPT !.ok = FALSE]
         ELSE LET c == { d \in (m.p[dst] + 1)..Len(b) : b[d] = [dst |-> dst, size |-> 0] } IN
              IF c = {} THEN [m EXCEPT !.ok = FALSE] ELSE [m EXCEPT !.p[dst] = MinOf(c)]
RECURSIVE Match(_, _, _)
Match(b, m, taken) == IF taken = <<>> THEN m
                      ELSE Match(b, MatchOne(b, m, Head(taken)[1], Head(taken)[2]), Tail(taken))
InOrderOnce == Match(batch, NoPtr(batch), [p \in 1..Len(wire) |-> <<wire[p], batch[wire[p]].dst>>]).ok
\* with exact identities the two formulations agree
Agree == InOrderOnce <=> (AtMostOnce /\ OrderOK)

-----------------------------------------------------------------------------
(* Machine layer: functions on machine records *)

\* me, ms: the writer's configuration (entries = iovecs per call, segments per offloaded entry), carried in the record so
\* that recorded executions of differently configured writers can be validated together
MState == [i |-> i, ents |-> ents, iov |-> iov, done |-> done, gso |-> gso, pc |-> pc,
           written |-> written, reterr |-> reterr, me |-> me, ms |-> ms]
MInit(g, e, z) == [i |-> 1, ents |-> <<>>, iov |-> 0, done |-> 0, gso |-> g, pc |-> "plan", written |-> 0,
                   reterr |-> FALSE, me |-> e, ms |-> z]

Routable(b, d) == b[d].dst \notin Bad

\* planRun(start, budget): length of the run starting at start
RECURSIVE Grow(_, _, _, _, _)
Grow(b, start, runLen, total, maxLen) ==
    LET seg == b[start].size
        nx  == start + runLen IN
    IF runLen >= maxLen \/ nx > Len(b) THEN runLen
    ELSE LET nl == b[nx].size IN
         IF nl = 0 \/ nl > seg THEN runLen
         ELSE IF b[nx].dst # b[start].dst THEN runLen
         ELSE IF total + nl > MaxBytes THEN runLen
         ELSE IF nl < seg THEN runLen + 1                      \* a short packet must be the last
         ELSE Grow(b, start, runLen + 1, total + nl, maxLen)

PlanRun(b, start, budget, g, maxSegs) ==
    LET seg == b[start].size IN
    IF ~g \/ seg = 0 \/ seg > MaxBytes THEN 1
    ELSE Grow(b, start, 1, seg, Min2(maxSegs, budget))

\* one step of the loop that does not involve the kernel; kind says which
Step(b, m) ==
    IF m.pc = "plan"
    THEN IF Len(m.ents) < m.me /\ m.i <= Len(b) /\ m.me - m.iov >= 1
         THEN LET r == PlanRun(b, m.i, m.me - m.iov, m.gso, m.ms) IN
              IF ~Routable(b, m.i)
              THEN [kind |-> "skip", m |-> [m EXCEPT !.i = m.i + r]]
              ELSE [kind |-> "pack", m |-> [m EXCEPT !.i = m.i + r, !.iov = m.iov + r,
                                              !.ents = Append(m.ents, [first |-> m.i, cnt |-> r, seg |-> b[m.i].size])]]
         ELSE IF m.ents = <<>>
              THEN [kind |-> "close", m |-> [m EXCEPT !.pc = "done"]]               \* nothing packed: return
              ELSE [kind |-> "close", m |-> [m EXCEPT !.pc = "send", !.done = 0]]   \* drain the chunk
    ELSE IF m.pc = "send" /\ m.done = Len(m.ents)
         THEN IF m.i <= Len(b)
              THEN [kind |-> "next", m |-> [m EXCEPT !.pc = "plan", !.ents = <<>>, !.iov = 0, !.done = 0]]
              ELSE [kind |-> "next", m |-> [m EXCEPT !.pc = "done"]]
         ELSE [kind |-> "none", m |-> m]                      \* waiting for the kernel, or returned

\* run to the next kernel call (or to the return)
RECURSIVE RunToCall(_, _)
RunToCall(b, m) == LET s == Step(b, m) IN IF s.kind = "none" THEN m ELSE RunToCall(b, s.m)

\* what the loop does with the kernel's answer to sendFn(done, Len(ents) - done):  k entries sent, error err
AnswerKind(m, k, err) ==
    IF k >= 1 THEN "ok"
    ELSE IF err = "none" THEN "noprogress"
    ELSE IF err = "eio" /\ m.gso /\ m.ents[m.done + 1].cnt >= 2 THEN "replan"
    ELSE "reject"
Taken(m, k) == Flat([e \in 1..k |-> [j \in 1..m.ents[m.done + e].cnt |-> m.ents[m.done + e].first + j - 1]])
Answer(m, k, err) ==
    LET a == AnswerKind(m, k, err) IN
    CASE a = "ok"         -> [m EXCEPT !.done = m.done + k, !.written = m.written + Len(Taken(m, k))]
      [] a = "noprogress" -> [m EXCEPT !.pc = "done", !.reterr = TRUE]
      [] a = "replan"     -> [m EXCEPT !.gso = FALSE, !.i = m.ents[m.done + 1].first,
                                       !.ents = <<>>, !.iov = 0, !.done = 0, !.pc = "plan"]
      [] a = "reject"     -> [m EXCEPT !.done = m.done + 1]

\* the entry as the kernel sees it (ObsZ: with the identity of empty datagrams erased)
Obs(b, e) == [dst  |-> b[e.first].dst,
              seg  |-> IF e.cnt >= 2 THEN e.seg ELSE 0,
              ids  |-> [j \in 1..e.cnt |-> e.first + j - 1],
              lens |-> [j \in 1..e.cnt |-> b[e.first + j - 1].size]]
ObsZ(b, e) == [Obs(b, e) EXCEPT !.ids = [j \in 1..e.cnt |-> IF b[e.first + j - 1].size = 0 THEN 0 ELSE e.first + j - 1]]
CallOf(b, m) == [start |-> m.done, n |-> Len(m.ents) - m.done,
                 ents |-> [j \in 1..(Len(m.ents) - m.done) |-> ObsZ(b, m.ents[m.done + j])]]

-----------------------------------------------------------------------------
(* Machine layer: actions *)

SetM(m) == /\ i' = m.i /\ ents' = m.ents /\ iov' = m.iov /\ done' = m.done /\ gso' = m.gso /\ pc' = m.pc
           /\ written' = m.written /\ reterr' = m.reterr /\ me' = m.me /\ ms' = m.ms
           /\ ret' = IF m.pc = "done" THEN m.written ELSE ret

\* the steps of the loop that do not involve the kernel (Step says which one is next)
Quiet(kind) == /\ Step(batch, MState).kind = kind
               /\ SetM(Step(batch, MState).m)
PackRun        == Quiet("pack")  /\ UNCHANGED <<batch, acc, wire, faulty>>
SkipUnroutable == Quiet("skip")  /\ UNCHANGED <<batch, acc, wire, faulty>>
CloseChunk     == Quiet("close") /\ UNCHANGED <<batch, acc, wire, faulty>>
NextChunk      == Quiet("next")  /\ UNCHANGED <<batch, acc, wire, faulty>>

AtCall == pc = "send" /\ done < Len(ents)

\* the kernel took the first k remaining entries
SendOk(k) ==
    /\ AtCall /\ k \in 1..(Len(ents) - done)
    /\ SetM(Answer(MState, k, "none"))
    /\ LET taken == Taken(MState, k) IN
         /\ acc' = [d \in 1..NB |-> acc[d] + Count(taken, d)]
         /\ wire' = wire \o taken
    /\ UNCHANGED <<batch, faulty>>

\* sent = 0 without an error: give up instead of spinning
SendNoProgress ==
    /\ AtCall
    /\ SetM(Answer(MState, 0, "none"))
    /\ faulty' = TRUE
    /\ UNCHANGED <<batch, acc, wire>>

\* EIO on an offloaded entry while GSO is on: turn GSO off, replan from the first datagram of that run
SendEIOReplan ==
    /\ AtCall /\ AnswerKind(MState, 0, "eio") = "replan"
    /\ SetM(Answer(MState, 0, "eio"))
    /\ UNCHANGED <<batch, acc, wire, faulty>>

\* any other zero-sent error: the first remaining entry is dropped, the rest resumes in place
SendReject(err) ==
    /\ AtCall /\ err \in {"eio", "other"} /\ AnswerKind(MState, 0, err) = "reject"
    /\ SetM(Answer(MState, 0, err))
    /\ faulty' = TRUE
    /\ UNCHANGED <<batch, acc, wire>>

Next == \/ PackRun \/ SkipUnroutable \/ CloseChunk \/ NextChunk
        \/ \E k \in 1..MaxEntries : SendOk(k)
        \/ SendNoProgress \/ SendEIOReplan
        \/ \E err \in {"eio", "other"} : SendReject(err)

-----------------------------------------------------------------------------
(* Batches *)
Datagram == [dst : Dests \cup Bad, size : Sizes]
\* destinations the socket can address are interchangeable: only batches in which they first appear in increasing order
Canonical(b) == \A j \in 1..Len(b) : (b[j].dst \in Dests /\ b[j].dst - 1 \in Dests) =>
                    \E q \in 1..(j - 1) : b[q].dst = b[j].dst - 1
AllBatches == { b \in UNION { [1..n -> Datagram] : n \in 0..N } : Canonical(b) }

\* destinations 1, 2; wrong family 9: the shapes of the repository's own tests and the corners of the limits
Dg(d, z) == [dst |-> d, size |-> z]
Fixed == { <<Dg(1,2), Dg(1,2), Dg(1,2), Dg(1,1), Dg(2,2), Dg(2,2)>>,      \* run, short tail, second run
           <<Dg(1,2), Dg(1,2), Dg(9,1), Dg(2,2), Dg(2,2)>>,               \* unroutable hole between runs
           <<Dg(1,2), Dg(1,2), Dg(2,2), Dg(2,2), Dg(1,1)>>,               \* three entries, reject in the middle
           <<Dg(1,1), Dg(2,2), Dg(2,2)>>,                                 \* plain entry, then an offloaded one
           <<Dg(1,2), Dg(1,2), Dg(1,2)>>,
           <<Dg(9,1), Dg(9,1), Dg(1,1)>>, <<Dg(9,2), Dg(9,2)>>,           \* everything (left) skipped
           <<Dg(1,0), Dg(1,0), Dg(1,1), Dg(1,0)>>,                        \* empty datagrams never join a run
           <<Dg(1,2), Dg(1,2), Dg(1,2), Dg(1,2), Dg(1,2)>>,               \* beyond the segment / byte limit
           <<Dg(1,1), Dg(1,2), Dg(1,2), Dg(1,3), Dg(1,1)>>,               \* growing sizes start new runs
           <<Dg(1,1), Dg(1,1), Dg(9,1), Dg(9,1), Dg(1,1), Dg(1,1)>> }     \* offloaded unroutable run

StartState(b, g) ==
    /\ batch = b
    /\ i = 1 /\ ents = <<>> /\ iov = 0 /\ done = 0 /\ gso = g /\ pc = "plan" /\ written = 0 /\ reterr = FALSE
    /\ me = MaxEntries /\ ms = MaxSegs
    /\ acc = [d \in 1..Len(b) |-> 0] /\ wire = <<>> /\ ret = -1
    /\ faulty = FALSE

Init == \E b \in Batches, g \in GsoInit : StartState(b, g)

Spec == Init /\ [][Next]_vars
FairSpec == Spec /\ WF_vars(Next)
Termination == <>(pc = "done")          \* whatever the kernel answers, WriteBatch returns

-----------------------------------------------------------------------------
(* Link *)
ShapeOK == AtCall => \A e \in (done + 1)..Len(ents) : EntryOK(batch, Obs(batch, ents[e]), ms)

TypeOK == /\ i \in 1..(NB + 1) /\ done \in 0..Len(ents) /\ Len(ents) <= MaxEntries /\ iov <= MaxEntries
          /\ pc \in {"plan", "send", "done"}
          /\ \A e \in 1..Len(ents) : ents[e].cnt >= 1 /\ ents[e].first + ents[e].cnt <= NB + 1
\* entries of a chunk are runs in index order; they never overlap
ChunkOrdered == \A e \in 1..(Len(ents) - 1) : ents[e].first + ents[e].cnt <= ents[e + 1].first
\* machine sanity (not part of the statement): unless the kernel rejected an entry or the call gave up, every
\* datagram the socket can address was accepted -- partial sends and the GSO replay lose nothing
NoLoss == (pc = "done" /\ ~faulty) => Accepted = { d \in 1..NB : Routable(batch, d) }
\* the composed form used by trace validation agrees with the step-by-step machine
RunAgrees == (pc = "done" \/ AtCall) => RunToCall(batch, MState) = MState
=============================================================================
