------------------------------ MODULE MC_Relay ------------------------------
EXTENDS Relay
MCNodes == {"A", "R", "T"}
MCAddrOf == [n \in MCNodes |-> CASE n = "A" -> "a" [] n = "R" -> "r" [] n = "T" -> "t"]
MCAmRelay == [n \in MCNodes |-> n = "R"]
Bound == \A n \in MCNodes : Cardinality(recs[n]) <= 2
=============================================================================
