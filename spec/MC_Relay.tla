------------------------------ MODULE MC_Relay ------------------------------
EXTENDS Relay
CONSTANT MaxRecs
MCReload == {"R"}       \* the relay is reconfigured (on -> off -> on); the other nodes keep am_relay false
MCNodes == {"A", "R", "T"}
MCAddrOf == [n \in MCNodes |-> CASE n = "A" -> "a" [] n = "R" -> "r" [] n = "T" -> "t"]
MCAmRelay == [n \in MCNodes |-> n = "R"]
Bound == Cardinality(recs["A"]) + Cardinality(recs["R"]) + Cardinality(recs["T"]) <= MaxRecs
=============================================================================
