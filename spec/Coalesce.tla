------------------------------ MODULE Coalesce ------------------------------
(***************************************************************************)
(* C23 -- receive coalescing is transparent to the tun device              *)
(* (overlay/batch: MultiCoalescer, TCPCoalescer, UDPCoalescer, Passthrough)*)
(*                                                                         *)
(* A packet is abstract:                                                   *)
(*   [id, sess, ctr, proto, fam, flow, shape, seq, len, flags, df, ipid,   *)
(*    tos, hv]                                                             *)
(* id    position in the sender's transmission order (1..n), also the tag  *)
(*       the harness writes into the payload bytes                         *)
(* sess  tunnel session (epoch), ctr the AEAD message counter in it        *)
(* proto "tcp" | "udp" | "other";  fam 4 | 6;  flow = abstract 5-tuple     *)
(* shape "plain" | "opt" (IPv4 options / IPv6 extension header) | "frag"   *)
(*       (first fragment) | "frag2" (later fragment, no L4 header) |       *)
(*       "trunc" (IP length field says more than is there) | "trail"       *)
(*       (bytes after the IP-declared end) | "l4short" (UDP length field   *)
(*       smaller than the IP payload) | "badoff" (TCP data offset < 5)     *)
(* seq   TCP sequence number (integer; the harness reduces it modulo 2^32, *)
(*       a negative value is a value just below the wrap), len = L4        *)
(*       payload bytes, flags = TCP flags, df/ipid = IPv4 DF bit and ID    *)
(*       (modulo 2^16), tos = DSCP/ECN variant, hv = variant of the other  *)
(*       header bytes (TCP ack number / TTL)                               *)
(* In the state a packet is a tuple (so that dumps parse fast); Dec makes  *)
(* the record.                                                             *)
(*                                                                         *)
(* Reference layer : Judge(b, o) -- the statement, on an observation o =   *)
(*                   sequence of writes, each re-segmented the way the     *)
(*                   kernel does, every segment projected to [id, ok]      *)
(* Machine layer   : Machine(b, staged, bug) = Commit* ; Flush             *)
(*                   (sort -> lanes -> writes) and KernelSeg               *)
(* Link            : Link (machine satisfies the statement), SortOK,       *)
(*                   Rejects (seeded bugs are refused by the statement)    *)
(***************************************************************************)
EXTENDS Integers, Sequences, FiniteSets, TLC

CONSTANTS Thorough,      \* BOOLEAN: bigger lattice
          MaxSegs,       \* 64
          MaxBytes,      \* 65535
          CrossSession,  \* BOOLEAN: FALSE = packets are ordered per (session, flow) (the reading used); TRUE = per flow in
                         \* (epoch, counter) order across sessions (stronger reading, for experiments)
          Design         \* "strict": a UDP length field that disagrees with the IP length is unparseable;
                         \* "aswritten": parseTail of udp_coalesce.go (accepts a shorter UDP length)

RECURSIVE SumSeq(_)
SumSeq(s) == IF s = <<>> THEN 0 ELSE Head(s) + SumSeq(Tail(s))
ToSet(s) == { s[i] : i \in DOMAIN s }
Min(a, b) == IF a < b THEN a ELSE b
\* TLC keeps [i \in 1..n |-> e] lazy and re-evaluates e at every application: make it an explicit tuple
Tup(f) == f \o <<>>

-----------------------------------------------------------------------------
(* Packets *)
Dec(t, f) == [id |-> t[1], sess |-> t[2], ctr |-> t[3], proto |-> t[4], fam |-> f, flow |-> t[5], shape |-> t[6],
              seq |-> t[7], len |-> t[8], flags |-> ToSet(t[9]), df |-> t[10] = 1, ipid |-> t[11], tos |-> t[12],
              hv |-> t[13]]
DecAll(pk, f) == Tup([i \in 1..Len(pk) |-> Dec(pk[i], f)])

TxBefore(a, b) == a.sess < b.sess \/ (a.sess = b.sess /\ a.ctr < b.ctr)

-----------------------------------------------------------------------------
(* Reference layer: the statement *)

\* packets whose relative order the statement fixes: same tunnel session, same flow.  A later fragment carries no ports;
\* it is ordered only against the other later fragments between the same addresses.
OrderKey(p) == <<IF CrossSession THEN 0 ELSE p.sess, p.proto, p.flow, p.shape = "frag2">>
\* "pure TCP ACKs may trail later data"
PureAck(p) == /\ p.proto = "tcp" /\ p.len = 0 /\ "ACK" \in p.flags
              /\ p.flags \cap {"SYN", "FIN", "RST"} = {} /\ p.shape # "frag2"
MayTrail(p, q) == PureAck(p) /\ q.len > 0

\* geometry the kernel accepts for one offloaded write w = [gso, lens, hdr, hdrok, segs]
GeoClass(w) ==
    LET n == Len(w.lens) IN
    IF n = 0 THEN "empty"
    ELSE IF \E k \in 1..n : w.lens[k] <= 0 THEN "empty-fragment"
    ELSE IF \E k \in 1..(n - 1) : w.lens[k] # w.lens[1] THEN "uneven"
    ELSE IF w.lens[n] > w.lens[1] THEN "last-longer"
    ELSE IF n > MaxSegs THEN "too-many-segments"
    ELSE IF w.hdr + SumSeq(w.lens) > MaxBytes THEN "too-long"
    ELSE IF ~w.hdrok THEN "header"
    ELSE "ok"

RECURSIVE FlatSegs(_)
FlatSegs(o) == IF o = <<>> THEN <<>> ELSE Head(o).segs \o FlatSegs(Tail(o))

\* verdict = <<multiset, altered, order, geometry, first offending packet id (0 = none)>>
JudgeFlat(b, o, flat) ==
    LET n == Len(b)
        m == Len(flat)
        geo == { w \in 1..Len(o) : o[w].gso /\ GeoClass(o[w]) # "ok" }
        at(i) == { k \in 1..m : flat[k].id = i }
        lost == { i \in 1..n : at(i) = {} }
        dup == { i \in 1..n : Cardinality(at(i)) > 1 }
        alien == { k \in 1..m : flat[k].id \notin 1..n }
        bad == { k \in 1..m : ~flat[k].ok }
    IN
    \* a write the kernel refuses comes first: whatever it carries is lost with it
    IF geo # {} THEN LET w == CHOOSE w \in geo : \A x \in geo : w <= x
                     IN <<"ok", "ok", "ok", GeoClass(o[w]), IF o[w].segs = <<>> THEN 0 ELSE o[w].segs[1].id>>
    ELSE IF lost # {} THEN <<"lost", "ok", "ok", "ok", CHOOSE i \in lost : \A j \in lost : i <= j>>
    ELSE IF dup # {} THEN <<"duplicated", "ok", "ok", "ok", CHOOSE i \in dup : \A j \in dup : i <= j>>
    ELSE IF alien # {} THEN <<"alien", "ok", "ok", "ok", 0>>
    ELSE IF bad # {} THEN <<"ok", "altered", "ok", "ok", flat[CHOOSE k \in bad : \A j \in bad : k <= j].id>>
    ELSE
    LET pos == Tup([i \in 1..n |-> CHOOSE k \in 1..m : flat[k].id = i])
        key == Tup([i \in 1..n |-> OrderKey(b[i])])
        inv == { i \in 1..n : \E j \in 1..n : /\ key[i] = key[j] /\ TxBefore(b[i], b[j])
                                               /\ pos[i] > pos[j] /\ ~MayTrail(b[i], b[j]) }
    IN
    IF inv # {} THEN <<"ok", "ok", "reordered", "ok", CHOOSE i \in inv : \A j \in inv : i <= j>>
    ELSE <<"ok", "ok", "ok", "ok", 0>>
Judge(b, o) == JudgeFlat(b, o, FlatSegs(o))
Good == <<"ok", "ok", "ok", "ok", 0>>
Transparent(b, o) == Judge(b, o) = Good

-----------------------------------------------------------------------------
(* Machine layer *)
Flows == 1..3
NoOpen == [f \in Flows |-> 0]
HL(p) == (IF p.fam = 4 THEN 20 ELSE 40) + (IF p.proto = "tcp" THEN 20 ELSE 8)

\* Flush step 1: sort the staged packets by (epoch, counter) -- insertion sort; bug variants for Rejects
Less(a, b, bug) == IF bug = "nocounter" THEN a.sess < b.sess ELSE TxBefore(a, b)
RECURSIVE Insert(_, _, _)
Insert(s, p, bug) == IF s = <<>> THEN <<p>>
                     ELSE IF Less(p, Head(s), bug) THEN <<p>> \o s
                     ELSE <<Head(s)>> \o Insert(Tail(s), p, bug)
RECURSIVE SortStaged(_, _)
SortStaged(s, bug) == IF s = <<>> THEN <<>> ELSE Insert(SortStaged(SubSeq(s, 1, Len(s) - 1), bug), s[Len(s)], bug)

\* lane state: slots in creation order + the open-slot map
VSlot(p) == [verb |-> TRUE, seed |-> p.id, ids |-> <<p.id>>, gso |-> 0, total |-> 0, next |-> 0, psh |-> FALSE]
AddVerb(st, p) == [st EXCEPT !.slots = Append(@, VSlot(p))]
SealAll(st) == [st EXCEPT !.open = NoOpen]
SealFlow(st, f) == [st EXCEPT !.open[f] = 0]

\* shapes the lane parsers refuse (parseIPAt / parseTail): they seal every open chain and ride the lane verbatim
Unparseable(p) == \/ p.shape \in {"opt", "frag", "frag2", "trunc", "badoff"}
                  \/ (p.shape = "l4short" /\ Design = "strict")

IdOK(seed, s, p) == p.fam = 6 \/ seed.df \/ p.ipid = seed.ipid + Len(s.ids)
HdrMatch(a, p, bug) == (bug = "notos" \/ a.tos = p.tos) /\ (p.fam = 6 \/ a.df = p.df) /\ a.hv = p.hv

Seed(st, p) ==
    IF HL(p) + p.len > MaxBytes THEN AddVerb(st, p)
    ELSE LET ns == Append(st.slots, [verb |-> FALSE, seed |-> p.id, ids |-> <<p.id>>, gso |-> p.len, total |-> p.len,
                                     next |-> p.seq + p.len, psh |-> "PSH" \in p.flags])
         IN [slots |-> ns, open |-> IF "PSH" \in p.flags THEN st.open ELSE [st.open EXCEPT ![p.flow] = Len(ns)]]

Admissible(p) == "ACK" \in p.flags /\ p.flags \subseteq {"ACK", "PSH", "ECE"}
TcpCanAppend(b, s, p, bug) ==
    /\ bug = "noseq" \/ p.seq = s.next
    /\ Len(s.ids) < MaxSegs
    /\ p.len <= s.gso
    /\ HL(p) + s.total + p.len <= MaxBytes
    /\ ("ECE" \in b[s.seed].flags) = ("ECE" \in p.flags)
    /\ IdOK(b[s.seed], s, p)
    /\ HdrMatch(b[s.seed], p, bug)
TcpStep(b, st, p, bug) ==
    IF Unparseable(p) THEN AddVerb(SealAll(st), p)
    ELSE IF ~Admissible(p) THEN AddVerb(IF bug = "noseal" THEN st ELSE SealFlow(st, p.flow), p)
    ELSE IF p.len = 0 THEN AddVerb(st, p)                          \* pure ACK: verbatim, does not seal
    ELSE LET o == st.open[p.flow] IN
         IF o # 0 /\ TcpCanAppend(b, st.slots[o], p, bug)
         THEN LET s == st.slots[o]
                  s2 == [s EXCEPT !.ids = Append(@, p.id), !.total = @ + p.len, !.next = p.seq + p.len,
                                  !.psh = @ \/ "PSH" \in p.flags]
              IN [slots |-> [st.slots EXCEPT ![o] = s2],
                  open |-> IF p.len < s.gso \/ "PSH" \in p.flags THEN [st.open EXCEPT ![p.flow] = 0] ELSE st.open]
         ELSE Seed(SealFlow(st, p.flow), p)

UdpCanAppend(b, s, p, bug) ==
    /\ Len(s.ids) < MaxSegs
    /\ p.len <= s.gso
    /\ HL(p) + s.total + p.len <= MaxBytes
    /\ IdOK(b[s.seed], s, p)
    /\ HdrMatch(b[s.seed], p, bug)
UdpStep(b, st, p, bug) ==
    IF Unparseable(p) THEN AddVerb(SealAll(st), p)
    ELSE IF p.len = 0 THEN AddVerb(SealFlow(st, p.flow), p)
    ELSE LET o == st.open[p.flow] IN
         IF o # 0 /\ UdpCanAppend(b, st.slots[o], p, bug)
         THEN LET s == st.slots[o]
                  s2 == [s EXCEPT !.ids = Append(@, p.id), !.total = @ + p.len]
              IN [slots |-> [st.slots EXCEPT ![o] = s2],
                  open |-> IF p.len < s.gso THEN [st.open EXCEPT ![p.flow] = 0] ELSE st.open]
         ELSE Seed(SealFlow(st, p.flow), p)

RECURSIVE Lane(_, _, _, _, _)
Lane(b, s, st, proto, bug) ==
    IF s = <<>> THEN st
    ELSE LET p == Head(s) IN
         Lane(b, Tail(s), IF p.proto # proto THEN st
                          ELSE IF proto = "tcp" THEN TcpStep(b, st, p, bug) ELSE UdpStep(b, st, p, bug), proto, bug)

\* writes: <<gso (0/1), seed id, ids, gso size, psh propagated>>
SlotWrites(st) == Tup([k \in 1..Len(st.slots) |->
                     LET s == st.slots[k] IN
                     IF s.verb \/ Len(s.ids) = 1 THEN <<0, s.seed, <<s.seed>>, 0, 0>>
                     ELSE <<1, s.seed, s.ids, s.gso, IF s.psh THEN 1 ELSE 0>>])
PtWrites(s) == LET o == SelectSeq(s, LAMBDA p : p.proto = "other") IN Tup([k \in 1..Len(o) |-> <<0, o[k].id, <<o[k].id>>, 0, 0>>])

\* b: the batch indexed by id; staged: the packets in arrival (Commit) order
Lanes3(b, s, bug) ==
    LET e == [slots |-> <<>>, open |-> NoOpen]
    IN SlotWrites(Lane(b, s, e, "tcp", bug)) \o SlotWrites(Lane(b, s, e, "udp", bug)) \o PtWrites(s)
Machine(b, staged, bug) == Lanes3(b, SortStaged(staged, bug), bug)

\* reference kernel segmentation of one write, projected on the batch: segment j of a superpacket has the seed's header
\* with length / ID+j / seq+offset / checksums rewritten, CWR on the first only, FIN and PSH on the last only, and the j-th
\* gso-sized slice of the concatenated payloads.  ok = it is packet ids[j] up to the fields the kernel rewrites.
RECURSIVE Cum(_, _, _)
Cum(b, ids, k) == IF k = 0 THEN 0 ELSE Cum(b, ids, k - 1) + b[ids[k]].len
KernelSeg(b, w) ==
    IF w[1] = 0 THEN <<[id |-> w[2], ok |-> TRUE]>>
    ELSE LET seed == b[w[2]]
             ids == w[3]
             g == w[4]
             total == Cum(b, ids, Len(ids))
             n == IF total = 0 THEN 1 ELSE (total + g - 1) \div g
             sflags == seed.flags \cup (IF w[5] = 1 THEN {"PSH"} ELSE {})
         IN Tup([j \in 1..n |->
               IF n # Len(ids) THEN [id |-> 0, ok |-> FALSE]
               ELSE LET p == b[ids[j]]
                        from == (j - 1) * g
                        to == Min(j * g, total)
                        fl == (sflags \ (IF j # 1 THEN {"CWR"} ELSE {})) \ (IF j # n THEN {"FIN", "PSH"} ELSE {})
                    IN [id |-> p.id,
                        ok |-> /\ from = Cum(b, ids, j - 1) /\ to = Cum(b, ids, j)
                               /\ p.shape \in {"plain", "trail"}
                               /\ p.proto = seed.proto /\ p.flow = seed.flow
                               /\ p.proto = "tcp" => (p.seq = seed.seq + from /\ p.flags = fl)
                               /\ p.tos = seed.tos /\ p.hv = seed.hv /\ (p.fam = 6 \/ p.df = seed.df)
                               /\ (p.fam = 6 \/ p.df \/ p.ipid = seed.ipid + j - 1)]])
ObsOf(b, ws) == Tup([k \in 1..Len(ws) |->
                   LET w == ws[k] IN
                   [gso |-> w[1] = 1, lens |-> Tup([j \in 1..Len(w[3]) |-> b[w[3][j]].len]), hdr |-> HL(b[w[2]]), hdrok |-> TRUE,
                    segs |-> KernelSeg(b, w)]])

-----------------------------------------------------------------------------
(* The lattice: a batch is built packet by packet in transmission order; every prefix is a batch *)
A   == <<"ACK">>
PA  == <<"PSH", "ACK">>
AE  == <<"ACK", "ECE">>
PAE == <<"PSH", "ACK", "ECE">>
FA  == <<"FIN", "ACK">>
AC  == <<"ACK", "CWR">>
SY  == <<"SYN">>
RA  == <<"RST", "ACK">>
UA  == <<"ACK", "URG">>
NOF == <<>>

\* kind = <<proto, flow, shape, flags, len, seq mode, id mode, tos, hv, core>>
\* seq mode: cont = next expected of the flow, gap = +100, back = retransmit of the flow's last packet
\* id mode: df = DF set (ID arbitrary), inc = DF clear, ID = flow's last + 1, jump = DF clear, ID = last + 7
T(flow, shape, flags, len, sq, idm, tos, hv, core) == <<"tcp", flow, shape, flags, len, sq, idm, tos, hv, core>>
TcpKinds ==
    { T(1, "plain", A, 100, "cont", "df", 0, 0, 1),  T(2, "plain", A, 100, "cont", "df", 0, 0, 1),
      T(1, "plain", PA, 100, "cont", "df", 0, 0, 1), T(1, "plain", AE, 100, "cont", "df", 0, 0, 0),
      T(1, "plain", FA, 100, "cont", "df", 0, 0, 1), T(1, "plain", AC, 100, "cont", "df", 0, 0, 0),
      T(1, "plain", SY, 0, "cont", "df", 0, 0, 0),
      T(1, "plain", A, 0, "cont", "df", 0, 0, 1),    T(1, "plain", A, 50, "cont", "df", 0, 0, 1),
      T(1, "plain", A, 200, "cont", "df", 0, 0, 0),  T(1, "plain", A, 32750, "cont", "df", 0, 0, 0),
      T(1, "plain", A, 100, "gap", "df", 0, 0, 1),   T(1, "plain", A, 100, "back", "df", 0, 0, 0),
      T(1, "plain", A, 100, "cont", "inc", 0, 0, 1), T(1, "plain", A, 100, "cont", "jump", 0, 0, 0),
      T(1, "plain", A, 100, "cont", "df", 1, 0, 1),  T(1, "plain", A, 100, "cont", "df", 0, 1, 0),
      T(1, "opt", A, 100, "cont", "df", 0, 0, 0),    T(1, "frag", A, 100, "cont", "inc", 0, 0, 0),
      T(2, "frag2", NOF, 100, "cont", "inc", 0, 0, 0), T(1, "trunc", A, 100, "cont", "df", 0, 0, 0),
      T(1, "trail", A, 100, "cont", "df", 0, 0, 0),  T(2, "badoff", A, 100, "cont", "df", 0, 0, 0),
      T(2, "plain", A, 0, "cont", "df", 0, 0, 0),    T(1, "plain", PA, 50, "cont", "df", 0, 0, 0),
      T(1, "plain", AE, 0, "cont", "df", 0, 0, 0),   T(2, "opt", A, 100, "cont", "df", 0, 0, 0) } \cup
    (IF Thorough THEN
    { T(1, "plain", RA, 0, "cont", "df", 0, 0, 0),   T(1, "plain", UA, 100, "cont", "df", 0, 0, 0),
      T(1, "plain", PAE, 100, "cont", "df", 0, 0, 0), T(3, "plain", A, 100, "cont", "df", 0, 0, 0),
      T(1, "plain", A, 100, "cont", "df", 2, 0, 0),  T(1, "plain", A, 32750, "cont", "inc", 0, 0, 0),
      T(1, "plain", FA, 0, "cont", "df", 0, 0, 0),   T(1, "plain", A, 100, "gap", "inc", 1, 0, 0),
      T(1, "plain", PA, 0, "cont", "df", 0, 0, 0),   T(2, "frag", A, 100, "cont", "df", 0, 0, 0) } ELSE {})

U(flow, shape, len, idm, tos, hv, core) == <<"udp", flow, shape, NOF, len, "cont", idm, tos, hv, core>>
UdpKinds ==
    { U(1, "plain", 100, "df", 0, 0, 1),  U(2, "plain", 100, "df", 0, 0, 1), U(1, "plain", 0, "df", 0, 0, 1),
      U(1, "plain", 50, "df", 0, 0, 1),   U(1, "plain", 200, "df", 0, 0, 1), U(1, "plain", 32750, "df", 0, 0, 0),
      U(1, "plain", 100, "inc", 0, 0, 1), U(1, "plain", 100, "jump", 0, 0, 0), U(1, "plain", 100, "df", 1, 0, 1),
      U(1, "plain", 100, "df", 0, 1, 0),  U(1, "opt", 100, "df", 0, 0, 0),   U(1, "frag", 100, "inc", 0, 0, 1),
      U(2, "frag2", 100, "inc", 0, 0, 0), U(1, "trunc", 100, "df", 0, 0, 0), U(1, "trail", 100, "df", 0, 0, 0),
      U(1, "l4short", 100, "df", 0, 0, 1), U(1, "l4short", 50, "df", 0, 0, 0) } \cup
    (IF Thorough THEN
    { U(3, "plain", 100, "df", 0, 0, 0),  U(1, "plain", 100, "df", 2, 0, 0), U(2, "plain", 0, "df", 0, 0, 0),
      U(1, "plain", 32750, "inc", 0, 0, 0), U(2, "opt", 100, "df", 0, 0, 0), U(2, "l4short", 100, "inc", 0, 0, 0) } ELSE {})

O(flow, shape, len) == <<"other", flow, shape, NOF, len, "cont", "df", 0, 0, 1>>
MixKinds ==
    { T(1, "plain", A, 100, "cont", "df", 0, 0, 1), T(1, "plain", A, 0, "cont", "df", 0, 0, 1),
      T(1, "plain", FA, 100, "cont", "df", 0, 0, 1), T(1, "frag", A, 100, "cont", "df", 0, 0, 1),
      U(1, "plain", 100, "df", 0, 0, 1), U(1, "plain", 50, "df", 0, 0, 1), U(1, "frag", 100, "df", 0, 0, 1),
      O(1, "plain", 100), O(1, "frag", 100), O(2, "plain", 0) }

Lanes == {"tcp", "udp", "mix"}
Kinds(l) == IF l = "tcp" THEN TcpKinds ELSE IF l = "udp" THEN UdpKinds ELSE MixKinds
MaxLen == IF Thorough THEN 4 ELSE 3

SeqBase == -150          \* the flow's sequence numbers cross 2^32 inside the batch
IdBase == -2             \* and its IPv4 IDs cross 2^16

\* the packet tuple a kind makes at the end of batch pk (tuples, transmission order)
Build(pk, k, s) ==
    LET id == Len(pk) + 1
        same == SelectSeq(pk, LAMBDA q : q[4] = k[1] /\ q[5] = k[2])
        last == same[Len(same)]
        nxt == IF same = <<>> THEN SeqBase ELSE last[7] + (IF last[6] \in {"plain", "trail"} THEN last[8] ELSE 0)
        seq == IF k[1] # "tcp" THEN 0
               ELSE IF k[6] = "gap" THEN nxt + 100
               ELSE IF k[6] = "back" /\ same # <<>> THEN last[7]
               ELSE nxt
        lid == IF same = <<>> THEN IdBase ELSE last[11]
        ipid == IF k[7] = "inc" THEN lid + 1 ELSE IF k[7] = "jump" THEN lid + 7 ELSE lid + 3
    IN <<id, s, IF s = 1 THEN 1000 + id ELSE id, k[1], k[2], k[3], seq, k[5], k[4], IF k[7] = "df" THEN 1 ELSE 0,
         ipid, k[8], k[9], k[10]>>

\* arrival (Commit) order: a permutation of 1..n fixed by the batch (the harness also shuffles)
Arrival(pk) ==
    LET n == Len(pk)
        r == (SumSeq([i \in 1..n |-> pk[i][8] \div 50]) + n) % 3
    IN Tup(IF r = 0 THEN [i \in 1..n |-> i]
           ELSE IF r = 1 THEN [i \in 1..n |-> n + 1 - i]
           ELSE [i \in 1..n |-> (i % n) + 1])

\* the lattice restriction for longer batches: at most one packet outside the core kinds
NonCore(pk) == Cardinality({ i \in 1..Len(pk) : pk[i][14] = 0 })
Bugs == <<"noseq", "notos", "noseal", "nocounter">>
SureBugs == {"noseq", "notos"}      \* whatever these change is refused by the statement

\* 0: the bug does not change the writes of this batch; 1: it does and the statement refuses the result; 2: it does, unnoticed
Bites(b, st, srt, good, g) == LET m == IF g = "nocounter" THEN Machine(b, st, g) ELSE Lanes3(b, srt, g) IN
                         IF m = good THEN 0 ELSE IF Transparent(b, ObsOf(b, m)) THEN 2 ELSE 1

VARIABLES fam, lane, pk, arr, exp, bites, unsure
vars == <<fam, lane, pk, arr, exp, bites, unsure>>

\* quick: batches of 3 = first packet of a core kind and all core kinds in every session pattern, or one packet outside
\* the core in one session (mixed-lane batches of 3: IPv4 only).
\* thorough: every batch of 3 in one session, at most one packet outside the core in the other session patterns; batches
\* of 4 as quick's batches of 3 (one packet outside the core: IPv4 only).
OneSession(q) == q[Len(q)][2] = 1
Admit(q) == \/ Len(q) <= 2
            \/ /\ Len(q) = 3 /\ Thorough
               /\ OneSession(q) \/ NonCore(q) <= 1
            \/ /\ Len(q) = 3 /\ ~Thorough
               /\ q[1][14] = 1
               /\ NonCore(q) = 0 \/ (NonCore(q) = 1 /\ OneSession(q))
               /\ lane = "mix" => fam = 4
            \/ /\ Len(q) = 4
               /\ q[1][14] = 1
               /\ NonCore(q) = 0 \/ (NonCore(q) = 1 /\ OneSession(q) /\ fam = 4)
               /\ lane = "mix" => fam = 4


Init == /\ fam \in {4, 6} /\ lane \in Lanes
        /\ pk = <<>> /\ arr = <<>> /\ exp = <<>> /\ bites = <<>> /\ unsure = <<>>

Staged(b, a) == Tup([i \in 1..Len(a) |-> b[a[i]]])

\* (values used more than once are passed as operator arguments: TLC re-evaluates LET definitions at every use)
BiteVec(b, st, srt, good) == Tup([i \in 1..Len(Bugs) |-> Bites(b, st, srt, good, Bugs[i])])
Pick(bv, v) == LET idx == SelectSeq(<<1, 2, 3, 4>>, LAMBDA i : bv[i] = v) IN Tup([k \in 1..Len(idx) |-> Bugs[idx[k]]])
Step5(npk, na, good, bv) == /\ pk' = npk /\ arr' = na /\ exp' = good
                            /\ bites' = Pick(bv, 1)
                            /\ unsure' = SelectSeq(Pick(bv, 2), LAMBDA g : g \in SureBugs)
Step4(npk, na, b, st, srt, good) == Step5(npk, na, good, BiteVec(b, st, srt, good))
Step3(npk, na, b, st, srt) == Step4(npk, na, b, st, srt, Lanes3(b, srt, "none"))
Step2(npk, na, b, st) == Step3(npk, na, b, st, SortStaged(st, "none"))
Step1(npk, na, b) == Step2(npk, na, b, Staged(b, na))
Step0(npk) == Step1(npk, Arrival(npk), DecAll(npk, fam))
Grow(npk, s) == /\ (pk # <<>> => s >= pk[Len(pk)][2])
                /\ (pk = <<>> => s = 1)
                /\ Admit(npk)
                /\ Step0(npk)
Next == /\ Len(pk) < MaxLen
        /\ \E k \in Kinds(lane), s \in 1..2 : Grow(Append(pk, Build(pk, k, s)), s)
        /\ UNCHANGED <<fam, lane>>
Spec == Init /\ [][Next]_vars

-----------------------------------------------------------------------------
(* Link *)
Batch == DecAll(pk, fam)
\* the machine is transparent
Link == Transparent(Batch, ObsOf(Batch, exp))
\* Flush's sort restores the transmission order whatever the arrival order
SortOK == SortStaged(Staged(Batch, arr), "none") = Batch
\* every write of the machine covers each packet once
Partition == LET all == FlatSegs(Tup([k \in 1..Len(exp) |-> [segs |-> exp[k][3]]])) IN
             /\ Len(all) = Len(pk) /\ ToSet(all) = 1..Len(pk)
\* the statement refuses what the seeded bugs produce (the relation is not vacuous): bites lists the bugs that change the
\* writes of this batch in a way the statement refuses (the harness counts them per bug); whatever noseq / notos change
\* must be refused
Rejects == unsure = <<>>
=============================================================================
