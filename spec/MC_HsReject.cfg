\* C07 manager level: vector mode (bin/check builds the same text in tools/props/C07.py:MGR_CFG; run by hand with -dump)
SPECIFICATION RSpec
CONSTANTS
  HI = {"I1", "I2"}
  HR = {"R1", "R2"}
  AI = {}
  AR = {}
  AdvIds = {"M"}
  VerCfgs = {1}
  Ops = {"id", "short", "hdr", "in_e", "after_e", "in_s", "after_s", "in_p", "flip_s", "flip_p", "idx", "sub_e", "bad_e", "splice_e", "splice_p"}
  PKinds = {"full"}
  SKinds = {"own"}
  Misuse = FALSE
  Scns = {"all"}
  Impl = "spec"
  Budget = 0
INVARIANTS TypeOK VecOK ScriptOK C07_RejectClean
CHECK_DEADLOCK FALSE
