--------------------------- MODULE Trace_CertTrust ---------------------------
(* Validation of recorded concrete verifications against CertTrust.tla (T).    *)
(* The harness draws seeded random certificates far outside the lattice (AB-bit *)
(* addresses, dozens of networks and groups, wide validity windows), runs the   *)
(* real VerifyCertificate / VerifyCachedCertificate and logs one line per case: *)
(*   {"ev":"reset"}                                                             *)
(*   {"ev":"case","c":{..},"cas":[..],"bl":[..],"t":N,"full":bool,              *)
(*    "blocked":bool,"cached":"none"|"true"|"false"}                            *)
(* A case is a step of this specification only if the logged verdicts are the   *)
(* ones the reference layer (Accept) gives.                                     *)
EXTENDS CertTrust, Json

Log == ndJsonDeserialize("trace.ndjson")

VARIABLE l
tvars == <<vars, l>>

ToSet(s) == {s[i] : i \in DOMAIN s}
Pfx(s)   == {[f |-> p.f, a |-> p.a, b |-> p.b] : p \in ToSet(s)}
CAOf(j)  == [id |-> j.id, gen |-> j.gen, ver |-> j.ver, curve |-> j.curve, nb |-> j.nb, na |-> j.na,
             groups |-> ToSet(j.groups), nets |-> Pfx(j.nets), unsafe |-> Pfx(j.unsafe)]
CertOf(j) == [ver |-> j.ver, curve |-> j.curve, isCA |-> j.isCA, nb |-> j.nb, na |-> j.na,
              groups |-> ToSet(j.groups), nets |-> Pfx(j.nets), unsafe |-> Pfx(j.unsafe),
              issuer |-> CAOf(j.issuer), sig |-> j.sig, badf |-> j.badf]

TraceInit == in = <<>> /\ exp = <<>> /\ m = <<>> /\ l = 1

IsEvent(e) == l <= Len(Log) /\ Log[l].ev = e /\ l' = l + 1

TraceReset == IsEvent("reset") /\ UNCHANGED vars

TraceCase ==
    /\ IsEvent("case")
    /\ LET j    == Log[l]
           c    == CertOf(j.c)
           pool == Honest({CAOf(x) : x \in ToSet(j.cas)})
           bl   == ToSet(j.bl)
           a    == Accept(c, pool, bl, j.t)
       IN \* (a value, not an action: TLC must not enumerate the witnesses of the rule's quantifiers as successor states)
          TRUE = (/\ j.full = a                                            \* full check = the trust rule
                  /\ j.cached # "none" => ((j.cached = "true") <=> a)      \* re-check in the same state = full check
                  /\ j.blocked => Forms(c) \cap bl # {}                    \* ErrBlockListed only for blocklisted certificates
                  /\ (Accept(c, pool, {}, j.t) /\ ~a) => j.blocked)        \* ... and always when that is the only reason
    /\ UNCHANGED vars

\* C04: {"ev":"sign","c":{..},"signed":bool,"low":bool,"verifies":"none"|"true"|"false"}
TraceSign ==
    /\ IsEvent("sign")
    /\ LET j == Log[l]
           c == CertOf(j.c)
       IN TRUE = (/\ j.signed => SignOK(c)                      \* signing succeeds only inside the signer's constraints
                  /\ j.signed => j.low                          \* every P-256 signature produced is low-S
                  /\ j.verifies # "none" => j.verifies = "true") \* what was issued verifies at its NotBefore and NotAfter
    /\ UNCHANGED vars

TraceNext == TraceReset \/ TraceCase \/ TraceSign
TraceSpec == TraceInit /\ [][TraceNext]_tvars

TraceAccepted == TLCGet("stats").diameter - 1 = Len(Log)
=============================================================================
