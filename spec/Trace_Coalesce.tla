-------------------------- MODULE Trace_Coalesce --------------------------
(* Judgement of recorded flushes of the real MultiCoalescer against Coalesce.tla.  One ndjson line per flushed batch:    *)
(*   {"n":17,"fam":4,"pk":[[id,sess,ctr,proto,flow,shape,seq,len,flags,df,ipid,tos,hv],..],                          *)
(*    "o":[{"gso":true,"lens":[100,100,50],"hdr":40,"hdrok":true,"segs":[{"id":1,"ok":true},..]},..]}                *)
(* pk is the abstract batch the bytes were built from (vectors of Coalesce.tla or seeded random ones) in transmission  *)
(* order; o the recorded writes in emission order: lens = the payload fragments of an offloaded write, hdr = its       *)
(* header bytes, hdrok = the superpacket header is one the kernel accepts, segs = the packets the reference kernel      *)
(* segmentation makes of it (a plain write is one segment), each identified by its payload tag and compared with the   *)
(* original bytes up to the fields the kernel rewrites (ok).  The verdict is Judge (the statement).                    *)
(* One initial state per line, the verdict is computed in the step (workers share the lines); conforming lines fall    *)
(* into one state, every other verdict keeps its line number and is read back by tools/props/C23.py.                   *)
EXTENDS Coalesce, Json

Log == ndJsonDeserialize("c23_obs.ndjson")

VerdictOf(l) == LET j == Judge(DecAll(l.pk, l.fam), l.o) IN IF j = Good THEN <<0, j>> ELSE <<l.n, j>>

TInit == LET L == Log IN
         /\ \E k \in 1..Len(L) : exp = <<"line", k>>
         /\ fam = 0 /\ lane = "" /\ pk = <<>> /\ arr = <<>> /\ bites = <<>> /\ unsure = <<>>
TNext == /\ exp[1] = "line"
         /\ exp' = <<"verdict", VerdictOf(Log[exp[2]])>>
         /\ UNCHANGED <<fam, lane, pk, arr, bites, unsure>>
TSpec == TInit /\ [][TNext]_vars
=============================================================================
