------------------------------- MODULE Header -------------------------------
(***************************************************************************)
(* The 16-byte nebula packet header (header/header.go), C47.               *)
(* Bytes are naturals 0..255; the 32-bit index and the 64-bit counter are  *)
(* carried as big-endian byte sequences (TLC integers are 32-bit).         *)
(*                                                                         *)
(* The module is a specification of functions: TLC enumerates the input    *)
(* lattice as initial states (one state = one vector), checks the          *)
(* round-trip law on every one of them, and the dumped states are the      *)
(* vectors the harness concretises on the real Encode / Parse /            *)
(* IsValidSubType.                                                         *)
(***************************************************************************)
EXTENDS Integers, Sequences, FiniteSets, TLC

CONSTANT Thorough   \* BOOLEAN: size of the lattice

HeaderLen == 16

\* type/subtype table from the documentation of the wire format
Handshake == 0  Message == 1  RecvError == 2  LightHouse == 3  Test == 4  CloseTunnel == 5  Control == 6

Valid(t, s) == CASE t = Message   -> s \in {0, 1}           \* none, relay
                 [] t = Handshake -> s = 0                   \* ix_psk0
                 [] t = Test      -> s \in {0, 1}            \* request, reply
                 [] t \in {Control, CloseTunnel, RecvError, LightHouse} -> s = 0
                 [] OTHER -> FALSE

Encode(v, t, st, ri, c) == <<(v % 16) * 16 + (t % 16), st, 0, 0>> \o ri \o c

Parse(b) == IF Len(b) < HeaderLen THEN [err |-> "short"]
            ELSE [err |-> "", version |-> b[1] \div 16, type |-> b[1] % 16, subtype |-> b[2],
                  reserved |-> SubSeq(b, 3, 4), index |-> SubSeq(b, 5, 8), counter |-> SubSeq(b, 9, 16)]

-----------------------------------------------------------------------------
Subtypes == IF Thorough THEN 0..255 ELSE {0, 1, 2, 127, 128, 255}
Idx   == {<<0,0,0,0>>, <<0,0,0,1>>, <<255,255,255,255>>, <<1,2,3,4>>, <<128,0,0,0>>, <<0,0,1,0>>}
Ctr   == {<<0,0,0,0,0,0,0,0>>, <<0,0,0,0,0,0,0,1>>, <<255,255,255,255,255,255,255,255>>,
          <<1,2,3,4,5,6,7,8>>, <<128,0,0,0,0,0,0,0>>, <<0,0,0,1,0,0,0,0>>, <<255,255,255,255,0,0,0,0>>}
Versions == IF Thorough THEN 0..15 ELSE {0, 1, 2, 15}

EncInputs == [kind : {"enc"}, v : Versions, t : 0..15, st : Subtypes, ri : Idx, c : Ctr]
ValidInputs == [kind : {"valid"}, t : 0..15, st : 0..255]

\* byte strings for Parse: every length 0..20; first byte all values; the tail from a few fillers
Fill(n, x) == [k \in 1..n |-> (x * k + 7 * (k \div 3)) % 256]
FirstBytes == IF Thorough THEN 0..255 ELSE {0, 1, 16, 17, 31, 128, 240, 255}
ParseInputs == { [kind |-> "parse", b |-> IF n = 0 THEN <<>> ELSE <<f>> \o Fill(n - 1, x)] :
                 n \in 0..20, f \in FirstBytes, x \in {0, 1, 37, 255} }

Inputs == EncInputs \cup ValidInputs \cup ParseInputs

Expected(i) == CASE i.kind = "enc"   -> [bytes |-> Encode(i.v, i.t, i.st, i.ri, i.c)]
                 [] i.kind = "valid" -> [valid |-> Valid(i.t, i.st)]
                 [] i.kind = "parse" -> Parse(i.b)

VARIABLES in, exp
vars == <<in, exp>>
Init == in \in Inputs /\ exp = Expected(in)
Next == UNCHANGED vars
Spec == Init /\ [][Next]_vars

\* the law of the statement, checked by TLC on every vector
RoundTrip == in.kind = "enc" =>
    LET p == Parse(exp.bytes) IN
      /\ p.err = "" /\ p.version = in.v /\ p.type = in.t /\ p.subtype = in.st
      /\ p.reserved = <<0, 0>> /\ p.index = in.ri /\ p.counter = in.c
      /\ Len(exp.bytes) = HeaderLen
ShortRefused == in.kind = "parse" => (exp.err = "short" <=> Len(in.b) < HeaderLen)
\* parsing depends on the first 16 bytes only
PrefixOnly == (in.kind = "parse" /\ Len(in.b) >= HeaderLen) => Parse(SubSeq(in.b, 1, HeaderLen)) = exp
=============================================================================
