SPECIFICATION TraceSpec
CONSTANTS Nodes <- TNodes
          Addrs <- TAddrs
          InitCert <- TInit
          RespCert <- TResp
          Own <- TOwn
          Trusts <- TTrusts
          Route <- TRoute
          Idx = {1,2,3,4,5,6,7,8,9,10,11,12,13,14,15,16,17,18,19,20,21,22,23,24,25,26,27,28,29,30,31,32,33,34,35,36,37,38,39,40}
          Retries = 4
          MaxPerAddr = 5
          MaxQueue = 100
          MaxClock = 1000000
          MaxMsgs = 1000000
          MaxTunSends = 1000000
INVARIANTS C32_NoEarlyRetry
POSTCONDITION TraceAccepted
CHECK_DEADLOCK FALSE
