----------------------------- MODULE CalcRemote -----------------------------
(***************************************************************************)
(* Calculated remotes (calculated_remote.go, LightHouse.addCalculatedRemotes)*)
(* -- property C48.                                                         *)
(*                                                                         *)
(* Addresses are bit strings (sequences over {0,1}, most significant bit   *)
(* first) tagged with a family.  The module is a specification of          *)
(* functions: in vector mode TLC enumerates the input lattice for L = 8 as *)
(* initial states (one state = one vector), checks the link between the    *)
(* reference splice and the implementation-shaped integer/word machine on  *)
(* every one, and the dumped states are concretised by the harness         *)
(* (abstract bit i |-> a run of real bits: /0../32 and /0../128 at byte and *)
(* non-byte boundaries).  Trace_CalcRemote evaluates the same reference on *)
(* full-width (32/128 bit) observations of the real code.                  *)
(***************************************************************************)
EXTENDS Integers, Sequences, FiniteSets, TLC

CONSTANTS L,          \* abstract address length (even; 8)
          Thorough    \* BOOLEAN: size of the lattice

-----------------------------------------------------------------------------
(* Reference layer: the statement's vocabulary.                            *)

\* masked bits (positions <= mlen) from the mask address, the remaining ones from the overlay address
Splice(mbits, mlen, abits) == [i \in 1..Len(abits) |-> IF i <= mlen THEN mbits[i] ELSE abits[i]]

\* the overlay address lies inside the configured range
InRange(rbits, rlen, abits) == \A i \in 1..rlen : abits[i] = rbits[i]

ValidPort(p) == p \in 0..65535

\* an entry: range rfam/rbits/rlen, mask mfam/mbits/mlen, port.  It is refused unless range and mask
\* are of one family and the port is a port.
EntryOK(e) == e.rfam = e.mfam /\ ValidPort(e.port)
CfgOK(es)  == \A i \in 1..Len(es) : EntryOK(es[i])

\* what is produced for overlay address a: one remote per entry of a's family whose range holds a
Matching(es, a) == { j \in 1..Len(es) : es[j].rfam = a.fam /\ InRange(es[j].rbits, es[j].rlen, a.bits) }
Produce(es, a)  == { [fam |-> a.fam, bits |-> Splice(es[j].mbits, es[j].mlen, a.bits), port |-> es[j].port] :
                     j \in Matching(es, a) }

-----------------------------------------------------------------------------
(* Implementation-shaped machine: ApplyV4 works on one unsigned word       *)
(* ((maskAddr & m) | (addr & ^m) with m the netmask of the mask prefix),   *)
(* ApplyV6 on two half-width words.  Only evaluated for small widths.      *)

RECURSIVE Pow2(_)
Pow2(n) == IF n = 0 THEN 1 ELSE 2 * Pow2(n - 1)
Val(bits) == LET RECURSIVE V(_)
                 V(k) == IF k = 0 THEN 0 ELSE 2 * V(k - 1) + bits[k]
             IN V(Len(bits))
BitsOf(v, n) == [i \in 1..n |-> (v \div Pow2(n - i)) % 2]

\* (x & netmask(len)) | (y & ^netmask(len)) on words of n bits
WordSplice(x, y, len, n) == (x - (x % Pow2(n - len))) + (y % Pow2(n - len))

MachineV4(mbits, mlen, abits) ==
    BitsOf(WordSplice(Val(mbits), Val(abits), mlen, Len(abits)), Len(abits))

Min(a, b) == IF a < b THEN a ELSE b
Max(a, b) == IF a > b THEN a ELSE b
MachineV6(mbits, mlen, abits) ==
    LET h  == Len(abits) \div 2
        hi == WordSplice(Val(SubSeq(mbits, 1, h)), Val(SubSeq(abits, 1, h)), Min(mlen, h), h)
        lo == WordSplice(Val(SubSeq(mbits, h + 1, 2 * h)), Val(SubSeq(abits, h + 1, 2 * h)), Max(mlen - h, 0), h)
    IN BitsOf(hi, h) \o BitsOf(lo, h)

-----------------------------------------------------------------------------
(* Vector lattice (L = 8).  A vector is a parameter record q; Build(q) is   *)
(* the configuration and overlay address it denotes.                       *)
Fam == {"v4", "v6"}
Other(f) == IF f = "v4" THEN "v6" ELSE "v4"

MaskPats == IF Thorough THEN {<<1,0,1,1,0,0,1,0>>, <<1,1,1,1,1,1,1,1>>, <<0,1,0,0,1,1,0,1>>, <<0,0,0,0,0,0,0,0>>}
                        ELSE {<<1,0,1,1,0,0,1,0>>, <<0,1,0,0,1,1,0,1>>}
AddrPats == IF Thorough THEN {<<0,1,1,0,1,0,0,1>>, <<0,0,0,0,0,0,0,0>>, <<1,1,1,1,1,1,1,1>>, <<1,0,0,1,0,1,1,0>>, <<0,0,1,1,1,1,0,0>>}
                        ELSE {<<0,1,1,0,1,0,0,1>>, <<0,0,0,0,0,0,0,0>>, <<1,0,0,1,0,1,1,0>>}
GoodPorts == {0, 1, 4242, 65535}
BadPorts  == {-1, 65536, 70000}

RangeKinds == { <<TRUE, n>> : n \in IF Thorough THEN 0..L ELSE {0, 3, L} }     \* range = the address' own prefix (host bits left set)
         \cup { <<FALSE, n>> : n \in IF Thorough THEN 1..L ELSE {1, 5, L} }    \* ... with its last bit flipped: address just outside

\* ef: family of the range; mixed: mask of the other family (refused); af: family of the overlay address relative
\* to ef; decoy: a second entry of the other family that must never contribute; pf: port as YAML integer or string
Params0 ==
    [ef : Fam, mixed : {FALSE}, af : {"same"}, a : AddrPats, m : MaskPats, ml : 0..L, p : GoodPorts,
     r : RangeKinds, decoy : {FALSE}, pf : {"int"}]
    \cup
    [ef : Fam, mixed : {FALSE}, af : {"same", "other"}, a : AddrPats, m : MaskPats, ml : 0..L, p : {4242},
     r : RangeKinds, decoy : BOOLEAN, pf : IF Thorough THEN {"int", "str"} ELSE {"int"}]
    \cup
    [ef : Fam, mixed : {FALSE}, af : {"same"}, a : {<<0,1,1,0,1,0,0,1>>}, m : {<<1,0,1,1,0,0,1,0>>}, ml : 0..L, p : GoodPorts,
     r : RangeKinds, decoy : {FALSE}, pf : {"str"}]
    \cup
    [ef : Fam, mixed : BOOLEAN, af : {"same"}, a : {<<0,1,1,0,1,0,0,1>>}, m : {<<1,0,1,1,0,0,1,0>>}, ml : {4},
     p : GoodPorts \cup BadPorts, r : {<<TRUE, 3>>, <<FALSE, 5>>}, decoy : {FALSE}, pf : {"int", "str"}]
\* twin: the range carries a SECOND mask entry (complemented mask bits, next port): lighthouse.calculated_remotes maps a
\* range to a LIST of masks and every entry of the list produces its own remote
TwinOK(q) == ~q.decoy /\ ~q.mixed /\ q.pf = "int" /\ q.p \in GoodPorts /\ q.af = "same"
Params == {q @@ [twin |-> FALSE] : q \in Params0} \cup {q @@ [twin |-> TRUE] : q \in {x \in Params0 : TwinOK(x)}}
Keep(q) == TRUE

Flip(bits, k) == [i \in 1..Len(bits) |-> IF i = k THEN 1 - bits[i] ELSE bits[i]]
Decoy(f) == [rfam |-> Other(f), rbits |-> [i \in 1..L |-> 0], rlen |-> 0,
             mfam |-> Other(f), mbits |-> <<1,1,0,0,1,0,1,0>>, mlen |-> 4, port |-> 7]
Build(q) ==
    LET e == [rfam |-> q.ef, rbits |-> IF q.r[1] THEN q.a ELSE Flip(q.a, q.r[2]), rlen |-> q.r[2],
              mfam |-> IF q.mixed THEN Other(q.ef) ELSE q.ef, mbits |-> q.m, mlen |-> q.ml, port |-> q.p]
        e2 == [e EXCEPT !.mbits = [i \in 1..L |-> 1 - q.m[i]], !.port = IF q.p = 65535 THEN 65534 ELSE q.p + 1]
    IN [es |-> IF q.twin THEN <<e, e2>> ELSE IF q.decoy THEN <<e, Decoy(q.ef)>> ELSE <<e>>, a |-> [fam |-> IF q.af = "same" THEN q.ef ELSE Other(q.ef), bits |-> q.a]]

Expected(c) ==
    [err    |-> ~CfgOK(c.es),
     out    |-> IF CfgOK(c.es) THEN Produce(c.es, c.a) ELSE {},
     \* the pure splice of every entry whose mask is of the address' family (ApplyV4/ApplyV6 called directly)
     direct |-> [j \in 1..Len(c.es) |->
                   IF EntryOK(c.es[j]) /\ c.es[j].mfam = c.a.fam
                   THEN [use |-> TRUE, bits |-> Splice(c.es[j].mbits, c.es[j].mlen, c.a.bits), port |-> c.es[j].port]
                   ELSE [use |-> FALSE, bits |-> <<>>, port |-> 0]]]

VARIABLES q, in, exp
vars == <<q, in, exp>>
Init == q \in Params /\ Keep(q) /\ in = Build(q) /\ exp = Expected(in)
Next == UNCHANGED vars
Spec == Init /\ [][Next]_vars

-----------------------------------------------------------------------------
(* Link: the word machine computes the reference splice (all mask lengths, *)
(* both the one-word and the two-half-word form).                          *)
MachineRefines ==
    \A j \in 1..Len(in.es) :
        LET e == in.es[j] IN
          /\ MachineV4(e.mbits, e.mlen, in.a.bits) = Splice(e.mbits, e.mlen, in.a.bits)
          /\ MachineV6(e.mbits, e.mlen, in.a.bits) = Splice(e.mbits, e.mlen, in.a.bits)

\* laws of the statement on every vector
OnlyInsideSameFamily ==
    \A o \in exp.out : /\ o.fam = in.a.fam
                       /\ \E j \in 1..Len(in.es) : /\ in.es[j].rfam = in.a.fam
                                                   /\ InRange(in.es[j].rbits, in.es[j].rlen, in.a.bits)
                                                   /\ o.port = in.es[j].port
                                                   /\ \A k \in 1..L : o.bits[k] = IF k <= in.es[j].mlen THEN in.es[j].mbits[k]
                                                                                                      ELSE in.a.bits[k]
NothingWhenRefused == exp.err => exp.out = {}
=============================================================================
