--------------------------- MODULE LockDiscipline ---------------------------
(* C34 (B): lock discipline of mutex-guarded Go maps, as a TRACE specification. *)
(*                                                                          *)
(* A concurrent read/write of a Go map is a definite fault (the runtime       *)
(* aborts the process with "concurrent map read and map write"); there are no *)
(* benign cases. tools/lockinst derives mechanically, from the types of the   *)
(* current tree, every map-typed field of a struct that contains or embeds a  *)
(* sync.Mutex / sync.RWMutex, and instruments every read (index, range - once *)
(* per iteration -, len, copy of the map value) and every write (m[k] = v,    *)
(* m[k]++, delete, clear, assignment of the field) of those fields, and every *)
(* lock operation. One recorded event = one line of the trace = one step:     *)
(*                                                                          *)
(*   {"e":"reset"}                          a new, independent part of the log *)
(*   {"e":"got","g":G,"k":K,"o":O,"c":C,"m":"w"|"r","s":site}  Lock/RLock returned *)
(*   {"e":"rel", ... same fields ...}       about to Unlock/RUnlock            *)
(*   {"e":"acc","g":G,"o":O,"f":F,"m":"w"|"r","s":site}   access of map field F *)
(*                                                                          *)
(* G goroutine, K lock instance, O the struct instance that declares the lock *)
(* / the map field (its address), C lock class "Struct.field", F map field    *)
(* "Struct.field". `got` is logged after the blocking call returned and `rel` *)
(* before the unlocking call, so "held in the log" implies "really held".     *)
(*                                                                          *)
(* RULE. An access of field F of object O by goroutine G in mode m needs G to *)
(* hold, on the SAME object O, one of the guards the table names for (F, m):  *)
(* a write needs the guard in write mode, a read in read or write mode.       *)
(* EXCEPT during the construction phase of O: accesses by the goroutine that  *)
(* created O (= the first goroutine that ever touched O) before O's mutex was *)
(* ever locked by anyone, or before any other goroutine touched O.            *)
EXTENDS Integers, Sequences, FiniteSets, TLC

CONSTANT Mech   \* mechanical default from the instrumentation: field -> set of lock classes declared in the same struct
                \* (used only for fields the table below does not know yet, i.e. code newer than this specification)

(* ------------------------------------------------------------------------ *)
(* THE GUARD TABLE (read from the code; file:line of /repo at the time of     *)
(* writing). W = guards acceptable for a write, R = for a read. FREE = no     *)
(* lock needed for that kind of access (justified per entry).                 *)
FREE == {"-"}
Tbl(w, r) == [W |-> w, R |-> r]
One(c) == Tbl({c}, {c})

GuardTable ==
  (* hostmap.go:58-76 "sync.RWMutex //Because we concurrently read and write to our maps"; every access is in a method    *)
  (* that takes hm.Lock/RLock or in an unlocked* helper called with it held.                                              *)
     ("HostMap.Hosts" :> One("HostMap.RWMutex"))
  @@ ("HostMap.moreHosts" :> One("HostMap.RWMutex"))
  @@ ("HostMap.Indexes" :> One("HostMap.RWMutex"))
  @@ ("HostMap.RemoteIndexes" :> One("HostMap.RWMutex"))
  @@ ("HostMap.Relays" :> One("HostMap.RWMutex"))
  (* hostmap.go:80-91 RelayState: "store ... in both relayForBy* maps (with the RelayState Lock held)"                     *)
  @@ ("RelayState.relayForByAddr" :> One("RelayState.RWMutex"))
  @@ ("RelayState.relayForByIdx" :> One("RelayState.RWMutex"))
  (* handshake_manager.go:57-61 "Mutex for interacting with the vpnIps and indexes maps"                                   *)
  @@ ("HandshakeManager.vpnIps" :> One("HandshakeManager.RWMutex"))
  @@ ("HandshakeManager.indexes" :> One("HandshakeManager.RWMutex"))
  (* lighthouse.go:31 "sync.RWMutex //Because we concurrently read and write to our maps"                                  *)
  @@ ("LightHouse.addrMap" :> One("LightHouse.RWMutex"))
  (* remote_list.go:193-215 RemoteList: "A deadlock can occur if the lock is held ... cache" all under the embedded RWMutex *)
  @@ ("RemoteList.cache" :> One("RemoteList.RWMutex"))
  (* firewall.go:81-86 FirewallConntrack{sync.Mutex; Conns; TimerWheel}                                                    *)
  @@ ("FirewallConntrack.Conns" :> One("FirewallConntrack.Mutex"))
  (* connection_manager.go:33-35 relayUsed / relayUsedLock                                                                 *)
  @@ ("connectionManager.relayUsed" :> One("connectionManager.relayUsedLock"))
  (* dns_server.go:18-22 the embedded RWMutex guards the record maps (serverMu, dns_server.go:39, guards server/addr only) *)
  @@ ("dnsServer.dnsMap4" :> One("dnsServer.RWMutex"))
  @@ ("dnsServer.dnsMap6" :> One("dnsServer.RWMutex"))
  (* config/config.go: reloadLock (:30) serialises reloads. Settings is published copy-on-write: parse()/parseRaw()       *)
  (* build a fresh map and assign the field (:381, :409); no statement writes a published Settings map in place (lockinst  *)
  (* finds only field assignments as writes), so readers (Get, :304-327) need no lock as far as MAP faults are concerned   *)
  (* (the unsynchronised read of the field itself is a data race on non-map memory, which this check does not decide).     *)
  (* A write = replacing the map: under reloadLock (ReloadConfig :153, ReloadConfigString :176) or during construction     *)
  (* (Load/LoadString before the object is shared).                                                                        *)
  @@ ("config.C.Settings" :> Tbl({"config.C.reloadLock"}, FREE))
  (* oldSettings is rebuilt in place under reloadLock (:156-158, :179-181) and read by HasChanged/InitialLoad from reload  *)
  (* callbacks, which run inside ReloadConfig* with reloadLock held by the same goroutine (:169-171, :191-193).            *)
  @@ ("config.C.oldSettings" :> One("config.C.reloadLock"))

Guards(f, m) == IF f \in DOMAIN GuardTable
                THEN (IF m = "w" THEN GuardTable[f].W ELSE GuardTable[f].R)
                ELSE IF f \in DOMAIN Mech THEN Mech[f] ELSE FREE

(* ------------------------------------------------------------------------ *)
VARIABLES held,     \* set of <<g, k, o, c, m, n>>: goroutine g holds lock instance k (class c of object o) in mode m, n-th nested hold
          first,    \* object -> the first goroutine that touched it (its creator, as far as the log can tell)
          shared,   \* objects touched by a second goroutine
          locked,   \* objects one of whose mutexes has been acquired by anyone
          viol      \* what the rule rejects: set of records (never shrinks)
dvars == <<held, first, shared, locked, viol>>

DInit == /\ held = {} /\ first = <<>> /\ shared = {} /\ locked = {} /\ viol = {}

Touch(g, o) == /\ first' = IF o \in DOMAIN first THEN first ELSE first @@ (o :> g)
               /\ shared' = IF o \in DOMAIN first /\ first[o] # g THEN shared \cup {o} ELSE shared

Holds(g, k, m) == {h \in held : h[1] = g /\ h[2] = k /\ h[5] = m}

(* Lock / RLock returned. Sanity of the RECORDER (not of nebula): the log must be a legal history of every mutex. *)
DGot(g, k, o, c, m, s) ==
    /\ Touch(g, o)
    /\ locked' = locked \cup {o}
    /\ held' = held \cup {<<g, k, o, c, m, Cardinality(Holds(g, k, m)) + 1>>}
    /\ viol' = IF \E h \in held : h[2] = k /\ (m = "w" \/ h[5] = "w")
               THEN viol \cup {[kind |-> "recorder", f |-> c, m |-> m, s |-> s, why |-> "two holders of one mutex in the log"]}
               ELSE viol

(* Unlock / RUnlock: the goroutine must hold the instance in that mode (Go allows unlocking a Mutex from another goroutine; *)
(* nebula never does, and a hand-over would make "held by this goroutine" meaningless, so it is reported).                 *)
DRel(g, k, o, c, m, s) ==
    LET hs == Holds(g, k, m) IN
    /\ Touch(g, o)
    /\ locked' = locked
    /\ IF hs = {}
       THEN /\ held' = held
            /\ viol' = viol \cup {[kind |-> "badunlock", f |-> c, m |-> m, s |-> s, why |-> "unlock of a lock this goroutine does not hold"]}
       ELSE /\ held' = held \ {h \in hs : h[6] = Cardinality(hs)}
            /\ viol' = viol

Guarded(g, o, f, m) ==
    LET gs == Guards(f, m) IN
    \/ gs = FREE
    \/ \E h \in held : h[1] = g /\ h[3] = o /\ h[4] \in gs /\ (m = "r" \/ h[5] = "w")

(* construction phase of o, seen from goroutine g (state BEFORE the event): g is the first goroutine that touches o, or   *)
(* g is o's creator and either no mutex of o has ever been locked or no other goroutine has touched o yet                *)
Constructing(g, o) == IF o \in DOMAIN first THEN first[o] = g /\ (o \notin locked \/ o \notin shared) ELSE TRUE

DAcc(g, o, f, m, s) ==
    /\ Touch(g, o)
    /\ UNCHANGED <<held, locked>>
    /\ viol' = IF Guarded(g, o, f, m) \/ Constructing(g, o)
               THEN viol
               ELSE viol \cup {[kind |-> "unguarded", f |-> f, m |-> m, s |-> s,
                                why |-> IF \E h \in held : h[1] = g /\ h[3] = o /\ h[4] \in Guards(f, m)
                                        THEN "guard held in read mode only" ELSE "guard not held"]}

DReset == /\ held' = {} /\ first' = <<>> /\ shared' = {} /\ locked' = {} /\ viol' = viol

Disciplined == viol = {}
=============================================================================
