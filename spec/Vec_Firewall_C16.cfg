INIT InitC16Single
NEXT Next
CONSTANT Thorough = FALSE
CONSTANT NSample = 0
INVARIANTS LinkTable LinkParse
CHECK_DEADLOCK FALSE
