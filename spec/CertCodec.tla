------------------------------ MODULE CertCodec ------------------------------
(***************************************************************************)
(* Certificate codec of nebula (cert/cert_v1.go, cert_v2.go, sign.go,      *)
(* pem.go, ca_pool.go, p256/p256.go): C02 (tampered certificates are       *)
(* rejected) and C03 (every issued certificate decodes back to itself).    *)
(*                                                                         *)
(* Reference layer  = the vocabulary of the two statements:                *)
(*    Rel(o)    relation on one OBSERVATION of a tampered encoding         *)
(*              (decodes, identity-diff set, signature relation, verdict)  *)
(*    Blocked   fingerprint / twin-fingerprint blocklist algebra           *)
(*    Rel3(o)   Signed => decodes back identically;  Decoded => signable   *)
(* Machine layer    = what the Go code does, abstractly:                   *)
(*    C02: which abstract parts of an encoding the signature covers        *)
(*         (v1: the re-marshalled details, v2: rawDetails+curve+key)       *)
(*    C03: the structural rule Shape(t), guard of Sign AND of Decode,      *)
(*         canonicalisation (v2 sorts networks), three encodings           *)
(* Link             = invariants checked by TLC on every vector.           *)
(*                                                                         *)
(* The module is a specification of functions (vector mode): one initial   *)
(* state = one vector.  Prop selects the lattice.                          *)
(***************************************************************************)
EXTENDS Integers, Sequences, FiniteSets, TLC

CONSTANTS Prop,       \* "C02" or "C03": which input lattice Init enumerates
          Thorough    \* BOOLEAN: size of the lattice

Versions == {1, 2}
Curves   == {"x25519", "p256"}
Encs     == {"std", "hs"}          \* standard (Marshal / PEM) and handshake (MarshalForHandshakes + Recombine)

Range(s) == {s[i] : i \in DOMAIN s}

(***************************************************************************)
(*                       C02 -- reference layer                            *)
(***************************************************************************)
\* the identity of a certificate (the ten fields of the statement) ...
IdFields == {"name", "nets", "unsafe", "groups", "isCA", "nb", "na", "issuer", "curve", "key"}
\* ... all of which the signature has to cover
Signed   == IdFields

SigRels  == {"orig", "twin", "other"}   \* signature bytes of the altered certificate relative to the trusted one

GoodSig(o) == o.sig = "orig" \/ (o.sig = "twin" /\ o.curve = "p256")
Same(o)    == o.diff = {} /\ GoodSig(o)

\* One observation o of an altered encoding of a trusted certificate:
\*   dec     the real decoder accepted the bytes
\*   diff    set of identity fields whose decoded value differs from the trusted certificate
\*   sig     relation of the decoded signature bytes to the trusted ones
\*   canon   the decoded certificate re-encodes (signature aside) to the trusted standard encoding
\*   acc     CAPool.VerifyCertificate accepted it;  chk = Certificate.CheckSignature(CA key)
\*   accBlOrig     still accepted when the trusted certificate's fingerprint is blocklisted
\*   origAccBlMut  the trusted certificate is still accepted when this one's fingerprint is blocklisted
Rel(o) == o.dec =>
    /\ o.acc => Same(o)                                \* the statement: accepted only if identity unchanged, sig orig/twin
    /\ o.chk => Same(o)                                \* same, at Certificate.CheckSignature
    /\ (Same(o) /\ o.canon) => (o.acc /\ o.chk)        \* untouched signed content (incl. the twin) stays accepted
    /\ o.acc => (~o.accBlOrig /\ ~o.origAccBlMut)      \* blocklisting either form rejects both

\* Fingerprints are symbolic: content x signature form.  fp2 = the fingerprint with the P-256
\* signature in the other S form; defined only for p256.
Twin(s) == CASE s = "orig" -> "twin" [] s = "twin" -> "orig" [] OTHER -> "none"
Fp(content, s)         == <<content, s>>
Fp2(curve, content, s) == IF curve = "p256" THEN <<content, Twin(s)>> ELSE <<"-", "none">>
Blocked(curve, content, s, B) == Fp(content, s) \in B \/ Fp2(curve, content, s) \in B

AllFps == {<<c, s>> : c \in {"same", "changed"}, s \in SigRels}
\* blocklisting either twin's fingerprint rejects both (and nothing of that kind exists for x25519)
ASSUME \A B \in SUBSET AllFps : \A c \in {"same", "changed"} :
          Blocked("p256", c, "orig", B) <=> Blocked("p256", c, "twin", B)
ASSUME \A c \in {"same", "changed"}, s \in {"orig", "twin"} :
          /\ Blocked("p256", c, s, {Fp(c, "orig")}) /\ Blocked("p256", c, s, {Fp(c, "twin")})
          /\ Fp2("p256", c, Twin(s)) = Fp(c, s)
ASSUME ~Blocked("x25519", "same", "orig", {Fp("same", "twin")})

(***************************************************************************)
(*                 C02 -- tamper classes and their vectors                 *)
(***************************************************************************)
\* op(f): field/element granularity; the harness implements each on real DER / protobuf bytes
FieldOps == {"alter", "drop", "dup"}
C02Args(op) == CASE op \in FieldOps   -> IdFields
                 [] op = "unknown"    -> {"details", "outer"}          \* element no decoder knows
                 [] op = "reorder"    -> {"nets", "unsafe", "groups", "fields"}
                 [] op = "reencode"   -> {"packing", "length"}          \* same content, other byte form
                 [] op = "truncate"   -> {"last", "half", "sig"}
                 [] op = "extend"     -> {"zero", "junk", "self"}
                 [] op = "banner"     -> {"other"}
                 [] OTHER             -> {"-"}                          \* id, sigTwin, sigFlip, sigPad, sigForeign, sigDrop
C02Ops == FieldOps \cup {"id", "unknown", "reorder", "reencode", "truncate", "extend", "banner",
                         "sigTwin", "sigFlip", "sigPad", "sigForeign", "sigDrop"}

\* the exemplar is a host certificate: isCA = FALSE and (for x25519) curve are encoded by absence
Present(c) == ~(c.f = "isCA") /\ ~(c.f = "curve" /\ c.curve = "x25519")
                /\ ~(c.enc = "hs" /\ c.f \in {"key"}) /\ ~(c.enc = "hs" /\ c.ver = 2 /\ c.f = "curve")
Applicable(c) == /\ c.op = "sigTwin" => c.curve = "p256"
                 /\ c.op = "banner"  => c.enc = "std"
                 /\ c.op = "drop"    => Present(c)
                 /\ c.op = "dup"     => Present(c)

C02Cases == {c \in UNION {[ver : Versions, curve : Curves, enc : Encs, op : {op}, f : C02Args(op)] : op \in C02Ops} :
               Applicable(c)}

\* what the statement demands of the verdict for a class, from the set of signed fields alone
Expect(c) == CASE c.op \in {"id", "sigTwin"}                          -> "accept"
               [] c.op = "alter" /\ c.f \in Signed                    -> "reject"
               [] c.op = "drop"  /\ c.f \in Signed                    -> "reject"
               [] c.op \in {"sigFlip", "sigPad", "sigForeign", "sigDrop"} -> "reject"   \* only orig / twin bytes may pass
               [] OTHER                                               -> "free"   \* Rel decides on the observation

(***************************************************************************)
(*                       C02 -- machine layer                              *)
(* An encoding is abstracted to: the state of each identity field          *)
(* (orig / alt / absent), unknown elements, a non-canonical byte form and  *)
(* the signature.  v1 verifies the signature over the RE-MARSHALLED known  *)
(* fields; v2 over the received rawDetails bytes + curve + public key.     *)
(***************************************************************************)
Orig == [val |-> [f \in IdFields |-> "orig"], unk |-> "none", reenc |-> FALSE, sig |-> "orig"]

ApplyM(c, w) == CASE c.op = "alter"    -> [w EXCEPT !.val[c.f] = "alt"]
                  [] c.op = "drop"     -> [w EXCEPT !.val[c.f] = "absent"]
                  [] c.op = "unknown"  -> [w EXCEPT !.unk = c.f]
                  [] c.op = "reencode" -> [w EXCEPT !.reenc = TRUE]
                  [] c.op = "sigTwin"  -> [w EXCEPT !.sig = "twin"]
                  [] c.op \in {"sigFlip", "sigPad", "sigForeign"} -> [w EXCEPT !.sig = "other"]
                  [] c.op = "sigDrop"  -> [w EXCEPT !.sig = "absent"]
                  [] OTHER             -> w     \* id; dup/reorder/truncate/extend/banner: byte semantics only

Mandatory(ver) == IF ver = 2 THEN {"name", "nets", "nb", "na", "key"} ELSE {"nets", "key"}
DecodesM(ver, w) == /\ \A f \in Mandatory(ver) : w.val[f] # "absent"
                    /\ ver = 2 => (~w.reenc /\ w.sig # "absent")        \* DER is strict, signature element required
DiffM(w)         == {f \in IdFields : w.val[f] # "orig"}
SigM(w)          == IF w.sig = "absent" THEN "other" ELSE w.sig
SignedSameM(ver, w) == DiffM(w) = {} /\ (ver = 2 => w.unk # "details")  \* v2 signs the bytes of the details as received
ContentM(ver, w) == IF SignedSameM(ver, w) THEN "same" ELSE "changed"
SigOkM(curve, w) == w.sig = "orig" \/ (w.sig = "twin" /\ curve = "p256")
AcceptM(ver, curve, w, B) == /\ DecodesM(ver, w) /\ SignedSameM(ver, w) /\ SigOkM(curve, w)
                             /\ ~Blocked(curve, ContentM(ver, w), SigM(w), B)
ObsM(ver, curve, w) ==
    [dec |-> DecodesM(ver, w), diff |-> DiffM(w), sig |-> SigM(w), canon |-> SignedSameM(ver, w), curve |-> curve,
     acc |-> AcceptM(ver, curve, w, {}), chk |-> AcceptM(ver, curve, w, {}),
     accBlOrig    |-> AcceptM(ver, curve, w, {Fp("same", "orig")}),
     origAccBlMut |-> AcceptM(ver, curve, Orig, {Fp(ContentM(ver, w), SigM(w))})]

(***************************************************************************)
(*                       C03 -- structural rule                            *)
(* Abstract TBS certificate:                                               *)
(*   [ver, curve, ca, key (present), name : Str, groups : Seq(Str),        *)
(*    nets, unsafe : Seq(Tok)]                                             *)
(*   Str = [len, utf]        byte length, valid UTF-8                      *)
(*   Tok = [fam, zero, id]   fam 4 / 6 / 46 (IPv4-mapped IPv6) / 0 invalid;*)
(*                           zero = unspecified address; id = rank of the  *)
(*                           prefix in (address, bits) order, equal ids =  *)
(*                           equal prefixes                                *)
(***************************************************************************)
MaxNameLength      == 253
MaxCertificateSize == 65536

RECURSIVE SumLen(_)
SumLen(s) == IF s = <<>> THEN 0 ELSE Head(s).len + 2 + SumLen(Tail(s))
\* coarse size of the v2 encoding; the lattice stays far away from the limit on either side
SizeV2(t) == 300 + t.name.len + SumLen(t.groups) + 20 * (Len(t.nets) + Len(t.unsafe))
\* the size rule itself: the whole standard encoding may not exceed the limit (exact sizes: C03Sizes below)
SizeOK(n) == n <= MaxCertificateSize

HasDup(s)   == \E i, j \in DOMAIN s : i < j /\ s[i] = s[j]
HasFam(s, F) == \E i \in DOMAIN s : s[i].fam \in F

\* first violated rule ("" = none); Shape(t) == Why(t) = ""
WhyV1(t) ==
    CASE ~t.key                                              -> "key:empty"
      [] ~t.name.utf                                         -> "name:utf8"
      [] \E i \in DOMAIN t.groups : ~t.groups[i].utf         -> "group:utf8"
      [] ~t.ca /\ t.nets = <<>>                              -> "nets:none"
      [] HasFam(t.nets, {0})                                 -> "nets:invalid"
      [] HasFam(t.nets, {6, 46})                             -> "nets:v6-in-v1"
      [] \E i \in DOMAIN t.nets : t.nets[i].zero             -> "nets:zero"
      [] HasFam(t.unsafe, {0})                               -> "unsafe:invalid"
      [] HasFam(t.unsafe, {6, 46})                           -> "unsafe:v6-in-v1"
      [] OTHER                                               -> ""
WhyV2(t) ==
    CASE ~t.key                                              -> "key:empty"
      [] t.name.len = 0                                      -> "name:empty"
      [] t.name.len > MaxNameLength                          -> "name:long"
      [] \E i \in DOMAIN t.groups : t.groups[i].len = 0      -> "group:empty"
      [] ~t.ca /\ t.nets = <<>>                              -> "nets:none"
      [] HasFam(t.nets, {0})                                 -> "nets:invalid"
      [] \E i \in DOMAIN t.nets : t.nets[i].zero             -> "nets:zero"
      [] HasFam(t.nets, {46})                                -> "nets:4in6"
      [] HasDup(t.nets)                                      -> "nets:dup"
      [] HasFam(t.unsafe, {0})                               -> "unsafe:invalid"
      [] ~t.ca /\ HasFam(t.unsafe, {6, 46}) /\ ~HasFam(t.nets, {6})  -> "unsafe:v6-without-v6"
      [] ~t.ca /\ HasFam(t.unsafe, {4}) /\ ~HasFam(t.nets, {4})      -> "unsafe:v4-without-v4"
      [] HasDup(t.unsafe)                                    -> "unsafe:dup"
      [] ~SizeOK(SizeV2(t))                                  -> "size"
      [] OTHER                                               -> ""
Why(t)   == IF t.ver = 1 THEN WhyV1(t) ELSE WhyV2(t)
Shape(t) == Why(t) = ""

(***************************************************************************)
(*            C03 -- machine: Sign, three encodings, Decode                *)
(***************************************************************************)
\* v2 keeps networks sorted by (address, bits); v1 keeps the given order
RECURSIVE InsertTok(_, _)
InsertTok(x, s) == IF s = <<>> THEN <<x>>
                   ELSE IF x.id < Head(s).id THEN <<x>> \o s ELSE <<Head(s)>> \o InsertTok(x, Tail(s))
RECURSIVE SortToks(_)
SortToks(s) == IF s = <<>> THEN <<>> ELSE InsertTok(Head(s), SortToks(Tail(s)))
Canon(t) == IF t.ver = 2 THEN [t EXCEPT !.nets = SortToks(t.nets), !.unsafe = SortToks(t.unsafe)] ELSE t

SignM(t) == IF Shape(t) THEN [ok |-> TRUE, cert |-> Canon(t)] ELSE [ok |-> FALSE, cert |-> t]

C03Encs == {"std", "pem", "hs"}
\* the handshake encoding leaves out the public key (and, for v2, the curve); Recombine supplies them
EncodeM(c, e) == IF e = "hs" THEN [c EXCEPT !.key = FALSE, !.curve = IF c.ver = 2 THEN "-" ELSE c.curve] ELSE c
DecodeM(w, e, key, curve) ==
    LET c == IF e = "hs" THEN [w EXCEPT !.key = key, !.curve = IF w.ver = 2 THEN curve ELSE w.curve] ELSE w
    IN  IF Shape(c) /\ c.curve = curve THEN [ok |-> TRUE, cert |-> Canon(c)] ELSE [ok |-> FALSE, cert |-> c]

\* observation of one TBS certificate on the real code:
\*   sign  Sign accepted it;  rt  all three encodings decoded back identically (fields and fingerprint);
\*   dec   a hand-made encoding of the same content (no Sign involved) was accepted by a decoder
Rel3(o) == /\ o.sign => o.rt
           /\ o.dec  => o.sign
\* signer and decoder agree with each other but not with Shape: the specification is out of date (no verdict)
Drift3(o) == (o.sign <=> o.dec) /\ o.hasdec /\ (o.sign # Shape(o.t))

(***************************************************************************)
(*                           C03 -- lattice                                *)
(***************************************************************************)
S(n, u) == [len |-> n, utf |-> u]
T(f, z, i) == [fam |-> f, zero |-> z, id |-> i]
z4 == T(4, TRUE, 0)    c4 == T(4, FALSE, 1)   a4 == T(4, FALSE, 2)   b4 == T(4, FALSE, 3)
z6 == T(6, TRUE, 4)    m6 == T(46, FALSE, 5)  a6 == T(6, FALSE, 6)   b6 == T(6, FALSE, 7)
bad == T(0, FALSE, 8)

NameLens == IF Thorough THEN {0, 1, 2, 64, 252, 253, 254, 255, 300, 1000, 70000} ELSE {0, 1, 253, 254}
Names    == {S(n, TRUE) : n \in NameLens} \cup {S(5, FALSE)}
GroupsFew == {<<>>, <<S(5, TRUE), S(7, TRUE)>>}
GroupSeqs == GroupsFew \cup {<<S(5, TRUE), S(0, TRUE)>>, <<S(6, FALSE)>>, <<S(3, TRUE), S(70000, TRUE)>>}
              \cup (IF Thorough THEN {<<S(0, TRUE)>>, <<S(1, TRUE)>>, <<S(5, TRUE), S(5, TRUE)>>, <<S(40000, TRUE), S(20000, TRUE)>>} ELSE {})
NetSeqs  == {<<>>, <<a4>>, <<b4, a4>>, <<a4, c4>>, <<a6>>, <<b6, a4>>, <<a4, m6>>, <<z4>>, <<a4, a4>>, <<bad>>}
             \cup (IF Thorough THEN {<<m6>>, <<a4, z6>>, <<a6, b6, a6>>, <<a4, bad>>, <<b6, a6, b4, a4, c4>>, <<z6>>} ELSE {})
UnsafeFew == {<<>>, <<b4>>}
UnsafeSeqs == UnsafeFew \cup {<<b6>>, <<b6, b4>>, <<m6>>, <<b4, b4>>, <<bad>>}
             \cup (IF Thorough THEN {<<z4>>, <<z6, a6>>, <<b4, a4, b4>>, <<a4, bad>>} ELSE {})

\* quick: the curve only changes key and signature bytes, so p256 gets a slice of the product
C03Shapes ==
    [ver : Versions, curve : {"x25519"}, ca : BOOLEAN, key : {TRUE}, name : Names, groups : GroupSeqs, nets : NetSeqs, unsafe : UnsafeSeqs]
    \cup [ver : Versions, curve : {"p256"}, ca : BOOLEAN, key : {TRUE}, name : Names,
          groups : IF Thorough THEN GroupSeqs ELSE GroupsFew, nets : NetSeqs, unsafe : IF Thorough THEN UnsafeSeqs ELSE UnsafeFew]
    \cup [ver : Versions, curve : Curves, ca : BOOLEAN, key : {FALSE}, name : {S(1, TRUE)}, groups : {<<>>},
          nets : {<<a4>>, <<>>}, unsafe : {<<>>}]

(***************************************************************************)
(*                        vectors (one state each)                         *)
(***************************************************************************)
\* the size rule at its boundary, byte by byte: an otherwise ordinary v2 certificate (one filler group) whose STANDARD
\* ENCODING is exactly `size` bytes long; the harness tunes the filler until the real encoding has that length
SizeWindow == IF Thorough THEN (MaxCertificateSize - 6)..(MaxCertificateSize + 40)
                          ELSE (MaxCertificateSize - 2)..(MaxCertificateSize + 16)
C03Sizes  == [ver : {2}, curve : Curves, ca : BOOLEAN, size : SizeWindow]
IsShape(i) == "name" \in DOMAIN i

Inputs == IF Prop = "C02" THEN C02Cases ELSE C03Shapes \cup C03Sizes
Expected(i) == IF Prop = "C02" THEN [verdict |-> Expect(i)]
               ELSE IF IsShape(i) THEN [ok |-> Shape(i), why |-> Why(i)]
               ELSE [ok |-> SizeOK(i.size), why |-> IF SizeOK(i.size) THEN "" ELSE "size"]

VARIABLES in, exp
vars == <<in, exp>>
Init == in \in Inputs /\ exp = Expected(in)
Next == UNCHANGED vars
Spec == Init /\ [][Next]_vars

\* ---- link invariants, C02: the machine satisfies the relation and the demanded verdicts
C02MachineRefines == Prop = "C02" =>
    LET o == ObsM(in.ver, in.curve, ApplyM(in, Orig)) IN
      /\ Rel(o)
      /\ exp.verdict = "reject" => ~o.acc
      /\ exp.verdict = "accept" => o.acc
\* a field left out of the signed set would be alterable: the demand really comes from Signed
C02SignedIsAll == Prop = "C02" => (in.op = "alter" => exp.verdict = "reject")

\* ---- link invariants, C03
\* Signed(c) => Decode(Encode_e(c)) = c   for the standard, PEM and handshake encodings
C03RoundTrip == (Prop = "C03" /\ IsShape(in)) =>
    (SignM(in).ok => \A e \in C03Encs :
        DecodeM(EncodeM(SignM(in).cert, e), e, in.key, in.curve) = [ok |-> TRUE, cert |-> SignM(in).cert])
\* Decoded(c) => Shape(c): whatever a decoder accepts, from either encoding, the signer accepts, and it is canonical
C03DecodedShape == (Prop = "C03" /\ IsShape(in)) =>
    \A e \in C03Encs : LET d == DecodeM(EncodeM(in, e), e, in.key, in.curve) IN
        d.ok => (Shape(d.cert) /\ SignM(d.cert).ok /\ SignM(d.cert).cert = d.cert)
\* the boundary vectors: issued exactly up to the limit, and what is issued is what the decoder reads (its guard is the same rule)
C03SizeBoundary == (Prop = "C03" /\ ~IsShape(in)) => (exp.ok <=> in.size <= MaxCertificateSize)
\* the machine satisfies the reference relation
C03MachineRefines == (Prop = "C03" /\ IsShape(in)) =>
    LET s == SignM(in) IN
      Rel3([sign |-> s.ok, rt |-> s.ok, dec |-> DecodeM(in, "std", in.key, in.curve).ok])
=============================================================================
