---------------------------- MODULE Trace_CpuPick ----------------------------
(* T direction of C46: seeded random machines written out as a fake sysfs  *)
(* tree and run through the pipeline of Default (perfCPUsFrom ->           *)
(* pickCandidates -> readTopologyFrom -> arrange(splitmix64(key))), and    *)
(* longer cpulist strings through parseCPUList; judged by Post and by the  *)
(* cpulist classes of CpuPick.tla.                                         *)
(*  {"k":1,"kind":"pin","i":{allowed,perf,routines,zeroKnown,topo},       *)
(*   "cands":[..],"out":[..],"again":[..]}                                 *)
(*  {"k":2,"kind":"list","str":["0","-","3"],"accepted":true,"got":[..]}   *)
EXTENDS CpuPick, Json

Obs == ndJsonDeserialize("obs.ndjson")

Verdict(o) ==
    IF o.kind = "pin"
    THEN [k |-> o.k, kind |-> "pin",
          cands  |-> CandsOK(o.i, ToSet(o.cands)),
          post   |-> CandsOK(o.i, ToSet(o.cands)) => Post(o.i, ToSet(o.cands), o.out),
          stable |-> o.out = o.again]
    ELSE LET c == ListClass(o.str) IN
         [k |-> o.k, kind |-> "list", class |-> c,
          ok |-> /\ (c = "accept" => (o.accepted /\ ToSet(o.got) = ListValue(o.str)))
                 /\ (c = "refuse" => ~o.accepted)]

\* (the file is read once: O is bound outside the quantifier)
TraceInit == LET O == Obs IN \E n \in 1..Len(O) : q = [kind |-> "obs"] /\ in = [k |-> O[n].k] /\ exp = Verdict(O[n])
TraceSpec == TraceInit /\ [][Next]_vars
=============================================================================
