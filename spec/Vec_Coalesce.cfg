SPECIFICATION Spec
CONSTANTS Thorough = FALSE
          MaxSegs = 64
          MaxBytes = 65535
          CrossSession = FALSE
          Design = "strict"
INVARIANTS Link SortOK Partition Rejects
CHECK_DEADLOCK FALSE
