SPECIFICATION TraceSpec
CONSTANTS H = 8
          MaxGw = 4
          MaxW = 6
CHECK_DEADLOCK FALSE
