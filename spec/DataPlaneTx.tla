---------------------------- MODULE DataPlaneTx ----------------------------
(***************************************************************************)
(* Send side of one tunnel (C13): concurrent senders reserve a message     *)
(* counter and then seal (AEAD) with it.                                   *)
(*                                                                         *)
(*  fast path  = Interface.sendInsideEncrypt:  [lock] Add(1); Seal; [unlock]*)
(*  safe path  = sendNoMetrics / prepareSendVia:                           *)
(*               [lock] c := Add(1); if c >= Ceiling { Store(Ceiling);     *)
(*               [unlock] refuse } ; Seal; [unlock]                        *)
(*  drop path  = prepareSendVia whose out buffer is too small for the      *)
(*               relayed payload: the counter is reserved like on the safe  *)
(*               path, then the send is abandoned (ErrShortBuffer) WITHOUT  *)
(*               reaching the cipher; the reserved counter stays consumed.  *)
(*  Seal       = CipherState.EncryptDanger: refuses n >= Ceiling           *)
(*  lock       = ConnectionState.writeLock, taken iff LockNeeded           *)
(*               (noiseutil.EncryptLockNeeded: boring / FIPS builds)       *)
(*                                                                         *)
(* Grain = "fine": Add and Store(Ceiling) are separate atomic steps (as in *)
(* the code); Grain = "gate": they are one step -- the grain at which the  *)
(* harness can impose schedules (goroutines are parked inside the AEAD).   *)
(***************************************************************************)
EXTENDS Integers, Sequences, FiniteSets, TLC

CONSTANTS Senders,     \* set of sender ids
          Ceiling,     \* RejectAfterMessages (scaled)
          HsMsgs,      \* counters consumed by the handshake (2 for IX)
          Starts,      \* set of initial counter values
          LockNeeded,  \* BOOLEAN
          Grain        \* "fine" | "gate"

VARIABLES ctr,        \* ConnectionState.messageCounter
          path,       \* path[g] \in {"fast","safe","drop"}: chosen once
          pc,         \* pc[g]
          mine,       \* counter reserved by g
          lock,       \* holder of writeLock or "none"
          used,       \* history: nonce -> number of AEAD encryptions with it
          order,      \* history: sequence of nonces in the order they reached the AEAD
          refused     \* history: set of senders whose send was refused (no ciphertext produced)

vars == <<ctr, path, pc, mine, lock, used, order, refused>>

None == "none"

Init == /\ ctr \in Starts
        /\ path \in [Senders -> {"fast", "safe", "drop"}]
        /\ Cardinality({g \in Senders : path[g] = "drop"}) <= 1
        /\ pc = [g \in Senders |-> "idle"]
        /\ mine = [g \in Senders |-> 0]
        /\ lock = None
        /\ used = [n \in {} |-> 0]
        /\ order = <<>>
        /\ refused = {}

Lock(g) == /\ LockNeeded /\ pc[g] = "idle" /\ lock = None
           /\ lock' = g /\ pc' = [pc EXCEPT ![g] = "locked"]
           /\ UNCHANGED <<ctr, path, mine, used, order, refused>>

CanReserve(g) == IF LockNeeded THEN pc[g] = "locked" ELSE pc[g] = "idle"

Release(g) == IF LockNeeded /\ lock = g THEN lock' = None ELSE UNCHANGED lock

\* sendInsideEncrypt: c := messageCounter.Add(1)
ReserveFast(g) == /\ CanReserve(g) /\ path[g] = "fast"
                  /\ ctr' = ctr + 1 /\ mine' = [mine EXCEPT ![g] = ctr + 1]
                  /\ pc' = [pc EXCEPT ![g] = "reserved"]
                  /\ UNCHANGED <<path, lock, used, order, refused>>

\* NextMessageCounter: c := Add(1); if c >= Ceiling { Store(Ceiling); return false }
ReserveSafeAdd(g) == /\ CanReserve(g) /\ path[g] \in {"safe", "drop"}
                     /\ ctr' = ctr + 1 /\ mine' = [mine EXCEPT ![g] = ctr + 1]
                     /\ IF ctr + 1 >= Ceiling
                          THEN IF Grain = "gate"
                                 THEN /\ FALSE   \* handled by ReserveSafeRefuse in one step
                                      /\ UNCHANGED <<pc, lock, refused>>
                                 ELSE /\ pc' = [pc EXCEPT ![g] = "pinning"]
                                      /\ UNCHANGED <<lock, refused>>
                          ELSE /\ pc' = [pc EXCEPT ![g] = "reserved"]
                               /\ UNCHANGED <<lock, refused>>
                     /\ UNCHANGED <<path, used, order>>

\* gate grain: Add + Store(Ceiling) + refuse as one step
ReserveSafeRefuse(g) == /\ Grain = "gate" /\ CanReserve(g) /\ path[g] \in {"safe", "drop"}
                        /\ ctr + 1 >= Ceiling
                        /\ ctr' = Ceiling /\ mine' = [mine EXCEPT ![g] = ctr + 1]
                        /\ pc' = [pc EXCEPT ![g] = "done"]
                        /\ refused' = refused \cup {g}
                        /\ Release(g)
                        /\ UNCHANGED <<path, used, order>>

Pin(g) == /\ pc[g] = "pinning"
          /\ ctr' = Ceiling
          /\ pc' = [pc EXCEPT ![g] = "done"]
          /\ refused' = refused \cup {g}
          /\ Release(g)
          /\ UNCHANGED <<path, mine, used, order>>

\* EncryptDanger(n): refused at or beyond the ceiling, otherwise one AEAD encryption with nonce n
Seal(g) == /\ pc[g] = "reserved" /\ path[g] # "drop"
           /\ IF mine[g] >= Ceiling
                THEN /\ refused' = refused \cup {g}
                     /\ UNCHANGED <<used, order>>
                ELSE /\ used' = IF mine[g] \in DOMAIN used
                                  THEN [used EXCEPT ![mine[g]] = @ + 1]
                                  ELSE used @@ (mine[g] :> 1)
                     /\ order' = Append(order, mine[g])
                     /\ UNCHANGED refused
           /\ pc' = [pc EXCEPT ![g] = "done"]
           /\ Release(g)
           /\ UNCHANGED <<ctr, path, mine>>

\* the send is given up after the counter was reserved: nothing reaches the cipher, the counter is NOT handed back
\* (other senders may have reserved higher counters meanwhile)
Abandon(g) == /\ pc[g] = "reserved" /\ path[g] = "drop"
              /\ pc' = [pc EXCEPT ![g] = "done"]
              /\ refused' = refused \cup {g}
              /\ Release(g)
              /\ UNCHANGED <<ctr, path, mine, used, order>>

Next == \E g \in Senders : Lock(g) \/ ReserveFast(g) \/ ReserveSafeAdd(g) \/ ReserveSafeRefuse(g) \/ Pin(g) \/ Seal(g) \/ Abandon(g)

Spec == Init /\ [][Next]_vars

-----------------------------------------------------------------------------
(* The property (C13) *)
NoReuse    == \A n \in DOMAIN used : used[n] = 1
AboveHs    == \A n \in DOMAIN used : n > HsMsgs
BelowCeil  == \A n \in DOMAIN used : n < Ceiling
Increasing == LockNeeded => \A i \in 1..(Len(order) - 1) : order[i] < order[i + 1]
\* every send either produced exactly one ciphertext or was refused
Accounted  == \A g \in Senders : pc[g] = "done" => (g \in refused) # (\E i \in 1..Len(order) : order[i] = mine[g])
\* the counter never moves below the ceiling once it reached it (no wrap, pinning never lowers it)
NoRewind   == [][ctr >= Ceiling => ctr' >= Ceiling]_vars
\* below the ceiling the counter never moves backwards: a reserved counter is never handed back
\* (at the ceiling Store(Ceiling) pins it, which may lower an overshoot back to the ceiling)
Monotone   == [][ctr' >= ctr \/ (ctr >= Ceiling /\ ctr' = Ceiling)]_vars
TypeOK     == ctr \in Nat /\ lock \in Senders \cup {None}
=============================================================================
