------------------------------ MODULE Checksum ------------------------------
(***************************************************************************)
(* C25 - the Internet checksum (RFC 1071) as a function specification.     *)
(*                                                                         *)
(* Written from RFC 1071, not from overlay/checksum:                       *)
(*   1  "Adjacent octets to be checksummed are paired to form 16-bit       *)
(*       integers, and the 1's complement sum of these 16-bit integers is  *)
(*       formed."  [A,B] = A*256 + B (network byte order).                 *)
(*       An odd trailing octet Z is summed as [Z,0].                       *)
(*   4.1 the C reference: add the 16-bit words into a wide accumulator,    *)
(*       then   while (sum>>16) sum = (sum & 0xffff) + (sum >> 16);        *)
(* The Go API (gvisor's contract, which overlay/checksum.Checksum adopts): *)
(*   Checksum(buf, initial uint16) uint16 = the folded sum of `initial`    *)
(*   (a partial sum over an even number of preceding bytes, added as one   *)
(*   more 16-bit word) and the words of buf.  The result is NOT            *)
(*   complemented (callers write ^Checksum(..)).                           *)
(*                                                                         *)
(* Vector mode: buffers are described symbolically (pattern, length,       *)
(* optional 1..8 byte "spike"); one TLC state = one (pattern, length,      *)
(* spike) and carries the expected checksum for EVERY start offset 0..63   *)
(* into the backing array and EVERY initial value of Inits.  TLC computes  *)
(* the expectations itself:                                                *)
(*   reference  RFC1071(bytes, init)   the definition, a linear recursion  *)
(*              over the materialised byte sequence (Direct)               *)
(*   evaluator  Fast: the same integer sum obtained from cached prefix-sum *)
(*              tables of the (periodic) backing patterns; buffers longer  *)
(*              than Chunk bytes are summed chunk-wise in one's complement *)
(*              arithmetic (RFC 1071 1.2.A, associativity), which keeps    *)
(*              every intermediate below 2^31 (TLC integers are 32 bit)    *)
(*   link       FastIsDirect: Fast = RFC1071 on sampled offsets of every   *)
(*              vector up to DirectMax bytes, and the algebraic laws below *)
(*              (checked by TLC on the specification itself).              *)
(***************************************************************************)
EXTENDS Integers, Sequences, FiniteSets, TLC

CONSTANTS Tier,        \* "quick" | "thorough"
          MixSeeds,    \* parameters (< 65536) of the congruential pattern, derived from VERIF_SEED
          ExtraInits   \* additional initial values (< 65536), derived from VERIF_SEED

W16 == 65536

-----------------------------------------------------------------------------
(* Reference layer: RFC 1071                                               *)

Word(hi, lo) == hi * 256 + lo

\* RFC 1071 4.1: fold the carries back into the low 16 bits (end-around carry)
RECURSIVE Fold(_)
Fold(x) == IF x < W16 THEN x ELSE Fold((x % W16) + (x \div W16))

\* one's complement addition of two 16-bit quantities
OCAdd(x, y) == Fold(x + y)

\* plain integer sum of the 16-bit words of b[k..Len(b)]; an odd trailing octet is padded on the right
RECURSIVE WordSum(_, _)
WordSum(b, k) == IF k > Len(b) THEN 0
                 ELSE IF k = Len(b) THEN Word(b[k], 0)
                 ELSE Word(b[k], b[k + 1]) + WordSum(b, k + 2)

\* the checksum of the API: not complemented; defined here for Len(b) <= 65534 (the plain sum stays below 2^31)
RFC1071(b, init) == Fold(init + WordSum(b, 1))

\* the same with the octets of every pair exchanged (RFC 1071 1.2.B)
RECURSIVE WordSumLE(_, _)
WordSumLE(b, k) == IF k > Len(b) THEN 0
                   ELSE IF k = Len(b) THEN Word(0, b[k])
                   ELSE Word(b[k + 1], b[k]) + WordSumLE(b, k + 2)
Swap16(x) == (x % 256) * 256 + (x \div 256)

\* x and y denote the same one's complement number (0x0000 and 0xffff are both zero)
OCEq(x, y) == x % 65535 = y % 65535

-----------------------------------------------------------------------------
(* Symbolic buffers                                                        *)
(* A pattern p = [k, a, b] defines an unbounded backing array Back(p, j),  *)
(* j >= 0.  A vector [p, len, sq, sw, so, sd] and a start offset off define *)
(* the buffer  buf[i] = Back(p, off + i), i in 0..len-1, except that, if   *)
(* sq >= 0, the sw bytes at the buffer-relative positions sq..sq+sw-1 (the *)
(* "spike") are 0, but for buf[sq + so] = (Back(p, off + sq + so) + sd)    *)
(* % 256.  On the all-0xff background sd = 2 makes the spike the integer 1 *)
(* of width sw, little-endian (so = 0) or big-endian (so = sw - 1): every  *)
(* sw-wide lane sum of the buffer then sits exactly one above a carry      *)
(* threshold, at every level of a folding accumulator.                     *)

MixPeriod == 8192      \* bytes

\* congruential byte generator on the index (no state, random access): one LCG step (a = 25173, c = 13849,
\* m = 2^16) applied to index + seed, one quadratic congruential step, high and low octet added
MixByte(s, j) ==
    LET h1 == ((j + s) * 25173 + 13849) % W16
        h2 == (h1 * ((h1 \div 256) + 1) + 13849) % W16
    IN  ((h2 \div 256) + h2) % 256

Back(p, j) == CASE p.k = "const" -> p.a
                [] p.k = "alt"   -> IF j % 2 = 0 THEN p.a ELSE p.b
                [] p.k = "ramp"  -> (p.a + p.b * (j % 256)) % 256
                [] p.k = "mix"   -> MixByte(p.a, j % MixPeriod)

\* period of the backing array counted in 16-bit words (the same for both pairings)
PW(p) == CASE p.k = "const" -> 1 [] p.k = "alt" -> 1 [] p.k = "ramp" -> 128 [] p.k = "mix" -> MixPeriod \div 2

InSpike(v, i) == v.sq >= 0 /\ i >= v.sq /\ i < v.sq + v.sw
BufByte(v, off, i) == IF InSpike(v, i) THEN (IF i = v.sq + v.so THEN (Back(v.p, off + i) + v.sd) % 256 ELSE 0)
                      ELSE Back(v.p, off + i)
\* the buffer as a sequence of octets; pb = one period of the backing array (PeriodBytes below, so that TLC does not
\* re-derive every octet from the pattern definition); Buf(v, pb, off)[i + 1] = BufByte(v, off, i), checked by BufIsBufByte
Spiked(b, v) == IF v.sq < 0 THEN b
                ELSE SubSeq(b, 1, v.sq)
                     \o [i \in 1..v.sw |-> IF i - 1 = v.so THEN (b[v.sq + i] + v.sd) % 256 ELSE 0]
                     \o SubSeq(b, v.sq + v.sw + 1, Len(b))
Buf(v, pb, off) == Spiked([i \in 1..v.len |-> pb[((off + i - 1) % Len(pb)) + 1]] \o <<>>, v)   \* (\o <<>>: materialised once)

-----------------------------------------------------------------------------
(* Fast evaluator: prefix sums of the backing array's words.               *)
(* pairing par in {0,1}: word w of pairing par = [Back(2w+par), Back(2w+par+1)] *)
(* MixPeriod is a multiple of 128 words.                                    *)

\* one period of the backing array, and its words in pairing par (the period is even, so the pairs wrap around it)
PeriodBytes(p) == [j \in 1..(2 * PW(p)) |-> Back(p, j - 1)] \o <<>>       \* (\o <<>>: TLC materialises the tuple once)
PeriodWords(bytes, par, pw) ==
    [w \in 1..pw |-> Word(bytes[((2 * (w - 1) + par) % (2 * pw)) + 1], bytes[((2 * (w - 1) + par + 1) % (2 * pw)) + 1])] \o <<>>

\* running sums <<base + ws[lo], base + ws[lo] + ws[lo+1], ..>> of ws[lo..hi]; long tables in blocks of 64 words so that
\* no recursion is deeper than 64
RECURSIVE Running(_, _, _, _)
Running(ws, lo, hi, base) == IF lo > hi THEN <<>> ELSE <<base + ws[lo]>> \o Running(ws, lo + 1, hi, base + ws[lo])
RECURSIVE Blocks(_, _, _, _)
BlocksJoin(ws, b, nb, cur) == cur \o (IF b = nb THEN <<>> ELSE Blocks(ws, b + 1, nb, cur[64]))
Blocks(ws, b, nb, base) == BlocksJoin(ws, b, nb, Running(ws, 64 * (b - 1) + 1, 64 * b, base))
PrefixSums(ws) == IF Len(ws) <= 128 THEN Running(ws, 1, Len(ws), 0) ELSE Blocks(ws, 1, Len(ws) \div 64, 0)

\* tab[k] = sum of the first k words of one period, k in 1..PW(p)
TabOf(bytes, par, pw) == PrefixSums(PeriodWords(bytes, par, pw))
TabPair(bytes, pw) == <<bytes, TabOf(bytes, 0, pw), TabOf(bytes, 1, pw)>>

\* sum of the first k words of the periodic word sequence
Pre(tab, pw, k) == (k \div pw) * tab[pw] + (IF k % pw = 0 THEN 0 ELSE tab[k % pw])
\* sum of nw words starting at word w0 (w0 reduced modulo the period first: intermediates stay small)
RangeW(tab, pw, w0, nw) == Pre(tab, pw, (w0 % pw) + nw) - Pre(tab, pw, w0 % pw)

Chunk == 16384         \* bytes; even; 8192 words * 65535 < 2^30

Min(a, b) == IF a < b THEN a ELSE b
Max(a, b) == IF a > b THEN a ELSE b

\* what the spike bytes at the positions lo..hi-1 add to the plain word sum, compared with the plain pattern
RECURSIVE SpikeAdj(_, _, _, _)
SpikeAdj(v, off, lo, hi) == IF lo >= hi THEN 0
                            ELSE (IF lo % 2 = 0 THEN 256 ELSE 1) * (BufByte(v, off, lo) - Back(v.p, off + lo)) + SpikeAdj(v, off, lo + 1, hi)

\* plain sum of the words of the buffer bytes [r0, r1) (r0 even, r1 - r0 <= Chunk)
ChunkW(v, tabs, off, r0, r1) ==
    LET a0 == off + r0
        n  == r1 - r0
        body == RangeW(tabs[(a0 % 2) + 2], PW(v.p), a0 \div 2, n \div 2)
        tail == IF n % 2 = 1 THEN Back(v.p, a0 + n - 1) * 256 ELSE 0
        \* the spike replaces one octet: weight 256 at even buffer positions, 1 at odd ones
        adj  == IF v.sq >= 0 THEN SpikeAdj(v, off, Max(v.sq, r0), Min(v.sq + v.sw, r1)) ELSE 0
    IN  body + tail + adj

\* folded sum of the whole buffer, initial value 0: chunk sums combined with one's complement addition
RECURSIVE FoldChunks(_, _, _, _, _)
FoldChunks(v, tabs, off, c, acc) ==
    IF c * Chunk >= v.len THEN acc
    ELSE FoldChunks(v, tabs, off, c + 1, Fold(acc + ChunkW(v, tabs, off, c * Chunk, Min(v.len, (c + 1) * Chunk))))

FastSum(v, tabs, off) == FoldChunks(v, tabs, off, 0, 0)
Fast(v, tabs, off, init) == Fold(init + FastSum(v, tabs, off))

-----------------------------------------------------------------------------
(* The vector lattice                                                      *)

RECURSIVE AscSeq(_)
AscSeq(S) == IF S = {} THEN <<>>
              ELSE LET m == CHOOSE x \in S : \A y \in S : x <= y IN <<m>> \o AscSeq(S \ {m})

Thorough == Tier = "thorough"

P(k, a, b) == [k |-> k, a |-> a, b |-> b]
MixSeq == AscSeq(MixSeeds)
PatSeq == <<P("const", 0, 0), P("const", 255, 0), P("alt", 255, 0), P("alt", 0, 255), P("ramp", 0, 1), P("ramp", 255, 255)>>
          \o [i \in 1..Len(MixSeq) |-> P("mix", MixSeq[i], 0)]
          \o (IF Thorough THEN <<P("alt", 165, 90), P("ramp", 3, 7), P("const", 128, 0)>> ELSE <<>>)
Pats == {PatSeq[i] : i \in 1..Len(PatSeq)}
PatIx(p) == CHOOSE i \in 1..Len(PatSeq) : PatSeq[i] = p

\* per pattern <<one period of octets, prefix sums of pairing 0, prefix sums of pairing 1>>, computed once (TLC evaluates constant definitions once; \o <<>> forces the tuple)
TabSeq == [i \in 1..Len(PatSeq) |-> TabPair(PeriodBytes(PatSeq[i]), PW(PatSeq[i]))] \o <<>>
Tabs(p) == TabSeq[PatIx(p)]

Offs == 0..63          \* every start offset modulo 64 into a 64-byte aligned backing array
OffSeq == AscSeq(Offs)

\* the API type of the initial value is uint16: 0xffff is its maximum
InitSet == {0, 1, 32768, 65534, 65535} \cup ExtraInits
             \cup (IF Thorough THEN {255, 65280, 32767, 256, 43981} ELSE {})
InitSeq == AscSeq(InitSet)

Around(S, d) == UNION {(m - d)..(m + d) : m \in S}
Lens ==
    IF Thorough
    THEN (0..160)
         \cup Around({32 * m : m \in 1..32} \cup {64 * m : m \in 1..32} \cup {128 * m : m \in 1..32}
                     \cup {256 * m : m \in 1..16} \cup {512 * m : m \in 1..16} \cup {1024 * m : m \in 1..8}
                     \cup {4096 * m : m \in 1..4}, 3)
         \* MTU-sized buffers, the largest IP datagram, and the point (65537 words of 0xffff) where a 32-bit
         \* accumulator of 16-bit words carries out
         \cup Around({1500, 9000, 65535, 131072, 131076}, 3)
    ELSE (0..72) \cup Around({96, 128, 192, 256, 512, 1024, 1500, 2048, 4096}, 2)
         \cup {16386, 40001, 65535, 65536}

\* spike shapes <<sw, so, sd>> per pattern, spikes <<sq, sw, so, sd>>; <<-1, 1, 0, 0>> = none
SpikeShapes(p) == CASE p = P("const", 0, 0)   -> {<<1, 0, 1>>} \cup (IF Thorough THEN {<<1, 0, 255>>} ELSE {})
                    [] p = P("const", 255, 0) -> {<<1, 0, 1>>,                       \* one 0x00 byte
                                                  <<2, 1, 2>>, <<4, 0, 2>>, <<8, 0, 2>>}   \* the integer 1: BE word, LE dword, LE qword
                                                 \cup (IF Thorough THEN {<<2, 0, 2>>, <<4, 3, 2>>, <<8, 7, 2>>, <<1, 0, 255>>} ELSE {})
                    [] p.k = "mix" /\ p.a = MixSeq[1] -> {<<1, 0, 128>>}
                    [] OTHER -> {}
SpikePos(len, w) == {q \in (IF Thorough THEN {0, len - w, len - w - 1, w * ((len \div 2) \div w), 32 * ((len - 1) \div 32)}
                                        ELSE {0, len - w} \cup (IF w >= 4 THEN {32 * ((len - 1) \div 32)} ELSE {})) : q >= 0 /\ q + w <= len}
Spikes(p, len) == {<<-1, 1, 0, 0>>} \cup UNION {{<<q, sh[1], sh[2], sh[3]>> : q \in SpikePos(len, sh[1])} : sh \in SpikeShapes(p)}

Vec(p, len, sp) == [kind |-> "vec", p |-> p, len |-> len, sq |-> sp[1], sw |-> sp[2], so |-> sp[3], sd |-> sp[4]]

\* exp[o][n] = expected Checksum(buffer at offset OffSeq[o], InitSeq[n])
ExpOne(s) == [n \in 1..Len(InitSeq) |-> Fold(InitSeq[n] + s)]
ExpAll(v, tabs) == [o \in 1..Len(OffSeq) |-> ExpOne(FastSum(v, tabs, OffSeq[o]))]

\* a witness of the generated bytes (the harness' generator is compared with it)
ProbeOff(v) == (v.len * 5 + 3) % 64
Probe(v) == [off  |-> ProbeOff(v),
             head |-> [i \in 1..Min(v.len, 24) |-> BufByte(v, ProbeOff(v), i - 1)],
             last |-> IF v.len = 0 THEN -1 ELSE BufByte(v, ProbeOff(v), v.len - 1)]

VARIABLES in, exp, probe
vars == <<in, exp, probe>>

NBuckets == 8
Init == /\ exp = <<>> /\ probe = <<>>
        /\ \/ in = [kind |-> "cfg", inits |-> InitSeq, offs |-> OffSeq, mixperiod |-> MixPeriod]
           \/ \E p \in Pats, b \in 0..(NBuckets - 1) : in = [kind |-> "seed", p |-> p, b |-> b]

Next == /\ in.kind = "seed"
        /\ \E len \in {l \in Lens : l % NBuckets = in.b} : \E sp \in Spikes(in.p, len) :
              /\ in' = Vec(in.p, len, sp)
              /\ exp' = ExpAll(Vec(in.p, len, sp), Tabs(in.p))
              /\ probe' = Probe(Vec(in.p, len, sp))

Spec == Init /\ [][Next]_vars

-----------------------------------------------------------------------------
(* Invariants: the specification checked against itself                    *)

IsVec == in.kind = "vec"

\* offsets on which the (slow) reference is evaluated
DirectMax == 4200
DirectOffs(v) == IF v.len <= 40 THEN {0, 1, 31, 32, 63, (v.len * 7 + 3) % 64}
                 ELSE IF v.len <= 160 THEN {(v.len * 7 + 3) % 64, 63 - (v.len % 64)}
                 ELSE {(v.len * 7 + 3) % 64}
ASSUME \A o \in 1..Len(OffSeq) : OffSeq[o] = o - 1     \* exp[off + 1] belongs to start offset off
Ix(seq, x) == CHOOSE i \in 1..Len(seq) : seq[i] = x

TypeOK == IsVec => \A o \in 1..Len(exp) : \A n \in 1..Len(exp[o]) : exp[o][n] \in 0..65535

\* The word sum of a long buffer taken row by row (64 octets = 32 words per row): the same integer as WordSum(b, 1),
\* which TLC confirms below on every buffer up to RowCheckMax octets; it keeps TLC's recursion shallow on long buffers.
RowLen == 64
RECURSIVE RowSum(_, _)
RowSum(b, r) == IF r * RowLen >= Len(b) THEN 0
                ELSE WordSum(SubSeq(b, r * RowLen + 1, Min(Len(b), (r + 1) * RowLen)), 1) + RowSum(b, r + 1)
RowCheckMax == 200

\* link: the table evaluator equals the RFC definition (w = the plain word sum of the materialised buffer)
DirectAgrees(off, w) == \A n \in 1..Len(InitSeq) : exp[off + 1][n] = Fold(InitSeq[n] + w)
DirectAt(off, b) == /\ DirectAgrees(off, RowSum(b, 0))
                    /\ Len(b) <= RowCheckMax => /\ RowSum(b, 0) = WordSum(b, 1)
                                                /\ exp[off + 1][1] = RFC1071(b, InitSeq[1])
\* (spiked long buffers are linked to the plain ones by UpdateLaw instead)
FastIsDirect == (IsVec /\ in.len <= DirectMax /\ (in.sq < 0 \/ in.len <= 300)) => \A off \in DirectOffs(in) : DirectAt(off, Buf(in, Tabs(in.p)[1], off))
BufIsBufByte == (IsVec /\ in.len <= 300) =>
    \A off \in DirectOffs(in) : Buf(in, Tabs(in.p)[1], off) = [i \in 1..in.len |-> BufByte(in, off, i - 1)]

\* the while-loop of RFC 1071 4.1 has the closed form  0 -> 0,  x > 0 -> ((x-1) mod 65535) + 1
FoldClosed(x) == Fold(x) = IF x = 0 THEN 0 ELSE ((x - 1) % 65535) + 1
FoldClosedForm == (IsVec /\ in.len <= Chunk) =>
    \A off \in {0, 1, 62, 63} : FoldClosed(ChunkW(in, Tabs(in.p), off, 0, in.len)) /\ FoldClosed(65535 + ChunkW(in, Tabs(in.p), off, 0, in.len))

\* one's complement zero: the result is 0x0000 only for the empty sum (initial value 0 and every octet 0);
\* every other sum that is zero in one's complement arithmetic comes out as 0xffff
AllZero(b) == \A i \in 1..Len(b) : b[i] = 0
ZeroOnlyIfAllZero == IsVec =>
    /\ \A o \in 1..Len(exp) : \A n \in 1..Len(exp[o]) : exp[o][n] = 0 => InitSeq[n] = 0
    /\ (in.p = P("const", 0, 0) /\ in.sq < 0) => \A o \in 1..Len(exp) : \A n \in 1..Len(exp[o]) : exp[o][n] = InitSeq[n]
    /\ in.len <= 40 => \A off \in DirectOffs(in) : (exp[(off + 1)][Ix(InitSeq, 0)] = 0) <=> AllZero(Buf(in, Tabs(in.p)[1], off))

\* RFC 1071 1.2.A / API contract of `initial`: a buffer split at an EVEN position k:
\*   Checksum(A \o B, i) = Checksum(B, Checksum(A, i))
\* (written with the three word sums taken once: RFC1071(x, i) = Fold(i + WordSum(x, 1)) by definition)
Splits(len) == {k \in {0, 2 * (len \div 4), 2 * ((len - 1) \div 2), 32, 64} : k >= 0 /\ k <= len}
LawMax == 130
LawOffs(v) == {(v.len * 3 + 1) % 64, 62 - (v.len % 32)}
ConcatParts(wAB, wA, wB) == \A i \in {0, 65535, 4660} : Fold(i + wAB) = Fold(Fold(i + wA) + wB)
ConcatAt(b, wAB) == \A k \in Splits(Len(b)) : ConcatParts(wAB, WordSum(SubSeq(b, 1, k), 1), WordSum(SubSeq(b, k + 1, Len(b)), 1))
ConcatBuf(b) == ConcatAt(b, WordSum(b, 1))
ConcatLaw == (IsVec /\ in.len <= LawMax) => \A off \in LawOffs(in) : ConcatBuf(Buf(in, Tabs(in.p)[1], off))

\* RFC 1071 1.2.B last paragraph: a split at an ODD position needs the second partial sum byte-swapped
OddSplits(len) == {k \in {1, 3, 2 * (len \div 4) + 1, 31, 33} : k <= len}
OddSplitLaw == (IsVec /\ in.len <= LawMax) =>
    \A off \in LawOffs(in) : \A k \in OddSplits(in.len) :
        LET b == Buf(in, Tabs(in.p)[1], off) IN
        OCEq(RFC1071(b, 0), OCAdd(RFC1071(SubSeq(b, 1, k), 0), Swap16(RFC1071(SubSeq(b, k + 1, Len(b)), 0))))

\* RFC 1071 1.2.B byte order independence: summing byte-swapped words gives the byte-swapped sum
ByteOrderLaw == (IsVec /\ in.len <= LawMax) =>
    \A off \in LawOffs(in) : \A i \in {0, 1, 65535, 4660} :
        LET b == Buf(in, Tabs(in.p)[1], off) IN
        Swap16(RFC1071(b, i)) = Fold(Swap16(i) + WordSumLE(b, 1))

\* RFC 1071 2.(4) / RFC 1624 incremental update (on the uncomplemented sum S = ~HC): replacing the 16-bit word m by m'
\* gives S' = S + ~m + m'; the spiked vector is the update of the plain one, word by word over the words the spike touches
WordOf(v, off, w0) == Word(BufByte(v, off, w0), IF w0 + 1 < v.len THEN BufByte(v, off, w0 + 1) ELSE 0)
RECURSIVE Updated(_, _, _, _, _, _)
Updated(s, v, plain, off, w0, hi) == IF w0 >= hi THEN s
                                     ELSE Updated(Fold(s + (65535 - WordOf(plain, off, w0)) + WordOf(v, off, w0)), v, plain, off, w0 + 2, hi)
UpdateAt(v, plain, tabs, off) ==
    OCEq(FastSum(v, tabs, off), Updated(FastSum(plain, tabs, off), v, plain, off, 2 * (v.sq \div 2), v.sq + v.sw))
UpdateLaw == (IsVec /\ in.sq >= 0) =>
    \A off \in {0, 1, 31, 32, 63} : UpdateAt(in, [in EXCEPT !.sq = -1, !.sw = 1, !.so = 0, !.sd = 0], Tabs(in.p), off)

\* chunk-wise summation (the only use of one's complement associativity in the evaluator) against the plain sum of
\* the whole buffer, where that still fits TLC's integers
ChunkLaw == (IsVec /\ in.len > Chunk /\ in.len <= 65534) =>
    \A off \in {0, 1, 31, 62, 63} : FastSum(in, Tabs(in.p), off) = Fold(ChunkW(in, Tabs(in.p), off, 0, in.len))
=============================================================================
