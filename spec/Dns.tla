-------------------------------- MODULE Dns --------------------------------
(***************************************************************************)
(* The lighthouse's DNS responder (dns_server.go, hostmap.go), C44: it     *)
(* answers only from authenticated data.                                   *)
(*                                                                         *)
(* Reference layer : Rec4/Rec6/Owner -- the records as a function of the   *)
(*                   handshake history (first v4 / first v6 address of the *)
(*                   latest handshake per lower-cased certificate name,    *)
(*                   self entry); Allowed(state, questions, client) -- the *)
(*                   answers and response codes the statement permits.     *)
(* Machine layer   : m4, m6, own (dnsMap4, dnsMap6, hostmap primary);      *)
(*                   MAnswer -- parseQuery, question by question.          *)
(* Link            : RecordsLink (history mode), AnswerLink (vector mode). *)
(*                                                                         *)
(* Two uses: history mode (INIT Init NEXT Next; its state graph, with hist *)
(* hidden by VIEW, is replayed edge by edge on a real dnsServer) and       *)
(* vector mode (INIT VecInit NEXT VecNext; one vector = history, question  *)
(* list, client, permitted response).                                      *)
(***************************************************************************)
EXTENDS Integers, Sequences, FiniteSets, TLC

CONSTANTS MaxHist,     \* handshakes per history
          Patched,     \* BOOLEAN: machine with the proposed repair (name existence judged for every question type)
          Wide         \* BOOLEAN: larger alphabets

\* ---- abstract values ---------------------------------------------------------------------------------------------
V4 == {"p1", "p2"}      V6 == {"s1", "s2"}          \* peer overlay addresses
SelfName == "LH"        Self4 == "o4"   Self6 == "o6"   \* our own certificate: name (stored lower-cased) and addresses
PeerNames == IF Wide THEN {"alpha", "Alpha", "beta", "Lh"} ELSE {"alpha", "Alpha", "beta"}    \* names as written in certificates
Lower(n) == CASE n \in {"alpha", "Alpha", "ALPHA"} -> "alpha"
              [] n \in {"beta", "BETA"} -> "beta"
              [] n \in {"lh", "LH", "Lh"} -> "lh"
              [] OTHER -> n
Hosts == {"alpha", "beta", "lh"}                     \* lower-cased names that can ever have records
AddrLists == IF Wide THEN {<<"p1">>, <<"p2", "p1">>, <<"s1">>, <<"p1", "s1">>, <<"s2", "p2">>, <<"p1", "p2", "s1", "s2">>, <<"s2", "s1">>}
             ELSE {<<"p1">>, <<"p2", "p1">>, <<"s1">>, <<"p1", "s1">>, <<"s2", "p2">>}

First(S, as) == LET I == {i \in 1..Len(as) : as[i] \in S} IN IF I = {} THEN "none" ELSE as[CHOOSE i \in I : \A j \in I : i <= j]

VARIABLES hist,        \* completed handshakes, oldest first: [name, addrs]
          m4, m6,      \* dnsMap4 / dnsMap6 : lower-cased host -> address or "none"
          own,         \* overlay address -> certificate name of the primary tunnel for it, or "none"
          vec          \* vector mode: [ql, client, must, may, rc]
vars == <<hist, m4, m6, own, vec>>

-----------------------------------------------------------------------------
(* Reference layer: records as a function of the history *)
Last(S) == CHOOSE i \in S : \A j \in S : j <= i
Rec(h, fam, self, n) ==
    LET I == {i \in 1..Len(h) : Lower(h[i].name) = n /\ First(fam, h[i].addrs) # "none"}
    IN IF I # {} THEN First(fam, h[Last(I)].addrs) ELSE IF n = Lower(SelfName) THEN self ELSE "none"
Rec4(h, n) == Rec(h, V4, Self4, n)
Rec6(h, n) == Rec(h, V6, Self6, n)
Owner(h, a) == LET I == {i \in 1..Len(h) : \E k \in 1..Len(h[i].addrs) : h[i].addrs[k] = a}
               IN IF I = {} THEN "none" ELSE h[Last(I)].name

\* ---- questions and clients -----------------------------------------------------------------------------------------
\* a question name is either a host name in some spelling or an IP literal; txt is what goes on the wire
HostQ == IF Wide THEN {"alpha", "ALPHA", "Alpha", "beta", "lh", "LH", "gamma"} ELSE {"alpha", "ALPHA", "beta", "LH", "gamma"}
IpQ   == {"p1", "s1", "o4", "x9"} \cup (IF Wide THEN {"p2", "s2", "o6"} ELSE {})       \* x9: an address nobody has
Types == {"A", "AAAA", "TXT", "MX"} \cup (IF Wide THEN {"CNAME", "ANY"} ELSE {})
Questions == [name : HostQ \cup IpQ, type : Types]
Clients == {"loopback", "self4", "self6", "peer", "outside"}       \* source address of the query
Trusted(c) == c \in {"loopback", "self4", "self6"}                  \* loopback or one of our own overlay addresses

IsHost(n) == n \in HostQ
Known(n)  == IsHost(n) /\ Lower(n) \in Hosts /\ (m4[Lower(n)] # "none" \/ m6[Lower(n)] # "none")
\* IP literal with certificate details to give
CertOf(n) == IF n \in {Self4, Self6} THEN SelfName ELSE IF n \in V4 \cup V6 THEN own[n] ELSE "none"

\* the resource records a question may be answered with
Ans(q, c) == CASE q.type = "A"    -> IF Known(q.name) /\ m4[Lower(q.name)] # "none" THEN {[n |-> q.name, t |-> "A", v |-> m4[Lower(q.name)]]} ELSE {}
               [] q.type = "AAAA" -> IF Known(q.name) /\ m6[Lower(q.name)] # "none" THEN {[n |-> q.name, t |-> "AAAA", v |-> m6[Lower(q.name)]]} ELSE {}
               [] q.type = "TXT"  -> IF Trusted(c) /\ ~IsHost(q.name) /\ CertOf(q.name) # "none"
                                       THEN {[n |-> q.name, t |-> "TXT", v |-> CertOf(q.name)]} ELSE {}
               [] OTHER -> {}
RefusedTxt(ql, c) == \E i \in 1..Len(ql) : ql[i].type = "TXT" /\ ~Trusted(c)
All(ql, c) == UNION {Ans(ql[i], c) : i \in 1..Len(ql)}

\* Allowed response: answers must contain `must` and be contained in `may`; the response code must be in rc.
\*  - a known name (whatever the question type) is never answered NXDOMAIN;
\*  - NXDOMAIN is required when nothing asked about exists and every question is an address question;
\*  - a message containing a TXT question from a client that may not ask it may be cut short;
\*  - of several questions only the first has to be answered (a responder may echo and answer just that one).
Codes(ql, c) ==
    LET all == All(ql, c)
        anyKnown == \E i \in 1..Len(ql) : Known(ql[i].name)
        anyDetails == \E i \in 1..Len(ql) : ~IsHost(ql[i].name) /\ CertOf(ql[i].name) # "none"
        addrOnly == \A i \in 1..Len(ql) : ql[i].type \in {"A", "AAAA"}
    IN IF all # {} /\ ~RefusedTxt(ql, c) THEN {"NOERROR"}
       ELSE IF anyKnown THEN {"NOERROR"}
       ELSE IF addrOnly /\ ~anyDetails THEN {"NXDOMAIN"}
       ELSE {"NOERROR", "NXDOMAIN"}
Allowed(ql, c) ==
    LET first == <<ql[1]>>
    IN [must |-> IF RefusedTxt(first, c) THEN {} ELSE All(first, c),
        may  |-> All(ql, c),
        rc   |-> Codes(first, c) \cup Codes(ql, c)]

-----------------------------------------------------------------------------
(* Machine layer *)
\* dnsServer.Add through HostMap.unlockedAddHostInfo
AddRec(m, fam, n, as) == IF First(fam, as) = "none" THEN m ELSE [m EXCEPT ![Lower(n)] = First(fam, as)]

\* parseQuery: returns [ans, rc]
RECURSIVE Walk(_, _, _, _, _)
Walk(ql, c, i, ans, exists) ==
    IF i > Len(ql) THEN [ans |-> ans, rc |-> IF ans = {} /\ ~exists THEN "NXDOMAIN" ELSE "NOERROR"]
    ELSE LET q == ql[i]
             ex == exists \/ (Known(q.name) /\ (Patched \/ q.type \in {"A", "AAAA"}))
         IN IF q.type = "TXT" /\ ~Trusted(c) THEN [ans |-> ans, rc |-> "NOERROR"]       \* early return, code untouched
            ELSE Walk(ql, c, i + 1, ans \cup Ans(q, c), ex)
\* handleDnsRequest: dns.Msg.SetReply echoes only the first question, so that is all parseQuery gets to see
MAnswer(ql, c) == Walk(<<ql[1]>>, c, 1, {}, FALSE)

NoVec == [ql |-> <<>>, client |-> "", must |-> {}, may |-> {}, rc |-> {}]

Init == /\ hist = <<>>
        /\ m4 = [n \in Hosts |-> IF n = Lower(SelfName) THEN Self4 ELSE "none"]        \* seedSelf
        /\ m6 = [n \in Hosts |-> IF n = Lower(SelfName) THEN Self6 ELSE "none"]
        /\ own = [a \in V4 \cup V6 |-> "none"]
        /\ vec = NoVec

Handshake(n, as) ==
    /\ Len(hist) < MaxHist
    /\ hist' = Append(hist, [name |-> n, addrs |-> as])
    /\ m4' = AddRec(m4, V4, n, as)
    /\ m6' = AddRec(m6, V6, n, as)
    /\ own' = [a \in V4 \cup V6 |-> IF \E k \in 1..Len(as) : as[k] = a THEN n ELSE own[a]]
    /\ UNCHANGED vec

Next == \E n \in PeerNames, as \in AddrLists : Handshake(n, as)
Spec == Init /\ [][Next]_vars

\* ---- vector mode: a history, then one query -------------------------------------------------------------------------
Q(n, t) == [name |-> n, type |-> t]
PairQs == {Q("alpha", "A"), Q("ALPHA", "AAAA"), Q("alpha", "MX"), Q("alpha", "TXT"), Q("p1", "TXT"), Q("x9", "TXT"), Q("gamma", "A"), Q("LH", "A")}
          \cup (IF Wide THEN {Q("beta", "AAAA"), Q("o4", "TXT"), Q("gamma", "MX"), Q("p1", "A")} ELSE {})
QLists == {<<q>> : q \in Questions} \cup {<<q1, q2>> : q1 \in PairQs, q2 \in PairQs}
VecInit == Init
VecNext == \/ (vec = NoVec /\ Next)
           \/ /\ vec = NoVec
              /\ \E ql \in QLists, c \in Clients :
                    LET a == Allowed(ql, c) IN vec' = [ql |-> ql, client |-> c, must |-> a.must, may |-> a.may, rc |-> a.rc]
              /\ UNCHANGED <<hist, m4, m6, own>>

-----------------------------------------------------------------------------
(* Link *)
RecordsLink == /\ \A n \in Hosts : m4[n] = Rec4(hist, n) /\ m6[n] = Rec6(hist, n)
               /\ \A a \in V4 \cup V6 : own[a] = Owner(hist, a)
\* every record comes from a certificate of a completed handshake or from our own
Authenticated == \A n \in Hosts :
    /\ m4[n] # "none" => (n = Lower(SelfName) /\ m4[n] = Self4) \/ \E i \in 1..Len(hist) : Lower(hist[i].name) = n /\ First(V4, hist[i].addrs) = m4[n]
    /\ m6[n] # "none" => (n = Lower(SelfName) /\ m6[n] = Self6) \/ \E i \in 1..Len(hist) : Lower(hist[i].name) = n /\ First(V6, hist[i].addrs) = m6[n]
\* the machine's response to the vector's query is a permitted one
AnswerLink == vec # NoVec =>
    LET r == MAnswer(vec.ql, vec.client)
    IN vec.must \subseteq r.ans /\ r.ans \subseteq vec.may /\ r.rc \in vec.rc
\* certificate details only to trusted clients
TxtRestricted == vec # NoVec => (\A a \in vec.may : a.t = "TXT" => Trusted(vec.client))

View == <<m4, m6, own, vec>>
=============================================================================
