------------------------------ MODULE AddrE2E ------------------------------
(***************************************************************************)
(* C17 at the call sites: overlay source and destination addresses are     *)
(* authentic in what a COMPLETE node delivers to its tun device and in     *)
(* what it sends to a peer (outside.go handleOutsideMessagePacket ->       *)
(* newPacket -> Firewall.Drop with the tunnel's HostInfo; inside.go        *)
(* consumeInsidePacket -> getOrHandshake / Firewall.Drop).                 *)
(*                                                                         *)
(* The node under test T allows everything in both directions, so only the *)
(* address rules decide. A vector is one inner IP packet:                  *)
(*   dir = "in":  peer `who' sends it inside its own tunnel (the harness   *)
(*                bypasses the peer's own outbound firewall), remote =     *)
(*                source, local = destination; observed: T's tun output    *)
(*   dir = "out": T's tun hands it to T, local = source, remote =          *)
(*                destination; observed: what T encrypts, and for whom     *)
(*   prior: the same 5-tuple was first used legitimately by its owner      *)
(*          (conntrack then knows the tuple)                               *)
(* The reference is written from the statement of C17 and is independent   *)
(* of Firewall.tla's machine (same vocabulary: nets = certified addresses  *)
(* with prefix, unsafe = certified unsafe networks).                       *)
(***************************************************************************)
EXTENDS Integers, Sequences, FiniteSets, TLC

Pow2(k) == 2 ^ k
ByteMatch(x, y, bits) == (x \div Pow2(8 - bits)) = (y \div Pow2(8 - bits))
InNet(addr, a, n) ==
    /\ Len(addr) = Len(a)
    /\ \A i \in 1..((n + 7) \div 8) :
         LET b == IF n >= 8 * i THEN 8 ELSE n - 8 * (i - 1) IN ByteMatch(addr[i], a[i], b)
Net(a, n) == [a |-> a, n |-> n]
InAny(addr, nets) == \E x \in nets : InNet(addr, x.a, x.n)

\* the node under test
Me == [nets |-> {Net(<<10, 128, 0, 2>>, 24)}, unsafe |-> {Net(<<192, 168, 77, 0>>, 24)}]
\* its peers: M one address + an unsafe network; D two addresses, the second outside T's network; A an ordinary peer
Peers == [ M |-> [nets |-> {Net(<<10, 128, 0, 3>>, 24)}, unsafe |-> {Net(<<172, 16, 9, 0>>, 24)}],
           D |-> [nets |-> {Net(<<10, 128, 0, 4>>, 24), Net(<<10, 99, 0, 4>>, 24)}, unsafe |-> {}],
           A |-> [nets |-> {Net(<<10, 128, 0, 1>>, 24)}, unsafe |-> {}] ]
Senders == {"M", "D"}

\* remote address classes: <<name, address, owner ("" = nobody's)>>
Remotes == { <<"M-addr", <<10, 128, 0, 3>>, "M">>,   <<"D-addr", <<10, 128, 0, 4>>, "D">>,
             <<"D-out",  <<10, 99, 0, 4>>, "D">>,    <<"A-addr", <<10, 128, 0, 1>>, "A">>,
             <<"me",     <<10, 128, 0, 2>>, "">>,    <<"innet",  <<10, 128, 0, 99>>, "">>,
             <<"M-unsafe", <<172, 16, 9, 5>>, "M">>, <<"ext",    <<8, 8, 8, 8>>, "">>,
             <<"my-unsafe", <<192, 168, 77, 9>>, "">> }
\* node-side address classes
Locals == { <<"me", <<10, 128, 0, 2>>>>, <<"innet", <<10, 128, 0, 77>>>>, <<"unsafe", <<192, 168, 77, 5>>>>,
            <<"ext", <<9, 9, 9, 9>>>>, <<"peer", <<10, 128, 0, 3>>>> }

(* the statement *)
AuthRemote(peer, ra) == \/ \E x \in peer.nets : x.a = ra /\ InAny(ra, Me.nets)
                        \/ InAny(ra, peer.unsafe)
AuthLocal(la) == (\E x \in Me.nets : x.a = la) \/ InAny(la, Me.unsafe)
Authentic(peer, ra, la) == AuthRemote(peer, ra) /\ AuthLocal(la)

\* dir = out: the tunnel a packet to `ra' can leave on: the peer that certifies ra as one of its addresses, or the
\* gateway of an unsafe route (T routes 172.16.9.0/24 via M)
RouteTo(ra) == IF InAny(ra, Peers["M"].unsafe) THEN {"M"}
               ELSE {p \in DOMAIN Peers : \E x \in Peers[p].nets : x.a = ra}

VARIABLES in, exp
vars == <<in, exp>>

\* enc: how the two addresses are written in the inner packet -- "v4": an IPv4 packet; "mapped": an IPv6 packet whose
\* addresses are the IPv4-mapped forms ::ffff:a.b.c.d.  No certificate can hold a mapped address, so nothing is authentic
\* in that form (the prior flow of the owner is always a genuine IPv4 one: the tuple is then tracked for the IPv4 form).
Encs == {"v4", "mapped"}
Init == \E dir \in {"in", "out"}, who \in Senders, r \in Remotes, l \in Locals, prior \in BOOLEAN, enc \in Encs :
          /\ (dir = "out" => who = "M")                              \* who is irrelevant for out: the route decides
          /\ (prior => dir = "in" /\ r[3] # "" /\ (enc = "mapped" \/ r[3] # who))   \* the owner of the remote address used the tuple first
          /\ in = [dir |-> dir, who |-> who, r |-> r[1], ra |-> r[2], owner |-> r[3], l |-> l[1], la |-> l[2], prior |-> prior, enc |-> enc]
          /\ exp = IF enc = "mapped" THEN [auth |-> FALSE, to |-> {}]
                   ELSE IF dir = "in"
                     THEN [auth |-> Authentic(Peers[who], r[2], l[2]), to |-> {}]
                     ELSE [auth |-> \E p \in RouteTo(r[2]) : Authentic(Peers[p], r[2], l[2]),
                           to |-> {p \in RouteTo(r[2]) : Authentic(Peers[p], r[2], l[2])}]
Next == UNCHANGED vars
Spec == Init /\ [][Next]_vars

\* sanity of the reference on this universe (checked by TLC on every vector)
SpoofNeverAuthentic == (in.dir = "in" /\ in.owner # in.who /\ in.r # "M-unsafe") => ~exp.auth
OwnAddressAuthentic == (in.dir = "in" /\ in.enc = "v4" /\ in.r = in.who \o "-addr" /\ in.l = "me") => exp.auth
MappedNeverAuthentic == in.enc = "mapped" => ~exp.auth /\ exp.to = {}
OutOnlyToOwner      == in.dir = "out" => \A p \in exp.to : p \in RouteTo(in.ra)
=============================================================================
