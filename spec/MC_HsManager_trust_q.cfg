SPECIFICATION SpecTrust
CONSTANTS Nodes <- MCNodes
          Addrs <- MCAddrs
          InitCert <- MCCert
          RespCert <- MCCert
          Own <- MCOwn
          Trusts <- MCTrusts
          Route <- MCRoute
          Idx = {1, 2}
          Retries = 2
          MaxPerAddr = 2
          MaxQueue = 2
          MaxClock = 0
          MaxMsgs = 2
          MaxTunSends = 1
INVARIANTS HostsOK TunsListed IndexesDisjoint C09_Bound C10_OnePerHs1 C32_Queue
PROPERTIES C09_Initiator C10_TooOld

CHECK_DEADLOCK FALSE
