------------------------- MODULE Trace_CalcRemote -------------------------
(* T direction of C48: observations of the real code (configuration parsed *)
(* by NewCalculatedRemotesFromConfig, LightHouse.addCalculatedRemotes on a *)
(* full-width overlay address; everything projected to bit strings of      *)
(* length 32 / 128) are judged by the reference layer of CalcRemote.tla.   *)
(* One ndjson line per observation:                                        *)
(*   {"k":7,"es":[{rfam,rbits,rlen,mfam,mbits,mlen,port}..],"a":{fam,bits},*)
(*    "err":false,"ret":true,"got":[{fam,bits,port}..]}                    *)
(* One initial state per line; the verdict is a state variable, so a       *)
(* single run judges every observation.                                    *)
EXTENDS CalcRemote, Json

Obs == ndJsonDeserialize("obs.ndjson")

ToSet(s) == { s[i] : i \in 1..Len(s) }

Verdict(o) ==
    LET ok   == CfgOK(o.es)
        want == IF ok THEN Produce(o.es, o.a) ELSE {}
        got  == { [fam |-> g.fam, bits |-> g.bits, port |-> g.port] : g \in ToSet(o.got) }
    IN [k       |-> o.k,
        refusal |-> (o.err = ~ok),
        set     |-> (got = want),
        ret     |-> (ok => (o.ret = (want # {}))),
        nwant   |-> Cardinality(want)]

\* the file is read once: Obs is the domain of the quantifier
TraceInit == \E o \in ToSet(Obs) : q = o.k /\ in = 0 /\ exp = Verdict(o)
TraceSpec == TraceInit /\ [][Next]_vars
=============================================================================
