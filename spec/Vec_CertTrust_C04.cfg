SPECIFICATION Spec
CONSTANTS Mode = "c04"
          Thorough = FALSE
          AB = 3
          TMax = 4
INVARIANTS ConstraintLink SignLink IssuedVerifies
CHECK_DEADLOCK FALSE
