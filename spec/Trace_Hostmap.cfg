SPECIFICATION TraceSpec
CONSTANTS NT = 260
          NA = 4
          NI = 12
          NR = 3
          Shapes <- ShapesC
          MaxPerAddr = 5
          MaxRel = 13
          OwnerTest = TRUE
INVARIANTS TypeOK HostsOK LiveListed NoDangling IndexesOK Disjoint PendingOK UniqueIdx
POSTCONDITION TraceAccepted
CHECK_DEADLOCK FALSE
