----------------------------- MODULE RemoteList -----------------------------
(***************************************************************************)
(* A peer's candidate underlay address list (remote_list.go), C37.         *)
(*                                                                         *)
(* Reference layer : RefAddrs / RefRelays -- the statement: the set of     *)
(*     learned, reported and resolved addresses of all owners minus the    *)
(*     blocked ones, without duplicates, ordered by                        *)
(*       <<not preferred, IPv4, private IPv4, address, port>>              *)
(*     (preferred ranges first, then IPv6, public IPv4, private IPv4, each *)
(*     by address then port); relays = de-duplicated union, by address.    *)
(* Machine layer   : Apply / Rebuild -- what remote_list.go does: a cache  *)
(*     per owner (one learned slot and a reported list per family, a relay *)
(*     list), a dirty flag (shouldRebuild), unlockedCollect (a sequence    *)
(*     WITH duplicates, blocked ones filtered at collect time only),       *)
(*     unlockedSort (sort, then the two-index adjacent de-duplication).    *)
(*     The cache of an owner is created piecewise (cache[o], then .v4 and  *)
(*     .v6 separately, by whichever call first needs them): `alc` records  *)
(*     which per-family caches exist, so that the histories distinguish an *)
(*     owner whose IPv6 entries came from a lighthouse message (both       *)
(*     families' caches exist) from a static host with IPv6 addresses only *)
(*     (no v4 cache at all), learned-only and relays-only owners.  `rs`    *)
(*     notes the shape of every owner reset since the last rebuild.        *)
(* Link            : Link -- machine list = reference list after every     *)
(*     rebuild, except while `lag` (the blocked list was cleared without   *)
(*     marking the list dirty: the machine keeps the old exclusions until  *)
(*     the next change; the reference does not).                           *)
(*                                                                         *)
(* Underlay address-ports are integers 10*a + port (a = abstract address   *)
(* id, port in 1..9); attributes of the ids come from a table T so that    *)
(* the same operators serve the vector mode (StdTab) and trace validation  *)
(* (table computed by the harness from the concrete random addresses).     *)
(***************************************************************************)
EXTENDS Integers, Sequences, FiniteSets, TLC

CONSTANT Thorough      \* BOOLEAN: size of the vector lattice

MaxRemotes == 10
Owners == {1, 2}
F46 == {4, 6}

AddrOf(ap) == ap \div 10
PortOf(ap) == ap % 10
InSeq(s, x) == \E i \in 1..Len(s) : s[i] = x
Range(s) == {s[i] : i \in 1..Len(s)}
First(s, n) == IF Len(s) <= n THEN s ELSE SubSeq(s, 1, n)

\* T.fam[a]   family of the (canonical) address        T.wire[a] family of its spelling (a 4-in-6 mapped
\* T.priv[a]  RFC1918/ULA private                                spelling travels in the v6 list / v6 slot)
\* T.rank[a]  position of the canonical address in the byte order of its family
\* T.canon[a] id of the canonical (unmapped) address   T.pref[p+1] ids inside preferred-range configuration p
\* T.rfam[r], T.rrank[r]  the same for relay (overlay) addresses
CanonAP(T, ap) == T.canon[AddrOf(ap)] * 10 + PortOf(ap)
WireFam(T, ap) == T.wire[AddrOf(ap)]

-----------------------------------------------------------------------------
(* Reference semantics (the statement) *)
Key(T, p, ap) == LET a == AddrOf(ap) IN
    << IF InSeq(T.pref[p + 1], a) THEN 0 ELSE 1,          \* preferred ranges first
       IF T.fam[a] = 6 THEN 0 ELSE 1,                     \* then IPv6
       IF T.fam[a] = 4 /\ T.priv[a] THEN 1 ELSE 0,        \* then public IPv4, then private IPv4
       T.rank[a],                                         \* each by address
       PortOf(ap) >>                                      \* then port

LexLess(k1, k2) == \E i \in 1..Len(k1) : k1[i] < k2[i] /\ \A j \in 1..(i - 1) : k1[j] = k2[j]

\* the same order as LexLess on Key, packed into one integer (rank < 100, port < 10; KeyPacking below checks it)
IntKey(T, p, ap) == LET k == Key(T, p, ap) IN (((k[1] * 2 + k[2]) * 2 + k[3]) * 100 + k[4]) * 10 + k[5]

RECURSIVE SeqOfSet(_)
SeqOfSet(S) == IF S = {} THEN <<>> ELSE LET m == CHOOSE x \in S : \A y \in S : x <= y IN <<m>> \o SeqOfSet(S \ {m})

\* SortBy(key) of a set: strictly increasing keys (the key is injective on canonical address-ports)
SortSet(T, p, S) == LET c == SeqOfSet({IntKey(T, p, x) * 1000 + x : x \in S}) IN [i \in 1..Len(c) |-> c[i] % 1000]

Sources(st) == (UNION {Range(st.rep[o][f]) : o \in Owners, f \in F46})
               \cup ({st.lrn[o][f] : o \in Owners, f \in F46} \ {0})
RefSet(T, st)      == ({CanonAP(T, x) : x \in Sources(st)} \cup st.dns) \ st.bad
RefAddrs(T, p, st) == SortSet(T, p, RefSet(T, st))

RelKey(T, r) == (IF T.rfam[r] = 4 THEN 0 ELSE 1) * 100 + T.rrank[r]
SortRel(T, S) == LET c == SeqOfSet({RelKey(T, x) * 1000 + x : x \in S}) IN [i \in 1..Len(c) |-> c[i] % 1000]
RefRelaySet(st)  == UNION {Range(st.rly[o]) : o \in Owners}
RefRelays(T, st) == SortRel(T, RefRelaySet(st))

-----------------------------------------------------------------------------
(* Machine (remote_list.go) *)
EmptySt == [rep |-> [o \in Owners |-> [f \in F46 |-> <<>>]],      \* cache[o].v4/v6.reported
            lrn |-> [o \in Owners |-> [f \in F46 |-> 0]],         \* cache[o].v4/v6.learned (0 = nil)
            rly |-> [o \in Owners |-> <<>>],                      \* cache[o].relay
            alc |-> [o \in Owners |-> [f \in F46 |-> FALSE]],     \* cache[o].v4 / .v6 # nil
            rs  |-> <<>>,                                         \* shapes of the owners reset since the last rebuild
            dns |-> {}, bad |-> {},                               \* hr.ips, badRemotes
            dirty |-> FALSE,                                      \* shouldRebuild
            addrs |-> <<>>, rels |-> <<>>,                        \* r.addrs, r.relays
            lag |-> FALSE]

Slot(x) == IF x = 0 THEN <<>> ELSE <<x>>
NotBad(st, s) == SelectSeq(s, LAMBDA x : x \notin st.bad)
Canons(T, s)  == [i \in 1..Len(s) |-> CanonAP(T, s[i])]

\* unlockedCollect: every owner's learned slot and reported list, v4 then v6, then the DNS results; blocked ones skipped
CollectOwner(T, st, o) == Canons(T, Slot(st.lrn[o][4]) \o st.rep[o][4] \o Slot(st.lrn[o][6]) \o st.rep[o][6])
CollectSeq(T, st) == NotBad(st, CollectOwner(T, st, 1) \o CollectOwner(T, st, 2) \o SeqOfSet(st.dns))
CollectRel(st)    == st.rly[1] \o st.rly[2]

\* sort.Slice with lessFunc: duplicates are kept by the sort.  The sort works on codes key*1000 + ap
\* (equal codes <=> equal address-ports), computed once per element.
Codes(T, p, s) == [i \in 1..Len(s) |-> IntKey(T, p, s[i]) * 1000 + s[i]]
Decode(c)      == [i \in 1..Len(c) |-> c[i] % 1000]
Ins(s, x) == LET k == Cardinality({i \in 1..Len(s) : s[i] <= x}) IN SubSeq(s, 1, k) \o <<x>> \o SubSeq(s, k + 1, Len(s))
RECURSIVE InsSort(_)
InsSort(s) == IF s = <<>> THEN <<>> ELSE Ins(InsSort(Tail(s)), Head(s))

\* the in-place de-duplication loop of unlockedSort (indices a, b; swap when a+1 # b)
Swap(s, i, j) == [s EXCEPT ![i] = s[j], ![j] = s[i]]
RECURSIVE DedupLoop(_, _, _)
DedupLoop(s, a, b) ==
    IF b > Len(s) THEN SubSeq(s, 1, a)
    ELSE IF s[a] # s[b]
         THEN DedupLoop(IF a + 1 # b THEN Swap(s, a + 1, b) ELSE s, a + 1, b + 1)
         ELSE DedupLoop(s, a, b + 1)
MDedupe(s) == IF Len(s) < 2 THEN s ELSE DedupLoop(s, 1, 2)

\* Rebuild(preferredRanges): collect only when dirty, always re-sort
Rebuild(T, st, p) ==
    LET c == IF st.dirty THEN CollectSeq(T, st) ELSE st.addrs
        r == IF st.dirty THEN CollectRel(st) ELSE st.rels
    IN [st EXCEPT !.dirty = FALSE, !.rs = <<>>,
                  !.addrs = Decode(MDedupe(InsSort(Codes(T, p, c)))),
                  !.rels  = SortRel(T, Range(r)),
                  !.lag   = IF st.dirty THEN FALSE ELSE @]

\* what an owner holds in this list: reported families, which per-family caches exist, learned slots, relays
Shape(st, o) ==
    LET r4 == st.rep[o][4] # <<>>
        r6 == st.rep[o][6] # <<>>
        fams(a, b) == IF a /\ b THEN "v4v6" ELSE IF a THEN "v4" ELSE IF b THEN "v6" ELSE "none"
    IN "rep-" \o fams(r4, r6) \o ".cache-" \o fams(st.alc[o][4], st.alc[o][6])
       \o ".lrn-" \o fams(st.lrn[o][4] # 0, st.lrn[o][6] # 0) \o ".rly-" \o (IF st.rly[o] # <<>> THEN "yes" ELSE "no")

\* unlockedPrependV4/V6 of every address of a list, one after the other
RECURSIVE PrependAll(_, _, _, _)
PrependAll(T, st, o, L) ==
    IF L = <<>> THEN st
    ELSE PrependAll(T, [st EXCEPT !.rep[o][WireFam(T, Head(L))] = First(<<Head(L)>> \o @, MaxRemotes),
                                  !.alc[o][WireFam(T, Head(L))] = TRUE], o, Tail(L))

SplitFam(T, L, f) == First(SelectSeq(L, LAMBDA x : WireFam(T, x) = f), MaxRemotes)

\* one call on the RemoteList; op is a tuple <<name, args...>>
Apply(T, st, op) ==
    LET k == op[1] IN
    CASE k = "rep"     -> \* unlockedSetV4 + unlockedSetV6 (a lighthouse message always replaces both families)
            [st EXCEPT !.rep[op[2]] = [f \in F46 |-> SplitFam(T, op[3], f)], !.alc[op[2]] = [f \in F46 |-> TRUE], !.dirty = TRUE]
      [] k = "learn"   -> \* LearnRemote
            [st EXCEPT !.lrn[op[2]][WireFam(T, op[3])] = op[3], !.alc[op[2]][WireFam(T, op[3])] = TRUE, !.dirty = TRUE]
      [] k = "relay"   -> \* unlockedSetRelay
            [st EXCEPT !.rly[op[2]] = First(op[3], MaxRemotes), !.dirty = TRUE]
      [] k = "prepend" -> \* unlockedPrependV4/V6 (static hosts)
            [st EXCEPT !.rep[op[2]][WireFam(T, op[3])] = First(<<op[3]>> \o @, MaxRemotes),
                       !.alc[op[2]][WireFam(T, op[3])] = TRUE, !.dirty = TRUE]
      [] k = "reset"   -> \* ResetForOwner: everything the owner REPORTED is withdrawn (both families, whichever caches exist);
                          \* its learned slots and relays stay
            [st EXCEPT !.rep[op[2]] = [f \in F46 |-> <<>>], !.dirty = TRUE, !.rs = Append(@, Shape(st, op[2]))]
      [] k = "static"  -> \* (re)load of static_host_map for this host, <<"static", ourselves, literals>>: LightHouse.reload resets
                          \* what ourselves reported (ResetForOwner), then addStaticRemotes installs the literals as the resolver's
                          \* results (unmapped) and prepends each under ourselves; an entry that left the map only loses its results
            LET L  == Canons(T, op[3])
                s1 == [st EXCEPT !.rep[op[2]] = [f \in F46 |-> <<>>], !.dirty = TRUE, !.dns = Range(L),
                                 !.rs = Append(@, Shape(st, op[2]))]
            IN PrependAll(T, s1, op[2], L)
      [] k = "dns"     -> \* resolver stored new results and ran its onUpdate callback
            [st EXCEPT !.dns = Range(op[2]), !.dirty = TRUE]
      [] k = "block"   -> \* BlockRemote
            IF op[2] \in st.bad THEN st ELSE [st EXCEPT !.bad = @ \cup {op[2]}, !.dirty = TRUE]
      [] k = "unblock" -> \* RefreshFromHandshake / ResetBlockedRemotes: no dirty mark
            [st EXCEPT !.bad = {}, !.lag = @ \/ (~st.dirty /\ st.bad # {})]
      [] k = "rebuild" -> Rebuild(T, st, op[2])

\* observations of one history: after every rebuild, the reference lists and the machine lists
\* (the successor state is passed as an operator argument so that TLC evaluates it once)
RECURSIVE Run(_, _, _)
RunStep(T, s1, s2, ops) ==
    IF Head(ops)[1] = "rebuild"
    THEN << [addrs |-> RefAddrs(T, Head(ops)[2], s2), relays |-> RefRelays(T, s2), lag |-> s2.lag,
             maddrs |-> s2.addrs, mrels |-> s2.rels, resets |-> s1.rs] >> \o Run(T, s2, Tail(ops))
    ELSE Run(T, s2, Tail(ops))
Run(T, st, ops) == IF ops = <<>> THEN <<>> ELSE RunStep(T, st, Apply(T, st, Head(ops)), ops)

-----------------------------------------------------------------------------
(* Vector mode: the input lattice *)
\* 1 2001:db8::1   2 fd00:1::2 (ULA)   3 8.8.8.8   4 100.64.0.9   5 10.1.2.3   6 192.168.1.7   7 172.20.0.5
\* 8 2001:db8::ffff   9 ::ffff:8.8.8.8 (the 4-in-6 spelling of 3)          relays: 1 10.128.0.9  2 10.128.0.20  3 fd00:aa::3
StdTab == [fam   |-> <<6, 6, 4, 4, 4, 4, 4, 6, 4>>,
           wire  |-> <<6, 6, 4, 4, 4, 4, 4, 6, 6>>,
           priv  |-> <<FALSE, TRUE, FALSE, FALSE, TRUE, TRUE, TRUE, FALSE, FALSE>>,
           rank  |-> <<1, 3, 1, 3, 2, 5, 4, 2, 1>>,
           canon |-> <<1, 2, 3, 4, 5, 6, 7, 8, 3>>,
           pref  |-> << <<>>, <<6>>, <<2, 5>>, <<3, 4, 5, 6, 7>> >>,   \* none; 192.168/16; 10/8+fd00::/8; 0.0.0.0/0
           rfam  |-> <<4, 4, 6>>,
           rrank |-> <<1, 2, 1>>]

RepMenu == << <<>>, <<31, 51, 31, 11>>, <<62, 41, 21, 32>>, <<71, 31, 82, 11, 52>>, <<91, 12>>, <<31>> >>
LearnMenu == << <<>>,
                << <<"learn", 1, 31>> >>,
                << <<"learn", 1, 61>>, <<"learn", 2, 11>>, <<"learn", 1, 12>>, <<"learn", 2, 92>> >> >>
DnsMenu == << <<>>, <<31, 42>>, <<21>> >>
BadMenu == << <<>>, <<31>>, <<31, 11, 12, 62>>, <<52>> >>
RelayMenu == << << <<>>, <<>> >>, << <<2, 1, 2>>, <<3, 1>> >>, << <<3>>, <<>> >> >>
ChangeMenu == << << <<"rep", 1, <<41, 31>>>> >>,
                 << <<"block", 41>> >>,
                 << <<"learn", 2, 72>> >>,
                 << <<"dns", <<82, 31>>>> >>,
                 << <<"reset", 1>> >>,
                 << >>,
                 << <<"unblock">> >>,
                 << <<"unblock">>, <<"learn", 1, 31>> >>,
                 << <<"prepend", 2, 12>>, <<"relay", 2, <<1, 3, 1>>>> >>,
                 << <<"rep", 2, <<>>>>, <<"block", 31>> >> >>

Blocks(s) == [i \in 1..Len(s) |-> <<"block", s[i]>>]

Hist(i1, i2, il, id, ib, ir, p, ic) ==
    << <<"rep", 1, RepMenu[i1]>>, <<"rep", 2, RepMenu[i2]>> >> \o LearnMenu[il]
    \o << <<"dns", DnsMenu[id]>>, <<"relay", 1, RelayMenu[ir][1]>>, <<"relay", 2, RelayMenu[ir][2]>> >>
    \o Blocks(BadMenu[ib]) \o << <<"rebuild", p>> >>
    \o ChangeMenu[ic] \o << <<"rebuild", (p + ic) % 4>> >>

NC == Len(ChangeMenu)
H(i1, i2, il, ib, p) == 7 * i1 + 5 * i2 + 3 * il + ib + 4 * p
ASSUME Len(RepMenu) = 6 /\ Len(LearnMenu) = 3 /\ Len(DnsMenu) = 3 /\ Len(BadMenu) = 4 /\ Len(RelayMenu) = 3
\* more than MaxRemotes entries in one message and in repeated prepends
Long(p) == << <<"rep", 1, <<31, 32, 41, 42, 51, 52, 61, 62, 71, 72, 33, 43, 11, 12>>>>,
              <<"rebuild", p>>, <<"prepend", 1, 73>>, <<"prepend", 1, 21>>, <<"rebuild", (p + 1) % 4>>,
              <<"relay", 2, <<3, 2, 1, 3, 2, 1, 3, 2, 1, 3, 2, 1>>>>, <<"rebuild", p>> >>

\* Owner shapes and ResetForOwner.  An owner's contribution is built by the calls that create its cache piecewise:
\* nothing; static-host style prepends (v4 only / v6 only / a 4-in-6 literal / both); learned only; relays only; a lighthouse
\* message (both per-family caches exist, possibly empty); mixtures.  Every step is followed by a rebuild; then the owner is
\* reset, something is reported again, and the other owner is reset.
ShapeMenu(o) == << << >>,
                   << <<"prepend", o, 31>> >>,
                   << <<"prepend", o, 52>>, <<"prepend", o, 31>> >>,
                   << <<"prepend", o, 11>> >>,
                   << <<"prepend", o, 21>>, <<"prepend", o, 82>> >>,
                   << <<"prepend", o, 91>> >>,
                   << <<"prepend", o, 12>>, <<"prepend", o, 61>> >>,
                   << <<"learn", o, 61>> >>,
                   << <<"learn", o, 82>> >>,
                   << <<"relay", o, <<2, 3>>>> >>,
                   << <<"rep", o, <<11, 82>>>> >>,
                   << <<"rep", o, <<41>>>> >>,
                   << <<"learn", o, 22>>, <<"prepend", o, 11>> >>,
                   << <<"learn", o, 72>>, <<"prepend", o, 81>>, <<"relay", o, <<1>>>> >>,
                   << <<"learn", o, 12>>, <<"prepend", o, 32>> >> >>
NS == 15
ReAddMenu(o) == << << >>, << <<"prepend", o, 22>> >>, << <<"prepend", o, 42>> >>, << <<"rep", o, <<82, 71>>>> >> >>
RECURSIVE WithRebuilds(_, _)
WithRebuilds(ops, p) == IF ops = <<>> THEN <<>> ELSE << Head(ops), <<"rebuild", p>> >> \o WithRebuilds(Tail(ops), (p + 1) % 4)
Other(o) == 3 - o
ShapeHist(o, s, s2, ia, p) ==
    WithRebuilds(ShapeMenu(Other(o))[s2] \o ShapeMenu(o)[s] \o << <<"reset", o>> >> \o ReAddMenu(o)[ia]
                 \o << <<"reset", Other(o)>>, <<"reset", o>> >>, p)

\* Static hosts: the list belongs to a host of static_host_map, ourselves = owner 1; (re)loads replace the literals
StaticMenu == << <<31>>, <<11>>, <<82, 12>>, <<31, 12>>, <<91>>, <<52, 61, 21>>, << >> >>
OtherMenu  == << << >>, << <<"rep", 2, <<31, 11>>>> >>, << <<"learn", 2, 61>> >>, << <<"learn", 1, 82>> >>,
                 << <<"relay", 2, <<1>>>>, <<"learn", 2, 22>> >> >>
StaticHist(i0, io, i1, i2, p) ==
    << <<"static", 1, StaticMenu[i0]>> >> \o OtherMenu[io] \o << <<"rebuild", p>>,
       <<"static", 1, StaticMenu[i1]>>, <<"rebuild", (p + 1) % 4>>,
       <<"static", 1, StaticMenu[i2]>>, <<"rebuild", p>> >>

VARIABLES in, exp
vars == <<in, exp>>

\* quick: every (reported x reported x learned x blocked x preferred) combination, with the dns results, the relays and
\* the change picked by the indices; thorough: every population with two of the changes
Init == \/ in = [kind |-> "table"] /\ exp = StdTab
        \/ /\ ~Thorough
           /\ \E i1 \in 1..6, i2 \in 1..6, il \in 1..3, ib \in 1..4, p \in 0..3 :
                 /\ in = [kind |-> "hist", ops |-> Hist(i1, i2, il, (H(i1, i2, il, ib, p) % 3) + 1, ib,
                                                        ((H(i1, i2, il, ib, p) \div 3) % 3) + 1, p, (H(i1, i2, il, ib, p) % NC) + 1)]
                 /\ exp = Run(StdTab, EmptySt, in.ops)
        \/ /\ Thorough
           /\ \E i1 \in 1..6, i2 \in 1..6, il \in 1..3, id \in 1..3, ib \in 1..4, p \in 0..3, ir \in 1..3, d \in {0, 5} :
                 /\ in = [kind |-> "hist", ops |-> Hist(i1, i2, il, id, ib, ir, p, ((H(i1, i2, il, ib, p) + id + ir + d) % NC) + 1)]
                 /\ exp = Run(StdTab, EmptySt, in.ops)
        \/ \E p \in 0..3 : in = [kind |-> "hist", ops |-> Long(p)] /\ exp = Run(StdTab, EmptySt, in.ops)
        \/ \E o \in Owners, s \in 1..NS, s2 \in 1..NS, ia \in 1..4 :
              /\ Thorough \/ (s + 2 * s2 + o) % 4 = ia - 1
              /\ in = [kind |-> "hist", ops |-> ShapeHist(o, s, s2, ia, (s + s2 + ia) % 4)]
              /\ exp = Run(StdTab, EmptySt, in.ops)
        \/ \E i0 \in 1..6, io \in 1..5, i1 \in 1..7, i2 \in 1..7, p \in 0..3 :
              /\ Thorough \/ (i2 = ((i0 + 2 * io + 3 * i1) % 7) + 1 /\ p = (i0 + io + i1) % 4)
              /\ in = [kind |-> "static", ops |-> StaticHist(i0, io, i1, i2, p)]
              /\ exp = Run(StdTab, EmptySt, in.ops)
Next == UNCHANGED vars
Spec == Init /\ [][Next]_vars

\* the machine refines the reference on every vector (outside the lag window)
Link == in.kind \in {"hist", "static"} =>
      \A k \in 1..Len(exp) : ~exp[k].lag => (exp[k].maddrs = exp[k].addrs /\ exp[k].mrels = exp[k].relays)
\* the integer packing of the key preserves the order of the statement's key
KeyPacking == in.kind = "table" =>
      \A p \in 0..3 : \A x, y \in {10 * a + q : a \in 1..8, q \in 1..2} :
          LexLess(Key(StdTab, p, x), Key(StdTab, p, y)) <=> IntKey(StdTab, p, x) < IntKey(StdTab, p, y)
\* the reference list itself: no duplicates, nothing blocked is computed by construction; strictly increasing keys
NoDup == in.kind \in {"hist", "static"} =>
    \A k \in 1..Len(exp) : Cardinality(Range(exp[k].addrs)) = Len(exp[k].addrs)
                           /\ Cardinality(Range(exp[k].relays)) = Len(exp[k].relays)
=============================================================================
