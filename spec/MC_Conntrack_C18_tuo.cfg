SPECIFICATION Spec
CONSTANTS Flows = {1, 2, 3}
          ProtoOf <- Proto_tuo
          TO <- TO_213
          InitRules <- Rules_oo_i
          RuleSets <- NoRuleSets
          Reloads = FALSE
          Cfgs <- NoCfgs
          InitCfg = 0
          EffOf <- EffNone
          VerMod = 4
          Gaps = {1, 4}
          MaxItems = 4
          IdleMatters = TRUE
          CheckExpiry = TRUE
          WrapKeeps = TRUE
          Routines <- NoRoutines
          CachePeriod = 1
          CacheSlack = 0
INVARIANTS TypeOK PassPermitted EntryHasTimer SameReloadKeeps
CONSTRAINT Bound
VIEW View
CHECK_DEADLOCK FALSE
