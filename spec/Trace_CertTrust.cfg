SPECIFICATION TraceSpec
CONSTANTS Mode = "trace"
          Thorough = FALSE
          AB = 16
          TMax = 4
POSTCONDITION TraceAccepted
CHECK_DEADLOCK FALSE
