--------------------------- MODULE ConntrackNode ---------------------------
(***************************************************************************)
(* Conntrack.tla as a COMPLETE node runs it (C18, whole-node stage).       *)
(*                                                                         *)
(* A node with the routine-local conntrack cache switched on               *)
(* (firewall.conntrack.routine_cache_timeout) and one pair of reader       *)
(* routines (routines: 1) owns exactly two caches:                         *)
(*   UnderlayReader  interface.go listenOut -> outside.go: every packet    *)
(*                   that arrives from a peer (incoming = TRUE),           *)
(*   TunReader       interface.go listenIn -> inside.go: every packet the  *)
(*                   node's tun device hands it (incoming = FALSE).        *)
(* Which routine judges a packet is therefore fixed by its direction; this *)
(* module restricts the next-state relation of Conntrack.tla accordingly   *)
(* and leaves everything else (reference layer, machine, link invariants,  *)
(* view) as it is.  Every behaviour of NodeNext is a behaviour of          *)
(* Conntrack!Next, so the invariants TLC proves there hold here as well;   *)
(* they are checked again on the restricted graph.                         *)
(*                                                                         *)
(* The state graph of this module is what the harness                      *)
(* harness/e2e/zz_verif_c18_test.go walks on two real nodes (nebula.Main   *)
(* in a synctest bubble): PktR / PktCached (UnderlayReader, f, TRUE) = the *)
(* peer sends a packet of flow f through its tunnel; (TunReader, f, FALSE) *)
(* = a packet of flow f is handed to the node's tun; Sleep(d) = virtual    *)
(* time advances by d units.                                               *)
(***************************************************************************)
EXTENDS Conntrack

UnderlayReader == 1
TunReader      == 2

NodeNext == \/ \E d \in Gaps : Sleep(d)
            \/ \E f \in Flows : PktR(UnderlayReader, f, TRUE)
            \/ \E f \in Flows : PktCached(UnderlayReader, f, TRUE)
            \/ \E f \in Flows : PktR(TunReader, f, FALSE)
            \/ \E f \in Flows : PktCached(TunReader, f, FALSE)

NodeSpec == Init /\ [][NodeNext]_vars

(* Values used by the configurations *)
Proto_t   == <<"tcp">>
\* flow 1 may be opened by the peer only: what the node sends on it is let out by conntrack alone
Rules_i   == {<<1, TRUE>>}
\* flow 1 may be opened by the node only: what the peer sends on it is let in by conntrack alone
Rules_o1  == {<<1, FALSE>>}
\* flow 1 opened by the peer, flow 2 by the node
Rules_i_o == {<<1, TRUE>>, <<2, FALSE>>}
=============================================================================
