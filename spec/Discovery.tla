------------------------------ MODULE Discovery ------------------------------
(***************************************************************************)
(* Lighthouse DISCOVERY at system level (lighthouse.go, punchy.go,         *)
(* handshake_manager.go handleOutbound/StartHandshake, remote_list.go,     *)
(* outside.go roaming) -- additional binding for C35 / C36.                *)
(*                                                                         *)
(* A PERMISSION specification (like Relay.tla): it does not predict what a *)
(* node does with a stimulus, it decides whether what the node did in one  *)
(* step -- the change of its address table, the datagrams it emitted, the  *)
(* handshakes it started -- is allowed.  One step = one stimulus handled   *)
(* to quiescence by one node n.  One operator per handler of the code.     *)
(*                                                                         *)
(* Address table of node n (RemoteList.cache of every list n can use for   *)
(* overlay address x): a set of entries <<x, o, kind, u>>                  *)
(*    o    = who told (cache key): n itself = static_host_map, a           *)
(*           lighthouse = HostQueryReply, x itself = x's own report/packet *)
(*    kind = "rep" reported list of o, "lrn" learned slot of o,            *)
(*           "rem" current remote of a tunnel with x, "blk" blocked        *)
(*    u    = underlay address (a name)                                     *)
(* The cache of a lighthouse l for x is the part with o = x.               *)
(*                                                                         *)
(* Stimulus S = [k, from, src, mt, x, addrs]:                              *)
(*   k    "enc"  encrypted datagram authenticated by n's tunnel with from  *)
(*        "hs1"/"hs2" handshake datagram built by node from (x = the       *)
(*               pending handshake of n a stage 2 answers)                 *)
(*        "plain" anything else from the wire (punch, recv_error, noise)   *)
(*        "tun" inside packet to x, "tick" time passed, "close" local      *)
(*        close of the tunnel with x, "forge" the harness made n send      *)
(*   src  underlay source address, mt lighthouse message type / data kind, *)
(*   x    overlay address named in the message, addrs underlay addresses   *)
(*   fresh (hs1) the datagram made a new tunnel in this step                *)
(*        (alist: as listed, with repetitions)                             *)
(* Emission o = [k, to, peer, mt, x, addrs], k in hs1 hs2 punch0 punch1    *)
(*   recverr enc other; peer = the pending handshake / tunnel it belongs to*)
(***************************************************************************)
EXTENDS Integers, Sequences, FiniteSets, TLC

CONSTANTS Nodes          \* node names = overlay address names (one overlay address per node)

VARIABLES cfg,     \* configuration of the world (set at reset): amlh, lhs, hostile, deny, denyPeer, static, adv, respond, strict
          tuns,    \* tuns[n]  : peers n has a tunnel with
          pend,    \* pend[n]  : overlay addresses n is handshaking with
          known,   \* known[n] : address table (entries, see above)
          wanted,  \* wanted[n]: every overlay address n has wanted so far (pending or tunnel)            -- R1
          sched,   \* sched[n] : punches n may still send: underlay address -> count                      -- R6
          resp,    \* resp[n]  : overlay addresses a configured lighthouse told n to punch back to        -- R6
          asked,   \* asked[l] : <<x, a>>: a asked lighthouse l about x                                   -- R2
          ever,    \* ever[l]  : <<x, u>>: u was in the cache of lighthouse l for x at some time          -- R2
          refused  \* refused[n]: addresses of punch notifications that did not come from a configured lighthouse (names the cause of an R6 verdict)

vars == <<cfg, tuns, pend, known, wanted, sched, resp, asked, ever, refused>>

-----------------------------------------------------------------------------
(* configuration *)
AmLh(n) == n \in cfg.amlh                                          \* lighthouse.am_lighthouse
Lhs(n) == {p[2] : p \in {q \in cfg.lhs : q[1] = n}}                \* lighthouse.hosts of n
Hostile(n) == n \in cfg.hostile
Adv(n) == {p[2] : p \in {q \in cfg.adv : q[1] = n}}                \* what n may list in its own updates
\* C36 filters (LightHouse.shouldAdd / unlockedShouldAddV4/V6, RemoteAllowList.Allow/AllowAll): inside n's own overlay
\* networks or denied by lighthouse.remote_allow_list (deny), denied for the peer's range by remote_allow_ranges (denyPeer)
Usable(n, x, u) == <<n, u>> \notin cfg.deny /\ <<n, x, u>> \notin cfg.denyPeer

(* the address table *)
HsAddrs(K, x) == {e[4] : e \in {f \in K : f[1] = x /\ f[3] \in {"rep", "lrn"}}}      \* RemoteList.cache (before blocking)
Blocked(K, x) == {e[4] : e \in {f \in K : f[1] = x /\ f[3] = "blk"}}
RemOf(K, x) == {e[4] : e \in {f \in K : f[1] = x /\ f[3] = "rem"}}                   \* HostInfo.remote of the tunnels with x
\* RemoteList.CopyAddrs / ForEach of some list for x before (K) or after (K2) the step: blocked addresses are skipped
HsDests(K, K2, x) == HsAddrs(K \cup K2, x) \ (Blocked(K, x) \cap Blocked(K2, x))
Dests(K, K2, x) == HsDests(K, K2, x) \cup RemOf(K \cup K2, x)
Cache(K, x) == {e[4] : e \in {f \in K : f[1] = x /\ f[2] = x /\ f[3] \in {"rep", "lrn"}}}  \* what x reported / was seen at
StaticOf(n) == {<<q[2], n, "rep", q[3]>> : q \in {r \in cfg.static : r[1] = n /\ Usable(n, r[2], r[3])}}

Lbl(S) == IF S.mt # "" THEN S.mt ELSE S.k

BagGet(b, u) == IF u \in DOMAIN b THEN b[u] ELSE 0
Occ(seq, u) == Cardinality({i \in 1..Len(seq) : seq[i] = u})
BagAdd(b, A, seq) == [u \in DOMAIN b \cup A |-> BagGet(b, u) + (IF u \in A THEN Occ(seq, u) ELSE 0)]
EmptyBag == [u \in {""} |-> 0]

-----------------------------------------------------------------------------
(* Writers of the address table, one per handler *)

\* lighthouse.go handleHostQueryReply: only from a CONFIGURED lighthouse; stored under that lighthouse          (R4)
IsReply(n, S) == S.mt = "HostQueryReply" /\ S.k = "enc" /\ S.from \in Lhs(n)
W_Reply(n, S, e) == e[3] = "rep" /\ e[1] = S.x /\ e[2] = S.from /\ IsReply(n, S)

\* lighthouse.go handleHostUpdateNotification: only a lighthouse; stored under the AUTHENTICATED sender            (R3)
IsUpdate(n, S) == S.mt = "HostUpdateNotification" /\ S.k = "enc" /\ AmLh(n)
W_Update(n, S, e) == e[3] = "rep" /\ e[1] = S.from /\ e[2] = S.from /\ IsUpdate(n, S)

\* hostmap.go HostInfo.SetRemote -> RemoteList.LearnRemote (handshake completion, outside.go handleHostRoaming): an
\* authenticated packet of x itself, the address is where it came from                                          (R3, R4)
\* A stage-1 datagram that makes no tunnel (a replay refused as already seen / too old: S.fresh = FALSE) still moves the
\* learned slot in the unchanged code: handshake_manager.go beginHandshake calls hostinfo.SetRemote on the shared list
\* (line 803) before CheckAndComplete refuses the handshake. Under the strict reading of the statement ("only from a
\* tunnel authenticated as x": cfg.strict) that is not a permitted writer; the default reading takes every datagram that
\* carries x's certificate as an authenticated packet of x (see ASSUMPTIONS in tools/props/_disc.py).
IsAuth(S) == S.k \in {"enc", "hs1", "hs2"} /\ S.from # "" /\ (S.k # "hs1" \/ S.fresh \/ ~cfg.strict)
W_Learn(n, S, e) == e[3] \in {"lrn", "rem"} /\ e[1] = S.from /\ e[2] = S.from /\ IsAuth(S)

\* handshake_manager.go continueHandshake: hostinfo.SetRemote(via.UdpAddr) is called for the PENDING handshake (for S.x)
\* before the certificate of the responder is compared with the intended address (line 902); when a wrong host answered
\* the source is then blocked (BlockRemote, line 954). Learned from the code: the learned slot of x may take the source
\* of any stage-2 datagram that answers n's pending handshake for x.
W_LearnHs2(n, S, e) == S.k = "hs2" /\ e[3] \in {"lrn", "rem"} /\ S.x # "" /\ e[1] = S.x /\ e[2] = S.x

WritesSlot(n, S, e) == W_Reply(n, S, e) \/ W_Update(n, S, e) \/ W_Learn(n, S, e) \/ W_LearnHs2(n, S, e)

\* entry e appears in the table of n (K2 = the table after the step) in a step with stimulus S. A source learned from a
\* stage 2 that a WRONG host sent (S.from # S.x) is tolerated by the default reading only on an ordinary node and only if it
\* is blocked in the same step (BlockRemote, handshake_manager.go:954); a lighthouse may not take it at all: its learned
\* slot is served to others (coalesceAnswers does not look at blocks). The strict reading (cfg.strict) never allows it:
\* "addresses for x only from a tunnel authenticated as x".
AddOK(n, S, K2, e) ==
    \/ e[3] = "blk"                                              \* blocking is never harmful
    \/ /\ \/ W_Reply(n, S, e) /\ e[4] \in S.addrs
          \/ W_Update(n, S, e) /\ e[4] \in S.addrs
          \/ W_Learn(n, S, e) /\ e[4] = S.src
          \/ W_LearnHs2(n, S, e) /\ e[4] = S.src /\ (S.from = S.x \/ (~cfg.strict /\ ~AmLh(n) /\ <<S.x, S.x, "blk", S.src>> \in K2))
       /\ Usable(n, e[1], e[4])                                   \* the C36 filters apply to every writer

\* entry e disappears: with the last tunnel / the pending handshake of x (LightHouse.DeleteVpnAddrs from closeTunnel;
\* lists that only the pending handshake still holds), or replaced by a permitted writer of its slot. Static entries
\* (owner = n) never disappear (DeleteVpnAddrs static guard; a reply is stored under the lighthouse, not over them).
\* Blocks are lifted by design when a handshake with x completes (RemoteList.RefreshFromHandshake): not judged.
DelOK(n, S, T, T2, P, P2, K2, e) ==
    \/ e[3] \in {"rem", "blk"}
    \/ /\ e[3] \notin {"rem", "blk"}
       /\ e[2] # n
       /\ \/ e[1] \in (T \ T2) \cup (P \ P2)
          \/ WritesSlot(n, S, e)

TableLabel(n, e) == IF AmLh(n) /\ e[2] = e[1] THEN "R3" ELSE "R4"

KnownVerdict(n, S, K, K2, T, T2, P, P2) ==
    LET badAdd == {e \in K2 \ K : ~AddOK(n, S, K2, e)}
        badDel == {e \in K \ K2 : ~DelOK(n, S, T, T2, P, P2, K2, e)}
    IN IF badAdd # {} THEN
          LET e == CHOOSE f \in badAdd : TRUE IN
          IF ~Usable(n, e[1], e[4]) /\ WritesSlot(n, S, e) THEN "R5:" \o Lbl(S) \o ":stored-unusable"
          ELSE IF S.k = "hs1" /\ ~S.fresh THEN TableLabel(n, e) \o ":hs1:learned-from-refused-handshake"
          ELSE IF S.k = "hs2" /\ S.from # S.x THEN TableLabel(n, e) \o ":hs2:learned-from-wrong-responder"
          ELSE TableLabel(n, e) \o ":" \o Lbl(S)
       ELSE IF badDel # {} THEN
          LET e == CHOOSE f \in badDel : TRUE IN
          IF e[2] = n THEN "R4:" \o Lbl(S) \o ":static-lost" ELSE TableLabel(n, e) \o ":" \o Lbl(S) \o ":removed"
       ELSE ""

-----------------------------------------------------------------------------
(* Destinations (R5) *)
DestVerdict(n, S, K, K2, T, T2, o) ==
    LET KK == K \cup K2 IN
    IF o.k = "hs1" THEN        \* handshake_manager.go handleOutbound: stage 1 to hostinfo.remotes only, never to a blocked one
        IF o.to \in HsDests(K, K2, o.peer) /\ Usable(n, o.peer, o.to) THEN "" ELSE "R5:hs1"
    ELSE IF o.k = "hs2" THEN   \* sendHandshakeResponse: back to where the stage 1 came from, if the allow list lets it in
        IF S.k = "hs1" /\ o.to = S.src /\ Usable(n, S.from, o.to) THEN "" ELSE "R5:hs2"
    ELSE IF o.k = "punch0" THEN ""                                           \* R6, counted below
    ELSE IF o.k = "punch1" THEN \* punchy.go SendPunch / sendPunchToAllRemotes (connection manager keep-alive)
        IF \E x \in T \cup T2 : o.to \in Dests(K, K2, x) /\ Usable(n, x, o.to) THEN "" ELSE "R5:keepalive"
    ELSE IF o.k = "recverr" THEN \* outside.go maybeSendRecvError: to the source of what could not be matched
        IF o.to = S.src THEN "" ELSE "R5:recverr"
    ELSE IF o.k = "enc" THEN
        IF o.peer = "" THEN (IF o.to = S.src THEN "" ELSE "R5:" \o o.mt \o ":unattributed")
        ELSE IF o.to \in Dests(K, K2, o.peer) /\ Usable(n, o.peer, o.to) THEN ""
        \* handshake_manager.go:958: a wrong responder is told to close the tunnel it just made, at the address it answered from
        ELSE IF S.k = "hs2" /\ o.mt = "close" /\ o.to = S.src /\ o.peer = S.from THEN ""
        ELSE "R5:" \o o.mt
    ELSE "R5:other"

(* Lighthouse messages a node sends (R1, R2) *)
MsgVerdict(n, S, K, K2, o, w2, a2, e2) ==
    LET A == {o.addrs[i] : i \in 1..Len(o.addrs)} IN
    \* "undecodable": a lighthouse payload the recorder could not open (tunnel created and deleted within one step): only
    \* its destination is judged
    IF o.k # "enc" \/ o.mt \in {"data", "test", "close", "control", "undecodable"} THEN ""
    ELSE IF o.mt = "HostQuery" THEN            \* lighthouse.go innerQueryServer
        IF o.peer \in Lhs(n) /\ o.x \in w2 THEN "" ELSE "R1:HostQuery"
    ELSE IF o.mt = "HostUpdateNotification" THEN \* lighthouse.go SendUpdate
        IF o.peer \in Lhs(n) /\ A \subseteq Adv(n) THEN "" ELSE "R1:HostUpdateNotification"
    ELSE IF o.mt = "HostQueryReply" THEN       \* lighthouse.go handleHostQuery + coalesceAnswers
        IF /\ AmLh(n) /\ S.k = "enc" /\ S.mt = "HostQuery" /\ S.from = o.peer /\ S.x = o.x
           /\ A \subseteq Cache(K \cup K2, o.x) THEN "" ELSE "R2:HostQueryReply"
    ELSE IF o.mt = "HostPunchNotification" THEN \* lighthouse.go sendHostPunchNotification (may wait in the packet store)
        IF AmLh(n) /\ <<o.peer, o.x>> \in a2 /\ \A u \in A : <<o.x, u>> \in e2 THEN "" ELSE "R2:HostPunchNotification"
    ELSE IF o.mt = "HostUpdateNotificationAck" THEN
        IF AmLh(n) /\ S.k = "enc" /\ S.mt = "HostUpdateNotification" /\ S.from = o.peer THEN "" ELSE "R2:HostUpdateNotificationAck"
    ELSE "R2:" \o o.mt

(* Punches (R6): lighthouse.go handleHostPunchNotification -> punchy.Schedule / ScheduleRespond *)
IsPunchNote(n, S) == S.k = "enc" /\ S.mt = "HostPunchNotification" /\ S.from \in Lhs(n)
Permits(n, S) == IF IsPunchNote(n, S) THEN {u \in S.addrs : Usable(n, S.x, u)} ELSE {}
RespPermit(n, S) == IF IsPunchNote(n, S) /\ n \in cfg.respond /\ S.x # "" THEN {S.x} ELSE {}

PunchCount(out, u) == Cardinality({i \in 1..Len(out) : out[i].k = "punch0" /\ out[i].to = u})
PunchTargets(out) == {out[i].to : i \in {j \in 1..Len(out) : out[j].k = "punch0"}}
NewRefused(n, S) == refused[n] \cup (IF S.k = "enc" /\ S.mt = "HostPunchNotification" /\ S.from \notin Lhs(n) THEN S.addrs ELSE {})
PunchVerdict(n, S, out, s2) ==
    LET bad == {u \in PunchTargets(out) : PunchCount(out, u) > BagGet(s2, u)} IN
    IF bad = {} THEN ""
    ELSE IF \E u \in bad : <<n, u>> \in cfg.deny THEN "R5:punch:unusable"     \* a filtered address is never a punch target
    ELSE IF bad \cap NewRefused(n, S) # {} THEN "R6:punch:HostPunchNotification:not-from-lighthouse"
    ELSE "R6:punch:" \o Lbl(S)

(* Handshakes a node starts (R6, R1): handshake_manager.go StartHandshake callers *)
PendOK(n, S, x, r2, a2) ==
    \/ S.k = "tun" /\ S.x = x                         \* inside.go: an inside packet for x
    \/ x \in Lhs(n)                                   \* lighthouse.go SendUpdate / innerQueryServer: SendMessageToVpnAddr(lighthouse)
    \/ x \in r2                                       \* punchy.go: punch back, told by a configured lighthouse
    \/ AmLh(n) /\ \E p \in a2 : p[1] = x              \* lighthouse.go sendHostPunchNotification: SendMessageToVpnAddr(queried host)
PendVerdict(n, S, P, P2, r2, a2) ==
    IF \A x \in P2 \ P : PendOK(n, S, x, r2, a2) THEN "" ELSE "R6:handshake:" \o Lbl(S)

-----------------------------------------------------------------------------
(* one step of node n *)
NewWanted(n, T2, P2) == wanted[n] \cup tuns[n] \cup pend[n] \cup T2 \cup P2
NewAsked(n, S) == asked[n] \cup (IF AmLh(n) /\ S.k = "enc" /\ S.mt = "HostQuery" THEN {<<S.x, S.from>>} ELSE {})
NewEver(n, K, K2) == ever[n] \cup (IF AmLh(n) THEN {<<e[1], e[4]>> : e \in {f \in K \cup K2 : f[2] = f[1] /\ f[3] \in {"rep", "lrn"}}} ELSE {})
NewResp(n, S) == resp[n] \cup RespPermit(n, S)
NewSchedIn(n, S) == BagAdd(sched[n], Permits(n, S), S.alist)

FirstBad(seq) == LET bad == {i \in 1..Len(seq) : seq[i] # ""} IN
                 IF bad = {} THEN "" ELSE seq[CHOOSE i \in bad : \A j \in bad : i <= j]

Verdict(n, S, T2, P2, K2, out) ==
    IF Hostile(n) \/ S.k = "forge" THEN "ok"
    ELSE
      LET K == known[n]  T == tuns[n]  P == pend[n]
          w2 == NewWanted(n, T2, P2)  a2 == NewAsked(n, S)  e2 == NewEver(n, K, K2)  r2 == NewResp(n, S)  s2 == NewSchedIn(n, S)
          v == FirstBad(<<KnownVerdict(n, S, K, K2, T, T2, P, P2)>>
                        \o [i \in 1..Len(out) |-> DestVerdict(n, S, K, K2, T, T2, out[i])]
                        \o [i \in 1..Len(out) |-> MsgVerdict(n, S, K, K2, out[i], w2, a2, e2)]
                        \o <<PunchVerdict(n, S, out, s2), PendVerdict(n, S, P, P2, r2, a2)>>)
      IN IF v = "" THEN "ok" ELSE v

Apply(n, S, T2, P2, K2, out) ==
    LET s2 == NewSchedIn(n, S) IN
    /\ tuns' = [tuns EXCEPT ![n] = T2]
    /\ pend' = [pend EXCEPT ![n] = P2]
    /\ wanted' = [wanted EXCEPT ![n] = NewWanted(n, T2, P2)]
    /\ asked' = [asked EXCEPT ![n] = NewAsked(n, S)]
    /\ ever' = [ever EXCEPT ![n] = NewEver(n, known[n], K2)]
    /\ resp' = [resp EXCEPT ![n] = NewResp(n, S)]
    /\ refused' = [refused EXCEPT ![n] = NewRefused(n, S)]
    /\ sched' = [sched EXCEPT ![n] = [u \in DOMAIN s2 |-> IF s2[u] > PunchCount(out, u) THEN s2[u] - PunchCount(out, u) ELSE 0]]
    /\ known' = [known EXCEPT ![n] = K2]
    /\ UNCHANGED cfg

Step(n, S, T2, P2, K2, out) == Verdict(n, S, T2, P2, K2, out) = "ok" /\ Apply(n, S, T2, P2, K2, out)

StartState(c) ==
    /\ cfg = c
    /\ tuns = [n \in Nodes |-> {}] /\ pend = [n \in Nodes |-> {}]
    /\ wanted = [n \in Nodes |-> {}] /\ resp = [n \in Nodes |-> {}] /\ asked = [n \in Nodes |-> {}] /\ ever = [n \in Nodes |-> {}]
    /\ sched = [n \in Nodes |-> EmptyBag] /\ refused = [n \in Nodes |-> {}]

=============================================================================
