SPECIFICATION Spec
CONSTANTS Scenario <- MCScenario
          PreStart = 1
          MaxStops = 2
INVARIANTS TypeOK
PROPERTIES StopReleases StaysReleased NoRestart
CHECK_DEADLOCK FALSE
