SPECIFICATION Spec
CONSTANTS Scenario <- MCScenario
          Routines = 2
          Queues = 1
          PreStart = 1
          MaxStops = 2
INVARIANTS TypeOK
PROPERTIES StopReleases StaysReleased NoRestart
CHECK_DEADLOCK FALSE
