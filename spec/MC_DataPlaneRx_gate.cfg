SPECIFICATION Spec
CONSTANTS Receivers = {r1, r2, r3}
          W = 4
          HsMsgs = 2
          Counters = {2, 3, 4, 8}
          Grain = "gate"
INVARIANTS AtMostOnce ForgedInert NoHandshakeCounter SeenMatches
CHECK_DEADLOCK FALSE
