SPECIFICATION TraceSpec
CONSTANT Thorough = FALSE
POSTCONDITION TraceAccepted
CHECK_DEADLOCK FALSE
