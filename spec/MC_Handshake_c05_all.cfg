\* C05: all four slots at once, invariants only
\* (bin/check builds the same text with tools/props/C05.py:cfg(); this file is the quick-tier instance, for running TLC by hand)
SPECIFICATION Spec
CONSTANTS
  HI = {"I1"}
  HR = {"R1"}
  AI = {"XI"}
  AR = {"XR"}
  AdvIds = {"M", "K", "U"}
  VerCfgs = {1}
  Ops = {"id", "flip_p", "idx", "splice_e", "splice_p", "cert_keep"}
  PKinds = {"full", "empty", "nocert", "keep"}
  SKinds = {"own"}
  Misuse = FALSE
  Scns = {"all"}
  Impl = "spec"
  Budget = 0
INVARIANTS TypeOK C05_Auth C05_Secrecy C06_Agree C06_Exclusive C07_RejectClean
CHECK_DEADLOCK FALSE
