--------------------------- MODULE Trace_CertCodec ---------------------------
(* Validation of OBSERVATIONS of the real code against the reference relations  *)
(* of CertCodec.tla.  One ndjson line per observation:                          *)
(*   {"ev":"reset", ...}                        start of a group                *)
(*   {"ev":"obs",  "o":{dec,diff,sig,canon,acc,chk,curve,accBlOrig,             *)
(*                      origAccBlMut}, ...}     C02: one altered encoding       *)
(*   {"ev":"obs3", "t":<abstract TBS>, "sign","rt","dec","hasdec"}   C03        *)
(* TLC evaluates the relation on every line (Rel; Rel3 and, for obs3, agreement  *)
(* of the projection with Shape unless signer and decoder disagree).  The       *)
(* observations are independent (the only state is the line counter), so a line *)
(* that contradicts the relation does not end the validation: it is reported    *)
(* as  <<"VERIF_BAD", line, kind>>  and the next line is examined; the runner   *)
(* turns kind "rel"/"rel3" into violations and "drift" into exit 2.             *)
(* TraceAccepted still demands that every line was examined.                    *)
EXTENDS CertCodec, Json

Log == ndJsonDeserialize("trace.ndjson")

VARIABLE l
tvars == <<vars, l>>

TraceInit == l = 1 /\ in = 0 /\ exp = 0

IsEvent(e) == l <= Len(Log) /\ Log[l].ev = e /\ l' = l + 1 /\ UNCHANGED vars

ObsOf(r) == [dec |-> r.dec, diff |-> Range(r.diff), sig |-> r.sig, canon |-> r.canon, acc |-> r.acc, chk |-> r.chk,
             curve |-> r.curve, accBlOrig |-> r.accBlOrig, origAccBlMut |-> r.origAccBlMut]

TraceReset == IsEvent("reset")

Report(kind) == PrintT(<<"VERIF_BAD", l, kind>>)

TraceObs == /\ IsEvent("obs")
            /\ LET o == ObsOf(Log[l].o) IN
                 IF o.diff \subseteq IdFields /\ o.sig \in SigRels /\ o.curve \in Curves /\ Rel(o)
                 THEN TRUE ELSE Report("rel")

Obs3Of(r) == [t |-> r.t, sign |-> r.sign, rt |-> r.rt, dec |-> r.dec, hasdec |-> r.hasdec]
TraceObs3 == /\ IsEvent("obs3")
             /\ LET o == Obs3Of(Log[l]) IN
                  CASE ~Rel3(o)  -> Report("rel3")
                    [] Drift3(o) -> Report("drift")
                    [] OTHER     -> TRUE

TraceNext == TraceReset \/ TraceObs \/ TraceObs3
TraceSpec == TraceInit /\ [][TraceNext]_tvars

TraceAccepted == TLCGet("stats").diameter - 1 = Len(Log)
=============================================================================
