------------------------------ MODULE CertIssue ------------------------------
(***************************************************************************)
(* C04, issuance as a sequence of operations on TBS objects                *)
(* (cert/sign.go: TBSCertificate.Sign / SignWith).                         *)
(*                                                                         *)
(* A TBSCertificate is an object that lives across calls: the caller may   *)
(* sign the same object again under another CA (rotation, retry with       *)
(* another signer), after a refusal, or after editing its validity window  *)
(* (renewal).  The statement of C04 speaks about each signing call:        *)
(*                                                                         *)
(* Reference : the outcome of a call is a function of the object's         *)
(*             *current* fields and of the signer of THAT call only        *)
(*             (SignOK / SignWhy of CertTrust.tla); every certificate a    *)
(*             call returns names the signer of that call, so it verifies  *)
(*             against any honest pool containing that signer while both   *)
(*             are valid (Accept of CertTrust.tla, "acc" below), and is    *)
(*             low-S when the signing key is P-256.  Nothing of the        *)
(*             object's past may show: not an earlier signer, not an       *)
(*             earlier refusal, not earlier field values.                  *)
(* Machine   : the object has the unexported field `issuer` that SignWith  *)
(*             writes (m.iss) and its public fields (m.var: which of two   *)
(*             validity windows is set); SignWith = guard SignM, then      *)
(*             issuer := fingerprint(signer) when a signer is given, then  *)
(*             the certificate is built from the object (m.ret = the       *)
(*             issuer named by the returned certificate).                  *)
(* Link      : RetNamesSigner (the returned certificate names the signer   *)
(*             of this call, none when self-signed), TblSignLink,          *)
(*             TblIssuedVerifies, TblAnyPool on the outcome table.         *)
(*                                                                         *)
(* History mode: depth 0 = one state per world carrying the tables (the    *)
(* TBS objects in both variants, the CAs, the reference outcome of every   *)
(* (object, variant, signer)); below it the tree of all histories of at    *)
(* most HLen operations.  exp = the history, a sequence of                 *)
(*    <<object, signer (index, 0 = self-signing), op, class, why, variant>>*)
(* op: "sign" = Sign with the signer's key, "ext"/"extlow" = SignWith with *)
(* an external signer (for ECDSA handing back high-S / low-S signatures),  *)
(* "edit" = the caller switches the validity window.  class names the      *)
(* step by the object's past (mismatch keys, vacuity guards).              *)
(* The harness replays every maximal history on real TBSCertificate        *)
(* objects and real CAs.                                                   *)
(***************************************************************************)
EXTENDS CertTrust

CONSTANT HLen          \* histories of at most HLen operations

Hist == Mode = "hist"

OtherCurve(cu) == IF cu = "p256" THEN "x25519" ELSE "p256"

\* the CAs of a world with primary curve cu and primary version v
HCa(n, cu, v) ==
    CASE n = "A" -> MkCA("ca1", 2, cu, <<0, TMax>>, {}, {}, {})                          \* unconstrained
      [] n = "R" -> [MkCA("ca1", 2, cu, <<1, TMax>>, {}, {}, {}) EXCEPT !.gen = 1]       \* the key of A, renewed certificate
      [] n = "B" -> MkCA("ca2", 1, cu, <<1, TMax - 1>>, {"g1", "g2"}, {nB}, {})          \* another key, constrained
      [] n = "N" -> MkCA("ca3", v, cu, <<1, TMax - 1>>, {"g2"}, {nC}, {nC})              \* narrower constraints
      [] n = "E" -> MkCA("ca4", 3 - v, cu, <<0, 0>>, {}, {}, {})                         \* expired before anything begins
      [] n = "X" -> MkCA("ca5", 2, OtherCurve(cu), <<0, TMax>>, {}, {}, {})              \* the other curve

\* the TBS objects: <<fields with the first window, fields with the second window>>
HObjW(n, cu, v, w) ==
    CASE n = "T1" -> MkCert(v, cu, FALSE, w, {"g1"}, {nC}, {}, NoCA, "good", "")
      [] n = "T2" -> MkCert(3 - v, cu, FALSE, w, {"g2"}, {nC}, {nC}, NoCA, "good", "")
      [] n = "T3" -> MkCert(v, cu, TRUE, w, {}, {nC}, {}, NoCA, "good", "")               \* to be self-signed
      [] n = "T4" -> MkCert(2, OtherCurve(cu), FALSE, w, {}, {nC}, {}, NoCA, "good", "")
HWin(n) == CASE n = "T1" -> <<<<1, 2>>, <<2, 3>>>>
             [] n = "T2" -> <<<<1, TMax - 1>>, <<2, TMax>>>>          \* the second one outlives B and N
             [] n = "T3" -> <<<<0, TMax>>, <<1, TMax - 1>>>>
             [] n = "T4" -> <<<<1, 2>>, <<0, 2>>>>
HObj(n, cu, v) == <<HObjW(n, cu, v, HWin(n)[1]), HObjW(n, cu, v, HWin(n)[2])>>

HWorlds == IF ~Hist THEN <<>>
           ELSE IF Thorough
           THEN <<[cu |-> "p256",   v |-> 2, objs |-> <<"T1", "T2", "T3">>, cas |-> <<"A", "R", "B", "N", "X">>],
                  [cu |-> "x25519", v |-> 1, objs |-> <<"T1", "T2", "T4">>, cas |-> <<"A", "B", "N", "E", "X">>],
                  [cu |-> "p256",   v |-> 1, objs |-> <<"T1", "T3", "T4">>, cas |-> <<"A", "R", "B", "E", "X">>],
                  [cu |-> "x25519", v |-> 2, objs |-> <<"T2", "T3", "T1">>, cas |-> <<"R", "B", "N", "E", "A">>]>>
           ELSE <<[cu |-> "p256",   v |-> 2, objs |-> <<"T1", "T2">>, cas |-> <<"A", "B", "N", "X">>],
                  [cu |-> "x25519", v |-> 1, objs |-> <<"T1", "T3">>, cas |-> <<"A", "R", "E", "X">>],
                  [cu |-> "p256",   v |-> 1, objs |-> <<"T2", "T4">>, cas |-> <<"A", "R", "N", "X">>],
                  [cu |-> "x25519", v |-> 2, objs |-> <<"T2", "T1">>, cas |-> <<"B", "N", "E", "A">>]>>

\* reference outcome of one call: the object's current fields signed by ca (NoCA = self-signing); nothing else matters
HOutcome(o, ca, all) ==
    LET c == [o EXCEPT !.issuer = ca] IN
    [why  |-> SignWhy(c),
     mach |-> SignM(c),
     acc  |-> IF ca = NoCA THEN <<>> ELSE [s \in 1..(TMax + 1) |-> Why(c, Honest({ca}), {}, s - 1)] \o <<>>,
     any  |-> IF ca = NoCA THEN <<>> ELSE [s \in 1..(TMax + 1) |-> Why(c, Honest(all), {}, s - 1)] \o <<>>]

HTable(W) ==
    LET cas  == [i \in 1..Len(W.cas) |-> HCa(W.cas[i], W.cu, W.v)] \o <<>>
        objs == [i \in 1..Len(W.objs) |-> HObj(W.objs[i], W.cu, W.v)] \o <<>>
        all  == {cas[i] : i \in 1..Len(cas)}
    IN [cu |-> W.cu, cas |-> cas, objs |-> objs,
        \* out[object][variant + 1][signer + 1]
        out |-> [t \in 1..Len(objs) |-> [k \in 1..2 |-> [c \in 1..(Len(cas) + 1) |->
                    HOutcome(objs[t][k], IF c = 1 THEN NoCA ELSE cas[c - 1], all)] \o <<>>] \o <<>>] \o <<>>]

-----------------------------------------------------------------------------
(* in = world index;  exp = the table (depth 0) / the history;  m = the objects *)
(* (TLC does not cache a constant table whose evaluation needs ^ or \div: the table is built once per world in HInit,  *)
(*  the steps evaluate SignWhy / SignM of the one call they make)                                                      *)

NObj == Len(HWorlds[in].objs)
NCa  == Len(HWorlds[in].cas)
\* object t with validity window k (0, 1); signer c (0 = self-signing)
ObjAt(t, k) == LET W == HWorlds[in] IN HObjW(W.objs[t], W.cu, W.v, HWin(W.objs[t])[k + 1])
CaAt(c)     == LET W == HWorlds[in] IN IF c = 0 THEN NoCA ELSE HCa(W.cas[c], W.cu, W.v)

\* the curve of the key that signs: the CA's own key, or the caller's key of the object's curve when self-signing
KeyCurve(t, c) == IF c = 0 THEN ObjAt(t, 0).curve ELSE CaAt(c).curve
HOps(t, c) == IF Thorough /\ KeyCurve(t, c) = "p256" THEN {"sign", "ext", "extlow"} ELSE {"sign", "ext"}

\* class of a call by the past of its object
OnObj(h, t)  == SelectSeq(h, LAMBDA s : s[1] = t)
Calls(h, t)  == SelectSeq(h, LAMBDA s : s[1] = t /\ s[3] # "edit")
Issued(h, t) == SelectSeq(h, LAMBDA s : s[1] = t /\ s[3] # "edit" /\ s[5] = "ok")
HPrior(h, t, c) == LET is == Issued(h, t) IN
                   IF Calls(h, t) = <<>> THEN "fresh"
                   ELSE IF is = <<>> THEN "none-issued"
                   ELSE IF \E i \in 1..Len(is) : is[i][2] # c THEN "other-ca"
                   ELSE "same-ca"
HLast(h, t) == LET on == OnObj(h, t) IN
               IF on = <<>> THEN "new"
               ELSE LET s == on[Len(on)] IN
                    IF s[3] = "edit" THEN "edit" ELSE IF s[5] = "ok" THEN "ok" ELSE "refused"
HClass(h, t, c) == HPrior(h, t, c) \o "/" \o HLast(h, t)

HInit == /\ in \in 1..Len(HWorlds)
         /\ exp = HTable(HWorlds[in])
         /\ m = [ph |-> "tbl"]

HStart == /\ m.ph = "tbl"
          /\ m' = [ph |-> "h", iss |-> [t \in 1..NObj |-> 0], var |-> [t \in 1..NObj |-> 0], ret |-> -1]
          /\ exp' = <<>>
          /\ UNCHANGED in

\* TBSCertificate.SignWith on object t (Sign = SignWith with a lambda around the key)
\* (why, mach, cls come in as operator arguments: TLC evaluates an argument once, a LET value at every use)
HSignDo(t, c, op, why, mach, cls) ==
    LET \* guards first; with a signer the object's issuer field is overwritten by that signer's fingerprint
        niss == IF mach = "" /\ c # 0 THEN [m.iss EXCEPT ![t] = c] ELSE m.iss
        \* the certificate is built from the object: it names whatever the issuer field holds now
        ret  == IF mach = "" THEN niss[t] ELSE -1
    IN /\ m' = [m EXCEPT !.iss = niss, !.ret = ret]
       /\ exp' = Append(exp, <<t, c, op, cls, why, m.var[t]>>)
       /\ UNCHANGED in
HSignCert(t, c, op, cert) == HSignDo(t, c, op, SignWhy(cert), SignM(cert), HClass(exp, t, c))
\* cert: what this call is asked to issue (the object's current fields, the signer of this call)
HSign(t, c, op) == HSignCert(t, c, op, [ObjAt(t, m.var[t]) EXCEPT !.issuer = CaAt(c)])

\* the caller sets the other validity window on the object (renewal)
HEdit(t) ==
    /\ m.ph = "h" /\ Len(exp) < HLen
    /\ m' = [m EXCEPT !.var[t] = 1 - @, !.ret = -1]
    /\ exp' = Append(exp, <<t, 0, "edit", "-", "-", 1 - m.var[t]>>)
    /\ UNCHANGED in

HNext == \/ HStart
         \/ /\ m.ph = "h" /\ Len(exp) < HLen        \* (checked first: no enumeration below the leaves)
            /\ \/ \E t \in 1..NObj : \E c \in 0..NCa : \E op \in HOps(t, c) : HSign(t, c, op)
               \/ \E t \in 1..NObj : HEdit(t)

-----------------------------------------------------------------------------
(* Links *)

\* the certificate a call returns names the signer of THAT call (no issuer when self-signed)
RetNamesSigner == (Hist /\ m.ph = "h" /\ m.ret # -1) => m.ret = exp[Len(exp)][2]
\* and a call succeeds exactly where the reference allows it, whatever happened to the object before
RetWhenOK == (Hist /\ m.ph = "h" /\ Len(exp) > 0 /\ exp[Len(exp)][3] # "edit") =>
                ((m.ret # -1) <=> (exp[Len(exp)][5] = "ok"))

TblCells(T) == {<<t, k, c>> : t \in 1..Len(T.objs), k \in 1..2, c \in 1..(Len(T.cas) + 1)}
TblCert(T, x) == [T.objs[x[1]][x[2]] EXCEPT !.issuer = IF x[3] = 1 THEN NoCA ELSE T.cas[x[3] - 1]]
\* the lattice stays inside what can exist (C03) and away from the per-entry / union ambiguity
TblWellFormed == (Hist /\ m.ph = "tbl") =>
    \A x \in TblCells(exp) : LET c == TblCert(exp, x) IN WellFormed(c) /\ ~Ambiguous(c, c.issuer)
\* SignWith's guard decides exactly SignOK
TblSignLink == (Hist /\ m.ph = "tbl") =>
    \A x \in TblCells(exp) : LET o == exp.out[x[1]][x[2]][x[3]] IN
        /\ (o.mach = "") <=> SignOK(TblCert(exp, x))
        /\ (o.why = "ok") <=> SignOK(TblCert(exp, x))
\* what may be issued verifies whenever certificate and CA are valid ...
TblIssuedVerifies == (Hist /\ m.ph = "tbl") =>
    \A x \in TblCells(exp) : LET o == exp.out[x[1]][x[2]][x[3]]  c == TblCert(exp, x) IN
        (o.why = "ok" /\ x[3] # 1) =>
            \A s \in Times : (~Expired(c, s) /\ ~Expired(c.issuer, s)) <=> o.acc[s + 1] = "ok"
\* ... against every honest pool that contains the signer
TblAnyPool == (Hist /\ m.ph = "tbl") =>
    \A x \in TblCells(exp) : LET o == exp.out[x[1]][x[2]][x[3]] IN o.why = "ok" => o.any = o.acc
=============================================================================
