SPECIFICATION Spec
CONSTANT Thorough = FALSE
INVARIANTS RoundTrip ShortRefused PrefixOnly
CHECK_DEADLOCK FALSE
