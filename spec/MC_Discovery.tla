---------------------------- MODULE MC_Discovery ----------------------------
(* Closed small world for Discovery.tla: ordinary A and B, lighthouse L, hostile authenticated peer H.            *)
(* The environment proposes, to every tracked honest node, ANY stimulus (every lighthouse message type from H     *)
(* with any claimed overlay address and any address; what honest peers are permitted to send; handshakes and data *)
(* from where the peers really are; closes) together with ANY single change of its address table (any subject, any *)
(* owner, reported or learned, any address); the permission rules of Discovery.tla (AddOK / DelOK) decide.          *)
(* TLC checks what the rules are meant to imply:                                                                  *)
(*  I1 every address a node holds for x has a permitted provenance (static config, or told by a configured        *)
(*     lighthouse / learned from x) and really belongs to x (H owns whatever H says about itself)                 *)
(*  I2 a lighthouse holds for x only what x reported / was seen at                                                *)
(*  I3 whatever a node is then permitted to send (R5) goes to a usable address of the peer it is meant for        *)
(*  I6 punch permits (R6) come only from the configured lighthouse and only for usable, true addresses            *)
(* With Strict = FALSE (the default reading of the trace check) a replayed stage 1 and a wrong responder break I1/I2:    *)
(* that is the finding reported for handshake_manager.go beginHandshake / continueHandshake (SetRemote on the shared   *)
(* list before the handshake is accepted); the model is checked with Strict = TRUE.                                 *)
(* Honest peers are represented by what the emission rules let them send (R1/R2: a lighthouse answers from its   *)
(* cache, an ordinary node reports its own addresses), the network does not forge source addresses of honest    *)
(* nodes. All tunnels are up; a close is modelled as close-and-reopen.                                           *)
EXTENDS Discovery

CONSTANTS Strict,     \* BOOLEAN: a stage 1 that makes no tunnel is no writer of the learned slot (see Discovery.tla IsAuth)
          TrackB      \* BOOLEAN: explore B's table too (manual runs only: > 90 000 states, 25 min were not enough)

MCNodes == {"A", "B", "L", "H"}
Subj == {"A", "B", "H"}
SubjOf(n) == IF TrackB THEN Subj \ {n} ELSE {"B", "H"}      \* whom the explored tables are about
Under == (IF TrackB THEN {"a1"} ELSE {}) \cup {"b1", "b2", "b3", "h1", "e1"}    \* e1: an address H invents
Home == [n \in MCNodes |-> IF n = "A" THEN {"a1"} ELSE IF n = "B" THEN {"b1", "b2", "b3"} ELSE IF n = "L" THEN {"l1"} ELSE {"h1"}]
Sock == [n \in MCNodes |-> IF n = "A" THEN {"a1"} ELSE IF n = "B" THEN {"b1"} ELSE IF n = "L" THEN {"l1"} ELSE {"h1"}]
Truth(x) == IF x = "H" THEN Under \cup {"l1"} ELSE Home[x]
MCCfg == [amlh |-> {"L"}, lhs |-> {<<"A", "L">>, <<"B", "L">>, <<"H", "L">>}, hostile |-> {"H"},
          deny |-> {<<"A", "b2">>, <<"L", "b3">>, <<"B", "e1">>}, denyPeer |-> {<<"B", "A", "h1">>},
          static |-> {<<"A", "L", "l1">>, <<"B", "L", "l1">>, <<"A", "L", "b2">>},
          adv |-> {<<"A", "a1">>, <<"B", "b1">>, <<"B", "b2">>, <<"B", "b3">>}, respond |-> {"A"}, strict |-> Strict]
Tracked == IF TrackB THEN {"A", "B", "L"} ELSE {"A", "L"}
Honest == MCNodes \ {"H"}

Rec(k, from, src, mt, x, addrs) == [k |-> k, from |-> from, src |-> src, mt |-> mt, x |-> x, addrs |-> addrs, alist |-> <<>>, fresh |-> TRUE]
LhTypes == {"HostQuery", "HostQueryReply", "HostUpdateNotification", "HostUpdateNotificationAck", "HostPunchNotification"}
HClaims == {{}, {"e1"}}
One(S) == {{}} \cup {{u} : u \in S}

HostileStim == {Rec("enc", "H", "h1", t, x, a) : t \in LhTypes, x \in {"B", "H", ""}, a \in HClaims}
               \cup {Rec(k, "H", s, "data", "", {}) : k \in {"enc", "hs1"}, s \in Sock["H"]}
               \cup {Rec("hs2", "H", s, "", x, {}) : s \in Sock["H"], x \in {"B", "H"}}      \* H answers a handshake meant for B

\* what an honest ordinary node s may send (emission rule R1 of s: it reports its own addresses), from where s really is
MCAdv(s) == {p[2] : p \in {q \in MCCfg.adv : q[1] = s}}
OrdinaryFrom(s) ==
    {Rec(k, s, u, "data", "", {}) : k \in {"enc", "hs1"}, u \in Sock[s]} \cup {Rec("hs2", s, u, "", s, {}) : u \in Sock[s]}
    \cup UNION {{Rec("enc", s, u, "HostUpdateNotification", x, a) : x \in {"", s}, a \in One(MCAdv(s))} : u \in Sock[s]}
    \cup {Rec("enc", s, u, "HostQuery", "B", {}) : u \in Sock[s]}
\* what the honest lighthouse s may send (emission rule R2 of s: answers and punch notifications from its cache)
LighthouseFrom(s) ==
    {Rec(k, s, u, "data", "", {}) : k \in {"enc", "hs1"}, u \in Sock[s]} \cup {Rec("hs2", s, u, "", s, {}) : u \in Sock[s]}
    \cup UNION {{Rec("enc", s, "l1", t, x, a) : t \in {"HostQueryReply", "HostPunchNotification"}, a \in One(Cache(known[s], x))} : x \in SubjOf(s)}
    \cup {Rec("enc", s, "l1", "HostUpdateNotificationAck", "", {})}

\* the network replays a stage 1 of honest B from an address B never had: it is refused (no tunnel, fresh = FALSE)
ReplayedStage1 == {[Rec("hs1", "B", "e1", "data", "", {}) EXCEPT !.fresh = FALSE]}

\* the part of the stimuli that does not depend on the state (a constant: TLC builds it once) ...
ConstStim == HostileStim \cup OrdinaryFrom("A") \cup OrdinaryFrom("B") \cup ReplayedStage1
             \cup {Rec("close", "", "", "", x, {}) : x \in MCNodes} \cup {Rec("tick", "", "", "", "", {})}
\* ... and the part that does: what the lighthouse says now
StimFor(n) == ConstStim \cup (IF n = "L" THEN {} ELSE LighthouseFrom("L"))

Entries(n) == {<<x, o, kd, u>> : x \in SubjOf(n), o \in MCNodes, kd \in {"rep", "lrn"}, u \in Under} \cup {<<"B", "B", "blk", "h1">>}

Init == /\ StartState(MCCfg)
        /\ known = [n \in MCNodes |-> StaticOf(n)]

\* all tunnels are up (tuns is not part of the explored state: a close is close-and-reopen)
Peers(n) == MCNodes \ {n}
\* (the stimulus is quantified inside the guard: one successor per accepted change, whatever stimuli permit it;
\*  SS is passed as an argument so that TLC builds the stimulus set once per node and state)
NextOf(n, LS) == \E e \in Entries(n) :
          /\ \/ /\ e \notin known[n]
                /\ TRUE = (\/ \E S \in ConstStim : AddOK(n, S, known[n] \cup {e}, e)
                           \/ \E S \in LS : AddOK(n, S, known[n] \cup {e}, e))
                /\ known' = [known EXCEPT ![n] = @ \cup {e}]
             \/ /\ e \in known[n]
                /\ TRUE = (\/ \E S \in ConstStim : DelOK(n, S, Peers(n), IF S.k = "close" THEN Peers(n) \ {S.x} ELSE Peers(n), {}, {}, known[n] \ {e}, e)
                           \/ \E S \in LS : DelOK(n, S, Peers(n), Peers(n), {}, {}, known[n] \ {e}, e))
                /\ known' = [known EXCEPT ![n] = @ \ {e}]
          /\ UNCHANGED <<cfg, tuns, pend, wanted, sched, resp, asked, ever, refused>>
Next == \E n \in Tracked : NextOf(n, IF n = "L" THEN {} ELSE LighthouseFrom("L"))
Spec == Init /\ [][Next]_vars

\* keep the world small: at most SlotMax addresses per (subject, owner, kind) slot
CONSTANT SlotMax
SlotBound == \A n \in Tracked : \A e \in known[n] : Cardinality({f \in known[n] : f[1] = e[1] /\ f[2] = e[2] /\ f[3] = e[3]}) <= SlotMax

-----------------------------------------------------------------------------
I1 == \A n \in Tracked : \A e \in known[n] :
         \/ e \in StaticOf(n)
         \/ e[3] = "blk"                                       \* a blocked address is no destination
         \/ /\ e[2] \in Lhs(n) \cup {e[1]}                     \* told by a configured lighthouse, or by x itself
            /\ e[4] \in Truth(e[1])                            \* chain ends at the owner
            /\ Usable(n, e[1], e[4])
I2 == \A n \in Tracked \cap MCCfg.amlh : \A e \in known[n] :
         e[2] = n \/ e[3] = "blk" \/ (e[2] = e[1] /\ e[4] \in Truth(e[1]) /\ Usable(n, e[1], e[4]))
Tick == Rec("tick", "", "", "", "", {})
Dgram(k, x, u) == [k |-> k, to |-> u, peer |-> x, mt |-> "data", x |-> "", addrs |-> <<>>]
I3 == \A n \in Tracked : \A x \in MCNodes \ {n} : \A u \in Under \cup {"l1"} :
         /\ \A k \in {"hs1", "enc"} : DestVerdict(n, Tick, known[n], known[n], Peers(n), Peers(n), Dgram(k, x, u)) = ""
               => (Usable(n, x, u) /\ u \in Truth(x))
         /\ DestVerdict(n, Tick, known[n], known[n], Peers(n), Peers(n), Dgram("punch1", "", u)) = "" => <<n, u>> \notin MCCfg.deny
I6 == \A n \in Tracked : \A S \in StimFor(n) :
         /\ \A u \in Permits(n, S) : S.from \in Lhs(n) /\ Usable(n, S.x, u) /\ u \in Truth(S.x)
         /\ (S.from \notin Lhs(n) => RespPermit(n, S) = {})
=============================================================================
