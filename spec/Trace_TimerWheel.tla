------------------------- MODULE Trace_TimerWheel -------------------------
(* Trace validation of recorded histories of a real TimerWheel / LockingTimerWheel against the     *)
(* REFERENCE layer of TimerWheel.tla only (what the statement of C33 permits); the machine layer   *)
(* is not consulted, so any implementation that fires every item once and on time is accepted.     *)
(* One ndjson line per call, `now` = the harness clock in time units (TickD units = one tick):     *)
(*   {"ev":"reset"}                                                                                *)
(*   {"ev":"Advance","now":12}                    Advance(base + 12 units)                         *)
(*   {"ev":"Add","now":12,"i":3,"to":7}           Add(item 3, 7 units); item ids are never reused  *)
(*   {"ev":"Purge","now":15,"has":true,"v":3}     result of Purge                                  *)
(*   {"ev":"Note","what":"burst"}                 harness annotation (class of the history), no effect *)
EXTENDS TimerWheel, Json

CONSTANT MaxItem
TraceItems == 1..MaxItem
NoTimeouts == {}

Log == ndJsonDeserialize("trace.ndjson")

VARIABLE l
tvars == <<vars, l>>

TraceInit == Init /\ l = 1

IsEvent(e) == l <= Len(Log) /\ Log[l].ev = e /\ l' = l + 1
Machine == UNCHANGED <<w, firedAt, res, ok>>
Clock == Log[l].now >= now /\ now' = Log[l].now

TraceReset == /\ IsEvent("reset")
              /\ now' = 0 /\ adv' = -1
              /\ st' = [i \in Items |-> "free"]
              /\ addedAt' = [i \in Items |-> 0] /\ tmo' = [i \in Items |-> 0] /\ fresh' = [i \in Items |-> FALSE]
              /\ Machine

TraceAdvance == /\ IsEvent("Advance") /\ Clock
                /\ adv' = now'
                /\ UNCHANGED <<st, addedAt, tmo, fresh>> /\ Machine

TraceAdd == /\ IsEvent("Add") /\ Clock
            /\ Log[l].i \in Items
            /\ RefAddAt(Log[l].i, Log[l].to, Log[l].now)
            /\ UNCHANGED adv /\ Machine

TracePurge == /\ IsEvent("Purge") /\ Clock
              /\ RefPurgeOK(Log[l].has, Log[l].v)
              /\ RefReturn(Log[l].has, Log[l].v)
              /\ UNCHANGED adv /\ Machine

TraceNote == IsEvent("Note") /\ UNCHANGED <<now, adv, st, addedAt, tmo, fresh>> /\ Machine

TraceNext == TraceReset \/ TraceAdvance \/ TraceAdd \/ TracePurge \/ TraceNote
TraceSpec == TraceInit /\ [][TraceNext]_tvars

TraceAccepted == TLCGet("stats").diameter - 1 = Len(Log)
=============================================================================
