SPECIFICATION Spec
CONSTANTS MaxMut = 2
          AcceptRecvError = TRUE
INVARIANTS OnlyGenuineActs AlteredInert TeardownOnlyByConfig GenuineActsUnlessFiltered
CHECK_DEADLOCK FALSE
