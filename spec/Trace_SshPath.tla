---------------------------- MODULE Trace_SshPath ----------------------------
(* T direction of C45: seeded random concrete sandbox directories and      *)
(* paths (longer, richer names) run through the real sshSanitizeFilePath,  *)
(* split into components and judged by the reference layer of SshPath.tla. *)
(*   {"k":1,"sb":{abs,comps},"p":{abs,comps},"accepted":true,              *)
(*    "ret":{abs,comps}}                                                   *)
EXTENDS SshPath, Json

Obs == ndJsonDeserialize("obs.ndjson")
ToSet(s) == { s[i] : i \in 1..Len(s) }

Verdict(o) ==
    LET r == Required(o.sb, o.p) IN
      [k |-> o.k, must |-> r.must,
       ok |-> /\ (r.must = "refuse" => ~o.accepted)
              /\ (r.must = "accept" => o.accepted)
              /\ (o.accepted => Loc(o.ret) = r.loc)]

TraceInit == \E o \in ToSet(Obs) : sb = o.k /\ p = 0 /\ exp = Verdict(o)
TraceSpec == TraceInit /\ [][Next]_vars
=============================================================================
