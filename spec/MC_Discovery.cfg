SPECIFICATION Spec
CONSTANTS Nodes <- MCNodes
          Strict = TRUE
          TrackB = FALSE
          SlotMax = 1
INVARIANTS I1 I2 I3 I6
CONSTRAINT SlotBound
CHECK_DEADLOCK FALSE
