------------------------------ MODULE AllowList ------------------------------
(***************************************************************************)
(* Allow lists (allow_list.go) -- property C38.                            *)
(*                                                                         *)
(* Addresses are bit strings of length W in two families; a prefix is a    *)
(* bit string of length 0..W.  A configured list is a set of entries       *)
(* [fam, p, val, form]; form = "mapped" says that an IPv4 prefix p/n is    *)
(* written as the IPv4-mapped IPv6 prefix ::ffff:p/(96+n) -- it denotes    *)
(* the same IPv4 prefix, which is why the reference layer never looks at   *)
(* form ("IPv4-mapped addresses are treated as IPv4").                     *)
(*                                                                         *)
(* Results are "allow" / "deny" / "any"; "any" marks the places where the  *)
(* statement is silent (a family without any configured value, no name     *)
(* rules) and nothing is compared.                                         *)
(*                                                                         *)
(* Vector mode: one TLC state = one configuration with the expected answer *)
(* for every address / name; the harness writes the configuration as YAML  *)
(* (abstract bits |-> top bits of real IPv4 / IPv6 prefixes), has it parsed*)
(* by NewRemoteAllowListFromConfig / NewLocalAllowListFromConfig and asks  *)
(* the real lists.                                                         *)
(***************************************************************************)
EXTENDS Integers, Sequences, FiniteSets, TLC

CONSTANTS W,          \* address length in bits (2 quick, 3 thorough)
          Thorough

Fams == {"v4", "v6"}
Other(f) == IF f = "v4" THEN "v6" ELSE "v4"
PfxOfLen(n) == [1..n -> {0, 1}]
Pfx == UNION { PfxOfLen(n) : n \in 0..W }
Addrs(f) == { [fam |-> f, bits |-> b] : b \in PfxOfLen(W) }
IsPrefix(p, b) == Len(p) <= Len(b) /\ \A i \in 1..Len(p) : p[i] = b[i]
B(v) == IF v THEN "allow" ELSE "deny"
And3(x, y) == IF x = "deny" \/ y = "deny" THEN "deny" ELSE IF x = "any" \/ y = "any" THEN "any" ELSE "allow"

-----------------------------------------------------------------------------
(* Reference layer                                                         *)
OfFam(list, f)      == { e \in list : e.fam = f }
Vals(list, f)       == { e.val : e \in OfFam(list, f) }
HasDefault(list, f) == \E e \in OfFam(list, f) : Len(e.p) = 0
Matching(list, a)   == { e \in OfFam(list, a.fam) : IsPrefix(e.p, a.bits) }
MostSpecific(S)     == CHOOSE e \in S : \A d \in S : Len(d.p) <= Len(e.p)

\* a list that mixes allow and deny for a family without a default for that family is refused
Refused(list) == \E f \in Fams : ~HasDefault(list, f) /\ Vals(list, f) = {TRUE, FALSE}

\* the value of the most specific matching CIDR; without a match (hence without an explicit default) the opposite of
\* the family's uniform configured value
Allow(list, a) ==
    IF Matching(list, a) # {} THEN B(MostSpecific(Matching(list, a)).val)
    ELSE IF Vals(list, a.fam) = {} THEN "any"
    ELSE B(~(CHOOSE v \in Vals(list, a.fam) : TRUE))

\* an absent list restricts nothing
AllowOpt(l, a) == IF l.present THEN Allow(l.list, a) ELSE "allow"

\* remote allow list: global list g, per-overlay-range lists rs (entries [fam, p, form, list]); the list of the range
\* holding the peer's overlay address applies in addition to the global one
RangeOf(rs, vpn)   == { r \in rs : r.fam = vpn.fam /\ IsPrefix(r.p, vpn.bits) }
InsideAllow(rs, vpn, a) == IF RangeOf(rs, vpn) = {} THEN "allow"
                           ELSE Allow(MostSpecific(RangeOf(rs, vpn)).list, a)
RemoteAllow(g, rs, vpn, a)     == And3(AllowOpt(g, a), InsideAllow(rs, vpn, a))
RECURSIVE AllInside(_, _, _)
AllInside(rs, vpns, a) == IF vpns = <<>> THEN "allow" ELSE And3(InsideAllow(rs, Head(vpns), a), AllInside(rs, Tail(vpns), a))
RemoteAllowAll(g, rs, vpns, a) == And3(AllowOpt(g, a), AllInside(rs, vpns, a))
RemoteRefused(g, rs) == (g.present /\ Refused(g.list)) \/ \E r \in rs : Refused(r.list)

\* interface-name rules: [pre, wild, val]; a rule matches a whole name (pre, or pre followed by anything when wild);
\* all rules must share one value; a name no rule matches gets the opposite value
NameMatch(r, n) == IF r.wild THEN Len(n) >= Len(r.pre) /\ SubSeq(n, 1, Len(r.pre)) = r.pre ELSE n = r.pre
NamesRefused(rules) == { r.val : r \in rules } = {TRUE, FALSE}
AllowName(rules, n) == IF rules = {} THEN "any"
                       ELSE IF \E r \in rules : NameMatch(r, n) THEN B(CHOOSE v \in { r.val : r \in rules } : TRUE)
                       ELSE B(~(CHOOSE v \in { r.val : r \in rules } : TRUE))

-----------------------------------------------------------------------------
(* Implementation-shaped machine: one prefix table per list into which the *)
(* implicit defaults are inserted at load time (an empty family gets       *)
(* "allow"), and a longest-prefix lookup.                                  *)
Table(list) ==
    { [fam |-> e.fam, p |-> e.p, val |-> e.val] : e \in list }
    \cup { [fam |-> f, p |-> <<>>, val |-> IF Vals(list, f) = {} THEN TRUE ELSE ~(CHOOSE v \in Vals(list, f) : TRUE)] :
           f \in { g \in Fams : ~HasDefault(list, g) } }
Lookup(tab, a) == LET m == { e \in tab : e.fam = a.fam /\ IsPrefix(e.p, a.bits) }
                  IN IF m = {} THEN FALSE ELSE MostSpecific(m).val

-----------------------------------------------------------------------------
(* Vector lattice                                                          *)
Form(mapform, f, p) == IF f = "v4" /\ (mapform = "all" \/ (mapform = "even" /\ Len(p) % 2 = 0)) THEN "mapped" ELSE "plain"
Mk(f, p, v, mf) == [fam |-> f, p |-> p, val |-> v, form |-> Form(mf, f, p)]

\* the lists of one family: every set of at most 3 prefixes with every assignment of values
KeySets == { s \in SUBSET Pfx : Cardinality(s) <= 3 }
\* context entries of the other family
Ctx(f, n, mf) == CASE n = 0 -> {}
                   [] n = 1 -> { Mk(f, <<>>, TRUE, mf) }
                   [] n = 2 -> { Mk(f, <<1>>, FALSE, mf) }
                   [] n = 3 -> { Mk(f, <<0>>, TRUE, mf), Mk(f, <<1>>, FALSE, mf) }       \* mixed, no default: refused
                   [] n = 4 -> { Mk(f, <<>>, FALSE, mf), Mk(f, <<0>>, TRUE, mf), Mk(f, <<0, 1>>, FALSE, mf) }

\* fixed lists for the range and name vectors
LA(mf) == { Mk("v4", <<0>>, TRUE, mf), Mk("v6", <<>>, FALSE, mf) }                               \* only v4 0.. allowed
LB(mf) == { Mk("v4", <<>>, TRUE, mf), Mk("v4", <<1, 1>>, FALSE, mf), Mk("v6", <<>>, TRUE, mf) }  \* all but v4 11..
LC(mf) == { Mk("v4", <<0>>, TRUE, mf), Mk("v4", <<1, 0>>, FALSE, mf), Mk("v6", <<>>, TRUE, mf) } \* refused
LD(mf) == { Mk("v4", <<>>, FALSE, mf), Mk("v4", <<0>>, TRUE, mf), Mk("v6", <<>>, FALSE, mf), Mk("v6", <<1, 1>>, TRUE, mf) }
LE(mf) == { Mk("v4", <<1>>, FALSE, mf), Mk("v6", <<0>>, FALSE, mf) }                             \* deny v4 1.., v6 0..
Named(n, mf) == CASE n = "A" -> LA(mf) [] n = "B" -> LB(mf) [] n = "C" -> LC(mf) [] n = "D" -> LD(mf) [] n = "E" -> LE(mf)

Globals == {"none", "B", "D", "E"}
\* candidate ranges: name |-> [fam, p, list]
RangeDefs == [r1 |-> [fam |-> "v4", p |-> <<0>>,    list |-> "A"],
              r2 |-> [fam |-> "v4", p |-> <<1, 0>>, list |-> "B"],
              r3 |-> [fam |-> "v6", p |-> <<1>>,    list |-> "E"],
              r4 |-> [fam |-> "v4", p |-> <<>>,     list |-> "D"],
              r5 |-> [fam |-> "v4", p |-> <<1, 1>>, list |-> "C"],
              r6 |-> [fam |-> "v6", p |-> <<0, 0>>, list |-> "A"]]
RangeNames == DOMAIN RangeDefs
Disjoint(x, y) == RangeDefs[x].fam # RangeDefs[y].fam
                  \/ (~IsPrefix(RangeDefs[x].p, RangeDefs[y].p) /\ ~IsPrefix(RangeDefs[y].p, RangeDefs[x].p))
RangeSets == { s \in SUBSET RangeNames : Cardinality(s) <= 2 /\ \A x, y \in s : x = y \/ Disjoint(x, y) }
Pad(p) == [i \in 1..W |-> IF i <= Len(p) THEN p[i] ELSE 0]
VpnSeqs == { <<[fam |-> "v4", bits |-> Pad(<<0, 0>>)]>>, <<[fam |-> "v4", bits |-> Pad(<<1, 0>>)]>>,
             <<[fam |-> "v4", bits |-> Pad(<<1, 1>>)]>>, <<[fam |-> "v6", bits |-> Pad(<<1, 0>>)]>>,
             <<[fam |-> "v6", bits |-> Pad(<<0, 0>>)]>>,
             <<[fam |-> "v4", bits |-> Pad(<<0, 1>>)], [fam |-> "v6", bits |-> Pad(<<1, 1>>)]>>,
             <<[fam |-> "v4", bits |-> Pad(<<1, 0>>)], [fam |-> "v4", bits |-> Pad(<<0, 0>>)]>>,
             <<[fam |-> "v6", bits |-> Pad(<<0, 1>>)], [fam |-> "v4", bits |-> Pad(<<1, 1>>)]>> }

\* name rules over a small alphabet; "" + wild is the pattern .* that matches every name
Pats == { [pre |-> <<"e", "t", "h", "0">>, wild |-> FALSE], [pre |-> <<"e", "t", "h">>, wild |-> TRUE],
          [pre |-> <<"d", "o">>, wild |-> TRUE], [pre |-> <<"t", "u", "n">>, wild |-> FALSE], [pre |-> <<>>, wild |-> TRUE] }
Names == << <<"e", "t", "h", "0">>, <<"e", "t", "h", "1">>, <<"e", "t", "h">>, <<"d", "o", "c", "k">>, <<"t", "u", "n">>,
            <<"t", "u", "n", "0">>, <<"x", "e", "t", "h", "0">>, <<"d">> >>
PatSets == { s \in SUBSET Pats : Cardinality(s) <= 3 }

RECURSIVE BitsSeq(_)
\* all bit strings of length n in lexicographic order
BitsSeq(n) == IF n = 0 THEN << <<>> >>
              ELSE LET s == BitsSeq(n - 1) IN [i \in 1..(2 * Len(s)) |-> IF i <= Len(s) THEN <<0>> \o s[i] ELSE <<1>> \o s[i - Len(s)]]
AddrSeq == LET s == BitsSeq(W) IN [i \in 1..(2 * Len(s)) |-> IF i <= Len(s) THEN [fam |-> "v4", bits |-> s[i]]
                                                                            ELSE [fam |-> "v6", bits |-> s[i - Len(s)]]]

MapForms == {"none", "all", "even"}

\* the vectors: lists of one family (every set of at most 3 prefixes, every assignment of values) next to a context
\* of the other family; remote lists with ranges; name rule sets
CtxSet == IF W > 2 THEN {0, 4} ELSE {0, 1, 3, 4}
IsListParam(x)  == \E f \in Fams, keys \in KeySets, ctx \in CtxSet, mf \in MapForms : \E vals \in [keys -> BOOLEAN] :
                      x = [kind |-> "list", f |-> f, vals |-> vals, ctx |-> ctx, mf |-> mf]
IsRangeParam(x) == x \in [kind : {"ranges"}, g : Globals, rs : RangeSets, vpns : VpnSeqs, mf : MapForms]
IsNameParam(x)  == \E pats \in PatSets : \E pv \in [pats -> BOOLEAN] : x = [kind |-> "names", pv |-> pv, mf |-> "none"]

Build(q) ==
    CASE q.kind = "list" ->
           [list |-> { Mk(q.f, p, q.vals[p], q.mf) : p \in DOMAIN q.vals } \cup Ctx(Other(q.f), q.ctx, q.mf)]
      [] q.kind = "ranges" ->
           [g    |-> IF q.g = "none" THEN [present |-> FALSE, list |-> {}] ELSE [present |-> TRUE, list |-> Named(q.g, q.mf)],
            rs   |-> { [fam |-> RangeDefs[n].fam, p |-> RangeDefs[n].p, form |-> Form(q.mf, RangeDefs[n].fam, RangeDefs[n].p),
                        list |-> Named(RangeDefs[n].list, q.mf)] : n \in q.rs },
            vpns |-> q.vpns]
      [] q.kind = "names" ->
           [rules |-> { [pre |-> p.pre, wild |-> p.wild, val |-> q.pv[p]] : p \in DOMAIN q.pv }, list |-> LB("none"), names |-> Names]

Expected(q, c) ==
    CASE q.kind = "list" ->
           [refused |-> Refused(c.list),
            res     |-> IF Refused(c.list) THEN <<>> ELSE [i \in 1..Len(AddrSeq) |-> Allow(c.list, AddrSeq[i])]]
      [] q.kind = "ranges" ->
           [refused |-> RemoteRefused(c.g, c.rs),
            res     |-> IF RemoteRefused(c.g, c.rs) THEN <<>>
                        ELSE [i \in 1..Len(AddrSeq) |->
                                [unknown |-> AllowOpt(c.g, AddrSeq[i]),
                                 each    |-> [k \in 1..Len(c.vpns) |-> RemoteAllow(c.g, c.rs, c.vpns[k], AddrSeq[i])],
                                 all     |-> RemoteAllowAll(c.g, c.rs, c.vpns, AddrSeq[i])]]]
      [] q.kind = "names" ->
           [refused |-> NamesRefused(c.rules),
            res     |-> IF NamesRefused(c.rules) THEN <<>> ELSE [i \in 1..Len(Names) |-> AllowName(c.rules, Names[i])]]

VARIABLES q, in, exp
vars == <<q, in, exp>>
Init == /\ IsListParam(q) \/ IsRangeParam(q) \/ IsNameParam(q)
        /\ in = Build(q)
        /\ exp = Expected(q, in)
Next == UNCHANGED vars
Spec == Init /\ [][Next]_vars

-----------------------------------------------------------------------------
(* Link and laws checked by TLC on every vector                            *)
\* the prefix table with implicit defaults answers like the reference wherever the reference answers
MachineRefines ==
    (q.kind = "list" /\ ~exp.refused) =>
        \A i \in 1..Len(AddrSeq) : exp.res[i] = "any" \/ exp.res[i] = B(Lookup(Table(in.list), AddrSeq[i]))
\* the implicit default of a uniform family is the opposite of its values; an explicit default is honoured
DefaultLaw ==
    (q.kind = "list" /\ ~exp.refused) =>
        \A i \in 1..Len(AddrSeq) :
            LET a == AddrSeq[i] IN
              (Matching(in.list, a) = {} /\ Vals(in.list, a.fam) # {}) =>
                  (Cardinality(Vals(in.list, a.fam)) = 1 /\ \A e \in OfFam(in.list, a.fam) : exp.res[i] = B(~e.val))
\* the range list only ever removes addresses
RangeOnlyRestricts ==
    (q.kind = "ranges" /\ ~exp.refused) =>
        \A i \in 1..Len(AddrSeq) : \A k \in 1..Len(in.vpns) :
            (exp.res[i].unknown = "deny" => exp.res[i].each[k] = "deny") /\ (exp.res[i].each[k] = "deny" => exp.res[i].all = "deny")
=============================================================================
