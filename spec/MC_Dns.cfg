SPECIFICATION Spec
CONSTANTS MaxHist = 3
          Patched = TRUE
          Wide = FALSE
INVARIANTS RecordsLink Authenticated
CHECK_DEADLOCK FALSE
