\* C05: one long-lived Credential per identity - an honest session, then the adversary against another machine of the same identity
\* (quick-tier instance; bin/check builds the same text with tools/props/C05.py:cfg())
SPECIFICATION Spec
CONSTANTS
  HI = {"I1", "I2"}
  HR = {"R1", "R2"}
  AI = {"XI"}
  AR = {"XR"}
  AdvIds = {"K", "M"}
  VerCfgs = {1}
  Ops = {"id", "hdrflip"}
  PKinds = {"full"}
  SKinds = {"own"}
  Misuse = FALSE
  Scns = {"memo_r", "memo_i"}
  Impl = "spec"
  Budget = 0
INVARIANTS TypeOK C05_Auth C05_Secrecy C06_Agree C06_Exclusive C07_RejectClean
CHECK_DEADLOCK FALSE
