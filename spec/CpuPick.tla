------------------------------- MODULE CpuPick -------------------------------
(***************************************************************************)
(* Default CPU pin list and cpulist parsing (cpupick/*.go) -- property C46.*)
(*                                                                         *)
(* Pin list.  Input: the allowed CPUs, the performance subset the platform *)
(* reports, the number of reader routines, and the topology: one record    *)
(* [c, node, core] per CPU, plus whether CPU 0's physical core is known.   *)
(* The statement is a RELATION Post(input, candidates, out): which CPUs    *)
(* must be listed and where CPU 0's core goes; the order of the other CPUs *)
(* is free (rotation by the instance key, one thread per core first: not   *)
(* part of the statement).  The machine is the code's arrange().           *)
(*                                                                         *)
(* cpulist.  Strings over a small alphabet are classified against the      *)
(* kernel's syntax: what the kernel prints must be accepted with exactly   *)
(* the denoted set, what the kernel's own parser refuses must be refused,  *)
(* the rest (forms the kernel only accepts on input: blanks, empty regions,*)
(* unordered or overlapping regions, leading zeros) is not compared.       *)
(***************************************************************************)
EXTENDS Integers, Sequences, FiniteSets, TLC

CONSTANTS NCpu,      \* CPUs 0..NCpu-1 in the pin-list vectors
          MaxStr     \* longest cpulist string

ToSet(s) == { s[i] : i \in 1..Len(s) }
NoDup(s) == \A i, j \in 1..Len(s) : i # j => s[i] # s[j]

-----------------------------------------------------------------------------
(* Reference layer: the pin list                                           *)
Rec(topo, c)    == CHOOSE r \in ToSet(topo) : r.c = c
Known(topo, c)  == \E r \in ToSet(topo) : r.c = c
NodeOf(topo, c) == Rec(topo, c).node
CoreOf(topo, c) == Rec(topo, c).core

\* the candidates are the performance CPUs or, when those are not used, all allowed CPUs (which of the two is not
\* part of the statement)
CandsOK(i, cands) == cands # {} /\ (cands = ToSet(i.allowed) \/ cands = ToSet(i.perf)) /\ cands \subseteq ToSet(i.allowed)

NodesOf(i, cands)  == { NodeOf(i.topo, c) : c \in cands }
OnNode(i, cands, n) == { c \in cands : NodeOf(i.topo, c) = n }
Eligible(i, cands) == { n \in NodesOf(i, cands) : Cardinality(OnNode(i, cands, n)) >= i.routines }
\* every candidate of one NUMA node that is large enough, or all candidates when none is
OkSets(i, cands) == IF Eligible(i, cands) = {} THEN { cands } ELSE { OnNode(i, cands, n) : n \in Eligible(i, cands) }

\* CPU 0's physical core: CPU 0 and, when its core is known, every CPU on that core
ZeroCore(i) == {0} \cup (IF i.zeroKnown /\ Known(i.topo, 0)
                         THEN { r.c : r \in { x \in ToSet(i.topo) : x.core = CoreOf(i.topo, 0) } } ELSE {})

Post(i, cands, out) ==
    /\ ToSet(out) \subseteq ToSet(i.allowed)                                    \* only allowed CPUs
    /\ NoDup(out)                                                                \* no duplicates
    /\ ToSet(out) \in OkSets(i, cands)                                           \* the chosen node's candidates / all
    /\ \A j, k \in 1..Len(out) : (j < k /\ out[j] \in ZeroCore(i)) => out[k] \in ZeroCore(i)   \* CPU 0's core last
    /\ 0 \in ToSet(out) => out[Len(out)] = 0                                     \* CPU 0 at the very end

-----------------------------------------------------------------------------
(* Machine: pickCandidates and arrange as written, with the two hash-      *)
(* derived choices (node index ni, rotation off) as parameters             *)
MCands(i) == IF Len(i.perf) < i.routines THEN i.allowed ELSE i.perf

Empty(s) == DOMAIN s = {}
Rot(s, k) == IF Empty(s) THEN s ELSE LET o == k % Len(s) IN SubSeq(s, o + 1, Len(s)) \o SubSeq(s, 1, o)

MArrange(i, cands, ni, off) ==
    LET nodeOf(c) == NodeOf(i.topo, c)
        coreOf(c) == CoreOf(i.topo, c)
        idx      == [k \in 1..Len(cands) |-> k]
        newNode(k) == \A j \in 1..(k - 1) : nodeOf(cands[j]) # nodeOf(cands[k])
        nodeIdx  == SelectSeq(idx, LAMBDA k : newNode(k))
        nodes    == [k \in 1..Len(nodeIdx) |-> nodeOf(cands[nodeIdx[k]])]            \* in order of first appearance
        count(n) == Cardinality({ k \in 1..Len(cands) : nodeOf(cands[k]) = n })
        elig     == SelectSeq(nodes, LAMBDA n : count(n) >= i.routines)
        cs       == IF Empty(elig) THEN cands
                    ELSE LET n == elig[(ni % Len(elig)) + 1] IN SelectSeq(cands, LAMBDA c : nodeOf(c) = n)
        zk       == i.zeroKnown /\ Known(i.topo, 0)
        onZero(c) == zk /\ coreOf(c) = coreOf(0)
        pref     == SelectSeq(cs, LAMBDA c : c # 0 /\ ~onZero(c))
        tail     == SelectSeq(cs, LAMBDA c : c # 0 /\ onZero(c)) \o (IF 0 \in ToSet(cs) THEN <<0>> ELSE <<>>)
        rot      == Rot(pref, off)
        isFirst(k) == \A j \in 1..(k - 1) : coreOf(rot[j]) # coreOf(rot[k])
        firsts   == [k \in 1..Len(rot) |-> k]
        one      == SelectSeq(firsts, LAMBDA k : isFirst(k))
        sib      == SelectSeq(firsts, LAMBDA k : ~isFirst(k))
    IN IF Empty(pref) THEN tail
       ELSE [k \in 1..Len(one) |-> rot[one[k]]] \o [k \in 1..Len(sib) |-> rot[sib[k]]] \o tail

-----------------------------------------------------------------------------
(* Reference layer: cpulist strings (sequences of one-character strings)   *)
DigitSeq == <<"0", "1", "2", "3", "4", "5", "6", "7", "8", "9">>
Digits == { DigitSeq[k] : k \in 1..10 }
Alphabet == {"0", "1", "9", "-", ",", " ", "\n", "+", ":"}
DigitVal(d) == (CHOOSE k \in 1..10 : DigitSeq[k] = d) - 1
IsNum(t) == ~Empty(t) /\ \A k \in 1..Len(t) : t[k] \in Digits
RECURSIVE NumVal(_)
NumVal(t) == IF Empty(t) THEN 0 ELSE 10 * NumVal(SubSeq(t, 1, Len(t) - 1)) + DigitVal(t[Len(t)])

RECURSIVE Split(_, _)
\* the pieces of s between separators (empty pieces kept)
Split(s, seps) == IF \A k \in 1..Len(s) : s[k] \notin seps THEN <<s>>
                  ELSE LET k == CHOOSE x \in 1..Len(s) : s[x] \in seps /\ \A y \in 1..(x - 1) : s[y] \notin seps
                       IN <<SubSeq(s, 1, k - 1)>> \o Split(SubSeq(s, k + 1, Len(s)), seps)

\* a region N or N-M (M >= N); value = the CPUs it denotes
IsRegion(t) == \/ IsNum(t)
               \/ \E k \in 1..Len(t) : /\ t[k] = "-" /\ IsNum(SubSeq(t, 1, k - 1)) /\ IsNum(SubSeq(t, k + 1, Len(t)))
                                       /\ NumVal(SubSeq(t, 1, k - 1)) <= NumVal(SubSeq(t, k + 1, Len(t)))
Lo(t) == IF IsNum(t) THEN NumVal(t) ELSE LET k == CHOOSE x \in 1..Len(t) : t[x] = "-" IN NumVal(SubSeq(t, 1, k - 1))
Hi(t) == IF IsNum(t) THEN NumVal(t) ELSE LET k == CHOOSE x \in 1..Len(t) : t[x] = "-" IN NumVal(SubSeq(t, k + 1, Len(t)))

\* what the kernel's own parser (bitmap_parselist) takes, without the stride forms: it stops at a newline, regions are
\* separated by any run of commas and blanks
KernelReads(s) == LET line == Split(s, {"\n"})[1]
                      toks == SelectSeq(Split(line, {",", " "}), LAMBDA t : ~Empty(t))
                  IN \A k \in 1..Len(toks) : IsRegion(toks[k])

\* what the kernel prints (%*pbl): maximal runs in ascending order, N or N-M with M > N, no leading zeros, single commas
NoLeadingZero(t) == Len(t) = 1 \/ t[1] # "0"
CanonRegion(t) == \/ IsNum(t) /\ NoLeadingZero(t)
                  \/ \E k \in 1..Len(t) : /\ t[k] = "-"
                                          /\ IsNum(SubSeq(t, 1, k - 1)) /\ NoLeadingZero(SubSeq(t, 1, k - 1))
                                          /\ IsNum(SubSeq(t, k + 1, Len(t))) /\ NoLeadingZero(SubSeq(t, k + 1, Len(t)))
                                          /\ NumVal(SubSeq(t, 1, k - 1)) < NumVal(SubSeq(t, k + 1, Len(t)))
KernelPrints(s) == \/ Empty(s)
                   \/ LET rs == Split(s, {","})
                      IN /\ \A k \in 1..Len(rs) : CanonRegion(rs[k])
                         /\ \A k \in 1..(Len(rs) - 1) : Hi(rs[k]) + 2 <= Lo(rs[k + 1])
ListValue(s) == IF Empty(s) THEN {} ELSE LET rs == Split(s, {","}) IN UNION { Lo(rs[k])..Hi(rs[k]) : k \in 1..Len(rs) }

ListClass(s) == IF KernelPrints(s) THEN "accept" ELSE IF KernelReads(s) THEN "free" ELSE "refuse"

-----------------------------------------------------------------------------
(* Vector lattice                                                          *)
Cpus == 0..(NCpu - 1)
AscSeq(S) == LET RECURSIVE A(_)
                 A(T) == IF T = {} THEN <<>> ELSE LET m == CHOOSE x \in T : \A y \in T : x <= y IN <<m>> \o A(T \ {m})
             IN A(S)
\* NUMA layouts and SMT layouts of the machine
NodeLayouts == { [c \in Cpus |-> 0], [c \in Cpus |-> IF 2 * c < NCpu THEN 0 ELSE 1], [c \in Cpus |-> c % 2],
                 [c \in Cpus |-> IF c < 2 THEN 0 ELSE 1] }
CoreLayouts == { [c \in Cpus |-> c],                          \* no SMT
                 [c \in Cpus |-> c \div 2],                   \* siblings are neighbours (0,1) (2,3) ..
                 [c \in Cpus |-> c % ((NCpu + 1) \div 2)] }   \* siblings are half the machine apart (0,3) (1,4) ..
PerfMasks == { Cpus, { c \in Cpus : 2 * c >= NCpu }, { c \in Cpus : c % 2 = 0 }, { c \in Cpus : c # 1 } }

PinParams == [kind : {"pin"}, allowed : (SUBSET Cpus) \ {{}}, pm : PerfMasks, nl : NodeLayouts, cl : CoreLayouts,
              zeroKnown : BOOLEAN, routines : 1..4]
BuildPin(p) == [allowed |-> AscSeq(p.allowed), perf |-> AscSeq(p.allowed \cap p.pm), routines |-> p.routines,
                zeroKnown |-> p.zeroKnown,
                topo |-> [k \in 1..NCpu |-> [c |-> k - 1, node |-> p.nl[k - 1], core |-> p.cl[k - 1]]]]
\* the acceptable member sets for either choice of candidates, and CPU 0's core
ExpectedPin(i) == [okAllowed |-> { AscSeq(S) : S \in OkSets(i, ToSet(i.allowed)) },
                   okPerf    |-> IF Empty(i.perf) THEN {} ELSE { AscSeq(S) : S \in OkSets(i, ToSet(i.perf)) },
                   zerocore  |-> AscSeq(ZeroCore(i))]

Strings == UNION { [1..n -> Alphabet] : n \in 0..MaxStr }

VARIABLES q, in, exp
vars == <<q, in, exp>>
Init == \/ /\ q \in PinParams
           /\ in = BuildPin(q)
           /\ exp = ExpectedPin(in)
        \/ /\ q = [kind |-> "list"]
           /\ \E s \in Strings : /\ in = [str |-> s]
                                 /\ exp = [class |-> ListClass(s), value |-> IF KernelPrints(s) THEN ListValue(s) ELSE {}]
Next == UNCHANGED vars
Spec == Init /\ [][Next]_vars

-----------------------------------------------------------------------------
(* Link: whatever node index and rotation the instance hash yields, the    *)
(* code's arrangement satisfies the statement's relation                   *)
MachineRefines ==
    q.kind = "pin" =>
        LET cands == MCands(in) IN
          /\ CandsOK(in, ToSet(cands))
          /\ \A ni \in 0..1, off \in 0..(NCpu - 1) : Post(in, ToSet(cands), MArrange(in, cands, ni, off))
\* the three cpulist classes are consistent: what the kernel prints it also reads
PrintsAreRead == q.kind = "list" => (KernelPrints(in.str) => KernelReads(in.str))
=============================================================================
