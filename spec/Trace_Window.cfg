SPECIFICATION TraceSpec
CONSTANTS W = 8192
          B = 64
          MaxC = 0
INVARIANTS ResultAgrees
POSTCONDITION TraceAccepted
CHECK_DEADLOCK FALSE
