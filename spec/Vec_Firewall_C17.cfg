INIT InitC17
NEXT Next
CONSTANT Thorough = FALSE
CONSTANT NSample = 0
INVARIANTS GuardOnEveryAllow LinkGuard
CHECK_DEADLOCK FALSE
