--------------------------- MODULE Trace_HsManager ---------------------------
(* Trace validation of whole nebula nodes (nebula.Main in a synctest bubble; the harness is the      *)
(* network) against HsManager.tla.  One ndjson line per stimulus handled to quiescence:              *)
(*   {"ev":"reset"}                                                                                  *)
(*   {"ev":"TunSend","n":"A","a":"b1", post...}      {"ev":"Retry","n":"A","a":"b1", post...}        *)
(*   {"ev":"Deliver","n":"B","id":3,"via":"A", post...}     {"ev":"Tick"}                             *)
(*   a Deliver line may carry "late":[ok,..]: inside packets handled while the delivery was in progress *)
(* post = the acting node's projected state after the step and what it emitted:                      *)
(*   "hosts":[{"a":..,"l":[lidx..]}], "tuns":[{lidx,ridx,addrs,peer,init,hsTime,hs1,hs2,remote}],     *)
(*   "pend":[{a,ready,idx,tries,queued,hs1}], "out":[{"id":..,"to":..}], "tunout":k                   *)
(* Message ids are assigned by the harness to distinct datagram contents in order of first emission, *)
(* indexes are named by small integers in order of first sight, time is in try-interval ticks.        *)
EXTENDS HsManager, Json

Log == ndJsonDeserialize("trace.ndjson")

VARIABLE l
tvars == <<vars, l>>

TraceInit == Init /\ l = 1
IsEvent(e) == l <= Len(Log) /\ Log[l].ev = e /\ l' = l + 1

\* projections take the state functions explicitly so that they can be applied to the primed state
\* (priming Proj(Log[l].n) would prime l as well)
ProjHosts(h, n) == {[a |-> a, l |-> h[n][a]] : a \in DOMAIN h[n]}
ProjTuns(ts, n) == {[lidx |-> i, ridx |-> ts[n][i].ridx, addrs |-> ts[n][i].addrs, peer |-> ts[n][i].peer,
                     init |-> ts[n][i].init, hsTime |-> ts[n][i].hsTime, hs1 |-> ts[n][i].hs1,
                     hs2 |-> ts[n][i].hs2, remote |-> ts[n][i].remote] : i \in DOMAIN ts[n]}
ProjPend(pd, n) == {[a |-> a, ready |-> pd[n][a].ready, idx |-> pd[n][a].idx, tries |-> pd[n][a].tries,
                     queued |-> Len(pd[n][a].queue), hs1 |-> pd[n][a].hs1] : a \in DOMAIN pd[n]}

PerDst(seq, d) == SelectSeq(seq, LAMBDA e : e.to = d)

\* the acting node's state and output after the step are what was observed
Match(n, e) ==
    /\ ProjHosts(hosts', n) = SetOf(e.hosts)
    /\ ProjTuns(tuns', n)   = SetOf(e.tuns)
    /\ ProjPend(pend', n)   = SetOf(e.pend)
    /\ \A d \in Nodes : PerDst(out', d) = PerDst(e.out, d)
    /\ Len(out') = Len(e.out)
    /\ tunout' = e.tunout

TraceReset == /\ IsEvent("reset")
              /\ clock' = 0 /\ msgs' = <<>>
              /\ pend'  = [n \in Nodes |-> [a \in {} |-> 0]]
              /\ tuns'  = [n \in Nodes |-> [i \in {} |-> 0]]
              /\ hosts' = [n \in Nodes |-> [a \in {} |-> <<>>]]
              /\ out' = <<>> /\ tunout' = 0 /\ sends' = 0
              /\ timers' = [n \in Nodes |-> [a \in {} |-> <<>>]] /\ early' = FALSE
              /\ bad' = [n \in Nodes |-> [a \in {} |-> {}]] /\ trust' = Trusts

TraceTunSend == /\ IsEvent("TunSend") /\ TunSend(Log[l].n, Log[l].a, Log[l].ok) /\ Match(Log[l].n, Log[l])
TraceRetry   == /\ IsEvent("Retry")   /\ Retry(Log[l].n, Log[l].a, Log[l].k) /\ Match(Log[l].n, Log[l])
TraceDeliver == /\ IsEvent("Deliver")
                /\ LET n == Log[l].n  id == Log[l].id  via == Log[l].via
                       late == IF "late" \in DOMAIN Log[l] THEN Log[l].late ELSE <<>> IN
                   /\ id \in 1..Len(msgs)
                   /\ \/ late = <<>> /\ (RecvHs1(n, id, via) \/ RecvData(n, id, via))
                      \/ RecvHs2(n, id, via, late)
                   /\ Match(n, Log[l])
TraceTick    == IsEvent("Tick") /\ Tick

\* a handshake datagram that fails authentication (recoverably): nothing changes (C07); with "racing" the node's state was
\* not sampled (a goroutine of the node is parked inside the step until the following Tick)
TraceGarbled == /\ IsEvent("Garbled") /\ NoEmit /\ tunout' = 0
                /\ UNCHANGED <<clock, msgs, pend, tuns, hosts, sends, timers, early, bad, trust>>
                /\ ("racing" \in DOMAIN Log[l] \/ Match(Log[l].n, Log[l]))
\* the network has been silent for longer than all attempts of a handshake take: nothing is pending any more
TraceQuiet == /\ IsEvent("Quiet") /\ UNCHANGED vars
              /\ Log[l].pending = 0 /\ NoOverdue /\ \A n \in Nodes : DOMAIN pend[n] = {}
TraceRetrust == /\ IsEvent("Retrust") /\ Retrust(Log[l].n, SetOf(Log[l].trusts)) /\ Match(Log[l].n, Log[l])
TraceNext == TraceRetrust \/ TraceReset \/ TraceTunSend \/ TraceRetry \/ TraceDeliver \/ TraceTick \/ TraceGarbled \/ TraceQuiet
TraceSpec == TraceInit /\ [][TraceNext]_tvars

TraceAccepted == TLCGet("stats").diameter - 1 = Len(Log)
=============================================================================
