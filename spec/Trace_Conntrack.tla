-------------------------- MODULE Trace_Conntrack --------------------------
(* Trace validation of recorded histories of a real Firewall (Drop under a virtual clock, reloads    *)
(* through Interface.reloadFirewall) against the REFERENCE layer of Conntrack.tla only: a recorded   *)
(* verdict "pass" must be permitted by RefMayPass; the machine layer is not consulted.  One ndjson   *)
(* line per step:                                                                                    *)
(*   {"ev":"reset","rules":[[1,false],[2,true]]}      rules = packets <<flow, incoming>> allowed     *)
(*   {"ev":"Sleep","d":3}                             time.Sleep(3 units)                            *)
(*   {"ev":"Pkt","f":1,"inc":true,"pass":true}        verdict of Drop for a packet of flow 1          *)
(*   {"ev":"Reload","rules":[[1,false]]}              a reload that installed these rules             *)
(* Flow f uses protocol tcp / udp / other for f % 3 = 1 / 2 / 0.                                     *)
EXTENDS Conntrack, Json

CONSTANTS TcpT, UdpT, OthT, MaxFlow
TraceTO    == [tcp |-> TcpT, udp |-> UdpT, other |-> OthT]
TraceFlows == 1..MaxFlow
TraceProto == [f \in 1..MaxFlow |-> IF f % 3 = 1 THEN "tcp" ELSE IF f % 3 = 2 THEN "udp" ELSE "other"]
NoSets     == {}

Log == ndJsonDeserialize("trace.ndjson")

VARIABLE l
tvars == <<vars, l>>

SetOf(s) == {s[k] : k \in 1..Len(s)}

TraceInit == Init /\ l = 1

IsEvent(e) == l <= Len(Log) /\ Log[l].ev = e /\ l' = l + 1
Machine == UNCHANGED <<conns, tw, ver, cache, cver, keeps, cfg>>

TraceReset == /\ IsEvent("reset")
              /\ now' = 0 /\ rules' = SetOf(Log[l].rules)
              /\ est' = [f \in Flows |-> FALSE] /\ origs' = [f \in Flows |-> {}] /\ last' = [f \in Flows |-> 0]
              /\ res' = FALSE /\ may' = TRUE /\ why' = "ok" /\ Machine

TraceSleep == /\ IsEvent("Sleep")
              /\ Log[l].d >= 0 /\ now' = now + Log[l].d
              /\ UNCHANGED <<rules, est, origs, last, res, may, why>> /\ Machine

TracePkt == /\ IsEvent("Pkt")
            /\ LET f == Log[l].f  inc == Log[l].inc  pass == Log[l].pass IN
               /\ f \in Flows
               /\ pass => RefMayPass(f, inc)            \* the verdict of the real code is permitted
               /\ RefAfter(f, inc, pass)
               /\ res' = pass /\ may' = RefMayPass(f, inc) /\ why' = RefWhyNot(f, inc)
            /\ UNCHANGED <<now, rules>> /\ Machine

TraceReload == /\ IsEvent("Reload")
               /\ rules' = SetOf(Log[l].rules)
               /\ UNCHANGED <<now, est, origs, last, res, may, why>> /\ Machine

TraceNext == TraceReset \/ TraceSleep \/ TracePkt \/ TraceReload
TraceSpec == TraceInit /\ [][TraceNext]_tvars

TraceAccepted == TLCGet("stats").diameter - 1 = Len(Log)
=============================================================================
