SPECIFICATION Spec
CONSTANTS W = 2
          Thorough = FALSE
INVARIANTS MachineRefines DefaultLaw RangeOnlyRestricts
CHECK_DEADLOCK FALSE
