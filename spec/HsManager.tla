----------------------------- MODULE HsManager -----------------------------
(***************************************************************************)
(* Handshake manager + hostmap of several nebula nodes joined by a network *)
(* that the environment owns (handshake_manager.go, hostmap.go,            *)
(* outside.go).  One action per stimulus handled to quiescence by a node:  *)
(*                                                                         *)
(*   TunSend(n,a)      inside packet for overlay address a                 *)
(*                     (GetOrHandshake: send / queue / StartHandshake)     *)
(*   TunSendBurst(n,a,oks)  one tun read that is a TSO/USO superpacket:    *)
(*                     several inside packets for a at once               *)
(*   Retry(n,a)        the try-interval timer fired (handleOutbound)       *)
(*   RecvHs1(n,m,via)  stage-1 handshake datagram (beginHandshake ->       *)
(*                     CheckAndComplete -> stage 2 / cached stage 2 / ...) *)
(*   RecvHs2(n,m,via,late)  stage-2 handshake datagram (continueHandshake ->    *)
(*                     Complete / wrong host / abandon)                    *)
(*   RecvData(n,m,via) data datagram (index lookup, AEAD, window, deliver) *)
(*   Tick              the (virtual) clock advances                        *)
(*                                                                         *)
(* The network never forgets: every datagram ever emitted is in msgs and   *)
(* may be delivered to any node, from any claimed source, any number of    *)
(* times, at any later point (loss = never delivering).                    *)
(*                                                                         *)
(* Abstractions: crypto is symbolic (a stage-2 message answers exactly one *)
(* stage-1 message; a data message opens only under the tunnel created     *)
(* from the same pair); a certificate is the identity of its owner node    *)
(* (InitCert/RespCert, Trusts); an underlay address is the node that listens on   *)
(* it.                                                                     *)
(***************************************************************************)
EXTENDS Integers, Sequences, FiniteSets, TLC

CONSTANTS Nodes,        \* node names
          Addrs,        \* overlay addresses
          InitCert,     \* [Nodes -> Seq(Addrs)] networks of the certificate a node presents when it initiates, in certificate order
          RespCert,     \* [Nodes -> Seq(Addrs)] ... and when it responds (a node holding a v1 and a v2 certificate presents different ones)
          Own,          \* [Nodes -> SUBSET Addrs] the node's own overlay addresses (all its certificates)
          Trusts,       \* [Nodes -> SUBSET Nodes] whose certificates verify against the node's CA pool
          Route,        \* [Nodes -> [Addrs -> Seq(Nodes)]] underlay destinations known for an overlay address
          Idx,          \* candidate local indexes (never 0)
          Retries,      \* handshakes.retries
          MaxPerAddr,   \* MaxHostInfosPerVpnIp
          MaxQueue,     \* packets queued per pending handshake (100 in the code)
          MaxClock, MaxMsgs, MaxTunSends   \* exploration bounds

NoNode == "none"
Range(f) == {f[x] : x \in DOMAIN f}
SetOf(seq) == {seq[i] : i \in 1..Len(seq)}

VARIABLES clock,
          msgs,     \* Seq of datagram contents; a datagram's identity is its position
          pend,     \* pend[n]  : function  addr -> [ready, idx, tries, hs1, queue, due]
                    \* queue: Seq(BOOLEAN), one flag per queued inside packet: will the outbound firewall allow it?
          tuns,     \* tuns[n]  : function  lidx -> tunnel record
          hosts,    \* hosts[n] : function  addr -> Seq(lidx), primary first
          out,      \* observation: what the last step emitted, a sequence of [id, to]
          tunout,   \* observation: number of packets the last step wrote to the tun of the acting node
          sends,    \* exploration bound on TunSend
          timers,   \* timers[n] : function addr -> Seq(due time): entries of the outbound handshake timer wheel
                    \* (keyed by overlay address only, as in the code: an entry outlives the pending handshake that added it)
          early,    \* history: some retransmission happened before the pending handshake's own back-off delay had passed
          trust,    \* trust[n] : the peers whose certificates verify against n's CA pool and blocklist NOW (Trusts[n] at start and at
                    \* most that: a reload of pki.ca / pki.blocklist changes it, also while a handshake is pending)
          bad       \* bad[n] : function addr -> set of underlay addresses blocked in the remote list of addr
                    \* (RemoteList.badRemotes: the list lives in the lighthouse cache, so it OUTLIVES the pending handshake that
                    \* blocked an address -- a later handshake for the same address still skips it -- until a handshake with
                    \* that address completes: RefreshFromHandshake)

vars == <<clock, msgs, pend, tuns, hosts, out, tunout, sends, timers, early, bad, trust>>

Bad(n, a) == IF a \in DOMAIN bad[n] THEN bad[n][a] ELSE {}
SetBad(n, a, S) == bad' = [bad EXCEPT ![n] = [b \in (DOMAIN bad[n] \cup {a}) |-> IF b = a THEN S ELSE bad[n][b]]]

-----------------------------------------------------------------------------
(* helpers *)
Hs1(src, idx, t)            == [kind |-> "hs1", cert |-> InitCert[src], src |-> src, sess |-> 0, initIdx |-> idx, respIdx |-> 0, time |-> t, key |-> <<0, 0>>, ctr |-> 0]
Hs2(src, sess, ii, ri, t)   == [kind |-> "hs2", cert |-> RespCert[src], src |-> src, sess |-> sess, initIdx |-> ii, respIdx |-> ri, time |-> t, key |-> <<0, 0>>, ctr |-> 0]
Data(src, ridx, key, ctr)   == [kind |-> "data", cert |-> <<>>, src |-> src, sess |-> 0, initIdx |-> 0, respIdx |-> ridx, time |-> 0, key |-> key, ctr |-> ctr]
Ctl(kind, src, ridx, key, ctr) == [kind |-> kind, cert |-> <<>>, src |-> src, sess |-> 0, initIdx |-> 0, respIdx |-> ridx, time |-> 0, key |-> key, ctr |-> ctr]

PendIdx(n)  == {pend[n][a].idx : a \in DOMAIN pend[n]} \ {0}
MainIdx(n)  == DOMAIN tuns[n]
HostList(n, a) == IF a \in DOMAIN hosts[n] THEN hosts[n][a] ELSE <<>>
Primary(n, a)  == hosts[n][a][1]

RemoveFrom(seq, x) == SelectSeq(seq, LAMBDA y : y # x)

\* unlockedDeleteHostInfo on a (hosts, tuns) pair
DelTunnel(h, ts, i) ==
    LET t  == ts[i]
        h2 == [a \in DOMAIN h |-> RemoveFrom(h[a], i)]
        h3 == [a \in {b \in DOMAIN h2 : h2[b] # <<>>} |-> h2[a]]
    IN <<h3, [j \in DOMAIN ts \ {i} |-> ts[j]]>>

\* unlockedAddHostInfo: prepend for every address, retiring the oldest tunnel of an address beyond the cap
RECURSIVE AddForAddrs(_, _, _, _)
AddForAddrs(h, ts, i, addrs) ==
    IF addrs = <<>> THEN <<h, ts>>
    ELSE LET a    == Head(addrs)
             lst  == <<i>> \o RemoveFrom(IF a \in DOMAIN h THEN h[a] ELSE <<>>, i)
             h1   == [b \in DOMAIN h \cup {a} |-> IF b = a THEN lst ELSE h[b]]
             r    == IF Len(lst) > MaxPerAddr THEN DelTunnel(h1, ts, lst[Len(lst)]) ELSE <<h1, ts>>
         IN AddForAddrs(r[1], r[2], i, Tail(addrs))

AddTunnel(n, t) == AddForAddrs(hosts[n], tuns[n] @@ (t.lidx :> t), t.lidx, t.addrs)

Emit(seq) == out' = seq
NoEmit    == out' = <<>>

-----------------------------------------------------------------------------
Init == /\ clock = 0
        /\ msgs = <<>>
        /\ pend  = [n \in Nodes |-> [a \in {} |-> 0]]
        /\ tuns  = [n \in Nodes |-> [i \in {} |-> 0]]
        /\ hosts = [n \in Nodes |-> [a \in {} |-> <<>>]]
        /\ out = <<>> /\ tunout = 0 /\ sends = 0
        /\ timers = [n \in Nodes |-> [a \in {} |-> <<>>]] /\ early = FALSE
        /\ bad = [n \in Nodes |-> [a \in {} |-> {}]]
        /\ trust = Trusts

(* ---- the outbound handshake timer fired for address a: handleOutbound(a, false) ---- *)
\* One firing as a function on s = [pd, tm, ms, em, early]: pd = pend[n], tm = timer entries of a,
\* ms = msgs, em = emissions so far. The stage-0 datagram is built on the first attempt (index i allocated
\* then) and the same bytes are retransmitted to every known remote on every attempt; the entry is re-armed
\* with attempts * interval. After `Retries` attempts the next firing deletes the pending entry (and releases
\* its index) and does not re-arm. A firing that finds no pending handshake only consumes the entry.
Fire(n, a, s, i) ==
    IF a \notin DOMAIN s.pd THEN s
    ELSE LET p == s.pd[a] IN
      IF p.tries >= Retries
        THEN [s EXCEPT !.pd = [b \in DOMAIN s.pd \ {a} |-> s.pd[b]]]
        ELSE LET fresh == ~p.ready
                 id    == IF fresh THEN Len(s.ms) + 1 ELSE p.hs1
                 dsts  == SelectSeq(Route[n][a], LAMBDA d : d \notin Bad(n, a))
                 np    == [p EXCEPT !.ready = TRUE, !.idx = IF fresh THEN i ELSE p.idx, !.tries = p.tries + 1,
                                    !.hs1 = id, !.due = clock + (p.tries + 1)]
             IN [pd |-> [s.pd EXCEPT ![a] = np],
                 tm |-> Append(s.tm, clock + (p.tries + 1)),
                 ms |-> IF fresh THEN Append(s.ms, Hs1(n, i, clock)) ELSE s.ms,
                 em |-> s.em \o [k \in 1..Len(dsts) |-> [id |-> id, to |-> dsts[k]]],
                 early |-> s.early \/ clock < p.due]

RECURSIVE FireK(_, _, _, _, _)
FireK(n, a, s, i, k) == IF k = 0 THEN s ELSE FireK(n, a, Fire(n, a, s, i), i, k - 1)

\* remove k entries that are due from a sequence of due times
RECURSIVE DropDue(_, _)
DropDue(tm, k) == IF k = 0 THEN tm
                  ELSE LET j == CHOOSE j \in 1..Len(tm) : tm[j] <= clock /\ \A x \in 1..Len(tm) : tm[x] >= tm[j]
                       IN DropDue(SubSeq(tm, 1, j - 1) \o SubSeq(tm, j + 1, Len(tm)), k - 1)
DueCount(tm) == Cardinality({j \in 1..Len(tm) : tm[j] <= clock})
TimersOf(n, a) == IF a \in DOMAIN timers[n] THEN timers[n][a] ELSE <<>>
SetTimer(n, a, tm) == timers' = [timers EXCEPT ![n] = [b \in (DOMAIN timers[n] \cup {a}) |-> IF b = a THEN tm ELSE timers[n][b]]]

NewPending(q) == [ready |-> FALSE, idx |-> 0, tries |-> 0, hs1 |-> 0, queue |-> q, due |-> 0]

\* inside packet for a: send on the primary tunnel, or queue behind the pending handshake, or start one
TunSend(n, a, ok) ==
    /\ sends < MaxTunSends /\ sends' = sends + 1
    /\ a \notin Own[n]
    /\ tunout' = 0 /\ UNCHANGED <<early, bad, trust>>
    /\ IF a \in DOMAIN hosts[n] /\ ~ok
         THEN NoEmit /\ UNCHANGED <<msgs, pend, tuns, hosts, clock, timers>>      \* outbound firewall drops it
       ELSE IF a \in DOMAIN hosts[n]
         THEN LET t == tuns[n][Primary(n, a)] IN
              /\ msgs' = Append(msgs, Data(n, t.ridx, t.key, t.tx + 1))
              /\ tuns' = [tuns EXCEPT ![n][t.lidx].tx = t.tx + 1]
              /\ Emit(<<[id |-> Len(msgs) + 1, to |-> t.remote]>>)
              /\ UNCHANGED <<pend, hosts, clock, timers>>
         ELSE IF a \in DOMAIN pend[n]
           THEN /\ pend' = [pend EXCEPT ![n][a].queue = IF Len(@) < MaxQueue THEN Append(@, ok) ELSE @]
                /\ NoEmit /\ UNCHANGED <<msgs, tuns, hosts, clock, timers>>
           ELSE \* StartHandshake; the host is static so the first attempt is made at once
                \E i \in Idx \ (MainIdx(n) \cup PendIdx(n)) :
                   /\ LET p == NewPending(<<ok>>) IN
                      /\ msgs' = Append(msgs, Hs1(n, i, clock))
                      /\ pend' = [pend EXCEPT ![n] = @ @@ (a :> [p EXCEPT !.ready = TRUE, !.idx = i, !.tries = 1,
                                                                          !.hs1 = Len(msgs) + 1, !.due = clock + 1])]
                      /\ LET dsts == SelectSeq(Route[n][a], LAMBDA d : d \notin Bad(n, a)) IN
                         Emit([k \in 1..Len(dsts) |-> [id |-> Len(msgs) + 1, to |-> dsts[k]]])
                   /\ SetTimer(n, a, Append(TimersOf(n, a), clock + 1))
                   /\ UNCHANGED <<tuns, hosts, clock>>

\* ONE tun read that yields Len(oks) >= 1 inside packets for the same overlay address: a TSO/USO superpacket that the inside
\* reader cuts into its segments (consumeInsidePacket -> tio.SegmentSuperpacket); oks[j] = will the outbound firewall allow
\* segment j. The unit of every clause of C32 is the PACKET, not the read: with a tunnel every allowed segment is sent; behind a
\* pending handshake the segments are queued one by one under the same bound as single packets, so the queue takes the first
\* MaxQueue - Len(queue) of them and the rest is dropped; without a handshake one is started and the segments queue likewise.
BurstTake(q, oks) == LET room == MaxQueue - Len(q) IN
                     q \o SubSeq(oks, 1, IF Len(oks) < room THEN Len(oks) ELSE IF room > 0 THEN room ELSE 0)
TunSendBurst(n, a, oks) ==
    /\ Len(oks) >= 1
    /\ sends < MaxTunSends /\ sends' = sends + 1
    /\ a \notin Own[n]
    /\ tunout' = 0 /\ UNCHANGED <<early, bad, trust>>
    /\ IF a \in DOMAIN hosts[n]
         THEN LET t  == tuns[n][Primary(n, a)]
                  na == Len(SelectSeq(oks, LAMBDA b : b)) IN
              /\ msgs' = msgs \o [k \in 1..na |-> Data(n, t.ridx, t.key, t.tx + k)]
              /\ tuns' = [tuns EXCEPT ![n][t.lidx].tx = t.tx + na]
              /\ Emit([k \in 1..na |-> [id |-> Len(msgs) + k, to |-> t.remote]])
              /\ UNCHANGED <<pend, hosts, clock, timers>>
       ELSE IF a \in DOMAIN pend[n]
         THEN /\ pend' = [pend EXCEPT ![n][a].queue = BurstTake(@, oks)]
              /\ NoEmit /\ UNCHANGED <<msgs, tuns, hosts, clock, timers>>
         ELSE \E i \in Idx \ (MainIdx(n) \cup PendIdx(n)) :
                 /\ LET p == NewPending(BurstTake(<<>>, oks)) IN
                    /\ msgs' = Append(msgs, Hs1(n, i, clock))
                    /\ pend' = [pend EXCEPT ![n] = @ @@ (a :> [p EXCEPT !.ready = TRUE, !.idx = i, !.tries = 1,
                                                                        !.hs1 = Len(msgs) + 1, !.due = clock + 1])]
                    /\ LET dsts == SelectSeq(Route[n][a], LAMBDA d : d \notin Bad(n, a)) IN
                       Emit([k \in 1..Len(dsts) |-> [id |-> Len(msgs) + 1, to |-> dsts[k]]])
                 /\ SetTimer(n, a, Append(TimersOf(n, a), clock + 1))
                 /\ UNCHANGED <<tuns, hosts, clock>>
\* the bursts the exhaustive run tries (all segments of a superpacket share the 5-tuple, hence the firewall's answer)
BurstFlags == {<<TRUE, TRUE, TRUE>>, <<FALSE, FALSE, FALSE>>}

\* k entries of the timer wheel for address a fired in this tick (k = 1 unless stale entries exist)
Retry(n, a, k) ==
    /\ k >= 1 /\ DueCount(TimersOf(n, a)) >= k
    /\ tunout' = 0
    /\ \E i \in (IF a \in DOMAIN pend[n] /\ ~pend[n][a].ready /\ pend[n][a].tries < Retries
                 THEN Idx \ (MainIdx(n) \cup PendIdx(n)) ELSE {0}) :
          LET s0 == [pd |-> pend[n], tm |-> DropDue(TimersOf(n, a), k), ms |-> msgs, em |-> <<>>, early |-> early]
              s  == FireK(n, a, s0, i, k)
          IN /\ pend' = [pend EXCEPT ![n] = s.pd]
             /\ SetTimer(n, a, s.tm)
             /\ msgs' = s.ms
             /\ Emit(s.em)
             /\ early' = s.early
    /\ UNCHANGED <<tuns, hosts, clock, sends, bad, trust>>

(* ---- stage 1 received: beginHandshake ---- *)
RecvHs1(n, id, via) ==
    LET m == msgs[id]
        c == m.src
        va == m.cert
        first == va[1]
    IN
    /\ m.kind = "hs1"
    /\ tunout' = 0
    /\ UNCHANGED <<clock, sends, timers, early, trust>>
    /\ IF c \notin trust[n] \/ SetOf(va) \cap Own[n] # {}
         THEN NoEmit /\ UNCHANGED <<msgs, tuns, hosts, pend, bad>>      \* certificate refused / "myself"
       ELSE IF first \in DOMAIN hosts[n] /\ \E k \in 1..Len(hosts[n][first]) : tuns[n][hosts[n][first][k]].hs1 = id
         THEN \* ErrAlreadySeen: only the cached reply is resent
              LET k == CHOOSE k \in 1..Len(hosts[n][first]) : tuns[n][hosts[n][first][k]].hs1 = id
                  t == tuns[n][hosts[n][first][k]]
              IN /\ Emit(IF t.hs2 # 0 THEN <<[id |-> t.hs2, to |-> via]>> ELSE <<>>)
                 /\ UNCHANGED <<msgs, tuns, hosts, pend, bad>>
       ELSE IF first \in DOMAIN hosts[n] /\ tuns[n][Primary(n, first)].hsTime >= m.time /\ ~tuns[n][Primary(n, first)].init
         THEN \* ErrExistingHostInfo ("handshake too old"): a test request goes out on the existing primary
              LET t == tuns[n][Primary(n, first)] IN
              /\ msgs' = Append(msgs, Ctl("test", n, t.ridx, t.key, t.tx + 1))
              /\ tuns' = [tuns EXCEPT ![n][t.lidx].tx = t.tx + 1]
              /\ Emit(<<[id |-> Len(msgs) + 1, to |-> t.remote]>>)
              /\ UNCHANGED <<hosts, pend, bad>>
       ELSE \E i \in Idx :
              IF i \in MainIdx(n) \cup PendIdx(n)
                THEN NoEmit /\ UNCHANGED <<msgs, tuns, hosts, pend, bad>>     \* ErrLocalIndexCollision: handshake dropped
                ELSE LET rid == Len(msgs) + 1
                         t == [lidx |-> i, ridx |-> m.initIdx, addrs |-> va, peer |-> c, init |-> FALSE,
                               hsTime |-> m.time, hs1 |-> id, hs2 |-> rid, key |-> <<id, rid>>, remote |-> via,
                               tx |-> 2, rx |-> {}, roamFrom |-> NoNode, roamAt |-> 0]
                         r == AddTunnel(n, t)
                     IN /\ msgs' = Append(msgs, Hs2(n, id, m.initIdx, i, clock))
                        /\ hosts' = [hosts EXCEPT ![n] = r[1]]
                        /\ tuns'  = [tuns EXCEPT ![n] = r[2]]
                        /\ Emit(<<[id |-> rid, to |-> via]>>)
                        \* RefreshFromHandshake: the remote list of the peer's first address forgets its blocked
                        \* underlay addresses; a pending handshake for that address shares the list
                        /\ SetBad(n, first, {}) /\ UNCHANGED pend

(* ---- stage 2 received: continueHandshake ---- *)
\* late: inside packets (outbound-firewall flags) for the same address that the inside reader handles WHILE
\* continueHandshake is still releasing the queue (the two run on different goroutines). Whatever the interleaving,
\* each of them is sent exactly once like a queued one. <<>> = the sequential case.
RecvHs2(n, id, via, late) ==
    LET m == msgs[id]
        c == m.src
    IN
    /\ m.kind = "hs2"
    /\ sends' = sends + Len(late)
    /\ UNCHANGED <<clock, early, trust>>
    /\ (late # <<>> => \E a \in DOMAIN pend[n] : /\ pend[n][a].ready /\ pend[n][a].idx = m.initIdx /\ m.sess = pend[n][a].hs1
                                                /\ c \in trust[n] /\ SetOf(m.cert) \cap Own[n] = {} /\ a \in SetOf(m.cert))
    /\ IF ~(\E a \in DOMAIN pend[n] : pend[n][a].ready /\ pend[n][a].idx = m.initIdx)
         THEN NoEmit /\ tunout' = 0 /\ UNCHANGED <<msgs, pend, tuns, hosts, timers, bad>>      \* no pending handshake: orphan
         ELSE LET a == CHOOSE a \in DOMAIN pend[n] : pend[n][a].ready /\ pend[n][a].idx = m.initIdx
                  p == pend[n][a]
                  without == [b \in DOMAIN pend[n] \ {a} |-> pend[n][b]]
              IN
              IF m.sess # p.hs1
                THEN NoEmit /\ tunout' = 0 /\ UNCHANGED <<msgs, pend, tuns, hosts, timers, bad>>  \* not the answer to our stage 1: rejected, nothing changes
              ELSE IF c \notin trust[n] \/ SetOf(m.cert) \cap Own[n] # {}
                THEN \* invalid certificate / "myself": the handshake is abandoned
                     /\ pend' = [pend EXCEPT ![n] = without]
                     /\ NoEmit /\ tunout' = 0 /\ UNCHANGED <<msgs, tuns, hosts, timers, bad>>
              ELSE IF a \notin SetOf(m.cert)
                THEN \* wrong host answered: close towards it, block that underlay address, start over with the queue
                     LET key == <<p.hs1, id>>
                         np  == NewPending(p.queue)
                         nbad == Bad(n, a) \cup {via}
                         dsts == SelectSeq(Route[n][a], LAMBDA d : d \notin nbad)
                     IN \E i \in Idx \ (MainIdx(n) \cup (PendIdx(n) \ {p.idx})) :
                        /\ tunout' = 0
                        /\ IF dsts # <<>>
                             THEN /\ msgs' = msgs \o <<Ctl("close", n, m.respIdx, key, 3), Hs1(n, i, clock)>>
                                  /\ pend' = [pend EXCEPT ![n] = without @@ (a :> [np EXCEPT !.ready = TRUE, !.idx = i, !.tries = 1,
                                                                                   !.hs1 = Len(msgs) + 2, !.due = clock + 1])]
                                  /\ Emit(<<[id |-> Len(msgs) + 1, to |-> via]>> \o
                                          [k \in 1..Len(dsts) |-> [id |-> Len(msgs) + 2, to |-> dsts[k]]])
                             ELSE /\ msgs' = Append(msgs, Ctl("close", n, m.respIdx, key, 3))
                                  /\ pend' = [pend EXCEPT ![n] = without @@ (a :> [np EXCEPT !.due = clock + 1])]
                                  /\ Emit(<<[id |-> Len(msgs) + 1, to |-> via]>>)
                        /\ SetTimer(n, a, Append(TimersOf(n, a), clock + 1))   \* StartHandshake arms a new entry; the old one stays
                        /\ SetBad(n, a, nbad)
                        /\ UNCHANGED <<tuns, hosts>>
              ELSE \* Complete: the pending entry becomes a tunnel, queued packets are released in order
                   LET key == <<p.hs1, id>>
                       nAllowed == Len(SelectSeq(p.queue, LAMBDA b : b)) + Len(SelectSeq(late, LAMBDA b : b))
                                                                                \* released only if the outbound firewall allows it
                       t == [lidx |-> p.idx, ridx |-> m.respIdx, addrs |-> m.cert, peer |-> c, init |-> TRUE,
                             hsTime |-> m.time, hs1 |-> p.hs1, hs2 |-> 0, key |-> key, remote |-> via,
                             tx |-> 2 + nAllowed, rx |-> {}, roamFrom |-> NoNode, roamAt |-> 0]
                       r == AddTunnel(n, t)
                   IN /\ pend' = [pend EXCEPT ![n] = without]
                      /\ hosts' = [hosts EXCEPT ![n] = r[1]]
                      /\ tuns'  = [tuns EXCEPT ![n] = r[2]]
                      /\ msgs' = msgs \o [k \in 1..nAllowed |-> Data(n, m.respIdx, key, 2 + k)]
                      /\ Emit([k \in 1..nAllowed |-> [id |-> Len(msgs) + k, to |-> via]])
                      /\ tunout' = 0 /\ UNCHANGED timers
                      /\ SetBad(n, a, {})                                        \* RefreshFromHandshake

(* ---- data / test / close received ---- *)
\* handleHostRoaming: an authenticated packet from another underlay address moves the tunnel there, unless it is a
\* move back to the previous address within the suppression time (RoamingSuppressSeconds = 2 s = 20 ticks)
RoamSuppress == 20
Roamed(t, via) == IF via = t.remote THEN t
                  ELSE IF t.roamFrom = via /\ clock - t.roamAt < RoamSuppress THEN t
                  ELSE [t EXCEPT !.remote = via, !.roamFrom = t.remote, !.roamAt = clock]

RecvData(n, id, via) ==
    LET m == msgs[id] IN
    /\ m.kind \in {"data", "test", "testreply", "close"}
    /\ UNCHANGED <<clock, pend, sends, timers, early, bad, trust>>
    /\ IF m.respIdx \in DOMAIN tuns[n] /\ tuns[n][m.respIdx].key = m.key /\ tuns[n][m.respIdx].peer = m.src
          /\ m.ctr \notin tuns[n][m.respIdx].rx
         THEN LET t == [Roamed(tuns[n][m.respIdx], via) EXCEPT !.rx = @ \cup {m.ctr}] IN
              CASE m.kind = "data" ->
                     /\ tuns' = [tuns EXCEPT ![n][t.lidx] = t]
                     /\ tunout' = 1 /\ NoEmit /\ UNCHANGED <<msgs, hosts>>
                [] m.kind = "test" ->
                     /\ msgs' = Append(msgs, Ctl("testreply", n, t.ridx, t.key, t.tx + 1))
                     /\ tuns' = [tuns EXCEPT ![n][t.lidx] = [t EXCEPT !.tx = t.tx + 1]]
                     /\ Emit(<<[id |-> Len(msgs) + 1, to |-> t.remote]>>)
                     /\ tunout' = 0 /\ UNCHANGED hosts
                [] m.kind = "testreply" ->
                     /\ tuns' = [tuns EXCEPT ![n][t.lidx] = t]
                     /\ tunout' = 0 /\ NoEmit /\ UNCHANGED <<msgs, hosts>>
                [] m.kind = "close" ->
                     LET r == DelTunnel(hosts[n], tuns[n], t.lidx) IN
                     /\ hosts' = [hosts EXCEPT ![n] = r[1]]
                     /\ tuns'  = [tuns EXCEPT ![n] = r[2]]
                     /\ tunout' = 0 /\ NoEmit /\ UNCHANGED msgs
         ELSE \* unknown index, wrong key, or replayed counter: no effect (a recv_error may be sent for an unknown index)
              /\ tunout' = 0 /\ NoEmit /\ UNCHANGED <<msgs, tuns, hosts>>

\* The timer wheel fires every entry that is due before time moves on: when a try interval ends, no node has a pending
\* handshake whose timer entry is still waiting although it was due ("retransmitted ... and abandoned after the configured
\* number of attempts": a pending handshake never falls out of the timer).  Entries for addresses without a pending
\* handshake fire invisibly (handleOutbound finds nothing) and are not constrained.
\* (an entry that is due in interval c fires in one of the intervals c .. c+2: the wheel rounds up, and once more for entries
\* added before its first advance; measured on the recorded runs, the bound itself is C33's subject)
\* The handshake's own schedule (due) is used: older entries for the same address may already have fired unseen while
\* nothing was pending.
NoOverdue == \A n \in Nodes : \A a \in DOMAIN pend[n] : pend[n][a].ready => pend[n][a].due + 2 >= clock
Tick == /\ clock < MaxClock
        /\ NoOverdue
        /\ clock' = clock + 1
        /\ NoEmit /\ tunout' = 0
        /\ UNCHANGED <<msgs, pend, tuns, hosts, sends, timers, early, bad, trust>>

\* pki.ca / pki.blocklist reloaded at node n: from now on the certificates of S verify (C05: a handshake completes only with
\* a peer whose certificate verifies when the handshake message is handled -- not when the handshake was started)
Retrust(n, S) == /\ S \subseteq Trusts[n]
                 /\ trust' = [trust EXCEPT ![n] = S]
                 /\ NoEmit /\ tunout' = 0
                 /\ UNCHANGED <<clock, msgs, pend, tuns, hosts, sends, timers, early, bad>>

Deliver == \E n \in Nodes, id \in 1..Len(msgs) : \E via \in Nodes \ {n} :
              RecvHs1(n, id, via) \/ RecvHs2(n, id, via, <<>>) \/ RecvData(n, id, via)

Next == /\ Len(msgs) < MaxMsgs
        /\ \/ \E n \in Nodes, a \in Addrs : (\E ok \in BOOLEAN : TunSend(n, a, ok)) \/ Retry(n, a, 1)
           \/ Deliver
           \/ Tick

Spec == Init /\ [][Next]_vars

\* the same system when tun reads may be superpackets (MC_HsManager_burst.cfg; kept apart from Next so that the exhaustive
\* run shared by C09/C10/C32 keeps its size)
NextBurst == \/ Next
             \/ /\ Len(msgs) < MaxMsgs
                /\ \E n \in Nodes, a \in Addrs : \E oks \in BurstFlags : TunSendBurst(n, a, oks)
SpecBurst == Init /\ [][NextBurst]_vars

\* the same system when trust may be withdrawn and given back at any time (MC_HsManager_trust.cfg)
NextTrust == \/ Next
             \/ \E n \in Nodes : \E x \in Trusts[n] : Retrust(n, trust[n] \ {x}) \/ Retrust(n, Trusts[n])
SpecTrust == Init /\ [][NextTrust]_vars

-----------------------------------------------------------------------------
(* Structural invariants of the hostmap (C28/C29 at system level) *)
HostsOK == \A n \in Nodes : \A a \in DOMAIN hosts[n] :
              /\ hosts[n][a] # <<>> /\ Len(hosts[n][a]) <= MaxPerAddr
              /\ \A k \in 1..Len(hosts[n][a]) : /\ hosts[n][a][k] \in DOMAIN tuns[n]
                                                /\ a \in SetOf(tuns[n][hosts[n][a][k]].addrs)
              /\ \A j, k \in 1..Len(hosts[n][a]) : j # k => hosts[n][a][j] # hosts[n][a][k]
TunsListed == \A n \in Nodes : \A i \in DOMAIN tuns[n] : \A a \in SetOf(tuns[n][i].addrs) :
                 a \in DOMAIN hosts[n] /\ i \in SetOf(hosts[n][a])
IndexesDisjoint == \A n \in Nodes : MainIdx(n) \cap PendIdx(n) = {} /\ 0 \notin MainIdx(n) \cup PendIdx(n)

(* C09: tunnels are bound to the certified overlay address *)
C09_Bound == \A n \in Nodes : \A a \in DOMAIN hosts[n] : \A k \in 1..Len(hosts[n][a]) :
               LET t == tuns[n][hosts[n][a][k]] IN
                 /\ t.peer \in Trusts[n]                        \* created from a certificate that verified
                 /\ t.addrs \in {InitCert[t.peer], RespCert[t.peer]}   \* the tunnel serves exactly that certificate's addresses
                 /\ a \in SetOf(t.addrs)                              \* ... which lists a
                 /\ SetOf(t.addrs) \cap Own[n] = {}                   \* never one of my own addresses
\* an initiator's pending handshake for a is completed only by a certificate listing a
C09_Initiator == [][\A n \in Nodes : \A a \in DOMAIN pend[n] :
                      (a \notin DOMAIN pend'[n] \/ pend'[n][a].hs1 # pend[n][a].hs1) /\ pend[n][a].ready
                      /\ pend[n][a].idx \in DOMAIN tuns'[n] /\ pend[n][a].idx \notin DOMAIN tuns[n]
                      => a \in SetOf(tuns'[n][pend[n][a].idx].addrs)]_vars

(* C10: replayed handshakes (the "only resends the cached reply" clause is the AlreadySeen branch of RecvHs1) *)
\* the time rule: the primary of an address created as responder is never displaced by an older-or-equal stage 1
C10_TooOld == [][\A n \in Nodes : \A a \in DOMAIN hosts[n] :
                   LET old == tuns[n][Primary(n, a)] IN
                   (a \in DOMAIN hosts'[n] /\ hosts'[n][a][1] # Primary(n, a) /\ hosts'[n][a][1] \notin DOMAIN tuns[n]
                      /\ ~tuns'[n][hosts'[n][a][1]].init /\ ~old.init)
                     => tuns'[n][hosts'[n][a][1]].hsTime > old.hsTime]_vars
\* no two tunnels of a node were created from the same stage-1 datagram
C10_OnePerHs1 == \A n \in Nodes : \A i, j \in DOMAIN tuns[n] :
                    (i # j /\ ~tuns[n][i].init /\ ~tuns[n][j].init) => tuns[n][i].hs1 # tuns[n][j].hs1

(* C32: queue bound *)
C32_Queue == \A n \in Nodes : \A a \in DOMAIN pend[n] : Len(pend[n][a].queue) <= MaxQueue /\ pend[n][a].tries <= Retries

(* C32: linear back-off -- no retransmission before the pending handshake's own delay has passed *)
C32_NoEarlyRetry == ~early

View == <<clock, msgs, pend, tuns, hosts, sends, timers, early>>
=============================================================================
