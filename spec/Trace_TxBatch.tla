---------------------------- MODULE Trace_TxBatch ----------------------------
(* Trace validation of recorded WriteBatch executions against TxBatch.tla.  One ndjson line per event:               *)
(*   {"ev":"reset","batch":[[dst,size],...],"gso":true,"me":128,"ms":63}   a fresh batchWriter (entries per call,     *)
(*        segments per offloaded entry) and the batch handed to it                                                  *)
(*   {"ev":"send","start":s,"n":n,"ents":[{"dst":d,"seg":z,"ids":[..],"lens":[..]},..],"k":k,"err":"none|eio|other"} *)
(*        one sendFn call: the n entries the kernel was shown, decoded from the iovecs / cmsg / sockaddr (ids: 1-based *)
(*        index of the datagram an iovec points at, 0 for an empty datagram), and the kernel's answer                *)
(*   {"ev":"ret","written":w,"err":false}                          WriteBatch's return                               *)
(*                                                                                                                  *)
(* The verdict is reference-level: RefShape, RefInOrderOnce, RefCount are evaluated on what the kernel was shown and  *)
(* took, whatever the implementation's chunking.  Next to it TLC runs the machine of TxBatch.tla on the same batch     *)
(* and answers and records (Conforms) whether every call of the implementation is the call the machine makes; that    *)
(* tells whether the exhaustive results for the machine carry over to the code, it is not part of the verdict.        *)
EXTENDS TxBatch, Json

Log == ndJsonDeserialize("trace.ndjson")

VARIABLES tl,        \* next line
          tptr,      \* reference: subsequence matcher state (InOrderOnce)
          tacc,      \* reference: number of datagrams the kernel accepted
          tshape, tcount,    \* reference: every entry shown so far was well formed / the reported count was right
          mok        \* the implementation's calls are the machine's calls so far
tvars == <<vars, tl, tptr, tacc, tshape, tcount, mok>>

BadSet == {9} \cup (1000..1999)     \* destinations of the wrong family: 9 (replayed model batches), 1000.. (random batches)

TraceInit == /\ StartState(<<>>, FALSE) /\ tl = 1
             /\ tptr = NoPtr(<<>>) /\ tacc = 0 /\ tshape = TRUE /\ tcount = TRUE /\ mok = TRUE

IsEvent(e) == tl <= Len(Log) /\ Log[tl].ev = e /\ tl' = tl + 1

ToBatch(x) == [j \in 1..Len(x) |-> [dst |-> x[j][1], size |-> x[j][2]]]

TraceReset ==
    /\ IsEvent("reset")
    /\ LET b == ToBatch(Log[tl].batch) IN
         /\ batch' = b
         /\ SetM(RunToCall(b, MInit(Log[tl].gso, Log[tl].me, Log[tl].ms)))
         /\ tptr' = NoPtr(b)
    /\ acc' = <<>> /\ wire' = <<>> /\ faulty' = FALSE
    /\ tacc' = 0 /\ tshape' = TRUE /\ tcount' = TRUE /\ mok' = TRUE

TraceSend ==
    /\ IsEvent("send")
    /\ LET L == Log[tl]
           took == Flat([e \in 1..L.k |-> [j \in 1..Len(L.ents[e].ids) |-> <<L.ents[e].ids[j], L.ents[e].dst>>]])
           conf == mok /\ AtCall /\ L.k <= L.n /\ CallOf(batch, MState) = [start |-> L.start, n |-> L.n, ents |-> L.ents]
       IN /\ tshape' = (tshape /\ Len(L.ents) = L.n /\ L.k <= L.n /\ \A e \in 1..L.n : EntryOK(batch, L.ents[e], ms))
          /\ tptr' = Match(batch, tptr, took)
          /\ tacc' = tacc + Len(took)
          /\ mok' = conf
          /\ IF conf THEN SetM(RunToCall(batch, Answer(MState, L.k, L.err)))
                     ELSE UNCHANGED <<mvars, ret>>
    /\ UNCHANGED <<batch, acc, wire, faulty, tcount>>

TraceRet ==
    /\ IsEvent("ret")
    /\ tcount' = (tcount /\ Log[tl].written = tacc)
    /\ mok' = (mok /\ pc = "done" /\ written = Log[tl].written /\ reterr = Log[tl].err)
    /\ UNCHANGED <<vars, tptr, tacc, tshape>>

TraceNext == TraceReset \/ TraceSend \/ TraceRet
TraceSpec == TraceInit /\ [][TraceNext]_tvars

\* the statement, on what was observed
RefShape       == tshape          \* one destination, equal sizes except a shorter last, within the limits
RefInOrderOnce == tptr.ok         \* accepted at most once, same-destination order kept
RefCount       == tcount          \* reported count = datagrams the kernel accepted
\* the implementation follows the machine of TxBatch.tla
Conforms == mok

TraceAccepted == TLCGet("stats").diameter - 1 = Len(Log)
=============================================================================
