------------------------------- MODULE Balance -------------------------------
(***************************************************************************)
(* Multipath routing over weighted gateways (routing/gateway.go,           *)
(* routing/balance.go) -- property C40.                                    *)
(*                                                                         *)
(* The flow hash space is 0..2^H-1.  A gateway list with weights w_1..w_n  *)
(* gets bucket upper bounds b_1..b_n; we work with the exclusive ends      *)
(* e_i = b_i + 1 (e_0 = 0), so bucket i is e_(i-1) .. e_i - 1.             *)
(*                                                                         *)
(* Reference layer = the statement as a relation between weights and ends. *)
(* Machine = the code's hash-threshold formula and first-fit walk.  TLC    *)
(* checks machine => reference exhaustively at H = 8.  At the real H = 31  *)
(* the products exceed TLC's 32-bit integers: the same relation is written *)
(* over little-endian limb sequences (base 2^12) and evaluated by          *)
(* Trace_Balance on what the real code produced; at H = 8 TLC checks that  *)
(* both forms of the relation agree on every state.                        *)
(***************************************************************************)
EXTENDS Integers, Sequences, FiniteSets, TLC

CONSTANTS H,        \* hash bits of the exhaustive model (8)
          MaxGw,    \* gateways per list (4)
          MaxW      \* weights 1..MaxW (6)

RECURSIVE Pow2(_)
Pow2(n) == IF n = 0 THEN 1 ELSE 2 * Pow2(n - 1)
RECURSIVE SumTo(_, _)
SumTo(w, i) == IF i = 0 THEN 0 ELSE SumTo(w, i - 1) + w[i]
Total(w) == SumTo(w, Len(w))

-----------------------------------------------------------------------------
(* Reference layer (integers)                                              *)
End(e, i) == IF i = 0 THEN 0 ELSE e[i]

\* monotone bounds
Monotone(e) == \A i \in 1..Len(e) : End(e, i - 1) <= e[i]
\* the buckets cover the whole space: they start at 0 (e_0), are adjacent by construction, and end at 2^H
Covers(e, h) == Len(e) > 0 /\ e[Len(e)] = Pow2(h)
\* share of gateway i within rounding of w_i / Total: it is the exact share rounded down or up
ShareOK(w, e, h, i) == LET s == e[i] - End(e, i - 1)
                           t == Total(w)
                       IN s * t < w[i] * Pow2(h) + t /\ w[i] * Pow2(h) < s * t + t
RefOK(w, e, h) == /\ Len(e) = Len(w)
                  /\ Monotone(e)
                  /\ Covers(e, h)
                  /\ \A i \in 1..Len(w) : ShareOK(w, e, h, i)

\* the gateway of hash x: the bucket that contains x (unique when RefOK)
InBucket(e, x, g) == g \in 1..Len(e) /\ End(e, g - 1) <= x /\ x < e[g]

-----------------------------------------------------------------------------
(* Machine: hash-threshold mapping as in the code                          *)
MEnds(w, h) == [i \in 1..Len(w) |-> (SumTo(w, i) * Pow2(h) + (Total(w) \div 2)) \div Total(w)]
\* BalancePacket: the first gateway whose upper bound (e_i - 1) is >= the hash; 0 = the fallback branch ("not calculated")
RECURSIVE MWalk(_, _, _)
MWalk(e, x, i) == IF i > Len(e) THEN 0 ELSE IF x <= e[i] - 1 THEN i ELSE MWalk(e, x, i + 1)
MChoice(e, x) == MWalk(e, x, 1)

\* the choice is a function of the port pair and the bucket table only: packets are [lp, rp, la, ra, proto, frag],
\* the hash reads lp and rp
HashOf(hf, pkt) == hf[pkt.lp, pkt.rp]
Choose(hf, e, pkt) == MChoice(e, HashOf(hf, pkt))

-----------------------------------------------------------------------------
(* Wide naturals: little-endian sequences of limbs 0..Base-1, no leading   *)
(* (most significant) zero limbs; <<>> is 0.                               *)
Base == 4096
RECURSIVE ToL(_)
ToL(n) == IF n = 0 THEN <<>> ELSE <<n % Base>> \o ToL(n \div Base)
Limb(x, i) == IF i <= Len(x) THEN x[i] ELSE 0
RECURSIVE LStrip(_)
LStrip(x) == IF x # <<>> /\ x[Len(x)] = 0 THEN LStrip(SubSeq(x, 1, Len(x) - 1)) ELSE x
RECURSIVE LAddC(_, _, _, _)
LAddC(x, y, i, c) == IF i > Len(x) /\ i > Len(y) THEN (IF c = 0 THEN <<>> ELSE <<c>>)
                     ELSE LET s == Limb(x, i) + Limb(y, i) + c IN <<s % Base>> \o LAddC(x, y, i + 1, s \div Base)
LAdd(x, y) == LStrip(LAddC(x, y, 1, 0))
RECURSIVE LMulD(_, _, _, _)
\* x times the single limb d
LMulD(x, d, i, c) == IF i > Len(x) THEN (IF c = 0 THEN <<>> ELSE <<c>>)
                     ELSE LET s == x[i] * d + c IN <<s % Base>> \o LMulD(x, d, i + 1, s \div Base)
RECURSIVE LMulFrom(_, _, _)
LMulFrom(x, y, j) == IF j > Len(y) THEN <<>>
                     ELSE LET rest == LMulFrom(x, y, j + 1)
                          IN LAdd(LStrip(LMulD(x, y[j], 1, 0)), (IF rest = <<>> THEN <<>> ELSE <<0>> \o rest))
LMul(x, y) == LStrip(LMulFrom(x, y, 1))
RECURSIVE LLessFrom(_, _, _)
LLessFrom(x, y, i) == IF i = 0 THEN FALSE ELSE IF x[i] # y[i] THEN x[i] < y[i] ELSE LLessFrom(x, y, i - 1)
LLess(x, y) == IF Len(x) # Len(y) THEN Len(x) < Len(y) ELSE LLessFrom(x, y, Len(x))
LLeq(x, y) == x = y \/ LLess(x, y)
\* 2^n: n \div 12 zero limbs below the limb 2^(n % 12)   (Base = 2^12)
LPow2(n) == [i \in 1..((n \div 12) + 1) |-> IF i = (n \div 12) + 1 THEN Pow2(n % 12) ELSE 0]
IsWide(x) == /\ \A i \in 1..Len(x) : x[i] \in 0..(Base - 1)
             /\ x = <<>> \/ x[Len(x)] # 0

RECURSIVE LSumTo(_, _)
LSumTo(w, i) == IF i = 0 THEN <<>> ELSE LAdd(LSumTo(w, i - 1), w[i])
LEnd(e, i) == IF i = 0 THEN <<>> ELSE e[i]

\* the reference relation once more, over wide naturals (w, e: sequences of wide naturals), no subtraction
WMonotone(e) == \A i \in 1..Len(e) : LLeq(LEnd(e, i - 1), e[i])
WCovers(e, h) == Len(e) > 0 /\ e[Len(e)] = LPow2(h)
WShareOK(w, e, h, i) == LET t    == LSumTo(w, Len(w))
                            wp   == LMul(w[i], LPow2(h))
                            hi   == LMul(e[i], t)
                            lo   == LMul(LEnd(e, i - 1), t)
                        IN LLess(hi, LAdd(LAdd(wp, t), lo)) /\ LLess(LAdd(wp, lo), LAdd(hi, t))
WRefOK(w, e, h) == /\ Len(e) = Len(w)
                   /\ WMonotone(e)
                   /\ WCovers(e, h)
                   /\ \A i \in 1..Len(w) : WShareOK(w, e, h, i)
WInBucket(e, x, g) == g \in 1..Len(e) /\ LLeq(LEnd(e, g - 1), x) /\ LLess(x, e[g])

-----------------------------------------------------------------------------
(* Exhaustive model at H: every gateway list                               *)
WeightLists == UNION { [1..n -> 1..MaxW] : n \in 1..MaxGw }

VARIABLES w, exp
vars == <<w, exp>>
\* (a root and one staging state per first weight, whose successors are the gateway lists: TLC evaluates the
\* invariants of the successors of different states with different workers)
Init == w = <<>> /\ exp = [ends |-> <<>>, total |-> 0]
Next == \/ w = <<>> /\ \E a \in 1..MaxW : w' = <<a>> /\ exp' = [ends |-> <<>>, total |-> -1]
        \/ exp.total = -1 /\ w' \in { x \in WeightLists : x[1] = w[1] } /\ exp' = [ends |-> MEnds(w', H), total |-> Total(w')]
Root == exp.total <= 0
Spec == Init /\ [][Next]_vars

\* link: the code's formula satisfies the statement's relation ...
MachineRefines == Root \/ RefOK(w, exp.ends, H)
\* ... and its first-fit walk picks, for every hash, the bucket that contains it (never the fallback)
WalkRefines == Root \/ \A x \in 0..(Pow2(H) - 1) : InBucket(exp.ends, x, MChoice(exp.ends, x))
\* cover without gaps or overlaps, said directly: every hash lies in exactly one bucket
ExactlyOneBucket == Root \/ \A x \in 0..(Pow2(H) - 1) : Cardinality({ g \in 1..Len(w) : InBucket(exp.ends, x, g) }) = 1
\* the choice depends on the port pair only (a stand-in hash over 2 x 2 ports; addresses, protocol, fragment vary)
Pkts == [lp : {0, 1}, rp : {0, 1}, la : {"x", "y"}, ra : {"x", "y"}, proto : {6, 17}, frag : BOOLEAN]
StandIn == [a \in {0, 1}, b \in {0, 1} |-> (a * 173 + b * 89 + 7 * Total(w)) % Pow2(H)]
PortPairOnly == Root \/ LET hf == StandIn
                    e  == exp.ends
                IN \A p1 \in Pkts : Choose(hf, e, p1) = Choose(hf, e, [p1 EXCEPT !.la = "x", !.ra = "x", !.proto = 6, !.frag = FALSE])
\* the wide form of the relation agrees with the integer form (here on correct tables and on tables damaged in one entry)
Damaged == { exp.ends } \cup { [exp.ends EXCEPT ![i] = @ + d] : i \in {1, Len(w)}, d \in {-1, 1, 2} }
WideAgrees == Root \/ \A e \in { x \in Damaged : \A i \in 1..Len(x) : x[i] >= 0 } :
                 LET ww == [i \in 1..Len(w) |-> ToL(w[i])]
                     we == [i \in 1..Len(e) |-> ToL(e[i])]
                 IN /\ WRefOK(ww, we, H) = RefOK(w, e, H)
                    /\ \A i \in 1..Len(e) : IsWide(we[i])
WideArithmetic == Root \/ LET a == exp.total * Pow2(H) + 77
                      b == exp.ends[Len(w)] + 4095
                  IN /\ LAdd(ToL(a), ToL(b)) = ToL(a + b)
                     /\ LMul(ToL(b), ToL(exp.total * 4099)) = ToL(b * exp.total * 4099)
                     /\ LLess(ToL(a), ToL(b)) = (a < b) /\ LLess(ToL(b), ToL(a)) = (b < a)
                     /\ LPow2(H + 13) = ToL(Pow2(H + 13))
=============================================================================
