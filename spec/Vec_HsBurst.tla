---------------------------- MODULE Vec_HsBurst ----------------------------
(***************************************************************************)
(* C32, queue bound under superpackets -- vectors for the object-level     *)
(* binding harness/_root/zz_verif_c32_burst_test.go.                       *)
(*                                                                         *)
(* Two nodes of HsManager.tla with the code's queue bound (MaxQueue = 100). *)
(* Node A reads `fill` single inside packets for b1 from its tun (TunSend, *)
(* outbound-firewall flags after pattern `pat`), then ONE superpacket of k *)
(* segments (TunSendBurst, all segments share the firewall's answer `ok`), *)
(* then B answers the handshake (RecvHs1) and A completes it (RecvHs2):    *)
(* the queue is released.  The prefix of single packets is shared by all   *)
(* vectors of a pattern; a vector is one branch                            *)
(*      ... -> TunSendBurst -> RecvHs1 -> RecvHs2  (pc = "done").          *)
(* Reference (the statement, packet by packet): RefQueue -- the packets    *)
(* read so far in order, at most MaxQueue of them; released are exactly    *)
(* the queued ones the firewall allows, in order.                          *)
(***************************************************************************)
EXTENDS HsManager

CONSTANT Thorough
VARIABLES in, pc, q
vvars == <<in, pc, q>>

VNodes == {"A", "B"}
VAddrs == {"a1", "b1"}
VCert  == [n \in VNodes |-> IF n = "A" THEN <<"a1">> ELSE <<"b1">>]
VOwn   == [n \in VNodes |-> {VCert[n][1]}]
VTrusts == [n \in VNodes |-> VNodes]
VRoute == [n \in VNodes |-> [a \in VAddrs |-> IF n = "A" /\ a = "b1" THEN <<"B">> ELSE IF n = "B" /\ a = "a1" THEN <<"A">> ELSE <<>>]]

Pats == {"allow", "deny", "alternate"}
Flag(pat, j) == CASE pat = "allow" -> TRUE [] pat = "deny" -> FALSE [] OTHER -> (j % 2 = 1)
Ks == IF Thorough THEN {1, 2, 3, 10, 45, 64, 120} ELSE {1, 2, 10, 64}
Fills(k) == {0, 1} \cup { f \in (MaxQueue - k - 1)..MaxQueue : f >= 0 }

RefQueue(i) == LET n   == i.fill + i.k
                   all == [j \in 1..n |-> IF j <= i.fill THEN Flag(i.pat, j) ELSE i.ok]
               IN SubSeq(all, 1, IF n < MaxQueue THEN n ELSE MaxQueue)
Allowed(s) == Cardinality({j \in 1..Len(s) : s[j]})

VInit == /\ Init
         /\ \E p \in Pats : in = [pat |-> p, fill |-> 0, k |-> 0, ok |-> TRUE]
         /\ pc = "fill" /\ q = <<>>

VNext == \/ /\ pc = "fill" /\ sends < MaxQueue
            /\ TunSend("A", "b1", Flag(in.pat, sends + 1))
            /\ UNCHANGED vvars
         \/ /\ pc = "fill"
            /\ \E k \in Ks : /\ sends \in Fills(k)
                             /\ \E ok \in BOOLEAN :
                                  /\ TunSendBurst("A", "b1", [j \in 1..k |-> ok])
                                  /\ in' = [in EXCEPT !.fill = sends, !.k = k, !.ok = ok]
            /\ pc' = "burst" /\ q' = pend'["A"]["b1"].queue
         \/ /\ pc = "burst" /\ RecvHs1("B", 1, "A") /\ pc' = "hs1" /\ UNCHANGED <<in, q>>
         \/ /\ pc = "hs1" /\ RecvHs2("A", 2, "B", <<>>) /\ pc' = "done" /\ UNCHANGED <<in, q>>
VSpec == VInit /\ [][VNext]_<<vars, vvars>>

\* link: the machine's queue is the statement's, and completion releases exactly the allowed ones
VQueueRef == pc # "fill" => q = RefQueue(in) /\ Len(q) <= MaxQueue
VReleaseRef == pc = "done" => /\ Len(out) = Allowed(q)
                              /\ "b1" \notin DOMAIN pend["A"]
                              /\ "b1" \in DOMAIN hosts["A"]
                              /\ \A j \in 1..Len(out) : msgs[out[j].id].kind = "data" /\ msgs[out[j].id].ctr = 2 + j
=============================================================================
