-------------------------------- MODULE Relay --------------------------------
(***************************************************************************)
(* Relay control protocol and forwarding (relay_manager.go, outside.go,    *)
(* hostmap.go) -- C39, written as a permission specification: it does not  *)
(* predict which records a node creates, it says which changes a node may  *)
(* make in which step and when it may forward.                             *)
(*                                                                         *)
(* A relay record lives on a tunnel (peer = the authenticated owner of the *)
(* tunnel) and names the overlay address it relays for / through (addr):   *)
(*    [peer, tun, addr, type \in {"terminal","forwarding"}, state, lidx,   *)
(*     ridx]   (tun tells apart several tunnels with the same peer)        *)
(* A step is one authenticated datagram handled by node n (sender s known  *)
(* from the tunnel that authenticated it), a local send that starts        *)
(* relays, or the loss of a tunnel.                                        *)
(***************************************************************************)
EXTENDS Integers, Sequences, FiniteSets, TLC

CONSTANTS ReloadNodes,  \* closed world only: the nodes whose relay.am_relay the environment reconfigures
          Nodes,        \* node names (= certificate names)
          AddrOf,       \* [Nodes -> overlay address name]
          AmRelay       \* [Nodes -> BOOLEAN] relay.am_relay as first configured (a reload may change it: am)

States == {"requested", "established", "peerrequested", "disestablished"}
Rec == [peer : Nodes, tun : Nat, addr : STRING, type : {"terminal", "forwarding"}, state : States, lidx : Nat, ridx : Nat]

VARIABLES recs,      \* recs[n] : set of relay records of node n
          tuns,      \* tuns[n] : set of peers n has a tunnel with
          ridx,      \* ridx[n] : the node's table of relay indexes (HostMap.Relays): set of <<index, tunnel it leads to>>
          am         \* am[n]   : relay.am_relay as currently configured: "on", "off", or "was" (off now, on earlier)

vars == <<recs, tuns, ridx, am>>

Key(r) == <<r.peer, r.addr, r.tun>>
Keys(S) == {Key(r) : r \in S}
ByKey(S, k) == CHOOSE r \in S : Key(r) = k
OwnerOf(a) == CHOOSE n \in Nodes : AddrOf[n] = a

Init == recs = [n \in Nodes |-> {}] /\ tuns = [n \in Nodes |-> {}] /\ ridx = [n \in Nodes |-> {}] /\ am = [n \in Nodes |-> IF AmRelay[n] THEN "on" ELSE "off"]

\* relay indexes disappear with the tunnel that owns them: every index the node would still accept relayed packets on
\* belongs to a relay record of a tunnel the node holds (tun = 0 names a tunnel that is gone)
RidxOK(S, ri) == \A e \in ri : \E r \in S : r.lidx = e[1] /\ r.tun = e[2]
IdxOf(S) == {<<r.lidx, r.tun>> : r \in S}

\* valid life of one record
ValidTransition(old, new) ==
    \/ old = new
    \/ /\ old.type = new.type /\ old.lidx = new.lidx                       \* a record keeps its type and local index
       /\ <<old.state, new.state>> \in {<<"requested", "established">>, <<"peerrequested", "established">>,
                                        <<"established", "requested">>,    \* the relay's own peers ask again
                                        <<"established", "disestablished">>, <<"requested", "disestablished">>,
                                        <<"peerrequested", "disestablished">>,
                                        <<"disestablished", "requested">>, <<"disestablished", "established">>,
                                        <<"established", "established">>, <<"requested", "requested">>,
                                        <<"peerrequested", "peerrequested">>, <<"peerrequested", "requested">>}

\* the record concerns the relay between the tunnel's peer and the owner of addr: only those two may cause a change
Concerns(k, s) == k[1] = s \/ k[2] = AddrOf[s]

\* one key's change is acceptable when caused by an authenticated control message from s
\* a leg that this node REQUESTED becomes established only through the answer of the peer that was asked (the tunnel's
\* peer), never through a message of the relay's other party
AnsweredByAsked(s, o, nw, k) == (o.state = "requested" /\ nw.state = "established") => s = k[1]
ChangeOK(n, s, old, new, k) ==
    /\ Concerns(k, s)
    /\ IF k \in Keys(old) /\ k \in Keys(new) THEN /\ ValidTransition(ByKey(old, k), ByKey(new, k))
                                                   /\ AnsweredByAsked(s, ByKey(old, k), ByKey(new, k), k)
       ELSE IF k \in Keys(new) THEN /\ k[1] \in tuns[n]                     \* created on a live tunnel
                                     /\ (ByKey(new, k).type = "forwarding" => am[n] = "on")
                                     /\ k[2] # AddrOf[n]                       \* never a relay to itself
       ELSE FALSE                                                            \* records disappear only with their tunnel

UniqueIdx(S) == \A a, b \in S : (a # b) => a.lidx # b.lidx

\* n forwards a relayed packet that arrived on its tunnel with s onto its tunnel with k
MayForward(n, s, k, S) ==
    /\ am[n] = "on" /\ k # s /\ k # n                \* configured as a relay NOW: a reload that turns am_relay off ends forwarding
    /\ \E r \in S : r.peer = k /\ r.addr = AddrOf[s] /\ r.type = "forwarding" /\ r.state = "established"   \* onward leg
    /\ \E r \in S : r.peer = s /\ r.addr = AddrOf[k] /\ r.type = "forwarding"                                  \* negotiated by s

\* an authenticated datagram from s handled by n: control messages may change records, relayed packets may be
\* forwarded; a relayed packet that carries a valid handshake may bring a disestablished record of that relay back --
\* or a record that is still "requested": the relay uses the index it was sent in the request before its response got
\* through (handshake_manager.go: UpdateRelayForByIdxState(.., Established) after a valid relayed handshake, whatever
\* the state was)
\* and may create a tunnel (newtuns)
Recv(n, s, typ, new, fwd, newtuns, ri) ==
    /\ s \in tuns[n]
    /\ RidxOK(new, ri) /\ ridx' = [ridx EXCEPT ![n] = ri]
    /\ LET old == recs[n]
           changed == {k \in Keys(old) \cup Keys(new) : k \notin Keys(old) \/ k \notin Keys(new) \/ ByKey(old, k) # ByKey(new, k)}
       IN /\ (typ \notin {"control", "relay"} => changed = {})
          /\ (typ = "control" => \A k \in changed : ChangeOK(n, s, old, new, k))
          /\ (typ = "relay" => \A k \in changed : /\ k[1] = s /\ k \in Keys(old) /\ k \in Keys(new)
                                                    /\ ByKey(old, k).state \in {"disestablished", "requested"} /\ ByKey(new, k).state = "established"
                                                    /\ ByKey(old, k).lidx = ByKey(new, k).lidx /\ ByKey(old, k).type = ByKey(new, k).type)
          /\ UniqueIdx(new)
          /\ (typ # "relay" => fwd = {})
          /\ \A k \in fwd : MayForward(n, s, k, old)
          /\ IF typ = "relay" THEN tuns[n] \subseteq newtuns ELSE newtuns = tuns[n]
    /\ recs' = [recs EXCEPT ![n] = new]
    /\ tuns' = [tuns EXCEPT ![n] = newtuns]
    /\ UNCHANGED am

\* configuration reload: relay.am_relay changes; records and tunnels stay as they are (forwarding records made while the
\* node was a relay may linger, they just are not used: MayForward asks for am[n])
Reload(n, v) == /\ am' = [am EXCEPT ![n] = IF v THEN "on" ELSE IF @ = "off" THEN "off" ELSE "was"]
                /\ UNCHANGED <<recs, tuns, ridx>>

\* something not authenticated by a tunnel (handshake, recv_error, garbage) or a local inside packet: relay records may
\* only be created by the node itself starting relays (state requested, terminal) and nothing is forwarded
\* Alive(r): the tunnel record r lives on is still held after the step (a node may hold several tunnels with one peer;
\* the closed world below has one per peer, recorded runs name the tunnel: r.tun)
Local(n, new, newtuns, ri, Alive(_)) ==
    /\ RidxOK(new, ri) /\ ridx' = [ridx EXCEPT ![n] = ri]
    /\ LET old == recs[n]
           lost == tuns[n] \ newtuns                                  \* peers with which no tunnel is left
           kept == {r \in old : r.peer \notin lost /\ Alive(r)}
           expected == {IF r.addr \in {AddrOf[p] : p \in lost} /\ r.state = "established"
                          THEN [r EXCEPT !.state = "disestablished"] ELSE r : r \in kept}
       IN /\ \A r \in new : \/ r \in kept \/ r \in expected
                            \/ (Key(r) \in Keys(kept) /\ ValidTransition(ByKey(kept, Key(r)), r) /\ r.state # "established")
                            \/ (Key(r) \notin Keys(kept) /\ r.peer \in newtuns /\ r.state = "requested" /\ r.type = "terminal"
                                /\ r.addr # AddrOf[n])
          /\ \A r \in kept : Key(r) \in Keys(new)                 \* records disappear only with their tunnel
          /\ \A r \in new : r.peer \in newtuns /\ Alive(r)         \* and they do disappear with it
          /\ UniqueIdx(new)
    /\ recs' = [recs EXCEPT ![n] = new]
    /\ tuns' = [tuns EXCEPT ![n] = newtuns]
    /\ UNCHANGED am

\* MC: a small closed world: the environment proposes any single-record change or tunnel change and the
\* permission rules decide; the invariants below must hold in everything they let through
RecSmall == {r \in [peer : Nodes, tun : {1}, addr : {AddrOf[x] : x \in Nodes}, type : {"terminal", "forwarding"}, state : States,
                    lidx : 1..2, ridx : {0}] : TRUE}
\* (candidates that the rules refuse at once -- a record change by a data packet, a forward by anything but a relayed
\* packet -- are not proposed: they add nothing but evaluation time)
FwdChoices(n, typ) == IF typ = "relay" THEN SUBSET (Nodes \ {n}) ELSE {{}}
Next == \E n \in Nodes :
           \/ \E s \in tuns[n], typ \in {"control", "relay"}, r \in RecSmall : \E fwd \in FwdChoices(n, typ) :
                 Recv(n, s, typ, {x \in recs[n] : Key(x) # Key(r)} \cup {r}, fwd, tuns[n], IdxOf({x \in recs[n] : Key(x) # Key(r)} \cup {r}))
           \/ \E s \in tuns[n], typ \in {"control", "relay", "data"} : \E fwd \in FwdChoices(n, typ) : Recv(n, s, typ, recs[n], fwd, tuns[n], IdxOf(recs[n]))
           \/ \E p \in Nodes \ {n} :
                 LET newtuns == IF p \in tuns[n] THEN tuns[n] \ {p} ELSE tuns[n] \cup {p}
                     kept == {r \in recs[n] : r.peer \in newtuns}
                     after == {IF r.addr = AddrOf[p] /\ p \notin newtuns /\ r.state = "established"
                                 THEN [r EXCEPT !.state = "disestablished"] ELSE r : r \in kept}
                 IN Local(n, after, newtuns, IdxOf(after), LAMBDA r : r.peer \in newtuns)
           \/ \E r \in RecSmall : Local(n, recs[n] \cup {r}, tuns[n], IdxOf(recs[n] \cup {r}), LAMBDA x : x.peer \in tuns[n])
           \/ (n \in ReloadNodes /\ \E v \in BOOLEAN : Reload(n, v))
Spec == Init /\ [][Next]_vars

-----------------------------------------------------------------------------
(* C39 as state invariants of any behaviour the permission specification accepts *)
\* a forwarding record exists only on a node that is or was configured as a relay;
\* that forwarding itself needs am[n] at the moment of forwarding is the guard of MayForward
OnlyRelaysForward == \A n \in Nodes : \A r \in recs[n] : r.type = "forwarding" => am[n] # "off"
RecordsOnLiveTunnels == \A n \in Nodes : \A r \in recs[n] : r.peer \in tuns[n]
NotToSelf == \A n \in Nodes : \A r \in recs[n] : r.addr # AddrOf[n]
IndexesUnique == \A n \in Nodes : UniqueIdx(recs[n])
IndexesOwned == \A n \in Nodes : RidxOK(recs[n], ridx[n])
=============================================================================
