INIT Init
NEXT Next
CONSTANTS CheckI = 2
          PendI = 3
          Timeouts = {4, 6}
          ExpAt = 9
          MaxClock = 24
          MaxChecks = 5
          Acts = {"traffic", "prim", "pool", "mycert", "counter", "cfg"}
          WithOk = TRUE
          MaxEnv = 2
          LateBy = 1
          FatalAfter = 2
          Full = FALSE
INVARIANTS TypeOK DecideInPolicy NoRemovalWithInbound SilenceRemoval
CHECK_DEADLOCK FALSE
