SPECIFICATION Spec
CONSTANT Thorough = FALSE
INVARIANTS SplitIsSplit Unique Consecutive ScaleInvariant MissingIsWhole LoopFresh LoopOrderMatters
CHECK_DEADLOCK FALSE
