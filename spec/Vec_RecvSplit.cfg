SPECIFICATION Spec
CONSTANT Thorough = FALSE
INVARIANTS SplitIsSplit Unique Consecutive ScaleInvariant MissingIsWhole
CHECK_DEADLOCK FALSE
