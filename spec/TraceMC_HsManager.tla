------------------------- MODULE TraceMC_HsManager -------------------------
(* Scenario constants of the whole-node harness (harness/e2e/zz_verif_hs_test.go). *)
EXTENDS Trace_HsManager
TNodes == {"A", "B", "M", "X", "P", "S"}
TAddrs == {"a1", "a2", "b1", "b2", "m1", "p1", "p2", "s1"}
\* P holds a v1 certificate (p1) it initiates with and a v2 certificate (p1, p2); S is certified for s1 and for p2,
\* one of P's own addresses
TInit  == [n \in TNodes |-> CASE n = "A" -> <<"a1", "a2">> [] n = "B" -> <<"b1", "b2">> [] n = "M" -> <<"m1">> [] n = "X" -> <<"b1">>
                               [] n = "P" -> <<"p1">> [] n = "S" -> <<"s1", "p2">>]
TResp  == [n \in TNodes |-> IF n = "P" THEN <<"p1", "p2">> ELSE TInit[n]]
TOwn   == [n \in TNodes |-> {TResp[n][k] : k \in 1..Len(TResp[n])}]
TTrusts == [n \in TNodes |-> IF n = "X" THEN {"X"} ELSE {"A", "B", "M", "P", "S"}]
\* static_host_map of each node; several remotes for one address are tried in the (sorted) order of their underlay addresses
TRoute == [n \in TNodes |-> [a \in TAddrs |->
              CASE n = "A" /\ a = "b1" -> <<"B", "M">>
                [] n = "A" /\ a = "b2" -> <<"B">>
                [] n = "A" /\ a = "m1" -> <<"M">>
                [] n = "B" /\ a \in {"a1", "a2"} -> <<"A">>
                [] n = "B" /\ a = "m1" -> <<"M">>
                [] n = "M" /\ a \in {"a1", "a2"} -> <<"A">>
                [] n = "M" /\ a \in {"b1", "b2"} -> <<"B">>
                [] n = "X" /\ a \in {"a1", "a2"} -> <<"A">>
                [] n = "P" /\ a = "s1" -> <<"S">>
                [] n = "P" /\ a = "b1" -> <<"B">>
                [] n = "S" /\ a = "p1" -> <<"P">>
                [] n = "B" /\ a = "p1" -> <<"P">>
                [] OTHER -> <<>>]]
=============================================================================
