------------------------- MODULE TraceMC_HsManager -------------------------
(* Scenario constants of the whole-node harness (harness/e2e/zz_verif_hs_test.go). *)
EXTENDS Trace_HsManager
TNodes == {"A", "B", "M", "X"}
TAddrs == {"a1", "a2", "b1", "b2", "m1"}
TCert  == [n \in TNodes |-> CASE n = "A" -> <<"a1", "a2">> [] n = "B" -> <<"b1", "b2">> [] n = "M" -> <<"m1">> [] n = "X" -> <<"b1">>]
TTrusts == [n \in TNodes |-> IF n = "X" THEN {"X"} ELSE {"A", "B", "M"}]
\* static_host_map of each node; several remotes for one address are tried in the (sorted) order of their underlay addresses
TRoute == [n \in TNodes |-> [a \in TAddrs |->
              CASE n = "A" /\ a = "b1" -> <<"B", "M">>
                [] n = "A" /\ a = "b2" -> <<"B">>
                [] n = "A" /\ a = "m1" -> <<"M">>
                [] n = "B" /\ a \in {"a1", "a2"} -> <<"A">>
                [] n = "B" /\ a = "m1" -> <<"M">>
                [] n = "M" /\ a \in {"a1", "a2"} -> <<"A">>
                [] n = "M" /\ a \in {"b1", "b2"} -> <<"B">>
                [] n = "X" /\ a \in {"a1", "a2"} -> <<"A">>
                [] OTHER -> <<>>]]
=============================================================================
