SPECIFICATION TraceSpec
CONSTANTS Mech <- MechFromJson
INVARIANTS Disciplined
POSTCONDITION TraceAccepted
CHECK_DEADLOCK FALSE
