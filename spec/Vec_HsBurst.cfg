SPECIFICATION VSpec
CONSTANTS Nodes <- VNodes
          Addrs <- VAddrs
          InitCert <- VCert
          RespCert <- VCert
          Own <- VOwn
          Trusts <- VTrusts
          Route <- VRoute
          Idx = {1}
          Retries = 2
          MaxPerAddr = 2
          MaxQueue = 100
          MaxClock = 0
          MaxMsgs = 100000
          MaxTunSends = 100000
          Thorough = FALSE
INVARIANTS HostsOK TunsListed IndexesDisjoint C32_Queue VQueueRef VReleaseRef
CHECK_DEADLOCK FALSE
