SPECIFICATION TSpec
CONSTANTS Thorough = FALSE
          WalkLimit = 8
          Design = "bounded-reject"
CHECK_DEADLOCK FALSE
