SPECIFICATION Spec
CONSTANTS TickD = 1
          Span = 3
          Items = {1, 2, 3}
          Timeouts = {0, 1, 2, 3, 4, 5}
          Gaps = {1, 2, 9}
          CacheMax = 1
          StaleAdds = FALSE
INVARIANTS TypeOK ExactlyOnce NotEarly NotLate PurgeAgrees
VIEW View
CHECK_DEADLOCK FALSE
