SPECIFICATION Spec
CONSTANTS NT = 3
          NA = 3
          NI = 2
          NR = 1
          Shapes <- ShapesA
          MaxPerAddr = 2
          MaxRel = 1
          OwnerTest = TRUE
INVARIANTS TypeOK HostsOK LiveListed NoDangling IndexesOK DeleteErases DeleteFinal Disjoint PendingOK UniqueIdx UniqueRel
PROPERTIES NoResurrection IndexOwner RemoteOwner
VIEW View
CHECK_DEADLOCK FALSE
