INIT Init
NEXT NodeNext
CONSTANTS Flows = {1}
          ProtoOf <- Proto_u
          TO <- TO_132
          InitRules <- Rules_i
          RuleSets <- NoRuleSets
          Reloads = FALSE
          Cfgs <- NoCfgs
          InitCfg = 0
          EffOf <- EffNone
          VerMod = 4
          Gaps = {1, 4}
          MaxItems = 3
          IdleMatters = TRUE
          CheckExpiry = TRUE
          WrapKeeps = TRUE
          Routines = {1, 2}
          CachePeriod = 2
          CacheSlack = 0
INVARIANTS TypeOK PassPermitted EntryHasTimer
CONSTRAINT Bound
VIEW View
CHECK_DEADLOCK FALSE
