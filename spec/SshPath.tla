------------------------------- MODULE SshPath -------------------------------
(***************************************************************************)
(* The sandbox of the SSH debug commands (ssh.go, sshSanitizeFilePath) --  *)
(* property C45.                                                           *)
(*                                                                         *)
(* A path is [abs, comps]: whether it starts at the root, and its sequence *)
(* of components over {"..", ".", "", "a", "b"} ("" is what repeated and   *)
(* trailing separators produce; a and b are two different names -- the     *)
(* harness also spells them s / sx, the similar-prefix siblings).          *)
(* Everything is lexical: no file system.                                  *)
(*                                                                         *)
(* Vector mode: one TLC state = (sandbox, path) with the resolved location *)
(* and the required verdict.                                               *)
(***************************************************************************)
EXTENDS Integers, Sequences, FiniteSets, TLC

CONSTANT MaxLen      \* longest path (components)

Comps == {"..", ".", "", "a", "b"}

-----------------------------------------------------------------------------
(* Reference layer                                                         *)

\* lexical clean: the location [abs, stack]; stack holds names, and leading ".." for a relative path that climbs out
RECURSIVE CleanFrom(_, _, _)
CleanFrom(abs, stack, cs) ==
    IF cs = <<>> THEN stack
    ELSE LET c == Head(cs) IN
         CASE c \in {"", "."} -> CleanFrom(abs, stack, Tail(cs))
           [] c = ".."        -> IF stack # <<>> /\ stack[Len(stack)] # ".." THEN CleanFrom(abs, SubSeq(stack, 1, Len(stack) - 1), Tail(cs))
                                 ELSE IF abs THEN CleanFrom(abs, stack, Tail(cs))                 \* the root is its own parent
                                 ELSE CleanFrom(abs, Append(stack, ".."), Tail(cs))
           [] OTHER           -> CleanFrom(abs, Append(stack, c), Tail(cs))
Loc(p) == [abs |-> p.abs, stack |-> CleanFrom(p.abs, <<>>, p.comps)]

\* a relative path is taken relative to the sandbox directory
Resolve(sb, p) == IF p.abs THEN Loc(p) ELSE Loc([abs |-> sb.abs, comps |-> sb.comps \o p.comps])

\* strictly inside: a proper extension of the sandbox location by names only.  A relative and an absolute location
\* cannot be compared lexically: not inside.
Inside(s, l) == /\ s.abs = l.abs
                /\ Len(l.stack) > Len(s.stack)
                /\ SubSeq(l.stack, 1, Len(s.stack)) = s.stack
                /\ \A i \in (Len(s.stack) + 1)..Len(l.stack) : l.stack[i] # ".."

\* sandboxes whose location has no name of its own ("/", ".", "..", "../.."): the statement's sandbox variants are
\* directories with a name; for the others only the safety direction is required
Nameless(s) == s.stack = <<>> \/ s.stack[Len(s.stack)] = ".."

Required(sb, p) == LET s == Loc(sb)
                       l == Resolve(sb, p)
                   IN [loc  |-> l,
                       must |-> IF ~Inside(s, l) THEN "refuse" ELSE IF Nameless(s) THEN "free" ELSE "accept"]

-----------------------------------------------------------------------------
(* Implementation-shaped machine: strings.  The code cleans both paths to  *)
(* strings and accepts iff  cleaned # sandbox  and  sandbox + "/" is a     *)
(* string prefix of cleaned.  Strings are modelled as sequences of         *)
(* characters with names a |-> "s", b |-> "sx" so that the separator in    *)
(* the prefix test matters.                                                *)
Chars(c) == CASE c = "a" -> <<"s">> [] c = "b" -> <<"s", "x">> [] c = ".." -> <<".", ".">>
RECURSIVE JoinStack(_)
JoinStack(st) == IF st = <<>> THEN <<>> ELSE IF Len(st) = 1 THEN Chars(st[1]) ELSE Chars(st[1]) \o <<"/">> \o JoinStack(Tail(st))
\* filepath.Clean's output for a location
Str(l) == IF l.abs THEN <<"/">> \o JoinStack(l.stack) ELSE IF l.stack = <<>> THEN <<".">> ELSE JoinStack(l.stack)
HasPrefix(x, y) == Len(x) >= Len(y) /\ SubSeq(x, 1, Len(y)) = y
MachineAccepts(sb, p) == LET c == Str(Resolve(sb, p))
                             s == Str(Loc(sb))
                         IN c # s /\ HasPrefix(c, s \o <<"/">>)

-----------------------------------------------------------------------------
(* Vector lattice                                                          *)
Sandboxes == { [abs |-> TRUE,  comps |-> <<"a">>],              \* /s
               [abs |-> TRUE,  comps |-> <<"a", "">>],          \* /s/     trailing separator
               [abs |-> TRUE,  comps |-> <<"a", "b">>],         \* /s/sx   nested
               [abs |-> TRUE,  comps |-> <<"a", "..", "b">>],   \* /s/../sx   not clean
               [abs |-> TRUE,  comps |-> <<"b", ".", "">>],     \* /sx/./
               [abs |-> TRUE,  comps |-> <<>>],                 \* /       root
               [abs |-> FALSE, comps |-> <<"a">>],              \* s       relative
               [abs |-> FALSE, comps |-> <<"a", "">>],          \* s/
               [abs |-> FALSE, comps |-> <<"..", "a">>],        \* ../s
               [abs |-> FALSE, comps |-> <<".">>],              \* .
               [abs |-> FALSE, comps |-> <<"..">>] }            \* ..
Paths == UNION { [abs : BOOLEAN, comps : [1..n -> Comps]] : n \in 0..MaxLen }
\* written out, a relative path that starts with an empty component is an absolute path: not a relative path
WellFormed(x) == IF x.abs \/ DOMAIN x.comps = {} THEN TRUE ELSE x.comps[1] # ""

VARIABLES sb, p, exp
vars == <<sb, p, exp>>
Init == sb \in Sandboxes /\ p \in Paths /\ WellFormed(p) /\ exp = Required(sb, p)
Next == UNCHANGED vars
Spec == Init /\ [][Next]_vars

-----------------------------------------------------------------------------
(* Link: for sandboxes with a name the string machine decides exactly the  *)
(* reference; for the nameless ones it is recorded where it deviates       *)
(* (candidate findings, to be confirmed on the real code by the harness).  *)
MachineRefines == ~Nameless(Loc(sb)) => (MachineAccepts(sb, p) <=> exp.must = "accept")
MachineSafeWhenNameless == Nameless(Loc(sb)) => (MachineAccepts(sb, p) => exp.must # "refuse")
\* laws of the statement
SandboxItselfRefused == Resolve(sb, p) = Loc(sb) => exp.must = "refuse"
AcceptedIsInside == exp.must # "refuse" => Inside(Loc(sb), exp.loc)
=============================================================================
