SPECIFICATION TraceSpec
CONSTANTS Prop = "trace"
          Thorough = FALSE
POSTCONDITION TraceAccepted
CHECK_DEADLOCK FALSE
