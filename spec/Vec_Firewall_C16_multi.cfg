INIT InitC16Multi
NEXT Next
CONSTANT Thorough = FALSE
CONSTANT NSample = 2000
INVARIANTS LinkTable
CHECK_DEADLOCK FALSE
