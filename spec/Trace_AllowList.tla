-------------------------- MODULE Trace_AllowList --------------------------
(* T direction of C38: seeded random full-width allow lists (prefixes and  *)
(* addresses projected to bit strings of up to 32 / 128 bits) parsed and   *)
(* queried by the real code are judged by the reference layer of           *)
(* AllowList.tla.  One ndjson line per list:                               *)
(*   {"k":3,"list":[{fam,p,val,form}..],"qs":[{fam,bits}..],               *)
(*    "refused":false,"got":["allow","deny",..]}                           *)
(* One initial state per line, the verdict is a state variable.            *)
EXTENDS AllowList, Json

Obs == ndJsonDeserialize("obs.ndjson")
ToSet(s) == { s[i] : i \in 1..Len(s) }

Verdict(o) ==
    LET list == ToSet(o.list)
        ref  == Refused(list)
        bad  == IF ref \/ o.refused THEN {}
                ELSE { i \in 1..Len(o.qs) : LET w == Allow(list, o.qs[i]) IN w # "any" /\ w # o.got[i] }
    IN [k |-> o.k, refusal |-> (o.refused = ref), bad |-> bad,
        want |-> IF ref \/ o.refused THEN <<>> ELSE [i \in 1..Len(o.qs) |-> Allow(list, o.qs[i])]]

\* the file is read once: Obs is the domain of the quantifier
TraceInit == \E o \in ToSet(Obs) : q = o.k /\ in = 0 /\ exp = Verdict(o)
TraceSpec == TraceInit /\ [][Next]_vars
=============================================================================
