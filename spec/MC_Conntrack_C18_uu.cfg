SPECIFICATION Spec
CONSTANTS Flows = {1, 2}
          ProtoOf <- Proto_uu
          TO <- TO_213
          InitRules <- Rules_oo
          RuleSets <- NoRuleSets
          Reloads = FALSE
          Cfgs <- NoCfgs
          InitCfg = 0
          EffOf <- EffNone
          VerMod = 4
          Gaps = {1, 3}
          MaxItems = 3
          IdleMatters = TRUE
          CheckExpiry = TRUE
          WrapKeeps = TRUE
          Routines <- NoRoutines
          CachePeriod = 1
          CacheSlack = 0
INVARIANTS TypeOK PassPermitted EntryHasTimer SameReloadKeeps
CONSTRAINT Bound
VIEW View
CHECK_DEADLOCK FALSE
