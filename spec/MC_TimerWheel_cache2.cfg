SPECIFICATION Spec
CONSTANTS TickD = 1
          Span = 2
          Items = {1, 2, 3}
          Timeouts = {1}
          Gaps = {1}
          CacheMax = 2
          StaleAdds = FALSE
INVARIANTS TypeOK ExactlyOnce NotEarly NotLate PurgeAgrees
VIEW View
CHECK_DEADLOCK FALSE
