------------------------------ MODULE Lifecycle ------------------------------
(***************************************************************************)
(* Life cycle of a nebula node (control.go: Control.Start / Stop,          *)
(* interface.go: activate / run / Close) -- C49.                           *)
(*                                                                         *)
(* A node walks through the phases of a multi-node scenario (Scenario, a   *)
(* sequence of stimuli the environment applies); a stop request may arrive *)
(* after any phase, more than once, and a start may be attempted after a   *)
(* stop. Goroutines are classes that the node spawns on Start and while    *)
(* working; each of them ends once the context is cancelled or the socket  *)
(* / device it reads is closed (separate steps: teardown is not atomic).   *)
(***************************************************************************)
EXTENDS Integers, Sequences, FiniteSets, TLC

CONSTANTS Routines,      \* udp sockets Main opens (one per configured routine)
          Queues,        \* readers the tun device / udp backend supports: activate() clamps the routines to it
          Scenario,      \* Seq of stimulus names applied to a started node, in order
          PreStart,      \* number of leading stimuli that are applied before Start (config only)
          MaxStops       \* how many stop requests are explored

VARIABLES state,         \* "ready" | "started" | "stopping" | "stopped"
          phase,         \* number of scenario stimuli applied so far
          ctxLive,       \* context not cancelled
          sockOpen,      \* set of udp sockets (1..Routines) still open: every one Main opened, used by a reader or not
          tunOpen,
          goroutines,    \* set of live goroutine classes
          stops,         \* stop requests issued so far
          hist           \* history of environment actions (for replay)

vars == <<state, phase, ctxLive, sockOpen, tunOpen, goroutines, stops, hist>>

OnStart == {"udpReader", "tunReader", "handshakeManager", "connectionManager", "lighthouseWorker", "punchy"}
CtxBound  == {"handshakeManager", "connectionManager", "lighthouseWorker", "punchy", "reloadWatcher", "punchTimers"}
\* punchTimers: the timer callbacks that hand punch jobs (scheduled by a lighthouse punch notification) to the punch worker's
\* queue; when the worker is behind and the queue is full they wait for room, and must give up when the context is cancelled
Transient == {"reloadWatcher", "punchTimers"}
SockBound == {"udpReader"}
TunBound  == {"tunReader"}

ActiveRoutines == IF Routines < Queues THEN Routines ELSE Queues      \* readers exist for these sockets only
Init == /\ state = "ready" /\ phase = 0 /\ ctxLive = TRUE /\ sockOpen = 1..Routines /\ tunOpen = TRUE
        /\ goroutines = {} /\ stops = 0 /\ hist = <<>>

\* environment: next stimulus of the scenario (config-only stimuli before Start, the rest on a started node)
Stimulus == /\ phase < Len(Scenario)
            /\ \/ (phase < PreStart /\ state = "ready")
               \/ (phase >= PreStart /\ state = "started")
            /\ phase' = phase + 1
            /\ goroutines' = IF Scenario[phase + 1] = "reload" /\ state = "started" THEN goroutines \cup {"reloadWatcher"}
                             ELSE IF Scenario[phase + 1] = "punchburst" /\ state = "started" THEN goroutines \cup {"punchTimers"}
                             ELSE goroutines
            /\ hist' = Append(hist, Scenario[phase + 1])
            /\ UNCHANGED <<state, ctxLive, sockOpen, tunOpen, stops>>

Start == /\ phase >= PreStart
         /\ hist' = Append(hist, "Start")
         /\ IF state = "ready"
              THEN /\ state' = "started" /\ goroutines' = goroutines \cup OnStart
              ELSE UNCHANGED <<state, goroutines>>          \* ErrAlreadyStarted / ErrAlreadyStopped
         /\ Len(SelectSeq(hist, LAMBDA h : h = "Start")) < 2
         /\ UNCHANGED <<phase, ctxLive, sockOpen, tunOpen, stops>>

\* Control.Stop: never started -> cancel + Close at once; started -> stopping (cancel, close tunnels), then Close
Stop == /\ stops < MaxStops /\ stops' = stops + 1
        /\ hist' = Append(hist, "Stop")
        /\ CASE state = "ready"   -> /\ state' = "stopped" /\ ctxLive' = FALSE /\ sockOpen' = {} /\ tunOpen' = FALSE
             [] state = "started" -> /\ state' = "stopping" /\ ctxLive' = FALSE /\ UNCHANGED <<sockOpen, tunOpen>>
             [] OTHER             -> UNCHANGED <<state, ctxLive, sockOpen, tunOpen>>
        /\ UNCHANGED <<phase, goroutines>>

\* second half of Stop for a started node: Interface.Close
CloseInterface == /\ state = "stopping"
                  /\ state' = "stopped" /\ sockOpen' = {} /\ tunOpen' = FALSE     \* every socket, also those beyond the clamped routines
                  /\ UNCHANGED <<phase, ctxLive, goroutines, stops, hist>>

\* a goroutine notices that what it waits on is gone, and ends
Exit(g) == /\ g \in goroutines
           /\ \/ (g \in CtxBound /\ ~ctxLive)
              \/ (g \in SockBound /\ sockOpen \cap (1..ActiveRoutines) = {})
              \/ (g \in TunBound /\ ~tunOpen)
           /\ goroutines' = goroutines \ {g}
           /\ UNCHANGED <<state, phase, ctxLive, sockOpen, tunOpen, stops, hist>>

Next == Stimulus \/ Start \/ Stop \/ CloseInterface \/ \E g \in OnStart \cup Transient : Exit(g)

Fairness == WF_vars(CloseInterface) /\ \A g \in OnStart \cup Transient : WF_vars(Exit(g))
Spec == Init /\ [][Next]_vars /\ Fairness

-----------------------------------------------------------------------------
Released == goroutines = {} /\ sockOpen = {} /\ ~tunOpen /\ ~ctxLive
\* C49: a stop request at any point leads to everything being released, and it stays released
StopReleases == (stops > 0) ~> Released
StaysReleased == [][(state = "stopped" /\ Released) => (state' = "stopped" /\ goroutines' = {} /\ sockOpen' = {} /\ ~tunOpen' /\ ~ctxLive')]_vars
NoRestart == [][(state \in {"stopping", "stopped"}) => (state' # "started")]_vars
TypeOK == state \in {"ready", "started", "stopping", "stopped"} /\ phase \in 0..Len(Scenario)

\* exploration view: the teardown internals are not part of the replayed behaviours
HistDone == stops > 0
=============================================================================
