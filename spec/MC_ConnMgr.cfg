INIT Init
NEXT Next
CONSTANTS CheckI = 2
          PendI = 3
          Timeouts = {4}
          ExpAt = 5
          MaxClock = 7
          MaxChecks = 4
          Acts = {"traffic", "prim"}
          WithOk = FALSE
          MaxEnv = 0
          LateBy = 100
          FatalAfter = 0
          Full = FALSE
INVARIANTS TypeOK DecideInPolicy NoRemovalWithInbound SilenceRemoval
CHECK_DEADLOCK FALSE
