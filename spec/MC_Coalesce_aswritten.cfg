SPECIFICATION Spec
CONSTANTS Thorough = FALSE
          MaxSegs = 64
          MaxBytes = 65535
          CrossSession = FALSE
          Design = "aswritten"
INVARIANTS Link
CHECK_DEADLOCK FALSE
