SPECIFICATION Spec
CONSTANTS Flows = {1, 2}
          ProtoOf <- Proto_uu
          TO <- TO_213
          InitRules <- SemInitRulesU
          RuleSets <- NoRuleSets
          Reloads = TRUE
          Cfgs <- SemCfgsUQ
          InitCfg <- SemInitU
          EffOf <- EffSemU
          VerMod = 3
          Gaps <- NoGaps
          MaxItems = 2
          IdleMatters = FALSE
          CheckExpiry = TRUE
          WrapKeeps = TRUE
          Routines <- NoRoutines
          CachePeriod = 1
          CacheSlack = 0
INVARIANTS TypeOK PassPermitted EntryHasTimer SameReloadKeeps
CONSTRAINT Bound
VIEW View
CHECK_DEADLOCK FALSE
