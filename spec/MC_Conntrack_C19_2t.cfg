SPECIFICATION Spec
CONSTANTS Flows = {1, 2}
          ProtoOf <- Proto_tu
          TO <- TO_213
          InitRules <- Rules_o_i
          RuleSets <- SomeRules2
          Reloads = TRUE
          Cfgs <- NoCfgs
          InitCfg = 0
          EffOf <- EffNone
          VerMod = 3
          Gaps = {2}
          MaxItems = 3
          IdleMatters = FALSE
          CheckExpiry = TRUE
          WrapKeeps = TRUE
          Routines <- NoRoutines
          CachePeriod = 1
          CacheSlack = 0
INVARIANTS TypeOK PassPermitted EntryHasTimer SameReloadKeeps
CONSTRAINT Bound
VIEW View
CHECK_DEADLOCK FALSE
