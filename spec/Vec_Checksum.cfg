SPECIFICATION Spec
CONSTANTS
  Tier = "quick"
  MixSeeds = {7, 4242, 51966}
  ExtraInits = {4660}
INVARIANTS TypeOK FastIsDirect BufIsBufByte FoldClosedForm ZeroOnlyIfAllZero ConcatLaw OddSplitLaw ByteOrderLaw UpdateLaw ChunkLaw
CHECK_DEADLOCK FALSE
