SPECIFICATION SpecBurst
CONSTANTS Nodes <- MCNodes
          Addrs <- MCAddrs
          InitCert <- MCCert
          RespCert <- MCCert
          Own <- MCOwn
          Trusts <- MCTrusts
          Route <- MCRoute
          Idx = {1, 2}
          Retries = 2
          MaxPerAddr = 2
          MaxQueue = 2
          MaxClock = 0
          MaxMsgs = 3
          MaxTunSends = 2
INVARIANTS HostsOK TunsListed IndexesDisjoint C09_Bound C10_OnePerHs1 C32_Queue
VIEW View
CHECK_DEADLOCK FALSE
