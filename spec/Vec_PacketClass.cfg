SPECIFICATION Spec
CONSTANTS Thorough = FALSE
          WalkLimit = 8
          Design = "bounded-reject"
INVARIANTS Link ProtoNeverExt RefNeverExt RefOrient RefMonotone
CHECK_DEADLOCK FALSE
