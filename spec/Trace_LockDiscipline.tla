------------------------ MODULE Trace_LockDiscipline ------------------------
(* Trace validation for LockDiscipline.tla: trace.ndjson = the recorded lock / guarded-map events of the workloads (one   *)
(* state per line; parts of the log that share no object - different tests - are separated by reset lines), mech.json =  *)
(* the mechanically derived default guards {field: [lock classes of the same struct]}.                                   *)
(* Checking mode: INVARIANT Disciplined + POSTCONDITION TraceAccepted. Collect mode (after a failure): the whole trace   *)
(* is consumed and the set of rejected accesses is printed once at the end (Report).                                     *)
EXTENDS LockDiscipline, Json

Log == ndJsonDeserialize("trace.ndjson")
MechJ == JsonDeserialize("mech.json")
MechFromJson == [f \in DOMAIN MechJ |-> {MechJ[f][i] : i \in DOMAIN MechJ[f]}]

VARIABLE l
tvars == <<dvars, l>>

TraceInit == DInit /\ l = 1

TraceNext ==
    /\ l <= Len(Log)
    /\ l' = l + 1
    /\ LET e == Log[l] IN
       \/ e.e = "reset" /\ DReset
       \/ e.e = "got" /\ DGot(e.g, e.k, e.o, e.c, e.m, e.s)
       \/ e.e = "rel" /\ DRel(e.g, e.k, e.o, e.c, e.m, e.s)
       \/ e.e = "acc" /\ DAcc(e.g, e.o, e.f, e.m, e.s)

TraceSpec == TraceInit /\ [][TraceNext]_tvars

TraceAccepted == TLCGet("stats").diameter - 1 = Len(Log)

Report == (l = Len(Log) + 1) => PrintT("VLKVIOL " \o ToJson(viol))
=============================================================================
