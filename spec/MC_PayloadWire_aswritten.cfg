\* Documentation: the machine with the envelope loop as payload.go writes it (a wrong-typed field 1 of the
\* envelope falls through to the skip branch). TLC is expected to report Link violated at <<"o.det.varint">>.
SPECIFICATION Spec
CONSTANTS Mode = "vec"
          Alpha = "quick"
          Lens = {0, 1, 2}
          SmallAlpha = "core"
          SmallLens = {}
          Lattice = FALSE
          AsWritten = TRUE
INVARIANTS Link
CHECK_DEADLOCK FALSE
