SPECIFICATION Spec
CONSTANTS MaxHist = 9
          RecordHist = TRUE
INVARIANTS TypeOK AtMostOneSwaps
CHECK_DEADLOCK FALSE
