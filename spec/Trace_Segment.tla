---------------------------- MODULE Trace_Segment ----------------------------
(* Judgement of recorded segmentations against Segment.tla.  One ndjson line per superpacket handed to the real          *)
(* SegmentTCP / SegmentUDP / SegmentSuperpacket:                                                                      *)
(*   {"ev":"seg","via":"virtio|tio","sup":{fam,proto,ipopt,l4opt,paylen,gso,seq,id,flags},"out":[{len,seq,id,flags,ok}..]} *)
(* sup is the abstract superpacket the bytes were built from (vectors of Segment.tla or seeded random ones), out the     *)
(* projection of the yielded segments: each decoded independently (gopacket), its checksums recomputed, its payload     *)
(* located in the original payload, its sequence number and ID taken back to the model's integers.                      *)
(* The verdict is IsSegmentation (the statement).  Maximal records whether the packing is the machine's.                *)
EXTENDS Segment, Json

Log == ndJsonDeserialize("trace.ndjson")

VARIABLES tl, good, maximal
tvars == <<vars, tl, good, maximal>>

TraceInit == /\ in = [paylen |-> 0] /\ exp = <<>> /\ tl = 1 /\ good = TRUE /\ maximal = TRUE

TraceSeg == /\ tl <= Len(Log) /\ Log[tl].ev \in {"seg", "reset"} /\ tl' = tl + 1
            /\ IF Log[tl].ev = "reset"
               THEN good' = TRUE /\ maximal' = TRUE /\ UNCHANGED vars
               ELSE /\ in' = Log[tl].sup /\ exp' = Log[tl].out
                    /\ good' = IsSegmentation(Log[tl].out, Log[tl].sup)
                    /\ maximal' = SameAsMachine(Log[tl].out, Log[tl].sup)

TraceSpec == TraceInit /\ [][TraceSeg]_tvars

RefSegmentation == good
Maximal == maximal
TraceAccepted == TLCGet("stats").diameter - 1 = Len(Log)
=============================================================================
