SPECIFICATION Spec
CONSTANTS MaxIds = 5
          Cap = 3
INVARIANTS TypeOK AtMostOnce OfferedOnce QueueFresh OrderKept NoInvention
CHECK_DEADLOCK FALSE
