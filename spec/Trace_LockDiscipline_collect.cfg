SPECIFICATION TraceSpec
CONSTANTS Mech <- MechFromJson
INVARIANTS Report
POSTCONDITION TraceAccepted
CHECK_DEADLOCK FALSE
