SPECIFICATION Spec
CONSTANTS Mode = "C35V"
          Thorough = FALSE
INVARIANTS Link
CHECK_DEADLOCK FALSE
