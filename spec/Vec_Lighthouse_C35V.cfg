SPECIFICATION Spec
CONSTANTS Mode = "C35V"
          Thorough = FALSE
          Salt = 0
INVARIANTS Link
CHECK_DEADLOCK FALSE
