SPECIFICATION Spec
CONSTANT Wide = FALSE
INVARIANTS AllOrNothing StringEqualsInt ExactOrRefused
CHECK_DEADLOCK FALSE
