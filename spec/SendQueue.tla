---------------------------- MODULE SendQueue ----------------------------
(* The per-routine transmit queue above the batched underlay writer (overlay/batch/tx_batch.go SendBatch):           *)
(* encrypted datagrams are committed to the queue and a Flush hands the whole queue to WriteBatch (TxBatch.tla is the   *)
(* specification of that call).  Whatever WriteBatch reports - everything sent, fewer sent, fewer sent AND an error,   *)
(* nothing sent and an error - the queue is empty afterwards: a datagram is offered to the kernel in the flush that     *)
(* follows its commit and in no other, so a datagram the kernel accepted is never offered (hence never sent) again, and *)
(* datagrams committed later are never overtaken by older ones to the same destination.                                *)
(* C26 "batched underlay sends survive kernel faults without duplication", across flushes.                              *)
EXTENDS Naturals, Sequences, FiniteSets

CONSTANTS MaxIds,        \* datagrams committed in a behaviour
          Cap            \* capacity of the queue (the caller flushes when it is reached)

VARIABLES queue,         \* ids committed and not yet flushed, in commit order
          next,          \* next id to commit
          acc,           \* id -> how many times the kernel accepted it (over all flushes)
          offered,       \* id -> in how many flushes it was shown to the kernel
          wire           \* ids in the order the kernel accepted them
vars == <<queue, next, acc, offered, wire>>

Ids == 1..MaxIds
Range(s) == { s[j] : j \in 1..Len(s) }
\* a subsequence of s given by the set of kept elements (ids are distinct)
Keep(s, S) == SelectSeq(s, LAMBDA x : x \in S)

Init == /\ queue = <<>> /\ next = 1
        /\ acc = [d \in Ids |-> 0] /\ offered = [d \in Ids |-> 0] /\ wire = <<>>

Commit == /\ next <= MaxIds /\ Len(queue) < Cap
          /\ queue' = Append(queue, next) /\ next' = next + 1
          /\ UNCHANGED <<acc, offered, wire>>

\* One Flush: the writer shows the kernel the datagrams of S (those with a usable destination) and the kernel accepts
\* those of A, in queue order (TxBatch.tla: InOrderOnce).  The queue is drained whatever happened.
Flush(S, A) == /\ queue # <<>>
               /\ S \subseteq Range(queue) /\ A \subseteq S
               /\ offered' = [d \in Ids |-> IF d \in S THEN offered[d] + 1 ELSE offered[d]]
               /\ acc' = [d \in Ids |-> IF d \in A THEN acc[d] + 1 ELSE acc[d]]
               /\ wire' = wire \o Keep(queue, A)
               /\ queue' = <<>>
               /\ UNCHANGED next
FlushEmpty == /\ queue = <<>> /\ UNCHANGED vars

Next == Commit \/ FlushEmpty \/ \E S \in SUBSET Range(queue) : \E A \in SUBSET S : Flush(S, A)
Spec == Init /\ [][Next]_vars

TypeOK == /\ queue \in Seq(Ids) /\ Len(queue) <= Cap /\ next \in 1..(MaxIds + 1)
AtMostOnce == \A d \in Ids : acc[d] <= 1
OfferedOnce == \A d \in Ids : offered[d] <= 1                 \* a datagram belongs to one flush only
QueueFresh == \A j \in 1..Len(queue) : offered[queue[j]] = 0  \* what waits in the queue was never shown before
OrderKept == \A p, q \in 1..Len(wire) : p < q => wire[p] < wire[q]   \* commit order = id order
NoInvention == \A j \in 1..Len(wire) : wire[j] < next
=============================================================================
