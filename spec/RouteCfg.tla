------------------------------ MODULE RouteCfg ------------------------------
(***************************************************************************)
(* tun.routes / tun.unsafe_routes (overlay/route.go), C41: route           *)
(* configuration parses exactly.                                           *)
(*                                                                         *)
(* A specification of two functions (parseRoutes, parseUnsafeRoutes) in    *)
(* vector mode: TLC enumerates a lattice of configuration entries whose    *)
(* fields are given as integers, decimal strings, malformed strings and    *)
(* other YAML types, evaluates Loads / Value and checks the laws below on  *)
(* every vector; the harness renders each vector as real YAML.             *)
(*                                                                         *)
(* Numbers are signed decimal digit sequences (TLC integers are 32-bit and *)
(* the interesting boundary is 2^31).                                      *)
(***************************************************************************)
EXTENDS Integers, Sequences, FiniteSets, TLC

CONSTANT Wide        \* BOOLEAN: both overlay network sets for every pair of fields

\* ---- numbers -----------------------------------------------------------------------------------------------------
N(neg, d) == [neg |-> neg, d |-> d]
Zero == N(FALSE, <<0>>)   One == N(FALSE, <<1>>)   Five == N(FALSE, <<5>>)   MinusOne == N(TRUE, <<1>>)
N499 == N(FALSE, <<4,9,9>>)   N500 == N(FALSE, <<5,0,0>>)   N1400 == N(FALSE, <<1,4,0,0>>)   N9001 == N(FALSE, <<9,0,0,1>>)
MaxI32 == N(FALSE, <<2,1,4,7,4,8,3,6,4,7>>)      \* 2^31-1
OverI32 == N(FALSE, <<2,1,4,7,4,8,3,6,4,8>>)     \* 2^31
Huge == N(FALSE, <<9,9,9,9,9,9,9,9,9,9,9>>)
\* a decimal string no machine integer holds (20 digits): necessarily out of range of every field - refused, never replaced
Giant == N(FALSE, <<9,9,9,9,9,9,9,9,9,9,9,9,9,9,9,9,9,9,9,9>>)
MaxI64 == N(FALSE, <<9,2,2,3,3,7,2,0,3,6,8,5,4,7,7,5,8,0,7>>)
MinI64 == N(TRUE, <<9,2,2,3,3,7,2,0,3,6,8,5,4,7,7,5,8,0,8>>)

LeqNN(a, b) == \/ Len(a) < Len(b)
               \/ /\ Len(a) = Len(b)
                  /\ \/ a = b
                     \/ LET k == CHOOSE k \in 1..Len(a) : a[k] # b[k] /\ \A j \in 1..(k-1) : a[j] = b[j] IN a[k] < b[k]
Leq(x, y) == IF x.neg /\ ~y.neg THEN TRUE
             ELSE IF ~x.neg /\ y.neg THEN FALSE
             ELSE IF ~x.neg THEN LeqNN(x.d, y.d) ELSE LeqNN(y.d, x.d)
Between(x, lo, hi) == Leq(lo, x) /\ Leq(x, hi)

\* ---- how a field value is written ----------------------------------------------------------------------------------
\* kind: int (YAML integer), str (quoted decimal string), badstr (quoted string that is not a decimal integer: txt),
\*       bool, float (num.0), floatfrac (num.5), list, null, missing (key absent)
F(k, n, t) == [kind |-> k, num |-> n, txt |-> t]
Missing == F("missing", Zero, "")
Others(n) == {F("bool", Zero, ""), F("float", n, ""), F("floatfrac", n, ""), F("list", Zero, ""), F("null", Zero, "")}
BadStrs == {"14x0", "", "1.5", "five"}
Forms(vals, fl) == {F("int", v, "") : v \in vals} \cup {F("str", v, "") : v \in vals}
                   \cup {F("badstr", Zero, t) : t \in BadStrs} \cup Others(fl) \cup {Missing}

\* outcome of one field: ok (value), refuse, either (may be refused, but if it loads the value is v)
Ok(v) == [st |-> "ok", v |-> v]    Refuse == [st |-> "refuse", v |-> Zero]    Either(v) == [st |-> "either", v |-> v]

\* a numeric field: required?, default, predicate on the value
Num(f, required, def, InRange(_)) ==
    CASE f.kind = "missing" -> IF required THEN Refuse ELSE Ok(def)
      [] f.kind \in {"int", "str"} -> IF Between(f.num, MinI64, MaxI64) /\ InRange(f.num) THEN Ok(f.num) ELSE Refuse    \* exactly the stated value, or refused
      [] f.kind = "float" -> IF InRange(f.num) THEN Either(f.num) ELSE Refuse         \* 5.0: not an integer nor a decimal string; never another value
      [] OTHER -> Refuse

MtuRouteOK(v)  == Leq(N500, v)                         \* tun.routes: mtu is required and at least 500
MtuUnsafeOK(v) == v = Zero \/ Leq(N500, v)             \* tun.unsafe_routes: optional, 0 = unset
MetricOK(v)    == Between(v, Zero, MaxI32)
WeightOK(v)    == Between(v, One, MaxI32)

\* ---- addresses and prefixes: 8-bit toy address space per family -----------------------------------------------------
P(fam, a, len) == [fam |-> fam, a |-> a, len |-> len]
Pow2(n) == IF n = 0 THEN 1 ELSE IF n = 1 THEN 2 ELSE IF n = 2 THEN 4 ELSE IF n = 3 THEN 8 ELSE IF n = 4 THEN 16
           ELSE IF n = 5 THEN 32 ELSE IF n = 6 THEN 64 ELSE IF n = 7 THEN 128 ELSE 256
Contains(net, fam, a) == net.fam = fam /\ (a \div Pow2(8 - net.len)) = (net.a \div Pow2(8 - net.len))
Inside(net, p)   == Contains(net, p.fam, p.a) /\ p.len >= net.len                     \* p is a sub-prefix of net
Covers(p, net)   == Contains(p, net.fam, net.a) /\ net.len >= p.len                   \* p contains net

Net4 == P(4, 64, 2)      Net6 == P(6, 128, 1)
NetSets == {<<Net4>>, <<Net4, Net6>>}
\* route field: pfx (a prefix), badstr (txt), int, missing
R(k, p, t) == [kind |-> k, p |-> p, txt |-> t]
RouteForms == {R("pfx", p, "") : p \in {Net4, P(4, 80, 4), P(4, 65, 8), P(4, 64, 1), P(4, 0, 0), P(4, 128, 2), P(4, 200, 8),
                                        Net6, P(6, 130, 8), P(6, 0, 1)}}
              \cup {R("badstr", Net4, "10.0.0.0/33"), R("badstr", Net4, "not-a-route"), R("int", Net4, ""), R("missing", Net4, "")}

RouteIn(nets, r) ==       \* tun.routes: inside the overlay networks
    IF r.kind # "pfx" THEN "refuse" ELSE IF \E i \in 1..Len(nets) : Inside(nets[i], r.p) THEN "ok" ELSE "refuse"
RouteOut(nets, r) ==      \* tun.unsafe_routes: outside the overlay networks
    IF r.kind # "pfx" THEN "refuse"
    ELSE IF \E i \in 1..Len(nets) : Contains(nets[i], r.p.fam, r.p.a) THEN "refuse"    \* starts inside an overlay network
    ELSE IF \E i \in 1..Len(nets) : Covers(r.p, nets[i]) THEN "either"                 \* a supernet around an overlay network (e.g. a default route)
    ELSE "ok"

\* ---- via ----------------------------------------------------------------------------------------------------------
\* via: addr (a gateway address string), badstr, int, missing, list of gateways; a gateway: ok (weight field), nomap, nogw, gwint, badaddr
G(k, w) == [kind |-> k, w |-> w]
V(k, gws) == [kind |-> k, gws |-> gws]
WeightVals == {Zero, One, Five, MaxI32, OverI32, MinusOne}
WeightForms == Forms(WeightVals, Five)
GwOK == G("ok", Missing)
ViaForms == {V("addr", <<>>), V("badstr", <<>>), V("int", <<>>), V("missing", <<>>)}
            \cup {V("list", <<G("ok", w)>>) : w \in WeightForms}
            \cup {V("list", <<G(k, Missing)>>) : k \in {"nomap", "nogw", "gwint", "badaddr"}}
            \cup {V("list", <<GwOK, G("ok", w)>>) : w \in {F("int", Five, ""), F("str", Five, ""), F("int", Zero, ""), F("bool", Zero, "")}}
            \cup {V("list", <<G("ok", F("str", MaxI32, "")), G("badaddr", Missing)>>)}

GwEval(g) == IF g.kind # "ok" THEN Refuse ELSE Num(g.w, FALSE, One, WeightOK)
ViaEval(v) ==    \* [st, ws]: the gateway weights (gateway k has address number k)
    CASE v.kind = "addr" -> [st |-> "ok", ws |-> <<One>>]
      [] v.kind = "list" ->
           LET ev == [k \in 1..Len(v.gws) |-> GwEval(v.gws[k])]
           IN IF \E k \in 1..Len(v.gws) : ev[k].st = "refuse" THEN [st |-> "refuse", ws |-> <<>>]
              ELSE [st |-> IF \E k \in 1..Len(v.gws) : ev[k].st = "either" THEN "either" ELSE "ok",
                    ws |-> [k \in 1..Len(v.gws) |-> ev[k].v]]
      [] OTHER -> [st |-> "refuse", ws |-> <<>>]

\* ---- install ------------------------------------------------------------------------------------------------------
I(k, b) == [kind |-> k, b |-> b]
InstallForms == {I("missing", TRUE), I("bool", TRUE), I("bool", FALSE), I("str", TRUE), I("str", FALSE), I("badstr", TRUE), I("list", TRUE)}
InstallEval(i) == IF i.kind \in {"badstr", "list"} THEN [st |-> "refuse", b |-> TRUE] ELSE [st |-> "ok", b |-> i.b]

\* ---- entries -------------------------------------------------------------------------------------------------------
MtuVals    == {Zero, N499, N500, N1400, N9001, MinusOne}
MetricVals == {Zero, Five, MaxI32, OverI32, MinusOne, Huge}
MtuForms    == Forms(MtuVals, N1400) \cup {F("str", Giant, "")}
MetricForms == Forms(MetricVals, Five) \cup {F("str", Giant, "")}

E(mtu, metric, via, route, install) == [shape |-> "map", mtu |-> mtu, metric |-> metric, via |-> via, route |-> route, install |-> install]
BaseR == E(F("int", N1400, ""), Missing, V("missing", <<>>), R("pfx", P(4, 80, 4), ""), I("missing", TRUE))     \* a good tun.routes entry
BaseU == E(F("int", N1400, ""), F("int", Five, ""), V("addr", <<>>), R("pfx", P(4, 200, 8), ""), I("missing", TRUE))  \* a good unsafe entry
NotAMap == [BaseR EXCEPT !.shape = "string"]

Combine(sts) == IF "refuse" \in sts THEN "refuse" ELSE IF "either" \in sts THEN "either" ELSE "ok"

EvalR(nets, e) ==
    LET m == Num(e.mtu, TRUE, Zero, MtuRouteOK)
    IN IF e.shape # "map" THEN [st |-> "refuse", mtu |-> Zero, metric |-> Zero, ws |-> <<>>, install |-> TRUE]
       ELSE [st |-> Combine({m.st, RouteIn(nets, e.route)}), mtu |-> m.v, metric |-> Zero, ws |-> <<>>, install |-> TRUE]
EvalU(nets, e) ==
    LET m == Num(e.mtu, FALSE, Zero, MtuUnsafeOK)
        x == Num(e.metric, FALSE, Zero, MetricOK)
        v == ViaEval(e.via)
        i == InstallEval(e.install)
    IN IF e.shape # "map" THEN [st |-> "refuse", mtu |-> Zero, metric |-> Zero, ws |-> <<>>, install |-> TRUE]
       ELSE [st |-> Combine({m.st, x.st, v.st, i.st, RouteOut(nets, e.route)}), mtu |-> m.v, metric |-> x.v, ws |-> v.ws, install |-> i.b]

\* Loads / Value of a whole list: loads only if every entry is well formed
Eval(kind, nets, es) ==
    LET ev == [k \in 1..Len(es) |-> IF kind = "routes" THEN EvalR(nets, es[k]) ELSE EvalU(nets, es[k])]
    IN [st |-> Combine({ev[k].st : k \in 1..Len(es)}), routes |-> ev]

\* ---- the lattice: every pair of fields of an entry over all their forms, the rest as in the good entry ---------------
SinglesU == {[BaseU EXCEPT !.mtu = a] : a \in MtuForms} \cup {[BaseU EXCEPT !.metric = a] : a \in MetricForms}
            \cup {[BaseU EXCEPT !.via = a] : a \in ViaForms} \cup {[BaseU EXCEPT !.route = a] : a \in RouteForms}
            \cup {[BaseU EXCEPT !.install = a] : a \in InstallForms}
SinglesR == {[BaseR EXCEPT !.mtu = a] : a \in MtuForms} \cup {[BaseR EXCEPT !.route = a] : a \in RouteForms}

\* (groups only serve to spread the evaluation over TLC's workers: one seed state per group)
GroupsR == << {<<[BaseR EXCEPT !.mtu = m, !.route = r]>> : m \in MtuForms, r \in RouteForms},
              {<<BaseR, e>> : e \in SinglesR} \cup {<<e, BaseR>> : e \in SinglesR} \cup {<<NotAMap>>, <<BaseR, NotAMap>>, <<>>} >>
GroupsU == << {<<[BaseU EXCEPT !.mtu = a, !.metric = b]>> : a \in MtuForms, b \in MetricForms},
              {<<[BaseU EXCEPT !.mtu = a, !.via = b]>> : a \in MtuForms, b \in ViaForms},
              {<<[BaseU EXCEPT !.metric = a, !.via = b]>> : a \in MetricForms, b \in ViaForms},
              {<<[BaseU EXCEPT !.metric = a, !.route = b]>> : a \in MetricForms, b \in RouteForms},
              {<<[BaseU EXCEPT !.via = a, !.route = b]>> : a \in ViaForms, b \in RouteForms},
              {<<[BaseU EXCEPT !.install = a, !.metric = b]>> : a \in InstallForms, b \in MetricForms}
                \cup {<<[BaseU EXCEPT !.install = a, !.route = b]>> : a \in InstallForms, b \in RouteForms}
                \cup {<<[BaseU EXCEPT !.mtu = a, !.route = b]>> : a \in MtuForms, b \in {R("pfx", P(4, 200, 8), ""), R("pfx", P(4, 80, 4), "")}},
              {<<BaseU, e>> : e \in SinglesU} \cup {<<e, BaseU>> : e \in SinglesU} \cup {<<NotAMap>>, <<BaseU, NotAMap>>, <<>>} >>
Groups(kind) == IF kind = "routes" THEN GroupsR ELSE GroupsU

VARIABLES vec      \* [kind, nets, es, exp, g] ; seeds have kind "seed:<kind>" and a group number
vars == <<vec>>
Init == \E k \in {"routes", "unsafe"}, ns \in (IF Wide THEN NetSets ELSE {<<Net4, Net6>>}) : \E g \in 1..Len(Groups(k)) :
           vec = [kind |-> "seed:" \o k, nets |-> ns, es |-> <<>>, exp |-> Eval(k, ns, <<>>), g |-> g]
Next == \E k \in {"routes", "unsafe"} :
          /\ vec.kind = "seed:" \o k
          /\ \E es \in Groups(k)[vec.g] : vec' = [kind |-> k, nets |-> vec.nets, es |-> es, exp |-> Eval(k, vec.nets, es), g |-> 0]
Spec == Init /\ [][Next]_vars

-----------------------------------------------------------------------------
(* Laws of the statement, checked on every vector *)
IsVec == vec.kind \in {"routes", "unsafe"}
\* a list loads only if every entry on its own loads
AllOrNothing == IsVec => \A k \in 1..Len(vec.es) :
                   Eval(vec.kind, vec.nets, <<vec.es[k]>>).st = "refuse" => vec.exp.st = "refuse"
\* integers and decimal strings mean the same
NumField(e, f) == CASE f = "mtu" -> e.mtu [] f = "metric" -> e.metric [] OTHER -> e.mtu
StringEqualsInt == IsVec => \A k \in 1..Len(vec.es) : \A f \in {"mtu", "metric"} :
    LET e == vec.es[k] IN
    (e.shape = "map" /\ NumField(e, f).kind = "str") =>
        LET e2 == IF f = "mtu" THEN [e EXCEPT !.mtu.kind = "int"] ELSE [e EXCEPT !.metric.kind = "int"]
        IN Eval(vec.kind, vec.nets, <<e2>>) = Eval(vec.kind, vec.nets, <<e>>)
\* whatever loads carries exactly the stated numbers: out-of-range values are refused, never replaced
ExactOrRefused == IsVec => \A k \in 1..Len(vec.es) :
    LET e == vec.es[k] r == vec.exp.routes[k] IN
    (e.shape = "map" /\ vec.exp.st # "refuse") =>
       /\ e.mtu.kind \in {"int", "str", "float"} => r.mtu = e.mtu.num
       /\ (vec.kind = "unsafe" /\ e.metric.kind \in {"int", "str", "float"}) => r.metric = e.metric.num
=============================================================================
