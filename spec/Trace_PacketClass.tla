------------------------- MODULE Trace_PacketClass -------------------------
(* T direction of C20: observations of the real newPacket (both directions) *)
(* and IPv6FindUpperProtocol on seeded random structured packets, one       *)
(* ndjson line each:                                                        *)
(*   {"n":17,"cls":"v6:ext<8","pkt":{...abstract packet...},                *)
(*    "gin":{...result, incoming...},"gout":{...},"gwalk":{...}}            *)
(* TLC evaluates the reference of PacketClass.tla on every abstract packet  *)
(* and judges the observed results; one state per observation, the verdict  *)
(* record is read back by tools/props/C20.py ("ok" = conforms).             *)
EXTENDS PacketClass, Json

Log == ndJsonDeserialize("c20_obs.ndjson")

ObsVerdict(o) ==
    LET c == Classify(o.pkt) IN
    [cls |-> o.cls,
     in   |-> Verdict(o.gin, o.pkt, c, TRUE),
     out  |-> Verdict(o.gout, o.pkt, c, FALSE),
     walk |-> IF o.pkt.fam = 6 THEN VerdictWalk(o.gwalk, o.pkt, WalkRef(o.pkt)) ELSE "ok",
     ref  |-> c.st, may |-> c.may]

TInit == \E k \in 1..Len(Log) : in = Log[k].n /\ exp = ObsVerdict(Log[k])
TSpec == TInit /\ [][UNCHANGED vars]_vars
=============================================================================
