SPECIFICATION Spec
CONSTANTS Mode = "C36R"
          Thorough = FALSE
INVARIANTS Link
CHECK_DEADLOCK FALSE
