SPECIFICATION Spec
CONSTANTS Mode = "C36R"
          Thorough = FALSE
          Salt = 0
INVARIANTS Link
CHECK_DEADLOCK FALSE
