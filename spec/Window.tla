------------------------------- MODULE Window -------------------------------
(***************************************************************************)
(* Replay window of a nebula tunnel (bits.go).                             *)
(*                                                                         *)
(* Reference layer : max, seen  -- "highest accepted" and the set of       *)
(*                   accepted counters, straight from the statement of C11 *)
(* Machine layer   : cur, bits  -- Bits.current and the circular bitmap    *)
(*                   packed into words of B bits (64 in the code), with    *)
(*                   Update's fast path, updateSlow and clearRange's       *)
(*                   partial/whole/partial word arithmetic.                *)
(* Link            : Link, CheckAgrees, ResultAgrees                       *)
(***************************************************************************)
EXTENDS Integers, FiniteSets, Sequences, TLC

CONSTANTS W,      \* window length (power of two in the code)
          B,      \* bits per word (64 in the code)
          MaxC    \* largest counter offered

ASSUME W >= 1 /\ B >= 1 /\ (W % B = 0 \/ W < B)

NW == IF W \div B = 0 THEN 1 ELSE W \div B      \* NewBits: nWords==0 -> 1
Counters == 0..MaxC

VARIABLES max, seen,      \* reference
          cur, bits,      \* machine: bits[w] = set of bit numbers set in word w
          res, mres       \* outcome of the last call: by the reference, by the machine

vars    == <<max, seen, cur, bits, res, mres>>
refvars == <<max, seen>>

-----------------------------------------------------------------------------
(* Reference semantics (the statement) *)
RefAccept(i) == /\ i \notin seen
                /\ \/ i > max
                   \/ i + W > max

RefMark(i) == /\ seen' = seen \cup {i}
              /\ max'  = IF i > max THEN i ELSE max

-----------------------------------------------------------------------------
(* Machine (bits.go) *)
Pos(i)  == i % W                                  \* i & lengthMask
Get(bs, i) == (Pos(i) % B) \in bs[Pos(i) \div B]
Set(bs, i) == [bs EXCEPT ![Pos(i) \div B] = @ \cup {Pos(i) % B}]

Min(a, b) == IF a < b THEN a ELSE b

\* mask ((1<<take)-1)<<bit
Mask(bit, take) == bit..(bit + take - 1)

\* clearRange(startPos, count): first partial word, whole words, last partial word
RECURSIVE ClearWhole(_, _, _)
ClearWhole(bs, pos, remaining) ==
    IF remaining >= B
    THEN ClearWhole([bs EXCEPT ![pos \div B] = {}], (pos + B) % W, remaining - B)
    ELSE IF remaining > 0
         THEN [bs EXCEPT ![pos \div B] = @ \ Mask(0, remaining)]
         ELSE bs

ClearRange(bs, startPos, count) ==
    IF count >= W THEN [w \in 0..NW-1 |-> {}]
    ELSE LET bit   == startPos % B
             take0 == Min(Min(B - bit, count), W - startPos)
             bs1   == [bs EXCEPT ![startPos \div B] = @ \ Mask(bit, take0)]
         IN ClearWhole(bs1, (startPos + take0) % W, count - take0)

StrictlyWithin(i) == \/ (i < W /\ cur < W)
                     \/ (cur >= W /\ i > cur - W)      \* u64: no underflow past warm-up
                     \* during warm-up with i >= W the Go expression underflows:
                     \* cur - W wraps to a huge value, i > huge is false
MCheck(i) == IF i > cur THEN TRUE
             ELSE IF StrictlyWithin(i) THEN ~Get(bits, i)
             ELSE FALSE

\* Update: returns the result and the new machine state
MUpdate(i) ==
    IF i = cur + 1
      THEN [res |-> TRUE, cur |-> i, bits |-> Set(bits, i)]
    ELSE IF i > cur
      THEN LET end   == Min(i, cur + W)
               count == end - cur
               cl    == ClearRange(bits, (cur + 1) % W, count)
           IN [res |-> TRUE, cur |-> i, bits |-> Set(cl, i)]
    ELSE IF StrictlyWithin(i)
      THEN IF cur = i \/ Get(bits, i)
             THEN [res |-> FALSE, cur |-> cur, bits |-> bits]
             ELSE [res |-> TRUE,  cur |-> cur, bits |-> Set(bits, i)]
    ELSE [res |-> FALSE, cur |-> cur, bits |-> bits]

-----------------------------------------------------------------------------
Init == /\ max = 0 /\ seen = {0}                  \* counter 0 does not exist: pre-marked
        /\ cur = 0
        /\ bits = [w \in 0..NW-1 |-> IF w = 0 THEN {0} ELSE {}]
        /\ res = FALSE /\ mres = FALSE

\* Bits.Update(i)
Update(i) ==
    LET m == MUpdate(i)
        r == RefAccept(i)
    IN /\ cur' = m.cur /\ bits' = m.bits
       /\ IF r THEN RefMark(i) ELSE UNCHANGED refvars
       /\ res' = r /\ mres' = m.res

\* Bits.Check(i): a pre-check predicts the outcome and changes nothing
Check(i) == /\ UNCHANGED <<max, seen, cur, bits>>
            /\ res' = RefAccept(i) /\ mres' = MCheck(i)

Next == \E i \in Counters : Update(i) \/ Check(i)

Spec == Init /\ [][Next]_vars

-----------------------------------------------------------------------------
(* The link between machine and reference *)
ResultAgrees == mres = res
CheckAgrees  == \A i \in 0..(MaxC + 1) : MCheck(i) = RefAccept(i)
Lo == IF max >= W THEN max - W + 1 ELSE 0
Link == /\ cur = max
        /\ \A j \in Lo..max : Get(bits, j) <=> (j \in seen)
TypeOK == /\ max \in Counters /\ seen \subseteq Counters
          /\ \A w \in 0..NW-1 : bits[w] \subseteq 0..B-1

\* Counters below the window can never be accepted again whatever seen says about them, so
\* states that agree on the window part of seen are bisimilar: exploration uses this view.
View == <<max, {j \in seen : j >= Lo}, cur, bits, res, mres>>
=============================================================================
