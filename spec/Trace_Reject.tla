---------------------------- MODULE Trace_Reject ----------------------------
(* T direction of C21: observations of the real CreateRejectPacket on       *)
(* seeded random structured packets, one ndjson line each:                  *)
(*   {"n":5,"cls":"v4:tcp","p":{...abstract packet incl. buf...},           *)
(*    "r":{...projected reply (decoded, checksums verified)...}}            *)
(* TLC evaluates the reference of Reject.tla on every abstract packet and   *)
(* judges the projected reply; the verdicts are read back by C21.py.        *)
EXTENDS Reject, Json

Log == ndJsonDeserialize("c21_obs.ndjson")

ObsVerdict(o) == LET a == Reply(o.p) IN [cls |-> o.cls, v |-> RVerdict(o.r, a, o.p), ref |-> a.kind, why |-> a.why]

TInit == \E k \in 1..Len(Log) : in = Log[k].n /\ exp = ObsVerdict(Log[k])
TSpec == TInit /\ [][UNCHANGED vars]_vars
=============================================================================
