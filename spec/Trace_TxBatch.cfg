SPECIFICATION TraceSpec
CONSTANTS MaxEntries = 128
          MaxSegs = 63
          MaxBytes = 65000
          Bad <- BadSet
          GsoInit = {TRUE, FALSE}
          Batches = {}
          N = 0
          Dests = {}
          Sizes = {}
INVARIANTS RefShape RefInOrderOnce RefCount Conforms
POSTCONDITION TraceAccepted
CHECK_DEADLOCK FALSE
