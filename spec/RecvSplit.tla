------------------------------ MODULE RecvSplit ------------------------------
(***************************************************************************)
(* C27 -- a datagram received with a kernel coalescing size (UDP_GRO) is   *)
(* split back into the datagrams the kernel stitched together              *)
(* (udp/udp_linux.go: deliverSegments).                                    *)
(*                                                                         *)
(* Reference layer : IsSplit(p, len, seg) -- the statement: consecutive    *)
(*                   pieces of size seg, the last may be shorter, together *)
(*                   exactly the received bytes; a missing or nonsensical  *)
(*                   size delivers the datagram whole.  A piece sequence   *)
(*                   is the sequence of piece lengths; pieces are          *)
(*                   consecutive from offset 0 (Offsets).                  *)
(* Machine layer   : Split(len, seg) -- the loop of deliverSegments.       *)
(* Link            : SplitIsSplit, Unique, ScaleInvariant                  *)
(*                                                                         *)
(* Function specification (vector mode): every element of the grid is one  *)
(* TLC state; TLC checks the link on each; the dumped states are the       *)
(* vectors run on the real deliverSegments.                                *)
(***************************************************************************)
EXTENDS Integers, Sequences, FiniteSets, TLC

CONSTANT Thorough      \* BOOLEAN: size of the grid

RECURSIVE Sum(_)
Sum(s) == IF s = <<>> THEN 0 ELSE Head(s) + Sum(Tail(s))

-----------------------------------------------------------------------------
(* Reference (the statement) *)
IsSplit(p, len, seg) ==
    IF seg <= 0
    THEN p = <<len>>                                   \* missing / nonsensical size: whole
    ELSE /\ Sum(p) = len                               \* together exactly the received bytes
         /\ \A k \in 1..(Len(p) - 1) : p[k] = seg      \* pieces of that size ...
         /\ Len(p) >= 1 => /\ p[Len(p)] <= seg         \* ... the last may be shorter
                           /\ (p[Len(p)] > 0 \/ len = 0)
         /\ len > 0 => Len(p) >= 1
\* seg >= len ("equal to and above the length") needs no case of its own: the rule above then
\* admits exactly <<len>>.  For an empty datagram with a positive size the statement does not say
\* whether one empty piece or no piece is delivered: both satisfy it.
Acceptable(len, seg) == IF seg > 0 /\ len = 0 THEN {<<>>, <<0>>} ELSE {}

\* offset of piece k: pieces are consecutive
Offset(p, k) == Sum(SubSeq(p, 1, k - 1))

-----------------------------------------------------------------------------
(* Machine (deliverSegments) *)
RECURSIVE Loop(_, _, _)
Loop(off, len, seg) ==
    IF off >= len THEN <<>>
    ELSE LET end == IF off + seg > len THEN len ELSE off + seg
         IN <<end - off>> \o Loop(off + seg, len, seg)

Split(len, seg) == IF seg <= 0 \/ seg >= len THEN <<len>> ELSE Loop(0, len, seg)

-----------------------------------------------------------------------------
(* The grid: len 0..40 x seg -2..42 at scale 1 (exhaustive) and at real sizes (len up to 65520), *)
(* around the multiples as well (seg = k*s + d).                                                 *)
Scales == IF Thorough THEN {1, 2, 7, 256, 1200, 1472, 1638} ELSE {1, 1200, 1638}
Deltas(k) == IF k = 1 THEN {0} ELSE {-1, 0, 1}
LenDeltas(k) == IF k = 1 \/ ~Thorough THEN {0} ELSE {0, 1}

Inputs == UNION { { [len |-> k * l + dl, seg |-> k * s + d, k |-> k] :
                      l \in 0..40, s \in (-2)..42, d \in Deltas(k), dl \in LenDeltas(k) } : k \in Scales }
GridInputs == { i \in Inputs : i.seg <= 0 \/ i.len <= 64 * i.seg }    \* at most 64 pieces per vector

SplitInputs == { [kind |-> "split", len |-> i.len, seg |-> i.seg, k |-> i.k] : i \in GridInputs }

-----------------------------------------------------------------------------
(* Where the size comes from: the kernel's ancillary data (parseRecvCmsg).  An ancillary buffer is a   *)
(* sequence of control messages [lvl, typ, dlen, val], each a header of CmsgHdr bytes, dlen data bytes *)
(* and padding to CmsgAlign; the buffer may be cut anywhere (MSG_CTRUNC).  The coalescing size is the  *)
(* value of the UDP_GRO message if that message lies completely inside the buffer; otherwise it is     *)
(* missing (0).  The kernel delivers at most one such message.                                         *)
CmsgHdr == 16
CmsgAlign == 8
Space(dlen) == CmsgHdr + ((dlen + CmsgAlign - 1) \div CmsgAlign) * CmsgAlign
ItemOff(items, j) == Sum([q \in 1..(j - 1) |-> Space(items[q].dlen)])
Total(items) == ItemOff(items, Len(items) + 1)
IsGro(it) == it.lvl = "udp" /\ it.typ = "gro"
SizeFromAncillary(items, cut) ==
    LET g == { j \in 1..Len(items) : IsGro(items[j]) /\ ItemOff(items, j) + CmsgHdr + items[j].dlen <= cut }
    IN IF g = {} THEN 0 ELSE items[CHOOSE j \in g : TRUE].val

GroVals == {-1, 0, 1, 1200, 65535}
GroItems == { [lvl |-> "udp", typ |-> "gro", dlen |-> 4, val |-> v] : v \in GroVals }
OtherItems == { [lvl |-> x[1], typ |-> x[2], dlen |-> x[3], val |-> 77] :
                  x \in IF Thorough THEN {<<"ip", "other", 0>>, <<"ip", "other", 5>>, <<"udp", "seg", 4>>, <<"ip", "gro", 4>>}
                                    ELSE {<<"ip", "other", 0>>, <<"ip", "other", 5>>, <<"udp", "seg", 0>>, <<"udp", "seg", 5>>,
                                          <<"ip", "gro", 0>>, <<"ip", "gro", 5>>} }
Items == GroItems \cup OtherItems
MaxItems == IF Thorough THEN 3 ELSE 2
ItemSeqs == { q \in UNION { [1..n -> Items] : n \in 0..MaxItems } :
                Cardinality({ j \in DOMAIN q : IsGro(q[j]) }) <= 1 }
AncInputs == UNION { { [kind |-> "anc", items |-> q, cut |-> c] : c \in 0..Total(q) } : q \in ItemSeqs }

-----------------------------------------------------------------------------
(* The receive LOOP (StdConn.ListenOut).  The batch slots -- receive buffer, ancillary buffer and the       *)
(* msg_controllen field of each -- are reused by every recvmmsg round, so a slot carries state from round   *)
(* to round:  slot = [buf  |-> the control messages lying in its ancillary buffer (<<>> = zeroed slab),     *)
(*                    clen |-> its msg_controllen field].                                                   *)
(* Kernel interface (recvmmsg, udp_cmsg_recv / put_cmsg): a round fills the slots 1..k in order.  For a     *)
(* coalesced datagram it writes the UDP_GRO message into the slot's buffer and msg_controllen = the space   *)
(* used -- provided the msg_controllen it FOUND there leaves room for the message (else MSG_CTRUNC, nothing *)
(* written); for a datagram without coalescing size it writes msg_controllen = 0 AND LEAVES THE BUFFER AS   *)
(* IT IS.  Slots beyond k are not touched.                                                                  *)
(* Reference: what is delivered for a slot depends only on the datagram of THIS round: IsSplit(pieces, len, *)
(* size the kernel coalesced with in this round) -- the statement, per received datagram.                   *)
(* Machine: Round(slots, round, order).  order = "arm-receive-parse" is the code (every slot gets its full  *)
(* msg_controllen back BEFORE recvmmsg, each filled slot is parsed with what the kernel wrote back).  The   *)
(* other orders are kept only to show that the link below separates them (LoopOrderMatters): the loop order *)
(* is part of the specification, not just the two pure functions.                                           *)
CmsgFull == Space(4)
GroItem(v) == [lvl |-> "udp", typ |-> "gro", dlen |-> 4, val |-> v]
FreshSlots(n) == [i \in 1..n |-> [buf |-> <<>>, clen |-> CmsgFull]]
Arm(slots) == [i \in DOMAIN slots |-> [slots[i] EXCEPT !.clen = CmsgFull]]
Kernel(slots, round) ==
    [i \in DOMAIN slots |->
        IF i > Len(round) THEN slots[i]
        ELSE IF round[i].gro > 0 /\ slots[i].clen >= CmsgHdr + 4
             THEN [buf |-> <<GroItem(round[i].gro)>>, clen |-> CmsgFull]
             ELSE [buf |-> slots[i].buf, clen |-> 0]]
Orders == {"arm-receive-parse", "receive-arm-parse", "never-arm"}
Round(slots, round, order) ==
    LET armed  == IF order = "arm-receive-parse" THEN Arm(slots) ELSE slots
        filled == Kernel(armed, round)
        seen   == IF order = "receive-arm-parse"
                  THEN [i \in DOMAIN filled |-> IF i <= Len(round) THEN [filled[i] EXCEPT !.clen = CmsgFull] ELSE filled[i]]
                  ELSE filled
    IN [slots |-> seen,
        out   |-> [i \in 1..Len(round) |-> Split(round[i].len, SizeFromAncillary(seen[i].buf, seen[i].clen))]]
RECURSIVE RunLoop(_, _, _)
RunLoop(slots, rounds, order) ==
    IF rounds = <<>> THEN <<>>
    ELSE LET r == Round(slots, Head(rounds), order) IN <<r.out>> \o RunLoop(r.slots, Tail(rounds), order)

\* the lattice: 1-2 slots (a round fills slot 1 or slots 1..2), histories of 1..3 rounds, each datagram coalesced
\* (size S, several segments, tail full or short) or plain (shorter than / equal to / just above / well above an S)
LoopDgrams == {[gro |-> 300, len |-> 900], [gro |-> 500, len |-> 1200], [gro |-> 0, len |-> 200], [gro |-> 0, len |-> 1000]}
              \cup (IF Thorough THEN {[gro |-> 0, len |-> 300], [gro |-> 0, len |-> 301]} ELSE {})
LoopSlots == 2
LoopRounds == UNION { [1..k -> LoopDgrams] : k \in 1..LoopSlots }
LoopMaxRounds == 3
\* size left in slot i by the rounds before round r (0 = none)
RECURSIVE StaleSize(_, _, _)
StaleSize(rounds, r, i) ==
    IF r <= 1 THEN 0
    ELSE IF Len(rounds[r - 1]) >= i /\ rounds[r - 1][i].gro > 0 THEN rounds[r - 1][i].gro
         ELSE StaleSize(rounds, r - 1, i)
\* a datagram without size, longer than the size an earlier round left in its slot
StaleMatters(rounds) == \E r \in DOMAIN rounds : \E i \in DOMAIN rounds[r] :
    rounds[r][i].gro = 0 /\ StaleSize(rounds, r, i) > 0 /\ StaleSize(rounds, r, i) < rounds[r][i].len
\* a coalesced datagram in a slot whose previous datagram came without size
RECURSIVE PrevPlain(_, _, _)
PrevPlain(rounds, r, i) ==
    IF r <= 1 THEN FALSE
    ELSE IF Len(rounds[r - 1]) >= i THEN rounds[r - 1][i].gro = 0 ELSE PrevPlain(rounds, r - 1, i)
UnarmedMatters(rounds) == \E r \in DOMAIN rounds : \E i \in DOMAIN rounds[r] :
    rounds[r][i].gro > 0 /\ PrevPlain(rounds, r, i)

VARIABLES in, exp, ok
vars == <<in, exp, ok>>
Init == /\ \/ in \in SplitInputs \cup AncInputs
           \/ \E n \in 1..LoopMaxRounds : \E h \in [1..n -> LoopRounds] : in = [kind |-> "loop", slots |-> LoopSlots, rounds |-> h]
        /\ exp = CASE in.kind = "split" -> Split(in.len, in.seg)
                  [] in.kind = "anc" -> <<SizeFromAncillary(in.items, in.cut)>>
                  [] in.kind = "loop" -> RunLoop(FreshSlots(in.slots), in.rounds, "arm-receive-parse")
        /\ ok = IF in.kind = "split" THEN {exp} \cup Acceptable(in.len, in.seg) ELSE {exp}
Next == UNCHANGED vars
Spec == Init /\ [][Next]_vars

-----------------------------------------------------------------------------
(* Link, checked by TLC on every vector *)
SplitIsSplit == in.kind = "split" => \A p \in ok : IsSplit(p, in.len, in.seg)
\* the statement determines the outcome: no other sequence built from the same material qualifies
Candidates == LET n == Len(exp) IN
    {exp, <<in.len>>, SubSeq(exp, 1, n - 1), exp \o <<0>>, <<>>,
     IF n >= 2 THEN SubSeq(exp, 1, n - 2) \o <<exp[n - 1] + exp[n]>> ELSE exp,
     IF n >= 1 /\ exp[n] >= 2 THEN SubSeq(exp, 1, n - 1) \o <<exp[n] - 1, 1>> ELSE exp}
Unique == in.kind = "split" => \A p \in Candidates : IsSplit(p, in.len, in.seg) => p \in ok
Consecutive == in.kind = "split" => \A j \in 1..Len(exp) : Offset(exp, j) = (IF in.seg > 0 THEN (j - 1) * in.seg ELSE 0)
\* the rule only depends on ratios: scaling length and size scales the pieces
ScaleInvariant == (in.kind = "split" /\ in.k = 1 /\ in.len > 0) =>
    Split(3 * in.len, 3 * in.seg) = [j \in 1..Len(exp) |-> 3 * exp[j]]
\* a missing size (no message, a cut message, an empty buffer) delivers the datagram whole
MissingIsWhole == in.kind = "anc" =>
    /\ ((\A j \in DOMAIN in.items : ~IsGro(in.items[j])) \/ in.cut < CmsgHdr + 4) => exp = <<0>>
    /\ \A n \in {0, 1, 7, 1200} : exp = <<0>> => Split(n, exp[1]) = <<n>>
    /\ (in.cut = Total(in.items) /\ \E j \in DOMAIN in.items : IsGro(in.items[j])) =>
          \E j \in DOMAIN in.items : IsGro(in.items[j]) /\ exp = <<in.items[j].val>>
\* the loop: every datagram of every round is delivered as the statement says for the size the kernel gave in
\* THAT round, whatever earlier rounds left in the slot
LoopFresh == in.kind = "loop" =>
    \A r \in DOMAIN in.rounds : \A i \in DOMAIN in.rounds[r] :
        IsSplit(exp[r][i], in.rounds[r][i].len, in.rounds[r][i].gro)
\* ... and the link separates the loop orders: re-arming between recvmmsg and the parse shows exactly on histories
\* with a stale size that matters, never re-arming exactly on histories with a coalesced datagram after a plain one
LoopOrderMatters == in.kind = "loop" =>
    /\ (RunLoop(FreshSlots(in.slots), in.rounds, "receive-arm-parse") # exp) <=> StaleMatters(in.rounds)
    /\ (RunLoop(FreshSlots(in.slots), in.rounds, "never-arm") # exp) <=> UnarmedMatters(in.rounds)
=============================================================================
