------------------------------ MODULE RecvSplit ------------------------------
(***************************************************************************)
(* C27 -- a datagram received with a kernel coalescing size (UDP_GRO) is   *)
(* split back into the datagrams the kernel stitched together              *)
(* (udp/udp_linux.go: deliverSegments).                                    *)
(*                                                                         *)
(* Reference layer : IsSplit(p, len, seg) -- the statement: consecutive    *)
(*                   pieces of size seg, the last may be shorter, together *)
(*                   exactly the received bytes; a missing or nonsensical  *)
(*                   size delivers the datagram whole.  A piece sequence   *)
(*                   is the sequence of piece lengths; pieces are          *)
(*                   consecutive from offset 0 (Offsets).                  *)
(* Machine layer   : Split(len, seg) -- the loop of deliverSegments.       *)
(* Link            : SplitIsSplit, Unique, ScaleInvariant                  *)
(*                                                                         *)
(* Function specification (vector mode): every element of the grid is one  *)
(* TLC state; TLC checks the link on each; the dumped states are the       *)
(* vectors run on the real deliverSegments.                                *)
(***************************************************************************)
EXTENDS Integers, Sequences, FiniteSets, TLC

CONSTANT Thorough      \* BOOLEAN: size of the grid

RECURSIVE Sum(_)
Sum(s) == IF s = <<>> THEN 0 ELSE Head(s) + Sum(Tail(s))

-----------------------------------------------------------------------------
(* Reference (the statement) *)
IsSplit(p, len, seg) ==
    IF seg <= 0
    THEN p = <<len>>                                   \* missing / nonsensical size: whole
    ELSE /\ Sum(p) = len                               \* together exactly the received bytes
         /\ \A k \in 1..(Len(p) - 1) : p[k] = seg      \* pieces of that size ...
         /\ Len(p) >= 1 => /\ p[Len(p)] <= seg         \* ... the last may be shorter
                           /\ (p[Len(p)] > 0 \/ len = 0)
         /\ len > 0 => Len(p) >= 1
\* seg >= len ("equal to and above the length") needs no case of its own: the rule above then
\* admits exactly <<len>>.  For an empty datagram with a positive size the statement does not say
\* whether one empty piece or no piece is delivered: both satisfy it.
Acceptable(len, seg) == IF seg > 0 /\ len = 0 THEN {<<>>, <<0>>} ELSE {}

\* offset of piece k: pieces are consecutive
Offset(p, k) == Sum(SubSeq(p, 1, k - 1))

-----------------------------------------------------------------------------
(* Machine (deliverSegments) *)
RECURSIVE Loop(_, _, _)
Loop(off, len, seg) ==
    IF off >= len THEN <<>>
    ELSE LET end == IF off + seg > len THEN len ELSE off + seg
         IN <<end - off>> \o Loop(off + seg, len, seg)

Split(len, seg) == IF seg <= 0 \/ seg >= len THEN <<len>> ELSE Loop(0, len, seg)

-----------------------------------------------------------------------------
(* The grid: len 0..40 x seg -2..42 at scale 1 (exhaustive) and at real sizes (len up to 65520), *)
(* around the multiples as well (seg = k*s + d).                                                 *)
Scales == IF Thorough THEN {1, 2, 7, 256, 1200, 1472, 1638} ELSE {1, 1200, 1638}
Deltas(k) == IF k = 1 THEN {0} ELSE {-1, 0, 1}
LenDeltas(k) == IF k = 1 \/ ~Thorough THEN {0} ELSE {0, 1}

Inputs == UNION { { [len |-> k * l + dl, seg |-> k * s + d, k |-> k] :
                      l \in 0..40, s \in (-2)..42, d \in Deltas(k), dl \in LenDeltas(k) } : k \in Scales }
GridInputs == { i \in Inputs : i.seg <= 0 \/ i.len <= 64 * i.seg }    \* at most 64 pieces per vector

SplitInputs == { [kind |-> "split", len |-> i.len, seg |-> i.seg, k |-> i.k] : i \in GridInputs }

-----------------------------------------------------------------------------
(* Where the size comes from: the kernel's ancillary data (parseRecvCmsg).  An ancillary buffer is a   *)
(* sequence of control messages [lvl, typ, dlen, val], each a header of CmsgHdr bytes, dlen data bytes *)
(* and padding to CmsgAlign; the buffer may be cut anywhere (MSG_CTRUNC).  The coalescing size is the  *)
(* value of the UDP_GRO message if that message lies completely inside the buffer; otherwise it is     *)
(* missing (0).  The kernel delivers at most one such message.                                         *)
CmsgHdr == 16
CmsgAlign == 8
Space(dlen) == CmsgHdr + ((dlen + CmsgAlign - 1) \div CmsgAlign) * CmsgAlign
ItemOff(items, j) == Sum([q \in 1..(j - 1) |-> Space(items[q].dlen)])
Total(items) == ItemOff(items, Len(items) + 1)
IsGro(it) == it.lvl = "udp" /\ it.typ = "gro"
SizeFromAncillary(items, cut) ==
    LET g == { j \in 1..Len(items) : IsGro(items[j]) /\ ItemOff(items, j) + CmsgHdr + items[j].dlen <= cut }
    IN IF g = {} THEN 0 ELSE items[CHOOSE j \in g : TRUE].val

GroVals == {-1, 0, 1, 1200, 65535}
GroItems == { [lvl |-> "udp", typ |-> "gro", dlen |-> 4, val |-> v] : v \in GroVals }
OtherItems == { [lvl |-> x[1], typ |-> x[2], dlen |-> x[3], val |-> 77] :
                  x \in IF Thorough THEN {<<"ip", "other", 0>>, <<"ip", "other", 5>>, <<"udp", "seg", 4>>, <<"ip", "gro", 4>>}
                                    ELSE {<<"ip", "other", 0>>, <<"ip", "other", 5>>, <<"udp", "seg", 0>>, <<"udp", "seg", 5>>,
                                          <<"ip", "gro", 0>>, <<"ip", "gro", 5>>} }
Items == GroItems \cup OtherItems
MaxItems == IF Thorough THEN 3 ELSE 2
ItemSeqs == { q \in UNION { [1..n -> Items] : n \in 0..MaxItems } :
                Cardinality({ j \in DOMAIN q : IsGro(q[j]) }) <= 1 }
AncInputs == UNION { { [kind |-> "anc", items |-> q, cut |-> c] : c \in 0..Total(q) } : q \in ItemSeqs }

VARIABLES in, exp, ok
vars == <<in, exp, ok>>
Init == /\ in \in SplitInputs \cup AncInputs
        /\ exp = IF in.kind = "split" THEN Split(in.len, in.seg) ELSE <<SizeFromAncillary(in.items, in.cut)>>
        /\ ok = IF in.kind = "split" THEN {exp} \cup Acceptable(in.len, in.seg) ELSE {exp}
Next == UNCHANGED vars
Spec == Init /\ [][Next]_vars

-----------------------------------------------------------------------------
(* Link, checked by TLC on every vector *)
SplitIsSplit == in.kind = "split" => \A p \in ok : IsSplit(p, in.len, in.seg)
\* the statement determines the outcome: no other sequence built from the same material qualifies
Candidates == LET n == Len(exp) IN
    {exp, <<in.len>>, SubSeq(exp, 1, n - 1), exp \o <<0>>, <<>>,
     IF n >= 2 THEN SubSeq(exp, 1, n - 2) \o <<exp[n - 1] + exp[n]>> ELSE exp,
     IF n >= 1 /\ exp[n] >= 2 THEN SubSeq(exp, 1, n - 1) \o <<exp[n] - 1, 1>> ELSE exp}
Unique == in.kind = "split" => \A p \in Candidates : IsSplit(p, in.len, in.seg) => p \in ok
Consecutive == in.kind = "split" => \A j \in 1..Len(exp) : Offset(exp, j) = (IF in.seg > 0 THEN (j - 1) * in.seg ELSE 0)
\* the rule only depends on ratios: scaling length and size scales the pieces
ScaleInvariant == (in.kind = "split" /\ in.k = 1 /\ in.len > 0) =>
    Split(3 * in.len, 3 * in.seg) = [j \in 1..Len(exp) |-> 3 * exp[j]]
\* a missing size (no message, a cut message, an empty buffer) delivers the datagram whole
MissingIsWhole == in.kind = "anc" =>
    /\ ((\A j \in DOMAIN in.items : ~IsGro(in.items[j])) \/ in.cut < CmsgHdr + 4) => exp = <<0>>
    /\ \A n \in {0, 1, 7, 1200} : exp = <<0>> => Split(n, exp[1]) = <<n>>
    /\ (in.cut = Total(in.items) /\ \E j \in DOMAIN in.items : IsGro(in.items[j])) =>
          \E j \in DOMAIN in.items : IsGro(in.items[j]) /\ exp = <<in.items[j].val>>
=============================================================================
