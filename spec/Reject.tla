------------------------------- MODULE Reject -------------------------------
(***************************************************************************)
(* C21 - reject replies (iputil.CreateRejectPacket, called by              *)
(* rejectInside / rejectOutside).                                          *)
(*                                                                         *)
(* Abstract packet (a packet the classifier accepted):                     *)
(*   fam 4|6, v4: ihl, df, mf, fo;  v6: ext = chain of extension headers   *)
(*   [p, n, fo, mf];  proto = upper protocol, t = ICMP type,               *)
(*   tl = bytes present after the IP header (chain), TCP: flags 0..255,    *)
(*   doff, seqS/ackS = symbols for the 32-bit sequence numbers ("zero",    *)
(*   "mid", "max", "nearmax", "rand"; concrete values live in the          *)
(*   harness, 32-bit arithmetic does not fit TLC integers),                *)
(*   buf = capacity of the output buffer.                                  *)
(*                                                                         *)
(* Reference: Reply(p) = what may be sent back.  Implementation-shaped     *)
(* layer: ImplReply(p) = the decisions of the Go code in its order.        *)
(* Link: RVerdict(ImplReply(p), Reply(p)) = "ok" on every vector.          *)
(***************************************************************************)
EXTENDS Integers, Sequences, FiniteSets, TLC

CONSTANT Thorough

TCP == 6   UDP == 17   ICMP4 == 1   ICMP6 == 58
FIN == 1   SYN == 2   RST == 4   PSH == 8   ACK == 16
Has(flags, bit) == (flags \div bit) % 2 = 1

ExtSize(h) == CASE h.p \in {0, 43, 60} -> (h.n + 1) * 8 [] h.p = 44 -> 8 [] h.p = 51 -> (h.n + 2) * 4
RECURSIVE ExtBytes(_, _)
ExtBytes(ext, k) == IF k = 0 THEN 0 ELSE ExtBytes(ext, k - 1) + ExtSize(ext[k])

Hdr(p)      == IF p.fam = 4 THEN p.ihl * 4 ELSE 40 + ExtBytes(p.ext, Len(p.ext))   \* offset of the upper-layer header
PLen(p)     == Hdr(p) + p.tl                                                        \* length of the packet
OuterHdr(p) == IF p.fam = 4 THEN 20 ELSE 40
MaxSize(p)  == IF p.fam = 4 THEN 96 ELSE 1048        \* the documented maxima (iputil/packet.go)
MinOf(a, b) == IF a < b THEN a ELSE b

IsLaterFragment(p) == IF p.fam = 4 THEN p.fo # 0 ELSE \E i \in 1..Len(p.ext) : p.ext[i].p = 44 /\ p.ext[i].fo # 0
IsIcmp(p) == (p.fam = 4 /\ p.proto = ICMP4) \/ (p.fam = 6 /\ p.proto = ICMP6)
IcmpErrorTypes(fam) == IF fam = 4 THEN {3, 4, 5, 11, 12} ELSE {1, 2, 3, 4}
IsIcmpError(p) == IsIcmp(p) /\ p.tl >= 1 /\ p.t \in IcmpErrorTypes(p.fam)
\* the type is not in the packet, or it is an unassigned type of the ICMPv6 error range: either behaviour is accepted
UnclearIcmp(p) == IsIcmp(p) /\ (p.tl = 0 \/ (p.fam = 6 /\ p.t < 128 /\ p.t \notin {1, 2, 3, 4}))

-----------------------------------------------------------------------------
(* Reference.  kind "none" | "rst" | "icmp"; opt = sending nothing is       *)
(* acceptable as well; why = the clause that forbids a reply.               *)
NoReply(why) == [kind |-> "none", opt |-> TRUE, why |-> why, seqIsAck |-> FALSE, ackAdd |-> -1, rflags |-> 0,
                 itype |-> 0, icode |-> 0, qmin |-> 0, qmax |-> 0]
RstReply(opt, seqIsAck, ackAdd, rflags) == [NoReply("") EXCEPT !.kind = "rst", !.opt = opt, !.seqIsAck = seqIsAck,
                                                                !.ackAdd = ackAdd, !.rflags = rflags]
IcmpReply(opt, ty, co, qmin, qmax) == [NoReply("") EXCEPT !.kind = "icmp", !.opt = opt, !.itype = ty, !.icode = co,
                                                           !.qmin = qmin, !.qmax = qmax]

Reply(p) ==
    IF p.fam \notin {4, 6} THEN NoReply("version")
    ELSE IF IsLaterFragment(p) THEN NoReply("later-fragment")
    ELSE IF p.proto = TCP THEN
        \* netfilter: no reset without the complete TCP header; seq = ack of the offender if it carried ACK, else
        \* seq 0 and ack = seq + SYN + FIN + segment length with RST|ACK
        IF p.tl < 20 THEN NoReply("truncated-tcp")
        ELSE IF p.buf < OuterHdr(p) + 20 THEN NoReply("buffer-too-small")
        ELSE LET opt == Has(p.flags, RST) IN      \* the statement does not say whether a reset is answered
             IF Has(p.flags, ACK) THEN RstReply(opt, TRUE, -1, RST)
             ELSE RstReply(opt, FALSE, (IF Has(p.flags, SYN) THEN 1 ELSE 0) + (IF Has(p.flags, FIN) THEN 1 ELSE 0)
                                         + (p.tl - p.doff * 4), RST + ACK)
    ELSE IF IsIcmpError(p) THEN NoReply("icmp-error")
    ELSE \* administratively prohibited, quoting a prefix of the offender: at least its IP header + 8 bytes (or all of
         \* it), at most what keeps the reply within the documented maximum
         LET qmin == MinOf(PLen(p), (IF p.fam = 4 THEN p.ihl * 4 ELSE 40) + 8)
             qmax == MinOf(PLen(p), MaxSize(p) - OuterHdr(p) - 8)
             ty == IF p.fam = 4 THEN 3 ELSE 1
             co == IF p.fam = 4 THEN 13 ELSE 1
         IN IF p.buf < OuterHdr(p) + 8 + qmin THEN NoReply("buffer-too-small")
            ELSE IcmpReply(UnclearIcmp(p) \/ p.buf < OuterHdr(p) + 8 + qmax, ty, co, qmin, qmax)

(* An observed (projected) reply r:                                        *)
(*  [kind "none"|"rst"|"icmp"|"malformed"|"panic", size, seqIsAck,         *)
(*   seqIsZero, ackIsZero, ackDelta (reply.ack - offender.seq mod 2^32, -2 *)
(*   when huge), rflags, itype, icode, qlen]                               *)
RVerdict(r, a, p) ==
    CASE r.kind = "panic" -> "panic"
      [] r.kind = "malformed" -> "malformed"
      [] r.kind = "none" -> IF a.kind = "none" \/ a.opt THEN "ok" ELSE "no-reply"
      [] OTHER ->
         IF a.kind = "none" THEN "replied-to-" \o a.why
         ELSE IF r.kind # a.kind THEN "wrong-kind"
         ELSE IF r.size > MaxSize(p) \/ r.size > p.buf THEN "size"
         ELSE IF r.kind = "rst" THEN
              IF r.rflags # a.rflags THEN "rst-flags"
              ELSE IF a.seqIsAck /\ ~r.seqIsAck THEN "rst-seq"
              ELSE IF ~a.seqIsAck /\ ~r.seqIsZero THEN "rst-seq"
              ELSE IF a.ackAdd = -1 /\ ~r.ackIsZero THEN "rst-ack"
              ELSE IF a.ackAdd # -1 /\ r.ackDelta # a.ackAdd THEN "rst-ack"
              ELSE "ok"
         ELSE IF r.itype # a.itype \/ r.icode # a.icode THEN "icmp-type"
              ELSE IF r.qlen < a.qmin \/ r.qlen > a.qmax THEN "icmp-quote"
              ELSE "ok"

-----------------------------------------------------------------------------
(* Implementation-shaped layer: iputil/packet.go                           *)
INone == [kind |-> "none", size |-> 0, seqIsAck |-> FALSE, seqIsZero |-> FALSE, ackIsZero |-> FALSE, ackDelta |-> -2,
          rflags |-> 0, itype |-> 0, icode |-> 0, qlen |-> 0]

ImplRst(p, outer) ==
    IF Has(p.flags, ACK)
    THEN [INone EXCEPT !.kind = "rst", !.size = outer + 20, !.seqIsAck = TRUE, !.seqIsZero = (p.ackS = "zero"),
                       !.ackIsZero = TRUE, !.rflags = RST]
    ELSE [INone EXCEPT !.kind = "rst", !.size = outer + 20, !.seqIsAck = (p.ackS = "zero"), !.seqIsZero = TRUE,
                       !.ackDelta = (IF Has(p.flags, SYN) THEN 1 ELSE 0) + (IF Has(p.flags, FIN) THEN 1 ELSE 0)
                                    + p.tl - p.doff * 4,
                       !.rflags = RST + ACK]

Impl4(p) ==
    IF PLen(p) < 20 THEN INone
    ELSE IF p.fo # 0 THEN INone                                  \* packet[6]&0x1f != 0 || packet[7] != 0
    ELSE IF p.proto = TCP THEN
         IF PLen(p) < p.ihl * 4 + 20 \/ 40 > p.buf THEN INone ELSE ImplRst(p, 20)
    ELSE IF PLen(p) < p.ihl * 4 THEN INone
    ELSE IF p.proto = ICMP4 /\ p.tl > 0 /\ p.t \in {3, 4, 5, 11, 12} THEN INone
    ELSE LET q == MinOf(PLen(p), p.ihl * 4 + 8) IN
         IF 28 + q > p.buf THEN INone
         ELSE [INone EXCEPT !.kind = "icmp", !.size = 28 + q, !.itype = 3, !.icode = 13, !.qlen = q]

Impl6(p) ==
    IF PLen(p) < 40 \/ IsLaterFragment(p) THEN INone              \* IPv6FindUpperProtocol (C20) err / isFragment
    ELSE IF p.proto = TCP THEN
         IF p.tl < 20 \/ 60 > p.buf THEN INone ELSE ImplRst(p, 40)
    ELSE IF p.proto = ICMP6 /\ p.tl > 0 /\ p.t >= 1 /\ p.t <= 4 THEN INone
    ELSE LET q == MinOf(PLen(p), 1000) IN
         IF 48 + q > p.buf THEN INone
         ELSE [INone EXCEPT !.kind = "icmp", !.size = 48 + q, !.itype = 1, !.icode = 1, !.qlen = q]

ImplReply(p) == CASE p.fam = 4 -> Impl4(p) [] p.fam = 6 -> Impl6(p) [] OTHER -> INone

-----------------------------------------------------------------------------
(* The vector lattice, enumerated by the quantifiers of Init.              *)
E(p, n, fo, mf) == [p |-> p, n |-> n, fo |-> fo, mf |-> mf]
Base == [fam |-> 4, ihl |-> 5, df |-> FALSE, mf |-> FALSE, fo |-> 0, ext |-> <<>>, proto |-> TCP, t |-> 0, tl |-> 20,
         flags |-> SYN, doff |-> 5, seqS |-> "mid", ackS |-> "mid", buf |-> 1048]

\* header variants: <<fam, ihl, df, mf, fo, ext>>
HvFirst == {<<4, 5, FALSE, FALSE, 0, <<>> >>, <<4, 5, TRUE, FALSE, 0, <<>> >>, <<4, 5, FALSE, TRUE, 0, <<>> >>,
            <<4, 6, TRUE, FALSE, 0, <<>> >>, <<4, 15, FALSE, FALSE, 0, <<>> >>,
            <<6, 5, FALSE, FALSE, 0, <<>> >>, <<6, 5, FALSE, FALSE, 0, <<E(0, 0, 0, FALSE)>> >>,
            <<6, 5, FALSE, FALSE, 0, <<E(60, 1, 0, FALSE), E(43, 0, 0, FALSE)>> >>,
            <<6, 5, FALSE, FALSE, 0, <<E(44, 0, 0, TRUE)>> >>, <<6, 5, FALSE, FALSE, 0, <<E(51, 1, 0, FALSE)>> >>}
           \cup (IF Thorough THEN {<<4, 10, FALSE, TRUE, 0, <<>> >>, <<6, 5, FALSE, FALSE, 0, <<E(0, 1, 0, FALSE), E(44, 0, 0, FALSE)>> >>,
                                   <<6, 5, FALSE, FALSE, 0, <<E(60, 3, 0, FALSE)>> >>} ELSE {})
HvLater == {<<4, 5, FALSE, FALSE, 1, <<>> >>, <<4, 5, FALSE, TRUE, 256, <<>> >>, <<4, 6, FALSE, FALSE, 4096, <<>> >>,
            <<4, 5, FALSE, TRUE, 8191, <<>> >>,
            <<6, 5, FALSE, FALSE, 0, <<E(44, 0, 1, TRUE)>> >>, <<6, 5, FALSE, FALSE, 0, <<E(44, 0, 32, FALSE)>> >>,
            <<6, 5, FALSE, FALSE, 0, <<E(0, 0, 0, FALSE), E(44, 0, 4096, TRUE)>> >>}
HvPlain == {<<4, 5, FALSE, FALSE, 0, <<>> >>, <<6, 5, FALSE, FALSE, 0, <<>> >>}

WithHv(r, hv) == [r EXCEPT !.fam = hv[1], !.ihl = hv[2], !.df = hv[3], !.mf = hv[4], !.fo = hv[5], !.ext = hv[6]]

FlagsFew == {0, SYN, SYN + ACK, ACK, FIN, FIN + ACK, RST, RST + ACK, SYN + FIN, PSH + ACK, 255}
\* <<doff, tl>>: no payload, 1 byte, options + 100 bytes, a full segment
Segs == {<<5, 20>>, <<5, 21>>, <<8, 132>>, <<5, 1420>>}
SeqAck == IF Thorough THEN {"zero", "mid", "max", "nearmax"} \X {"zero", "mid", "max"}
          ELSE {<<"mid", "mid">>, <<"zero", "zero">>, <<"max", "mid">>, <<"nearmax", "max">>, <<"mid", "zero">>, <<"max", "max">>}

Mk(hv, proto, t, tl, buf) == [WithHv(Base, hv) EXCEPT !.proto = proto, !.t = t, !.tl = tl, !.buf = buf]
MkTcp(hv, fl, sg, sa, buf) == [WithHv(Base, hv) EXCEPT !.flags = fl, !.doff = sg[1], !.tl = sg[2], !.seqS = sa[1], !.ackS = sa[2], !.buf = buf]

\* protocols other than TCP: <<proto, icmp type>> (the protocol number 1/58 is fixed up per family by Fix)
IcmpTypes4 == {0, 8, 3, 4, 5, 11, 12, 13, 14} \cup (IF Thorough THEN {17, 255, 1, 2, 6, 10} ELSE {})
IcmpTypes6 == {128, 129, 1, 2, 3, 4, 133, 135, 100, 127, 0} \cup (IF Thorough THEN {5, 255, 136, 143} ELSE {})
NonTcp(fam) == {<<UDP, 0>>, <<47, 0>>} \cup (IF fam = 4 THEN {<<ICMP4, t>> : t \in IcmpTypes4} \cup {<<ICMP6, 1>>}
                                             ELSE {<<ICMP6, t>> : t \in IcmpTypes6} \cup {<<ICMP4, 3>>, <<59, 0>>})
HdrOf(hv) == Hdr(WithHv(Base, hv))
Tls(hv) == {0, 1, 4, 7, 8, 9, 28, 100} \cup (IF hv[1] = 6 THEN {x \in {999 - HdrOf(hv), 1000 - HdrOf(hv), 1001 - HdrOf(hv), 1400} : x >= 0} ELSE {})
Bufs(p) == LET a == Reply([p EXCEPT !.buf = 4096]) o == OuterHdr(p) IN
           {x \in {0, 1, o + 8 + a.qmin - 1, o + 8 + a.qmin, o + 8 + a.qmax - 1, o + 8 + a.qmax, 96, 1048, 2000} : x >= 0}

VARIABLES in, exp
vars == <<in, exp>>
Init == /\ \/ \E hv \in (IF Thorough THEN HvFirst ELSE HvPlain), fl \in 0..255, sg \in Segs : in = MkTcp(hv, fl, sg, <<"mid", "mid">>, 1048)
           \/ \E hv \in HvFirst, fl \in FlagsFew, sg \in Segs, sa \in SeqAck : in = MkTcp(hv, fl, sg, sa, 1048)
           \/ \E hv \in HvFirst, fl \in {SYN, ACK}, tl \in {0, 4, 13, 19}, d \in {5, 8} : in = MkTcp(hv, fl, <<d, tl>>, <<"mid", "mid">>, 1048)
           \/ \E hv \in HvFirst, fl \in {SYN, ACK, RST}, sg \in {<<5, 20>>, <<8, 132>>},
                 buf \in {0, 1, 19, 20, 39, 40, 41, 59, 60, 61, 96, 2000} : in = MkTcp(hv, fl, sg, <<"mid", "mid">>, buf)
           \/ \E hv \in HvLater, fl \in {SYN, ACK}, sg \in Segs : in = MkTcp(hv, fl, sg, <<"mid", "mid">>, 1048)
           \/ \E hv \in HvFirst \cup HvLater : \E pr \in NonTcp(hv[1]), tl \in Tls(hv) : in = Mk(hv, pr[1], pr[2], tl, 1048)
           \/ \E hv \in HvFirst : \E pr \in {<<UDP, 0>>, <<IF hv[1] = 4 THEN ICMP4 ELSE ICMP6, IF hv[1] = 4 THEN 8 ELSE 128>>},
                 tl \in Tls(hv) \ {1, 7, 9} : \E buf \in Bufs(Mk(hv, pr[1], pr[2], tl, 1048)) : in = Mk(hv, pr[1], pr[2], tl, buf)
           \/ \E f \in {0, 5, 7, 15} : in = [Base EXCEPT !.fam = f]
        /\ exp = Reply(in)
Next == UNCHANGED vars
Spec == Init /\ [][Next]_vars

-----------------------------------------------------------------------------
\* the link
Link == RVerdict(ImplReply(in), exp, in) = "ok"
\* laws of the reference (the statement, clause by clause)
NeverToLaterFragment == IsLaterFragment(in) => exp.kind = "none"
NeverToIcmpError     == IsIcmpError(in) => exp.kind = "none"
KindByProtocol       == exp.kind # "none" => (exp.kind = "rst" <=> in.proto = TCP)
FitsMaximum          == /\ exp.kind = "icmp" => OuterHdr(in) + 8 + exp.qmax <= MaxSize(in) /\ exp.qmin <= exp.qmax
                        /\ exp.kind = "rst" => OuterHdr(in) + 20 <= MaxSize(in)
FitsBuffer           == /\ exp.kind = "icmp" => OuterHdr(in) + 8 + exp.qmin <= in.buf
                        /\ exp.kind = "rst" => OuterHdr(in) + 20 <= in.buf
\* a smaller buffer never turns "nothing" into a reply
BufMonotone          == (exp.kind = "none" /\ in.buf > 0) => Reply([in EXCEPT !.buf = in.buf - 1]).kind = "none"
=============================================================================
