------------------------- MODULE Trace_PayloadWire -------------------------
(* T direction of C08: seeded random token sequences with full-width values *)
(* (the harness abstracts every value to the symbols of PayloadWire.tla:    *)
(* "R32" = some value in 2..2^32-2, "R64" = some value above 2^32, "R" =    *)
(* some non-empty byte string), serialised, decoded by the real             *)
(* UnmarshalPayload and by the schema decoders; one line per message:       *)
(*  {"k":7,"toks":[{"lvl":"d","f":2,"wt":"varint","v":"R32","tr":""},..],   *)
(*   "ok":true,"idx":[c,i,r,t,v],"sok":true,"sagree":true}                  *)
(* idx = per field the position of the token whose value was returned       *)
(* (0 = no token and the default value, -1 = a value no token carries);     *)
(* sok = the schema decoders accept, sagree = they return the same fields.  *)
(* Judged by the reference layer: accepted iff RefOk, every field from its  *)
(* last token, and agreement with the schema decoders when WellFormed.      *)
EXTENDS PayloadWire, Json

Obs == ndJsonDeserialize("obs.ndjson")

VerdictOn(o, ts) ==
    [k |-> o.k, specok |-> RefOk(ts), wf |-> WellFormed(ts), why |-> Why(ts),
     okmatch  |-> (o.ok = RefOk(ts)),
     want     |-> <<LastIdx(ts, 1), LastIdx(ts, 2), LastIdx(ts, 3), LastIdx(ts, 5), LastIdx(ts, 8)>>,
     idxmatch |-> ((o.ok /\ RefOk(ts)) =>
                      o.idx = <<LastIdx(ts, 1), LastIdx(ts, 2), LastIdx(ts, 3), LastIdx(ts, 5), LastIdx(ts, 8)>>),
     schema   |-> ((WellFormed(ts) /\ o.ok) => (o.sok /\ o.sagree)),
     schemaok |-> (WellFormed(ts) => o.sok)]

\* (the file is read once: O is bound outside the quantifier)
TraceInit == LET O == Obs IN \E n \in 1..Len(O) :
                 /\ in = [kind |-> "obs", ids |-> <<>>, k |-> O[n].k]
                 /\ exp = VerdictOn(O[n], O[n].toks)
TraceSpec == TraceInit /\ [][Next]_vars
=============================================================================
