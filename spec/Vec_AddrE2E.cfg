SPECIFICATION Spec
INVARIANTS SpoofNeverAuthentic OwnAddressAuthentic OutOnlyToOwner
CHECK_DEADLOCK FALSE
