SPECIFICATION Spec
INVARIANTS SpoofNeverAuthentic OwnAddressAuthentic OutOnlyToOwner MappedNeverAuthentic
CHECK_DEADLOCK FALSE
