SPECIFICATION TraceSpec
CONSTANTS L = 8
          Thorough = FALSE
CHECK_DEADLOCK FALSE
