------------------------------ MODULE Conntrack ------------------------------
(***************************************************************************)
(* Connection tracking of the nebula firewall (firewall.go: Drop, inConns, *)
(* addConn, evict; interface.go: reloadFirewall) with the embedded timing  *)
(* wheel of TimerWheel.tla.  Decides                                       *)
(*   C18  tracked flows are per tuple and expire when idle                 *)
(*   C19  tracked flows are revalidated after a rule reload                *)
(* for the default single-routine configuration (routine-local conntrack   *)
(* cache off: Routines = {}) and, C18, for reader routines that each own a  *)
(* routine-local conntrack cache (firewall/cache.go ConntrackCacheTicker).  *)
(*                                                                         *)
(* Reference layer : now, rules, est, origs, last (the statements' words:  *)
(*    which <<flow, direction>> the current rules allow, whether a flow is *)
(*    established, the direction of the packet that established it, when   *)
(*    its last packet passed).  RefMayPass is the only thing a verdict of  *)
(*    the real code is compared with.                                      *)
(* Machine layer   : conns, tw, ver  (FirewallConntrack.Conns, .TimerWheel,*)
(*    Firewall.rulesVersion), one action per critical section; cache, cver *)
(*    (per routine: ConntrackCacheTicker.cache and .cacheV; the tick       *)
(*    counter is now \div CachePeriod).  A packet found in its routine's   *)
(*    cache is admitted without a look at conns / Expires (PktCached).     *)
(*    Two switches select the machine "as written today" or the repaired   *)
(*    design:  CheckExpiry (inConns looks at Expires) and WrapKeeps (a     *)
(*    version wrap marks every flow for revalidation instead of dropping   *)
(*    the table).                                                          *)
(* Link            : PassPermitted (C18 + C19 first sentence),             *)
(*                   SameReloadKeeps (C19 second sentence)                 *)
(*                                                                         *)
(* A flow is an oriented tuple (local/remote address and port, protocol);  *)
(* here a positive integer, concretised by the harness.  A packet is       *)
(* <<flow, incoming>>.  Rules are abstract: the set of packets they allow. *)
(***************************************************************************)
EXTENDS Integers, Sequences, FiniteSets, TLC

CONSTANTS Flows,        \* positive integers
          ProtoOf,      \* ProtoOf[f] \in {"tcp", "udp", "other"}
          TO,           \* [tcp |-> n, udp |-> n, other |-> n]  conntrack timeouts in time units
          RuleSets,     \* rule sets a reload may install (each a set of <<flow, incoming>>)
          InitRules,
          Reloads,      \* BOOLEAN: explore reloads
          Cfgs,         \* firewall configurations a reload may install WITHOUT naming the rule set: records [any, txt] =
                        \* firewall.default_local_cidr_any and the text of the rule list ({} = not explored)
          InitCfg,      \* the configuration at start (any value when Cfgs = {})
          EffOf(_),     \* the packets a configuration allows: the EFFECTIVE rules (text + options + certificate)
          VerMod,       \* width of the rules version counter (65536 in the code)
          Gaps,         \* clock steps
          MaxItems,     \* exploration bound on the number of items in the wheel
          IdleMatters,  \* TRUE: the reference includes C18's idle timeout; FALSE: C19 alone (an established flow never expires)
          CheckExpiry,  \* FALSE: inConns as written (never looks at Expires); TRUE: an entry whose Expires has passed is absent
          WrapKeeps,    \* FALSE: reloadFirewall as written (version wrap drops the table); TRUE: wrap keeps the table, marks all stale
          Routines,     \* the reader routines, each with its own routine-local conntrack cache ({}: the cache is off, Drop gets nil)
          CachePeriod,  \* firewall.conntrack.routine_cache_timeout in time units (the tick of ConntrackCacheTicker), > 0
          CacheSlack    \* reference: how long past its timeout a flow may still be honoured because the verdict came from a routine
                        \* cache (0 = the statement as it stands; configurations whose cache period exceeds a timeout use the period)

Min(a, b) == IF a < b THEN a ELSE b
Max(a, b) == IF a > b THEN a ELSE b
WTick == Min(TO.tcp, Min(TO.udp, TO.other))       \* NewFirewall: tmin
WSpan == Max(TO.tcp, Max(TO.udp, TO.other))       \* NewFirewall: tmax
Timeout(f) == TO[ProtoOf[f]]

VARIABLES now,
          cfg,                           \* the installed configuration (only used with Cfgs; rules = EffOf(cfg) then)
          rules, est, origs, last,       \* reference
          conns, tw, ver,                \* machine
          cache, cver,                   \* machine: per routine the cached tuples and the tick they were cached under
          res,                           \* verdict of the latest packet: TRUE = passed
          may,                           \* RefMayPass for that packet, evaluated before it
          why,                           \* if not: "untracked" / "idle" / "rules" (which part of the statement forbids it)
          keeps                          \* the latest reload, if it left the rules as they were, cut no flow

vars == <<now, cfg, rules, est, origs, last, conns, tw, ver, cache, cver, res, may, why, keeps>>

TW == INSTANCE TimerWheel WITH TickD <- WTick, Span <- WSpan, Items <- {}, Timeouts <- {}, Gaps <- {}, CacheMax <- 0,
          StaleAdds <- TRUE, now <- now, adv <- 0, w <- tw, st <- <<>>, addedAt <- <<>>, tmo <- <<>>, fresh <- <<>>,
          firedAt <- <<>>, res <- 0, ok <- TRUE

-----------------------------------------------------------------------------
(* Reference *)
Allowed(rs, f, inc) == <<f, inc>> \in rs
Tracked(f) == est[f] /\ (IdleMatters => now - last[f] <= Timeout(f) + CacheSlack)    \* "has not been idle longer than its protocol's timeout"
\* the flow's original direction is still allowed.  origs[f] is a set: when a packet that a rule allows passes while
\* its flow is established, the statement does not say whether it continues the flow or opens it anew
OrigAllowed(f) == \E d \in origs[f] : Allowed(rules, f, d)

\* C18: a packet no rule allows passes only if its flow is established and not idle too long;
\* C19: ... and only if the flow's original direction is still allowed by the current rules.
RefMayPass(f, inc) == \/ Allowed(rules, f, inc)
                      \/ Tracked(f) /\ OrigAllowed(f)

RefWhyNot(f, inc) == IF RefMayPass(f, inc) THEN "ok"
                     ELSE IF ~est[f] THEN "untracked"                       \* no earlier allowed packet of this tuple
                     ELSE IF ~Tracked(f) THEN "idle"                        \* idle longer than the timeout (C18)
                     ELSE "rules"                                           \* original direction no longer allowed (C19)

\* the reference after a packet of flow f got the verdict `pass`
RefAfter(f, inc, pass) ==
    IF ~pass THEN /\ est' = [est EXCEPT ![f] = FALSE]         \* refused: expired / forgotten until a rule allows a new packet
                  /\ UNCHANGED <<origs, last>>
    ELSE IF Tracked(f) /\ OrigAllowed(f)
         THEN /\ last' = [last EXCEPT ![f] = now]              \* honoured as part of the established flow
              /\ origs' = IF Allowed(rules, f, inc) THEN [origs EXCEPT ![f] = @ \cup {inc}] ELSE origs
              /\ UNCHANGED est
         ELSE /\ est' = [est EXCEPT ![f] = TRUE]               \* a rule allowed it: the flow is (re-)established
              /\ origs' = [origs EXCEPT ![f] = {inc}]
              /\ last' = [last EXCEPT ![f] = now]

-----------------------------------------------------------------------------
(* Machine *)
Without(c, p) == [q \in (DOMAIN c) \ {p} |-> c[q]]
With(c, p, v) == [q \in (DOMAIN c) \cup {p} |-> IF q = p THEN v ELSE c[q]]
NoConns == [q \in {} |-> 0]

\* evict(p): called with a purged wheel item
Evict(c, t, p) ==
    IF p \notin DOMAIN c THEN [c |-> c, t |-> t]
    ELSE IF c[p].expires > now
         THEN [c |-> c, t |-> TW!WAdd(TW!WAdvance(t, now), p, c[p].expires - now)]     \* still alive: back into the wheel
         ELSE [c |-> Without(c, p), t |-> t]

\* inConns(f) on the machine state S = [c |-> conns, t |-> wheel, r |-> rules, v |-> version]:
\* purge one, look up, revalidate against a newer rule set, refresh
InConns(S, f) ==
    LET pr == TW!WPurge(S.t)
        e  == IF pr.has THEN Evict(S.c, pr.w, pr.v) ELSE [c |-> S.c, t |-> pr.w]
        c1 == e.c
    IN IF f \notin DOMAIN c1 THEN [hit |-> FALSE, c |-> c1, t |-> e.t]
       ELSE IF CheckExpiry /\ c1[f].expires <= now THEN [hit |-> FALSE, c |-> Without(c1, f), t |-> e.t]
       ELSE IF c1[f].ver # S.v /\ ~Allowed(S.r, f, c1[f].incoming) THEN [hit |-> FALSE, c |-> Without(c1, f), t |-> e.t]
       ELSE [hit |-> TRUE, t |-> e.t,
             c |-> [c1 EXCEPT ![f] = [expires |-> now + Timeout(f), incoming |-> @.incoming, ver |-> S.v]]]

\* addConn(f, inc)
AddConn(c, t, v, f, inc) ==
    [c |-> With(c, f, [expires |-> now + Timeout(f), incoming |-> inc, ver |-> v]),
     t |-> IF f \in DOMAIN c THEN t ELSE TW!WAdd(TW!WAdvance(t, now), f, Timeout(f))]

\* Drop(f, inc) after the address checks
DoPktS(S, f, inc) ==
    LET ic == InConns(S, f)
    IN IF ic.hit THEN [pass |-> TRUE, hit |-> TRUE, c |-> ic.c, t |-> ic.t]
       ELSE IF Allowed(S.r, f, inc)
            THEN LET a == AddConn(ic.c, ic.t, S.v, f, inc) IN [pass |-> TRUE, hit |-> FALSE, c |-> a.c, t |-> a.t]
            ELSE [pass |-> FALSE, hit |-> FALSE, c |-> ic.c, t |-> ic.t]

Cur == [c |-> conns, t |-> tw, r |-> rules, v |-> ver]
DoPkt(f, inc) == DoPktS(Cur, f, inc)

\* The routine-local cache.  ConntrackCacheTicker.tick counts the periods since the node started (time 0);
\* Get() hands the routine its map, emptied first when the counter has moved since the routine last looked.
CTick == now \div CachePeriod
CacheGet(r) == IF cver[r] = CTick THEN cache[r] ELSE {}

-----------------------------------------------------------------------------
Init == /\ now = 0 /\ rules = InitRules /\ cfg = InitCfg
        /\ est = [f \in Flows |-> FALSE] /\ origs = [f \in Flows |-> {}] /\ last = [f \in Flows |-> 0]
        /\ conns = NoConns /\ tw = TW!WNew /\ ver = 0
        /\ cache = [r \in Routines |-> {}] /\ cver = [r \in Routines |-> 0]
        /\ res = FALSE /\ may = TRUE /\ why = "ok" /\ keeps = TRUE

Sleep(d) == /\ now' = now + d
            /\ UNCHANGED <<cfg, rules, est, origs, last, conns, tw, ver, cache, cver, res, may, why, keeps>>

\* Drop with a nil cache (no routine caches configured)
Pkt(f, inc) == LET r == DoPkt(f, inc) IN
               /\ Routines = {}
               /\ conns' = r.c /\ tw' = r.t
               /\ res' = r.pass
               /\ may' = RefMayPass(f, inc)
               /\ why' = RefWhyNot(f, inc)
               /\ RefAfter(f, inc, r.pass)
               /\ UNCHANGED <<now, cfg, rules, ver, cache, cver, keeps>>

\* Drop on routine q with q's cache, the tuple is not in it: conntrack and the rules decide; a conntrack hit is cached
PktR(q, f, inc) == LET r == DoPkt(f, inc)  cc == CacheGet(q) IN
               /\ f \notin cc
               /\ conns' = r.c /\ tw' = r.t
               /\ cache' = [cache EXCEPT ![q] = IF r.hit THEN cc \cup {f} ELSE cc]
               /\ cver' = [cver EXCEPT ![q] = CTick]
               /\ res' = r.pass
               /\ may' = RefMayPass(f, inc)
               /\ why' = RefWhyNot(f, inc)
               /\ RefAfter(f, inc, r.pass)
               /\ UNCHANGED <<now, cfg, rules, ver, keeps>>

\* packet admitted from the routine cache: inConns returns before it looks at conntrack, Expires or the rules version
PktCached(q, f, inc) == LET cc == CacheGet(q) IN
               /\ f \in cc
               /\ cache' = [cache EXCEPT ![q] = cc]
               /\ cver' = [cver EXCEPT ![q] = CTick]
               /\ res' = TRUE
               /\ may' = RefMayPass(f, inc)
               /\ why' = RefWhyNot(f, inc)
               /\ RefAfter(f, inc, TRUE)
               /\ UNCHANGED <<now, cfg, rules, conns, tw, ver, keeps>>

\* Interface.reloadFirewall with a changed firewall section (an unchanged section is a no-op): installs the rules r
ReloadTo(r) == /\ Reloads
               /\ rules' = r
               /\ LET v1 == (ver + 1) % VerMod IN
                  IF v1 # 0 THEN ver' = v1 /\ UNCHANGED <<conns, tw>>
                  ELSE IF WrapKeeps
                       THEN /\ ver' = 1                                                \* 0 is never a live version again
                            /\ conns' = [q \in DOMAIN conns |-> [conns[q] EXCEPT !.ver = 0]]
                            /\ UNCHANGED tw
                       ELSE /\ ver' = 0 /\ conns' = NoConns /\ tw' = TW!WNew          \* "be safe and just reset conntrack"
               /\ keeps' = (r = rules =>
                            \A f \in Flows, inc \in BOOLEAN :
                                DoPkt(f, inc).pass => DoPktS([c |-> conns', t |-> tw', r |-> r, v |-> ver'], f, inc).pass)
               /\ UNCHANGED <<now, est, origs, last, cache, cver, res, may, why>>

\* a reload named by the rule set it installs
Reload(r) == ReloadTo(r) /\ UNCHANGED cfg

\* a reload named by the configuration: what it allows follows from the rule text AND from options that change the
\* meaning of unchanged text (a rule without local_cidr covers the unsafe networks only with default_local_cidr_any).
\* Whatever changed in the section, the flows are judged by the effective rules.
ReloadCfg(c) == /\ c # cfg
                /\ cfg' = c
                /\ ReloadTo(EffOf(c))

Next == \/ \E d \in Gaps : Sleep(d)
        \/ \E f \in Flows, inc \in BOOLEAN : Pkt(f, inc)
        \/ \E q \in Routines, f \in Flows, inc \in BOOLEAN : PktR(q, f, inc)
        \/ \E q \in Routines, f \in Flows, inc \in BOOLEAN : PktCached(q, f, inc)
        \/ \E r \in RuleSets : Reload(r)
        \/ \E c \in Cfgs : ReloadCfg(c)

Spec == Init /\ [][Next]_vars

-----------------------------------------------------------------------------
(* Link *)
RECURSIVE SumLen(_)
SumLen(n) == IF n < 0 THEN 0 ELSE Len(tw.slots[n]) + SumLen(n - 1)
WheelItems == Len(tw.exp) + SumLen(TW!L - 1)
Bound == WheelItems <= MaxItems

TypeOK == /\ DOMAIN conns \subseteq Flows
          /\ ver \in 0..VerMod-1
          /\ \A f \in DOMAIN conns : conns[f].ver \in 0..VerMod-1
          /\ \A q \in Routines : cache[q] \subseteq Flows /\ cver[q] <= CTick

\* C18 and the first sentence of C19: whatever passed was permitted
PassPermitted == res => may

\* every live entry is findable by the lazy eviction: it has an item in the wheel (else it would live for ever)
EntryHasTimer == \A f \in DOMAIN conns : f \in TW!Range(tw.exp) \/ f \in TW!WInSlots(tw)

\* second sentence of C19: a reload that changes nothing about the rules never cuts a flow
\* (every packet that would have passed just before the reload passes just after it)
SameReloadKeeps == keeps

(* Exploration view: times relative to now and clipped *)
D     == IF tw.last = TW!NoTick THEN -1 ELSE now - tw.last
NormD == IF D >= (TW!L + 1) * WTick THEN (TW!L + 1) * WTick + (D % WTick) ELSE D
RotSlots == [k \in 0..TW!L-1 |-> tw.slots[(tw.cur + k) % TW!L]]
ConnView == [f \in DOMAIN conns |-> [conns[f] EXCEPT !.expires = Max(@ - now, 0)]]
RefView(f) == IF Tracked(f) THEN <<TRUE, origs[f], IF IdleMatters THEN now - last[f] ELSE 0>> ELSE <<FALSE>>
\* what a routine's cache holds now, and how far the next tick is
CacheView == <<[q \in Routines |-> CacheGet(q)], IF Routines = {} THEN 0 ELSE now % CachePeriod>>
View == <<NormD, RotSlots, tw.exp, ConnView, ver, cfg, rules, [f \in Flows |-> RefView(f)], CacheView, res, may, why, keeps>>

-----------------------------------------------------------------------------
(* Values used by the configurations (cfg files cannot write functions and sets of tuples) *)
Proto_tuo == <<"tcp", "udp", "other">>
Proto_uut == <<"udp", "udp", "tcp">>
Proto_tu  == <<"tcp", "udp">>
Proto_uu  == <<"udp", "udp">>
Proto_u   == <<"udp">>
TO_213 == [tcp |-> 2, udp |-> 1, other |-> 3]
TO_312 == [tcp |-> 3, udp |-> 1, other |-> 2]
TO_325 == [tcp |-> 3, udp |-> 2, other |-> 5]
TO_132 == [tcp |-> 1, udp |-> 3, other |-> 2]
\* C18: flows 1 and 2 may be opened from here, flow 3 by the peer
Rules_oo_i == {<<1, FALSE>>, <<2, FALSE>>, <<3, TRUE>>}
NoRuleSets == {}
\* C19: every rule set over the packets of two flows
Pkts2 == {1, 2} \X BOOLEAN
AllRules2 == SUBSET Pkts2
Rules_o_i == {<<1, FALSE>>, <<2, TRUE>>}
Rules_oo  == {<<1, FALSE>>, <<2, FALSE>>}
Rules_o   == {<<1, FALSE>>}
AllRules1 == SUBSET ({1} \X BOOLEAN)
NoGaps    == {}
\* C19, smaller: flow 1 opened from here, flow 2 by the peer; reloads add/remove those two rules and the reply rules
SomeRules2 == {{<<1, FALSE>>, <<2, TRUE>>}, {<<2, TRUE>>}, {<<1, FALSE>>}, {<<1, TRUE>>, <<2, TRUE>>}, {}}
\* configurations without a meaning of their own (graphs whose reloads name the rule set)
NoCfgs == {}
NoRoutines == {}
EffNone(c) == {}
\* C19, effective semantics: flow 1 goes to an own address, flow 2 to an address in an unsafe network of the certificate,
\* otherwise the same tuple.  Rule texts: "i" one inbound rule without local_cidr, "io" that and an outbound rule without
\* local_cidr, "iu" one inbound rule with local_cidr = the unsafe network, "none" no rule.  `any' =
\* firewall.default_local_cidr_any: a rule without local_cidr covers the unsafe network only with it.
\* Certificate changes: `un' = the node's certificate carries the unsafe network.  A
\* reload after the certificate was renewed without (or again with) the unsafe network rebuilds the firewall although
\* the firewall section is byte-identical (interface.go reloadFirewall: certUnsafeChanged); without the unsafe network
\* its addresses are not the node's any more: nothing to or from them is allowed, whatever the rule text says, and a
\* rule without local_cidr still covers the own addresses.
SemCfgsU  == [any : BOOLEAN, txt : {"i", "io", "iu", "none"}, un : BOOLEAN]
SemCfgsUQ == {c \in [any : BOOLEAN, txt : {"i", "io"}, un : BOOLEAN] : c.any \/ c.un}                \* quick tier
EffSemU(c) == LET own == {1} unsafe == IF c.un /\ c.any THEN {2} ELSE {} IN
              CASE c.txt = "i"    -> (own \cup unsafe) \X {TRUE}
                [] c.txt = "io"   -> (own \cup unsafe) \X BOOLEAN
                [] c.txt = "iu"   -> IF c.un THEN {<<2, TRUE>>} ELSE {}
                [] c.txt = "none" -> {}
SemInitU == [any |-> TRUE, txt |-> "i", un |-> TRUE]
SemInitRulesU == EffSemU(SemInitU)
=============================================================================
