SPECIFICATION Spec
CONSTANTS TickD = 1
          Span = 3
          Items = {1, 2}
          Timeouts = {0, 2, 4}
          Gaps = {1, 6}
          CacheMax = 1
          StaleAdds = FALSE
INVARIANTS TypeOK ExactlyOnce NotEarly NotLate PurgeAgrees
VIEW View
CHECK_DEADLOCK FALSE
