---------------------------- MODULE Trace_Window ----------------------------
(* Trace validation of recorded Bits.Check / Bits.Update calls against        *)
(* Window.tla (same actions; W and B are the real constants).  One ndjson    *)
(* line per call:                                                            *)
(*   {"ev":"reset"}  {"ev":"Check","i":7,"res":true}                         *)
(*   {"ev":"Update","i":7,"res":true,"max":7}                                *)
(* res and max are reference-level: the verdict never looks at cur/bits,     *)
(* which TLC carries along (and checks against the reference: ResultAgrees). *)
EXTENDS Window, Json

Log == ndJsonDeserialize("trace.ndjson")

VARIABLE l
tvars == <<vars, l>>

TraceInit == Init /\ l = 1

IsEvent(e) == l <= Len(Log) /\ Log[l].ev = e /\ l' = l + 1

TraceReset == /\ IsEvent("reset")
              /\ max' = 0 /\ seen' = {0} /\ cur' = 0
              /\ bits' = [w \in 0..NW-1 |-> IF w = 0 THEN {0} ELSE {}]
              /\ res' = FALSE /\ mres' = FALSE

TraceCheck == /\ IsEvent("Check")
              /\ Check(Log[l].i)
              /\ res' = Log[l].res

TraceUpdate == /\ IsEvent("Update")
               /\ Update(Log[l].i)
               /\ res' = Log[l].res
               /\ max' = Log[l].max

TraceNext == TraceReset \/ TraceCheck \/ TraceUpdate
TraceSpec == TraceInit /\ [][TraceNext]_tvars

TraceAccepted == TLCGet("stats").diameter - 1 = Len(Log)
=============================================================================
