\* C07: the library as vendored and the Machine as on the unchanged tree - TLC must report C07_RejectClean violated
\* (bin/check builds the same text with tools/props/C05.py:cfg(); this file is the quick-tier instance, for running TLC by hand)
SPECIFICATION Spec
CONSTANTS
  HI = {"I1"}
  HR = {"R1"}
  AI = {}
  AR = {"XR"}
  AdvIds = {"M"}
  VerCfgs = {1}
  Ops = {"id", "hdrflip", "short", "subtype", "hdr", "in_e", "after_e", "in_s", "after_s", "in_p", "flip_s", "flip_p", "idx", "sub_e", "bad_e", "splice_e"}
  PKinds = {"full", "empty"}
  SKinds = {"own", "bad"}
  Misuse = TRUE
  Scns = {"all"}
  Impl = "asis"
  Budget = 2
INVARIANTS TypeOK C05_Auth C05_Secrecy C06_Agree C06_Exclusive C07_RejectClean
CHECK_DEADLOCK FALSE
