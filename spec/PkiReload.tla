----------------------------- MODULE PkiReload -----------------------------
(***************************************************************************)
(* Reload of certificates, key, CA bundle and blocklist (pki.go), C42:     *)
(* a configuration reload never changes a node's identity.                 *)
(*                                                                         *)
(* Reference layer : Loadable, RefAccept, RefPools -- the statement.       *)
(* Machine layer   : MAccept -- the guards of PKI.reloadCerts /            *)
(*                   newCertState, MPool -- reloadCAPool. Patched = FALSE  *)
(*                   is the guard structure of the unchanged tree,         *)
(*                   Patched = TRUE the proposed repair.                   *)
(* Link            : Link (machine accepts exactly what the statement      *)
(*                   accepts), CurveFixed, PrimaryFixed, SharedKeyAndPrimary, *)
(*                   UnreadableKeepsPool.                                  *)
(***************************************************************************)
EXTENDS Integers, Sequences, FiniteSets, TLC

CONSTANTS Patched,     \* BOOLEAN
          Wide         \* BOOLEAN: larger set of configuration shapes

\* ---- abstract values -------------------------------------------------------------------------------------------
NetA == <<"n1">>            \* overlay network lists; the first element is the primary network
NetB == <<"n2">>
NetC == <<"n1", "n3">>
Curve(k) == IF k = "kp" THEN "P256" ELSE "X25519"       \* keys k1, k2 (Curve25519), kp (P256)

None == [st |-> "none", nets |-> <<>>, key |-> "", ser |-> 0]
Crt(n, k, s) == [st |-> "cert", nets |-> n, key |-> k, ser |-> s]    \* ser distinguishes re-issued certificates

CAs(ca) == CASE ca = "ok1" -> {"ca1"} [] ca = "ok2" -> {"ca1", "ca2"} [] ca = "allexpired" -> {"caX"} [] OTHER -> {}
Readable(ca) == ca \in {"ok1", "ok2", "allexpired"}

\* a configuration: pki.cert (v1 and/or v2), pki.key, which certificate is past its validity, pki.ca, pki.blocklist
Cf(i, a, b, k, e, ca, bl) == [id |-> i, v1 |-> a, v2 |-> b, key |-> k, exp |-> e, ca |-> ca, bl |-> bl]

CertCfgs == {
  Cf("v1A",        Crt(NetA, "k1", 1), None,               "k1", "none", "ok1", {}),
  Cf("v1A-renew",  Crt(NetA, "k1", 2), None,               "k1", "none", "ok1", {}),
  Cf("v2A",        None,               Crt(NetA, "k1", 1), "k1", "none", "ok1", {}),
  Cf("v1A+v2A",    Crt(NetA, "k1", 1), Crt(NetA, "k1", 1), "k1", "none", "ok1", {}),
  Cf("v1A+v2C",    Crt(NetA, "k1", 1), Crt(NetC, "k1", 1), "k1", "none", "ok1", {}),
  Cf("v2C",        None,               Crt(NetC, "k1", 1), "k1", "none", "ok1", {}),
  Cf("v1C",        Crt(NetC, "k1", 1), None,               "k1", "none", "ok1", {}),
  Cf("v1B",        Crt(NetB, "k1", 1), None,               "k1", "none", "ok1", {}),
  Cf("v2B-p256",   None,               Crt(NetB, "kp", 1), "kp", "none", "ok1", {}),
  Cf("v2A-p256",   None,               Crt(NetA, "kp", 1), "kp", "none", "ok1", {}),
  Cf("v1A-p256",   Crt(NetA, "kp", 1), None,               "kp", "none", "ok1", {}),
  Cf("v1A-newkey", Crt(NetA, "k2", 1), None,               "k2", "none", "ok1", {}),
  Cf("v1A-wrongkey", Crt(NetA, "k1", 1), None,             "k2", "none", "ok1", {}),
  Cf("v1A-expired",  Crt(NetA, "k1", 3), None,             "k1", "v1",   "ok1", {}),
  Cf("v1A+v2A-keys", Crt(NetA, "k1", 1), Crt(NetA, "k2", 1), "k1", "none", "ok1", {}),
  Cf("v1A+v2B",    Crt(NetA, "k1", 1), Crt(NetB, "k1", 1), "k1", "none", "ok1", {}) }

V1A == Crt(NetA, "k1", 1)
CaCfgs == {
  Cf("v1A/ca2",         V1A, None, "k1", "none", "ok2", {}),
  Cf("v1A/ca-missing",  V1A, None, "k1", "none", "missing", {}),
  Cf("v1A/ca-garbage",  V1A, None, "k1", "none", "garbage", {}),
  Cf("v1A/ca-expired",  V1A, None, "k1", "none", "allexpired", {}),
  Cf("v1A/block",       V1A, None, "k1", "none", "ok1", {"peer"}),
  Cf("v1B/ca2",         Crt(NetB, "k1", 1), None, "k1", "none", "ok2", {}),
  Cf("v2A/ca-missing/block", None, Crt(NetA, "k1", 1), "k1", "none", "missing", {"peer"}) }

WideCfgs == { Cf(c.id \o "/" \o ca \o (IF bl = {} THEN "" ELSE "/block"), c.v1, c.v2, c.key, c.exp, ca, bl) :
              c \in CertCfgs, ca \in {"ok2", "missing", "allexpired"}, bl \in {{}, {"peer"}} }

Cfgs == CertCfgs \cup CaCfgs \cup (IF Wide THEN WideCfgs ELSE {})

\* ---- what newCertStateFromConfig accepts regardless of the previous state ---------------------------------------
Present(c) == c.st = "cert"
Prim(c)    == c.nets[1]
Loadable(cf) ==
    /\ Present(cf.v1) \/ Present(cf.v2)
    /\ cf.exp = "none"                                            \* an expired certificate is not loaded
    /\ Present(cf.v1) => cf.v1.key = cf.key                       \* certificate and private key are a pair
    /\ Present(cf.v2) => cf.v2.key = cf.key
    /\ (Present(cf.v1) /\ Present(cf.v2)) => Prim(cf.v1) = Prim(cf.v2)

\* ---- state ----------------------------------------------------------------------------------------------------
VARIABLES st         \* [v1, v2, key, pool]
vars == <<st>>

Eff(s)      == IF Present(s.v2) THEN s.v2.nets ELSE s.v1.nets       \* CertState.myVpnNetworks
NodeCurve(s) == Curve(s.key)

-----------------------------------------------------------------------------
(* Reference layer: the statement *)

\* "would change the node's overlay networks": a version present before and after keeps its networks; when no version
\* survives (v1-only replaced by v2-only or the reverse) the networks of the node must be the same list.
NetsKept(s, cf) ==
    /\ (Present(s.v1) /\ Present(cf.v1)) => s.v1.nets = cf.v1.nets
    /\ (Present(s.v2) /\ Present(cf.v2)) => s.v2.nets = cf.v2.nets
    /\ (~(Present(s.v1) /\ Present(cf.v1)) /\ ~(Present(s.v2) /\ Present(cf.v2))) =>
           Eff(s) = (IF Present(cf.v2) THEN cf.v2.nets ELSE cf.v1.nets)
\* "or drop its v2 certificate without an equivalent v1 one"
V2Kept(s, cf) == (Present(s.v2) /\ ~Present(cf.v2)) => (Present(cf.v1) /\ cf.v1.nets = s.v2.nets)

RefAccept(s, cf) == Loadable(cf) /\ Curve(cf.key) = NodeCurve(s) /\ NetsKept(s, cf) /\ V2Kept(s, cf)

\* trust store after the reload: an unreadable bundle keeps the previous one; a readable one with a valid CA replaces it;
\* a bundle whose CAs are all expired may be refused or taken (the statement is silent)
NewPool(cf) == [cas |-> CAs(cf.ca), blocked |-> cf.bl]
RefPools(s, cf) == IF ~Readable(cf.ca) THEN {s.pool}
                   ELSE IF cf.ca = "allexpired" THEN {s.pool, NewPool(cf)}
                   ELSE {NewPool(cf)}

-----------------------------------------------------------------------------
(* Machine layer: pki.go *)

MAccept(s, cf) ==
    /\ Loadable(cf)                                                \* newCertStateFromConfig / newCertState
    /\ (Present(cf.v1) /\ Present(s.v1)) => (s.v1.nets = cf.v1.nets /\ Curve(s.v1.key) = Curve(cf.v1.key))
    /\ (Present(cf.v2) /\ Present(s.v2)) => (s.v2.nets = cf.v2.nets /\ Curve(s.v2.key) = Curve(cf.v2.key))
    /\ (~Present(cf.v2) /\ Present(s.v2)) => (Present(cf.v1) /\ s.v2.nets = cf.v1.nets)
    /\ Patched =>
         /\ Curve(cf.key) = NodeCurve(s)
         /\ (Present(cf.v2) /\ ~Present(s.v2) /\ ~Present(cf.v1)) => s.v1.nets = cf.v2.nets

MPool(s, cf) == IF Readable(cf.ca) /\ cf.ca # "allexpired" THEN NewPool(cf) ELSE s.pool   \* reloadCAPool

FromCfg(cf) == [v1 |-> cf.v1, v2 |-> cf.v2, key |-> cf.key, pool |-> NewPool(cf)]

Init == \E cf \in Cfgs : /\ Loadable(cf) /\ Readable(cf.ca) /\ cf.ca # "allexpired"     \* NewPKIFromConfig succeeds
                         /\ st = FromCfg(cf)

\* PKI.reload: certificates and trust store are reloaded independently. The reference leaves the trust store open in one
\* case, so the action is a relation there.
Reload(id) == \E cf \in Cfgs :
    /\ cf.id = id
    /\ \E p \in RefPools(st, cf) :
         /\ st' = IF MAccept(st, cf) THEN [v1 |-> cf.v1, v2 |-> cf.v2, key |-> cf.key, pool |-> p]
                                     ELSE [st EXCEPT !.pool = p]

CfgIds == {cf.id : cf \in Cfgs}
Next == \E id \in CfgIds : Reload(id)
Spec == Init /\ [][Next]_vars

-----------------------------------------------------------------------------
(* Link *)
\* the machine accepts exactly the reloads the statement accepts, in every reachable state
Link == \A cf \in Cfgs : MAccept(st, cf) = RefAccept(st, cf)
\* the machine's trust store is one the statement allows
PoolLink == \A cf \in Cfgs : MPool(st, cf) \in RefPools(st, cf)

SharedKeyAndPrimary == /\ Present(st.v1) => st.v1.key = st.key
                       /\ Present(st.v2) => st.v2.key = st.key
                       /\ (Present(st.v1) /\ Present(st.v2)) => Prim(st.v1) = Prim(st.v2)
                       /\ Present(st.v1) \/ Present(st.v2)

\* action properties: the curve and the primary network of a node never change; a v2 certificate disappears only if the
\* v1 that remains has identical networks; an unreadable bundle leaves the pool unchanged
CurveFixed   == [][NodeCurve(st') = NodeCurve(st)]_vars
PrimaryFixed == [][Eff(st')[1] = Eff(st)[1]]_vars
V2Only       == [][(Present(st.v2) /\ ~Present(st'.v2)) => (Present(st'.v1) /\ st'.v1.nets = st.v2.nets)]_vars
NoSilentSwap == [][(~Present(st.v2) /\ ~Present(st'.v1)) => st'.v2.nets = st.v1.nets]_vars   \* v1-only -> v2-only keeps the networks
UnreadableKeepsPool == [][\A cf \in Cfgs : (Reload(cf.id) /\ ~Readable(cf.ca)) => st'.pool = st.pool]_vars

\* the configuration table, for the harness
ASSUME PrintT(<<"C42CFGS", Cfgs>>)
=============================================================================
