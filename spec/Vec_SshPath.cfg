SPECIFICATION Spec
CONSTANT MaxLen = 4
INVARIANTS MachineRefines SandboxItselfRefused AcceptedIsInside
CHECK_DEADLOCK FALSE
