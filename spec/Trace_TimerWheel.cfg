SPECIFICATION TraceSpec
CONSTANTS TickD = 1
          Span = 10
          MaxItem = 64
          Items <- TraceItems
          Timeouts <- NoTimeouts
          Gaps <- NoTimeouts
          CacheMax = 0
          StaleAdds = TRUE
POSTCONDITION TraceAccepted
CHECK_DEADLOCK FALSE
