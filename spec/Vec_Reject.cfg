SPECIFICATION Spec
CONSTANT Thorough = FALSE
INVARIANTS Link NeverToLaterFragment NeverToIcmpError KindByProtocol FitsMaximum FitsBuffer BufMonotone
CHECK_DEADLOCK FALSE
