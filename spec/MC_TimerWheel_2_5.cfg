SPECIFICATION Spec
CONSTANTS TickD = 2
          Span = 5
          Items = {1}
          Timeouts = {0, 1, 2, 3, 5, 6}
          Gaps = {1, 9}
          CacheMax = 1
          StaleAdds = TRUE
INVARIANTS TypeOK ExactlyOnce NotEarly NotLate PurgeAgrees
VIEW View
CHECK_DEADLOCK FALSE
