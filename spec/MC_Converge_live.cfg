SPECIFICATION Spec
CONSTANTS MaxHist = 0
          RecordHist = FALSE
INVARIANTS TypeOK AtMostOneSwaps
PROPERTIES Convergence
CHECK_DEADLOCK FALSE
