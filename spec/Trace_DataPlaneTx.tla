------------------------- MODULE Trace_DataPlaneTx -------------------------
(* Trace validation for C13: the sequence of nonces that reached the real   *)
(* AEAD of one tunnel, in order, while real goroutines raced on the send    *)
(* paths.  Lines:                                                           *)
(*   {"ev":"reset","lock":b,"hs":2,"ceil":k,"near":b}                       *)
(*        ceil = ceiling relative to the start counter; when near is false  *)
(*        the tunnel is fresh (start = hs) and the ceiling is out of reach  *)
(*   {"ev":"Seal","n":x}          nonce relative to the start counter        *)
(*   {"ev":"End", ...}                                                      *)
(* The variables are the history variables of DataPlaneTx.tla (used, order) *)
(* and each Seal line must keep its invariants.                             *)
EXTENDS Integers, Sequences, FiniteSets, TLC, Json

Log == ndJsonDeserialize("trace.ndjson")

VARIABLES used, last, cfg, l
vars == <<used, last, cfg, l>>

Init == used = {} /\ last = -1 /\ cfg = [lock |-> FALSE, ceil |-> 0, near |-> FALSE] /\ l = 1

IsEvent(e) == l <= Len(Log) /\ Log[l].ev = e /\ l' = l + 1

Reset == /\ IsEvent("reset")
         /\ used' = {} /\ last' = -1
         /\ cfg' = [lock |-> Log[l].lock, ceil |-> Log[l].ceil, near |-> Log[l].near]

\* one AEAD encryption with nonce start+n
Seal == /\ IsEvent("Seal")
        /\ LET n == Log[l].n IN
           /\ n \notin used                          \* NoReuse
           /\ n > 0                                  \* above the start counter (>= handshake counters)
           /\ cfg.near => n < cfg.ceil               \* BelowCeil
           /\ cfg.lock => n > last                   \* Increasing under the write lock
           /\ used' = used \cup {n} /\ last' = n
        /\ UNCHANGED cfg

End == IsEvent("End") /\ UNCHANGED <<used, last, cfg>>

Next == Reset \/ Seal \/ End
Spec == Init /\ [][Next]_vars
TraceAccepted == TLCGet("stats").diameter - 1 = Len(Log)
=============================================================================
