---------------------------- MODULE MC_Lifecycle ----------------------------
EXTENDS Lifecycle
MCScenario == <<"configure", "tunsend", "hs1", "hs2", "data", "reload", "advance", "lighthouse", "rebind", "punchburst">>
=============================================================================
