---------------------------- MODULE Trace_Balance ----------------------------
(* T direction of C40 at the real width H = 31: gateway lists (the vectors *)
(* of the exhaustive model scaled up, and seeded random lists with weights *)
(* up to 2^31-1) are given to the real CalculateBucketsForGateways and     *)
(* BalancePacket; weights, exclusive bucket ends (bound + 1) and sampled   *)
(* (hash, chosen gateway) pairs are written as wide naturals (limbs base   *)
(* 2^12, little endian) and judged by the reference relation of            *)
(* Balance.tla.  One ndjson line per gateway list:                         *)
(*  {"k":1,"h":31,"w":[[..]..],"e":[[..]..],"samples":[{"x":[..],"g":2}]} *)
EXTENDS Balance, Json

Obs == ndJsonDeserialize("obs.ndjson")
ToSet(s) == { s[i] : i \in 1..Len(s) }

Verdict(o) ==
    [k        |-> o.k,
     wellformed |-> /\ Len(o.e) = Len(o.w)
                    /\ \A i \in 1..Len(o.w) : IsWide(o.w[i]) /\ o.w[i] # <<>>
                    /\ \A i \in 1..Len(o.e) : IsWide(o.e[i]),
     monotone |-> WMonotone(o.e),
     covers   |-> WCovers(o.e, o.h),
     badshare |-> { i \in 1..Len(o.w) : ~WShareOK(o.w, o.e, o.h, i) },
     badchoice |-> { j \in 1..Len(o.samples) : ~WInBucket(o.e, o.samples[j].x, o.samples[j].g) }]

\* (the file is read once: O is bound outside the quantifier)
TraceInit == LET O == Obs IN \E i \in 1..Len(O) : w = O[i].k /\ exp = Verdict(O[i])
TraceSpec == TraceInit /\ [][UNCHANGED vars]_vars
=============================================================================
