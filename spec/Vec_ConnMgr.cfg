INIT VecInit
NEXT VecNext
CONSTANTS CheckI = 2
          PendI = 3
          Timeouts = {4}
          ExpAt = 100
          MaxClock = 0
          MaxChecks = 0
          Acts = {}
          WithOk = TRUE
          MaxEnv = 0
          LateBy = 100
          FatalAfter = 0
          Full = FALSE
INVARIANTS DecideInPolicy
CHECK_DEADLOCK FALSE
