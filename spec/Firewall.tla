------------------------------ MODULE Firewall ------------------------------
(***************************************************************************)
(* The nebula firewall (firewall.go, firewall/packet.go, hostmap.go         *)
(* buildNetworks): C16 verdicts follow the rule semantics, C17 overlay      *)
(* addresses are authentic, C22 the configuration parses exactly.           *)
(*                                                                         *)
(* Three layers:                                                           *)
(*  1. REFERENCE  - the vocabulary of the statements and of the documented  *)
(*     rule semantics (examples/config.yml): Match / Allowed, Authentic,    *)
(*     the grammar of a rule map (Readings / Loads / RulesOf).              *)
(*  2. MACHINE    - what the Go code does: the nested                       *)
(*     proto -> port -> CA -> rule -> localCIDR tables built by AddRule     *)
(*     and walked by match, the address guard of Drop (buildNetworks +      *)
(*     longest prefix lookup, routableNetworks), conntrack and the          *)
(*     routine-local cache, parsePort / convertRule.                        *)
(*  3. LINK       - invariants: the machine refines the reference           *)
(*     (LinkTable, LinkGuard, LinkParse, GuardOnEveryAllow).                *)
(*                                                                         *)
(* Where a statement is silent the reference is an interval: `lo' (must    *)
(* allow / must load) and `hi' (may allow / may load).  lo = hi everywhere  *)
(* except on the classes listed in ASSUMPTIONS of tools/props/C16|C22.py.   *)
(*                                                                         *)
(* The module is used in vector mode: every initial state is one vector     *)
(* (input + expected result); TLC checks the link invariants on each and    *)
(* the dumped states are concretised on a real Firewall by the harness.     *)
(* MC_Firewall_C17.cfg additionally explores the Drop machine over every    *)
(* conntrack / cache content.                                               *)
(*                                                                         *)
(* Addresses are byte sequences (4 or 16), networks are [a, n], ports are   *)
(* integers (0 = any, -1 = fragment as in firewall/packet.go).              *)
(***************************************************************************)
EXTENDS Integers, Sequences, FiniteSets, TLC, Randomization

CONSTANTS Thorough,   \* BOOLEAN: size of the lattices
          NSample     \* number of sampled rule sets / configurations

Range(s) == {s[i] : i \in DOMAIN s}
Opt(S, d) == IF S = {} THEN d ELSE CHOOSE x \in S : TRUE

-----------------------------------------------------------------------------
(* Addresses and networks *)

Pow2(k) == 2 ^ k
\* the first `bits' (0..8) bits of the bytes x and y agree
ByteMatch(x, y, bits) == (x \div Pow2(8 - bits)) = (y \div Pow2(8 - bits))
InNet(addr, a, n) ==
    /\ Len(addr) = Len(a)
    /\ \A i \in 1..((n + 7) \div 8) :
         LET b == IF n >= 8 * i THEN 8 ELSE n - 8 * (i - 1)       \* bits of byte i covered by the prefix
         IN  ByteMatch(addr[i], a[i], b)
Net(a, n) == [a |-> a, n |-> n]
InAny(addr, nets) == \E x \in nets : InNet(addr, x.a, x.n)

V6(x) == <<253, 0, 0, 0, 0, 0, 0, 1, 0, 0, 0, 0, 0, 0, 0, x>>     \* fd00:0:0:1::x

\* CIDR operand of a rule: none (not given) / any / a network
NoC      == [k |-> "none", a |-> <<>>, n |-> 0]
AnyC     == [k |-> "any", a |-> <<>>, n |-> 0]
C(a, n)  == [k |-> "net", a |-> a, n |-> n]

-----------------------------------------------------------------------------
(* The universe the harness concretises: this node (three configurations),  *)
(* certificate authorities, peers with real certificates, packet shapes.    *)

MyNets == {Net(<<10, 0, 0, 1>>, 24), Net(V6(1), 64)}
MyUnsafe == {Net(<<192, 168, 0, 0>>, 24)}
Envs == [ plain     |-> [nets |-> MyNets, unsafe |-> {},       defaultAny |-> FALSE],
          unsafe    |-> [nets |-> MyNets, unsafe |-> MyUnsafe, defaultAny |-> FALSE],
          unsafeAny |-> [nets |-> MyNets, unsafe |-> MyUnsafe, defaultAny |-> TRUE] ]
EnvIds == <<"plain", "unsafe", "unsafeAny">>

CAs == [ ca1 |-> [name |-> "ca-one", sha |-> "sha1"],
         ca2 |-> [name |-> "ca-two", sha |-> "sha2"],
         ca3 |-> [name |-> "ca-one", sha |-> "sha3"] ]      \* same name as ca1, other key

\* pa: one address, no unsafe network (the "simple case" of buildNetworks)
\* pb: unsafe network; pc: same name as pa, two addresses (v4+v6), other CA with the same CA name
\* pd: no groups, an address outside my networks (10.9.0.5) and an unsafe network
\* pe: first (lowest) address outside my networks, second inside; unsafe network covering the outside address
\* pf: one address outside my networks whose certified prefix (/16) contains my network (simple-case candidate that is not)
\* pg: an address inside my network and one outside it whose certified prefix (/16) contains my network
Peers == [ pa |-> [name |-> "host-a", groups |-> {"g1", "g2"},       ca |-> "ca1",
                   nets |-> {Net(<<10, 0, 0, 2>>, 24)}, unsafe |-> {}],
           pb |-> [name |-> "host-b", groups |-> {"g1"},             ca |-> "ca2",
                   nets |-> {Net(<<10, 0, 0, 3>>, 24)}, unsafe |-> {Net(<<172, 16, 0, 0>>, 16)}],
           pc |-> [name |-> "host-a", groups |-> {"g1", "g2", "g3"}, ca |-> "ca3",
                   nets |-> {Net(<<10, 0, 0, 4>>, 24), Net(V6(4), 64)}, unsafe |-> {}],
           pd |-> [name |-> "host-d", groups |-> {},                 ca |-> "ca1",
                   nets |-> {Net(<<10, 0, 0, 5>>, 24), Net(<<10, 9, 0, 5>>, 24)}, unsafe |-> {Net(<<172, 16, 0, 0>>, 16)}],
           pe |-> [name |-> "host-e", groups |-> {"g3"},             ca |-> "ca2",
                   nets |-> {Net(<<9, 9, 9, 6>>, 24), Net(<<10, 0, 0, 6>>, 24)}, unsafe |-> {Net(<<9, 9, 0, 0>>, 16)}],
           pf |-> [name |-> "host-f", groups |-> {"g1"},             ca |-> "ca1",
                   nets |-> {Net(<<10, 0, 1, 7>>, 16)}, unsafe |-> {}],
           pg |-> [name |-> "host-g", groups |-> {"g2"},             ca |-> "ca2",
                   nets |-> {Net(<<10, 0, 0, 8>>, 24), Net(<<10, 0, 1, 8>>, 16)}, unsafe |-> {}] ]
PeerIds == <<"pa", "pb", "pc", "pd", "pe", "pf", "pg">>
PeerCA(p) == CAs[Peers[p].ca]

\* node-side address classes
LAddr == [ vpn |-> <<10, 0, 0, 1>>, vpn6 |-> V6(1), unsafe |-> <<192, 168, 0, 77>>,
           innet |-> <<10, 0, 0, 9>>,            \* inside my network but not my address
           ext |-> <<8, 8, 8, 8>> ]
\* peer-side address classes; <<>> = the peer has no such address
RAddr(p, cls) ==
    CASE cls = "vpn"    -> (CASE p = "pa" -> <<10, 0, 0, 2>> [] p = "pb" -> <<10, 0, 0, 3>> [] p = "pc" -> <<10, 0, 0, 4>>
                              [] p = "pd" -> <<10, 0, 0, 5>> [] p = "pe" -> <<10, 0, 0, 6>> [] p = "pg" -> <<10, 0, 0, 8>>
                              [] OTHER -> <<>>)
      [] cls = "vpn6"   -> (IF p = "pc" THEN V6(4) ELSE <<>>)
      [] cls = "unsafe" -> (IF p \in {"pb", "pd"} THEN <<172, 16, 5, 5>> ELSE IF p = "pe" THEN <<9, 9, 1, 1>> ELSE <<>>)
      [] cls = "vpnout" -> (CASE p = "pd" -> <<10, 9, 0, 5>> [] p = "pe" -> <<9, 9, 9, 6>> [] p = "pf" -> <<10, 0, 1, 7>>
                              [] p = "pg" -> <<10, 0, 1, 8>> [] OTHER -> <<>>)
      [] cls = "ext"    -> <<8, 8, 4, 4>>
      [] cls = "innet"  -> <<10, 0, 0, 99>>      \* inside my network, nobody's certified address
      [] cls = "me"     -> <<10, 0, 0, 1>>
      [] OTHER          -> <<>>

Pk(proto, lp, rp, frag, l, r) == [proto |-> proto, lp |-> lp, rp |-> rp, frag |-> frag, l |-> l, r |-> r]
\* Packet shapes with authentic addresses (C16, C22). Ports: incoming rules look at lp, outgoing rules at rp.
Pkts == << Pk("tcp", 80, 91, FALSE, "vpn", "vpn"),    Pk("tcp", 91, 80, FALSE, "vpn", "vpn"),
           Pk("tcp", 90, 79, FALSE, "vpn", "vpn"),    Pk("tcp", 79, 90, FALSE, "vpn", "vpn"),
           Pk("tcp", 65535, 65535, FALSE, "vpn", "vpn"), Pk("tcp", 0, 0, TRUE, "vpn", "vpn"),
           Pk("tcp", 80, 80, TRUE, "vpn", "vpn"),
           Pk("udp", 80, 91, FALSE, "vpn", "vpn"),    Pk("udp", 91, 80, FALSE, "vpn", "vpn"),
           Pk("udp", 0, 0, TRUE, "vpn", "vpn"),
           Pk("icmp", 0, 7, FALSE, "vpn", "vpn"),     Pk("icmp", 0, 0, TRUE, "vpn", "vpn"),
           Pk("icmp", 80, 80, FALSE, "vpn", "vpn"),
           Pk("icmp6", 0, 7, FALSE, "vpn6", "vpn6"),  Pk("other", 0, 0, FALSE, "vpn", "vpn"),
           Pk("tcp", 80, 80, FALSE, "vpn", "unsafe"), Pk("tcp", 80, 80, FALSE, "unsafe", "vpn"),
           Pk("tcp", 80, 80, FALSE, "unsafe", "unsafe"), Pk("tcp", 80, 80, FALSE, "vpn6", "vpn6"),
           Pk("udp", 85, 85, FALSE, "unsafe", "vpn") >>

PairId(k, j) == k * 10 + j
HasL(env, cls) == cls \in {"vpn", "vpn6"} \/ (cls = "unsafe" /\ Envs[env].unsafe # {})
\* The (packet shape, peer) pairs every rule set is evaluated on: every shape with pa and pb, the first TCP and the
\* first ICMP shape with every peer, the address shapes (16..20) and the IPv6 shapes with every peer that has the class.
PairKJ == { kj \in (DOMAIN Pkts) \X (DOMAIN PeerIds) :
              /\ RAddr(PeerIds[kj[2]], Pkts[kj[1]].r) # <<>>
              /\ (kj[2] \in {1, 2} \/ kj[1] \in {1, 11} \/ kj[1] >= 16 \/ Pkts[kj[1]].r = "vpn6") }
\* a concrete packet: la/ra resolved
Conc(k, j) == [proto |-> Pkts[k].proto, lp |-> Pkts[k].lp, rp |-> Pkts[k].rp, frag |-> Pkts[k].frag,
               la |-> LAddr[Pkts[k].l], ra |-> RAddr(PeerIds[j], Pkts[k].r)]
PairRecs == { [id |-> PairId(kj[1], kj[2]), l |-> Pkts[kj[1]].l, p |-> Conc(kj[1], kj[2]),
               peer |-> Peers[PeerIds[kj[2]]], ca |-> PeerCA(PeerIds[kj[2]])] : kj \in PairKJ }
\* the pairs that exist in an environment (the node-side address class must exist)
PairsIn == [e \in {"plain", "unsafe", "unsafeAny"} |-> { x \in PairRecs : HasL(e, x.l) }]
Pairs(env) == { x.id : x \in PairsIn[env] }

\* The port dimension (C16): packet shapes whose looked-at port lies inside, at both edges and just outside every
\* port specification of PortsSys below, port 0 (a legal port number that is not `any'), packets without ports
\* (second and further fragments), for tcp / udp / icmp / another protocol. lp = rp except in the two shapes that
\* carry port 0 on the side the rule does not look at. Every shape is paired with pa and pb.
MaxPort == 65535
PPortsTcp == <<0, 1, 2, 79, 80, 81, 85, 90, 91, 100, 101, 64999, 65000, 65100, 65534, 65535>>
PPortsUdp == <<0, 1, 80, 85, 65000, 65535>>
PPkts == [i \in DOMAIN PPortsTcp |-> Pk("tcp", PPortsTcp[i], PPortsTcp[i], FALSE, "vpn", "vpn")]
         \o << Pk("tcp", 0, 0, TRUE, "vpn", "vpn"), Pk("tcp", 80, 80, TRUE, "vpn", "vpn"),
               Pk("tcp", 80, 0, FALSE, "vpn", "vpn"), Pk("tcp", 0, 80, FALSE, "vpn", "vpn") >>
         \o [i \in DOMAIN PPortsUdp |-> Pk("udp", PPortsUdp[i], PPortsUdp[i], FALSE, "vpn", "vpn")]
         \o << Pk("udp", 0, 0, TRUE, "vpn", "vpn"),
               Pk("icmp", 0, 7, FALSE, "vpn", "vpn"), Pk("icmp", 80, 80, FALSE, "vpn", "vpn"), Pk("icmp", 0, 0, TRUE, "vpn", "vpn"),
               Pk("other", 0, 0, FALSE, "vpn", "vpn"), Pk("other", 80, 80, FALSE, "vpn", "vpn") >>
PConc(k, j) == [proto |-> PPkts[k].proto, lp |-> PPkts[k].lp, rp |-> PPkts[k].rp, frag |-> PPkts[k].frag,
                la |-> LAddr[PPkts[k].l], ra |-> RAddr(PeerIds[j], PPkts[k].r)]
PPairRecs == { [id |-> PairId(kj[1], kj[2]), l |-> PPkts[kj[1]].l, p |-> PConc(kj[1], kj[2]),
                peer |-> Peers[PeerIds[kj[2]]], ca |-> PeerCA(PeerIds[kj[2]])] : kj \in (DOMAIN PPkts) \X {1, 2} }
PPairsIn == [e \in {"plain", "unsafe", "unsafeAny"} |-> PPairRecs]       \* every shape is vpn -> vpn
\* the pair set a vector is evaluated on
PairSetOf(kind, env) == IF kind = "prules" THEN PPairsIn[env] ELSE PairsIn[env]
\* every port a packet of the universe can present to a port table (0 = the `any' entry, -1 = the `fragment' entry)
PortUniverse == {0, -1, 7, 4000} \cup {Pkts[k].lp : k \in DOMAIN Pkts} \cup {Pkts[k].rp : k \in DOMAIN Pkts}
                \cup {PPkts[k].lp : k \in DOMAIN PPkts} \cup {PPkts[k].rp : k \in DOMAIN PPkts}

-----------------------------------------------------------------------------
(* 1. REFERENCE: rule semantics as documented (examples/config.yml)        *)
(*    "port AND proto AND (ca_sha OR ca_name) AND (host OR group OR groups   *)
(*     OR cidr) AND (local cidr)"                                           *)
(* A rule (the AddRule vocabulary):                                        *)
(*   [dir, proto in any/tcp/udp/icmp, lo, hi (ports), groups (sequence),    *)
(*    host, cidr, lcidr (CIDR operands), caName, caSha]                     *)

IsIcmp(p) == p.proto \in {"icmp", "icmp6"}
PktPort(p, dir) == IF dir = "in" THEN p.lp ELSE p.rp

ProtoOK(r, p) == r.proto = "any" \/ (r.proto = "icmp" /\ IsIcmp(p)) \/ r.proto = p.proto

\* a port specification is ignored if proto is icmp; 0 or any is any
PortIsAny(r) == r.proto = "icmp" \/ (r.lo = 0 /\ r.hi = 0)
\* AddRule(.., 0, n, ..) with n > 0 has no documented meaning ("0-n": any, or the ports 0..n; the configuration path
\* turns it into any before it reaches AddRule): what only one of the two readings admits is not decided
ZeroRange(r) == r.lo = 0 /\ r.hi > 0
\* `und' is the verdict on the classes the statement does not decide (lo: FALSE, hi: TRUE): an ICMP packet against a
\* proto:any rule with a specific port, range or fragment ("ICMP ignores ports"), and the ZeroRange rules.
\* Everything else is what examples/config.yml and the rule grammar say: a port range matches the ports inside it
\* (bounds included) and nothing else - in particular not port 0 and not a packet without ports; second and
\* further fragments carry no port and match only `fragment' and `any' rules.
PortOK(r, p, dir, und) ==
    IF PortIsAny(r) THEN TRUE
    ELSE IF IsIcmp(p) THEN und
    ELSE IF p.frag THEN r.lo = -1 \/ (ZeroRange(r) /\ und)
    ELSE /\ r.lo # -1
         /\ \/ (r.lo <= PktPort(p, dir) /\ PktPort(p, dir) <= r.hi)
            \/ (ZeroRange(r) /\ und)

CAOK(r, ca) == \/ (r.caName = "" /\ r.caSha = "")
               \/ (r.caSha # "" /\ r.caSha = ca.sha)
               \/ (r.caName # "" /\ r.caName = ca.name)

\* local_cidr: "By default only the VPN networks assigned via the certificate unless default_local_cidr_any"
LocalOK(r, p, env) ==
    CASE r.lcidr.k = "any"  -> TRUE
      [] r.lcidr.k = "none" -> env.defaultAny \/ InAny(p.la, env.nets)
      [] OTHER              -> InNet(p.la, r.lcidr.a, r.lcidr.n)

RemoteIsAny(r) == \/ (r.groups = <<>> /\ r.host = "" /\ r.cidr.k = "none")
                  \/ "any" \in Range(r.groups) \/ r.host = "any" \/ r.cidr.k = "any"
RemoteOK(r, p, peer) ==
    \/ RemoteIsAny(r)
    \/ (r.groups # <<>> /\ \A g \in Range(r.groups) : g \in peer.groups)     \* all listed groups
    \/ (r.host # "" /\ r.host = peer.name)
    \/ (r.cidr.k = "net" /\ InNet(p.ra, r.cidr.a, r.cidr.n))

Match(r, p, peer, ca, env, dir, icmpSpecific) ==
    /\ r.dir = dir /\ ProtoOK(r, p) /\ PortOK(r, p, dir, icmpSpecific)
    /\ CAOK(r, ca) /\ LocalOK(r, p, env) /\ RemoteOK(r, p, peer)

\* rules: a sequence of rules (both directions)
AllowedLo(rules, p, peer, ca, env, dir) == \E i \in DOMAIN rules : Match(rules[i], p, peer, ca, env, dir, FALSE)
AllowedHi(rules, p, peer, ca, env, dir) == \E i \in DOMAIN rules : Match(rules[i], p, peer, ca, env, dir, TRUE)

(* C17: authenticity of the overlay addresses *)
AuthRemote(peer, env, ra) == \/ \E x \in peer.nets : x.a = ra /\ InAny(ra, env.nets)
                             \/ InAny(ra, peer.unsafe)
AuthLocal(env, la) == (\E x \in env.nets : x.a = la) \/ InAny(la, env.unsafe)
Authentic(peer, env, p) == AuthRemote(peer, env, p.ra) /\ AuthLocal(env, p.la)

-----------------------------------------------------------------------------
(* 2. MACHINE: the nested tables of firewall.go                            *)
(* nil pointers are sets with zero or one element; maps are functions.      *)

EmptyLC == [any |-> FALSE, nets |-> {}]
LCAdd(lc, r, env) ==                                             \* firewallLocalCIDR.addRule
    IF r.lcidr.k = "any" THEN [lc EXCEPT !.any = TRUE]
    ELSE IF r.lcidr.k = "none"
         THEN IF env.unsafe = {} \/ env.defaultAny THEN [lc EXCEPT !.any = TRUE]
              ELSE [lc EXCEPT !.nets = @ \cup env.nets]
         ELSE [lc EXCEPT !.nets = @ \cup {Net(r.lcidr.a, r.lcidr.n)}]
LCMatch(lcs, p) == \E lc \in lcs : lc.any \/ InAny(p.la, lc.nets)  \* lcs: zero or one element

EmptyFR == [any |-> {}, hosts |-> <<>>, groups |-> <<>>, cidr |-> <<>>]
At(f, k) == IF k \in DOMAIN f THEN {f[k]} ELSE {}
Put(f, k, v) == [x \in DOMAIN f \cup {k} |-> IF x = k THEN v ELSE f[x]]

FRAdd(fr, r, env) ==                                             \* FirewallRule.addRule
    IF RemoteIsAny(r) THEN [fr EXCEPT !.any = {LCAdd(Opt(fr.any, EmptyLC), r, env)}]
    ELSE LET f1 == IF r.groups # <<>>
                   THEN [fr EXCEPT !.groups = Append(@, [groups |-> r.groups, lc |-> LCAdd(EmptyLC, r, env)])]
                   ELSE fr
             f2 == IF r.host # ""
                   THEN [f1 EXCEPT !.hosts = Put(@, r.host, LCAdd(Opt(At(@, r.host), EmptyLC), r, env))]
                   ELSE f1
             key == Net(r.cidr.a, r.cidr.n)
         IN  IF r.cidr.k = "net"
             THEN [f2 EXCEPT !.cidr = Put(@, key, LCAdd(Opt(At(@, key), EmptyLC), r, env))]
             ELSE f2

FRMatch(frs, p, peer) ==                                          \* FirewallRule.match (frs: zero or one)
    \E fr \in frs :
       \/ LCMatch(fr.any, p)
       \/ \E i \in DOMAIN fr.groups : (\A g \in Range(fr.groups[i].groups) : g \in peer.groups) /\ LCMatch({fr.groups[i].lc}, p)
       \/ LCMatch(At(fr.hosts, peer.name), p)
       \/ \E key \in DOMAIN fr.cidr : InNet(p.ra, key.a, key.n) /\ LCMatch({fr.cidr[key]}, p)

EmptyFC == [any |-> {}, names |-> <<>>, shas |-> <<>>]
FCAdd(fc, r, env) ==                                             \* FirewallCA.addRule
    IF r.caSha = "" /\ r.caName = "" THEN [fc EXCEPT !.any = {FRAdd(Opt(fc.any, EmptyFR), r, env)}]
    ELSE LET c1 == IF r.caSha # "" THEN [fc EXCEPT !.shas = Put(@, r.caSha, FRAdd(Opt(At(@, r.caSha), EmptyFR), r, env))] ELSE fc
         IN  IF r.caName # "" THEN [c1 EXCEPT !.names = Put(@, r.caName, FRAdd(Opt(At(@, r.caName), EmptyFR), r, env))] ELSE c1
FCMatch(fcs, p, peer, ca) ==                                      \* FirewallCA.match (fcs: zero or one)
    \E fc \in fcs : \/ FRMatch(fc.any, p, peer)
                    \/ FRMatch(At(fc.shas, ca.sha), p, peer)
                    \/ FRMatch(At(fc.names, ca.name), p, peer)

\* firewallPort.addRule: one FirewallCA per port of the range. The table is kept for the ports of PortUniverse only
\* (the entries no packet of the universe can look up are left out: a rule 1-65535 has 65535 of them)
FPAdd(fp, lo, hi, r, env) ==
    LET ks == {x \in PortUniverse : lo <= x /\ x <= hi}
    IN  [x \in DOMAIN fp \cup ks |-> IF x \in ks THEN FCAdd(Opt(At(fp, x), EmptyFC), r, env) ELSE fp[x]]
FPMatch(fp, p, peer, ca, dir) ==                                  \* firewallPort.match
    IF IsIcmp(p) THEN FCMatch(At(fp, 0), p, peer, ca)
    ELSE LET port == IF p.frag THEN -1 ELSE PktPort(p, dir)
         IN  FCMatch(At(fp, port), p, peer, ca) \/ FCMatch(At(fp, 0), p, peer, ca)

EmptyFT == [tcp |-> <<>>, udp |-> <<>>, icmp |-> <<>>, any |-> <<>>]
EmptyFW == [in |-> EmptyFT, out |-> EmptyFT]
\* Firewall.AddRule (ICMP ports are coerced to any); start > end is an error and leaves the table alone
AddRuleOK(r) == r.proto = "icmp" \/ r.lo <= r.hi
AddRule(fw, r, env) ==
    LET lo == IF r.proto = "icmp" THEN 0 ELSE r.lo
        hi == IF r.proto = "icmp" THEN 0 ELSE r.hi
    IN  IF lo > hi THEN fw
        ELSE [fw EXCEPT ![r.dir][r.proto] = FPAdd(@, lo, hi, r, env)]
RECURSIVE Build(_, _, _)
Build(rules, env, k) == IF k = 0 THEN EmptyFW ELSE AddRule(Build(rules, env, k - 1), rules[k], env)
Table(rules, env) == Build(rules, env, Len(rules))

TableMatch(fw, p, peer, ca, dir) ==                               \* FirewallTable.match
    LET ft == fw[dir]
    IN  \/ FPMatch(ft.any, p, peer, ca, dir)
        \/ (p.proto = "tcp" /\ FPMatch(ft.tcp, p, peer, ca, dir))
        \/ (p.proto = "udp" /\ FPMatch(ft.udp, p, peer, ca, dir))
        \/ (IsIcmp(p) /\ FPMatch(ft.icmp, p, peer, ca, dir))

(* the address guard of Drop: HostInfo.buildNetworks + lookup, routableNetworks *)
Host(a) == Net(a, 8 * Len(a))
SimpleCase(peer, env) == Cardinality(peer.nets) = 1 /\ peer.unsafe = {} /\ \A x \in peer.nets : InAny(x.a, env.nets)
NetTable(peer, env) ==      \* prefix -> type; unsafe networks are inserted last (override an equal prefix)
    LET hosts == {Host(x.a) : x \in peer.nets}
    IN  [key \in hosts \cup peer.unsafe |->
            IF key \in peer.unsafe THEN "unsafe"
            ELSE IF InAny(key.a, env.nets) THEN "vpn" ELSE "vpnpeer"]
GuardRemote(peer, env, ra) ==
    IF SimpleCase(peer, env) THEN \A x \in peer.nets : x.a = ra
    ELSE LET t == NetTable(peer, env)
             hit == {key \in DOMAIN t : InNet(ra, key.a, key.n)}
         IN  /\ hit # {}
             /\ LET best == CHOOSE key \in hit : \A o \in hit : o.n <= key.n      \* longest prefix
                IN  t[best] \in {"vpn", "unsafe"}
GuardLocal(env, la) == \E x \in {Host(y.a) : y \in env.nets} \cup env.unsafe : InNet(la, x.a, x.n)
Guard(peer, env, p) == GuardRemote(peer, env, p.ra) /\ GuardLocal(env, p.la)

Tuple(p) == p      \* conntrack key: the whole firewall.Packet (addresses, ports, protocol, fragment)
\* Firewall.Drop for one call; conns / cache are sets of tuples; cache = the routine-local cache or "off"
DropAllow(fw, conns, cache, p, peer, ca, env, dir) ==
    /\ Guard(peer, env, p)
    /\ (Tuple(p) \in cache \/ Tuple(p) \in conns \/ TableMatch(fw, p, peer, ca, dir))

-----------------------------------------------------------------------------
(* C16 vectors: rule lattice                                               *)

R(dir, proto, ports, groups, host, cidr, lcidr, ca) ==
    [dir |-> dir, proto |-> proto, lo |-> ports[1], hi |-> ports[2], groups |-> groups, host |-> host,
     cidr |-> cidr, lcidr |-> lcidr, caName |-> ca[1], caSha |-> ca[2]]

Dirs     == {"in", "out"}
Protos   == {"any", "tcp", "udp", "icmp"}
PortsQ   == {<<0, 0>>, <<80, 80>>, <<80, 90>>, <<-1, -1>>}
PortsT   == PortsQ \cup {<<65535, 65535>>, <<79, 79>>, <<1, 100>>}
GroupsQ  == {<<>>, <<"g1", "g2">>, <<"g3">>, <<"g1", "any">>}
GroupsT  == GroupsQ \cup {<<"g1">>, <<"g2", "g3">>, <<"g9">>, <<"any">>, <<"g1", "g2", "g3">>}
HostsQ   == {"", "host-a", "any"}
HostsT   == HostsQ \cup {"host-b", "host-x"}
CidrsQ   == {NoC, AnyC, C(<<10, 0, 0, 2>>, 32), C(<<172, 16, 0, 0>>, 12)}
CidrsT   == CidrsQ \cup {C(<<10, 0, 0, 2>>, 31), C(<<0, 0, 0, 0>>, 0), C(V6(0), 64), C(<<10, 0, 0, 4>>, 24)}
\* (environment, local_cidr) combinations
LCidrs   == {NoC, AnyC, C(<<10, 0, 0, 1>>, 32), C(<<192, 168, 0, 0>>, 24), C(<<192, 168, 0, 64>>, 27), C(V6(0), 64)}
EnvLQ    == ({"plain"} \X {NoC, AnyC, C(<<10, 0, 0, 1>>, 32)})
              \cup ({"unsafe"} \X {NoC, AnyC, C(<<10, 0, 0, 1>>, 32), C(<<192, 168, 0, 0>>, 24)})
              \cup ({"unsafeAny"} \X {NoC})
EnvLT    == {"plain", "unsafe", "unsafeAny"} \X LCidrs
CAsQ     == {<<"", "">>, <<"ca-one", "">>, <<"", "sha1">>, <<"ca-two", "sha1">>}
CAsT     == CAsQ \cup {<<"", "sha3">>, <<"ca-one", "sha2">>, <<"ca-x", "shax">>}

SelQ == GroupsQ \X HostsQ \X CidrsQ
SelT == GroupsT \X HostsT \X CidrsT
\* three remote selectors that exercise every branch of FirewallRule
SelFew == {<<<<>>, "any", NoC>>, <<<<"g1", "g2">>, "", NoC>>, <<<<"g3">>, "host-a", C(<<172, 16, 0, 0>>, 12)>>}
PPFew == {<<"in", "tcp", <<80, 90>>>>, <<"out", "any", <<0, 0>>>>, <<"in", "icmp", <<0, 0>>>>,
          <<"out", "udp", <<-1, -1>>>>, <<"in", "any", <<80, 80>>>>}

PPFewQ == {<<"in", "tcp", <<80, 90>>>>, <<"out", "any", <<0, 0>>>>, <<"in", "icmp", <<0, 0>>>>}
\* single-rule vectors: [env, rule]
Single(pp, sel, el, ca) == [kind |-> "rules", env |-> el[1],
                            rules |-> <<R(pp[1], pp[2], pp[3], sel[1], sel[2], sel[3], el[2], ca)>>]
\* (operators with a dummy parameter: TLC must not evaluate the lattices while it processes constant definitions)
SingleQuickA(u) == { Single(pp, sel, el, ca) : pp \in Dirs \X Protos \X PortsQ, sel \in SelFew, el \in EnvLQ, ca \in CAsQ }
SingleQuickB(u) == { Single(pp, sel, el, ca) : pp \in PPFewQ, sel \in SelQ, el \in EnvLQ, ca \in CAsQ }
SingleThoroughA(u) == { Single(pp, sel, el, ca) : pp \in Dirs \X Protos \X PortsT, sel \in SelQ, el \in EnvLQ, ca \in CAsQ }
SingleThoroughB(u) == { Single(pp, sel, el, ca) : pp \in PPFew, sel \in SelT, el \in EnvLQ, ca \in CAsT }
SingleThoroughC(u) == { Single(pp, sel, el, ca) : pp \in PPFew, sel \in SelFew, el \in EnvLT, ca \in CAsQ }

\* sampled rule sets of two and three rules (both directions mixed) over the thorough lattice
RuleLattice == [dir : Dirs, proto : Protos, ports : PortsQ \cup {<<79, 79>>}, groups : GroupsT, host : HostsQ,
                cidr : CidrsT, lcidr : LCidrs, ca : CAsQ \cup {<<"", "sha3">>}]
FromLattice(x) == R(x.dir, x.proto, x.ports, x.groups, x.host, x.cidr, x.lcidr, x.ca)
MultiShapes == [env : {"plain", "unsafe", "unsafeAny"}, n : {2, 3}, r1 : RuleLattice, r2 : RuleLattice, r3 : RuleLattice]
Multi(x) == [kind |-> "rules", env |-> x.env,
             rules |-> IF x.n = 2 THEN <<FromLattice(x.r1), FromLattice(x.r2)>>
                       ELSE <<FromLattice(x.r1), FromLattice(x.r2), FromLattice(x.r3)>>]
MultiInputs(u) == { Multi(x) : x \in RandomSubset(NSample, MultiShapes) }

\* sibling pairs: a rule followed by the same rule with one field changed. Both land in shared nodes of the nested
\* tables (same port entry, same CA entry, same host / CIDR / any entry), where one rule could clobber the other.
SelSib == SelFew \cup {<<<<>>, "host-a", NoC>>, <<<<>>, "", C(<<10, 0, 0, 2>>, 32)>>, <<<<"g1">>, "", NoC>>}
LSib   == {NoC, AnyC, C(<<10, 0, 0, 1>>, 32), C(<<192, 168, 0, 0>>, 24)}
CASib  == {<<"", "">>, <<"ca-one", "">>, <<"", "sha1">>}
PPSib  == IF Thorough THEN PPFew ELSE PPFewQ
Variants(r) == {[r EXCEPT !.lcidr = x] : x \in LSib} \cup {[r EXCEPT !.cidr = x] : x \in CidrsQ}
               \cup {[r EXCEPT !.host = x] : x \in HostsQ} \cup {[r EXCEPT !.groups = x] : x \in GroupsQ}
               \cup {[r EXCEPT !.caName = x[1], !.caSha = x[2]] : x \in CAsQ}
               \cup {[r EXCEPT !.lo = x[1], !.hi = x[2]] : x \in PortsQ}
SiblingInputs(u) ==
    { [kind |-> "rules", env |-> e, rules |-> <<rv[1], rv[2]>>] :
        e \in (IF Thorough THEN {"plain", "unsafe"} ELSE {"unsafe"}),
        rv \in UNION { {<<r, v>> : v \in Variants(r) \ {r}} :
                        r \in { R(pp[1], pp[2], pp[3], sel[1], sel[2], sel[3], lc, ca) :
                                 pp \in PPSib, sel \in SelSib, lc \in LSib, ca \in CASib } } }

\* bucket pairs: two rules that land in the same direction / proto / port / CA bucket, whose remote selectors overlap
\* (strictly nested remote CIDRs, a host and groups the same peer carries, nested group lists) and whose local CIDRs
\* differ (nested, disjoint, default, any). Rules are OR'd: what only the less specific rule admits must still pass,
\* so a "most specific entry wins" lookup anywhere in FirewallRule / firewallLocalCIDR is visible.
SelNest == { <<<<>>, "", C(<<10, 0, 0, 0>>, 24)>>, <<<<>>, "", C(<<10, 0, 0, 2>>, 31)>>, <<<<>>, "", C(<<10, 0, 0, 2>>, 32)>>,
             <<<<>>, "", C(<<172, 16, 0, 0>>, 12)>>, <<<<>>, "", C(<<172, 16, 5, 0>>, 24)>>,
             <<<<>>, "host-a", NoC>>, <<<<"g1">>, "", NoC>>, <<<<"g1", "g2">>, "", NoC>> }
LNest   == {NoC, AnyC, C(<<192, 168, 0, 0>>, 24), C(<<192, 168, 0, 64>>, 27)}
             \cup (IF Thorough THEN {C(<<10, 0, 0, 1>>, 32), C(<<10, 0, 0, 0>>, 24)} ELSE {})
Buckets == { <<"in", "tcp", <<80, 90>>, <<"", "">>>>, <<"out", "any", <<0, 0>>, <<"ca-one", "">>>>, <<"in", "udp", <<0, 0>>, <<"", "sha1">>>> }
             \cup (IF Thorough THEN { <<"out", "tcp", <<80, 80>>, <<"", "">>>>, <<"in", "any", <<80, 90>>, <<"", "">>>>,
                                     <<"in", "icmp", <<0, 0>>, <<"", "">>>> } ELSE {})
BucketPairInputs(u) ==
    { [kind |-> "rules", env |-> e,
       rules |-> << R(b[1], b[2], b[3], x[1][1], x[1][2], x[1][3], x[3], b[4]),
                    R(b[1], b[2], b[3], x[2][1], x[2][2], x[2][3], x[4], b[4]) >>] :
        e \in (IF Thorough THEN {"plain", "unsafe", "unsafeAny"} ELSE {"unsafe"}), b \in Buckets,
        x \in { x \in SelNest \X SelNest \X LNest \X LNest : x[1] # x[2] /\ x[3] # x[4] } }

\* The port dimension, systematically (kind "prules": evaluated on the port pairs PPairsIn): any, fragment, single ports
\* (a middle one, the lowest, the highest), a narrow range, a range that starts at 1, a range that ends at 65535, the
\* range that spans the whole port space (which is NOT `any': it matches neither port 0 nor a packet without ports),
\* the two ranges one port short of it, and ranges written from 0.
PortsSysQ == {<<0, 0>>, <<-1, -1>>, <<80, 80>>, <<1, 1>>, <<MaxPort, MaxPort>>, <<80, 90>>, <<1, 100>>, <<65000, MaxPort>>,
              <<1, MaxPort>>, <<2, MaxPort>>, <<1, MaxPort - 1>>, <<0, 90>>}
PortsSys  == PortsSysQ \cup (IF Thorough THEN {<<0, MaxPort>>, <<2, MaxPort - 1>>, <<81, 65000>>} ELSE {})
\* (a rule over nearly the whole port space costs the real AddRule 65 thousand table entries: the quick tier combines
\* the neighbours of the full range with one selector only)
PortsNearFull == {<<2, MaxPort>>, <<1, MaxPort - 1>>, <<0, MaxPort>>, <<2, MaxPort - 1>>}
\* selector x CA of the single-rule port vectors: pa carries every selector, pb only `any'
PortSelCA == {<<s, <<"", "">>>> : s \in SelFew} \cup {<<<<<<>>, "any", NoC>>, <<"ca-one", "">>>>}
PortSelCAOf(ps) == IF ~Thorough /\ ps \in PortsNearFull THEN {<<<<<<>>, "any", NoC>>, <<"", "">>>>} ELSE PortSelCA
PortEnvs  == IF Thorough THEN {"plain", "unsafe"} ELSE {"plain"}
PSingle(d, pr, ps, sc, e) == [kind |-> "prules", env |-> e, rules |-> <<R(d, pr, ps, sc[1][1], sc[1][2], sc[1][3], NoC, sc[2])>>]
\* two rules in one direction / protocol table with different port specifications: the first names host-a (pa), the
\* second host-b (pb) - or both any host -, so that each peer's verdicts follow one rule's ports only and an entry
\* shared between port buckets (a range folded into `any', a bucket overwritten) shows
PortsPairQ == {<<0, 0>>, <<-1, -1>>, <<80, 80>>, <<80, 90>>, <<1, 100>>, <<65000, MaxPort>>, <<1, MaxPort>>}
PortsPair  == IF Thorough THEN PortsSys ELSE PortsPairQ
PortBuckets == IF Thorough THEN Dirs \X {"any", "tcp", "udp"} ELSE {<<"in", "tcp">>, <<"out", "any">>}
PortPairHosts == {<<"host-a", "host-b">>, <<"any", "any">>}
PPair(b, p1, p2, hs, e) == [kind |-> "prules", env |-> e,
                            rules |-> << R(b[1], b[2], p1, <<>>, hs[1], NoC, NoC, <<"", "">>),
                                         R(b[1], b[2], p2, <<>>, hs[2], NoC, NoC, <<"", "">>) >>]

\* expected verdicts of a rule sequence: for both directions the pairs that must / may be allowed
\* (P = the pair records the vector is evaluated on)
HasDir(rules, dir) == \E i \in DOMAIN rules : rules[i].dir = dir
AllowSetOn(P, rules, envId, dir, hi) ==
    IF ~HasDir(rules, dir) THEN {}
    ELSE { x.id : x \in { x \in P :
             IF hi THEN AllowedHi(rules, x.p, x.peer, x.ca, Envs[envId], dir)
                   ELSE AllowedLo(rules, x.p, x.peer, x.ca, Envs[envId], dir) } }
AllowSet(rules, envId, dir, hi) == AllowSetOn(PairsIn[envId], rules, envId, dir, hi)
TableSetOn(P, rules, envId, dir) ==
    IF ~HasDir(rules, dir) THEN {}
    ELSE LET fw == Table(rules, Envs[envId])
         IN  { x.id : x \in { x \in P : TableMatch(fw, x.p, x.peer, x.ca, dir) } }
TableSet(rules, envId, dir) == TableSetOn(PairsIn[envId], rules, envId, dir)
ExpRulesOn(P, rules, envId) ==
    LET loIn == AllowSetOn(P, rules, envId, "in", FALSE)    hiIn == AllowSetOn(P, rules, envId, "in", TRUE)
        loOut == AllowSetOn(P, rules, envId, "out", FALSE)  hiOut == AllowSetOn(P, rules, envId, "out", TRUE)
    IN  [allowIn |-> loIn, eitherIn |-> hiIn \ loIn, allowOut |-> loOut, eitherOut |-> hiOut \ loOut]
ExpRules(rules, envId) == ExpRulesOn(PairsIn[envId], rules, envId)

Universe == [kind |-> "universe"]

-----------------------------------------------------------------------------
(* C17 vectors: an attack packet by peer `who', optionally after the same   *)
(* tuple was tracked through a flow of its rightful owner, or injected into *)
(* conntrack / the routine cache directly.                                  *)

RClasses == {"vpn", "vpn6", "unsafe", "vpnout", "ext", "innet", "me"}
LClasses == {"vpn", "vpn6", "unsafe", "innet", "ext"}
AllowAll(dir) == R(dir, "any", <<0, 0>>, <<>>, "any", NoC, AnyC, <<"", "">>)
RuleSets17 == [ none |-> <<>>, all |-> <<AllowAll("in"), AllowAll("out")>>, inonly |-> <<AllowAll("in")>> ]
\* the tables of these rule sets (a constant: built once)
Tables17 == [e \in {"plain", "unsafe"} |-> [rs \in {"none", "all", "inonly"} |-> Table(RuleSets17[rs], Envs[e])]]
\* owner = whose address the remote address is taken from; who = the peer that sends / is sent the packet
Shapes17 == [env : {"plain", "unsafe"}, rules : {"none", "all", "inonly"}, who : Range(PeerIds), owner : Range(PeerIds),
             r : RClasses, l : LClasses, dir : Dirs, proto : {"tcp", "icmp"},
             prior : {"none", "in", "out", "inject", "cache"}]
Valid17(x) == /\ RAddr(x.owner, x.r) # <<>>
              /\ (x.r \in {"ext", "innet", "me"} => x.owner = x.who)       \* these do not depend on the owner
              /\ (x.prior \in {"in", "out"} => x.owner # x.who)
              /\ (~Thorough => (x.proto = "tcp" /\ x.rules # "inonly"))
Pkt17(x) == [proto |-> x.proto, lp |-> IF x.proto = "tcp" THEN 80 ELSE 0, rp |-> IF x.proto = "tcp" THEN 4000 ELSE 7,
             frag |-> FALSE, la |-> LAddr[x.l], ra |-> RAddr(x.owner, x.r)]
Inputs17(u) == { [kind |-> "attack"] @@ x : x \in { x \in Shapes17 : Valid17(x) } }

Exp17(x) ==
    LET env == Envs[x.env]  p == Pkt17(x)  fw == Tables17[x.env][x.rules]
        own == Peers[x.owner]  who == Peers[x.who]
        \* the prior flow: the same tuple sent by / to its owner
        priorAllow == x.prior \in {"in", "out"} /\ DropAllow(fw, {}, {}, p, own, PeerCA(x.owner), env, x.prior)
        conns == IF priorAllow \/ x.prior = "inject" THEN {Tuple(p)} ELSE {}
        cache == IF x.prior = "cache" THEN {Tuple(p)} ELSE {}
    IN  [pkt |-> p, priorAllow |-> priorAllow,
         auth |-> Authentic(who, env, p), authRemote |-> AuthRemote(who, env, p.ra), authLocal |-> AuthLocal(env, p.la),
         machine |-> DropAllow(fw, conns, cache, p, who, PeerCA(x.who), env, x.dir)]

-----------------------------------------------------------------------------
(* C22: the grammar of a rule map.                                         *)
(* A field value is a token [k, s, c, l]: k in missing/str/int/bool/null/    *)
(* list; s = the text (a string; the decimal text of an int, "true");       *)
(* c = the same for port and code fields, spelled as a sequence of          *)
(* one-character strings so that the grammar can look at the characters;    *)
(* l = the elements [k, s] of a list.                                       *)

Missing == [k |-> "missing", s |-> "", c |-> <<>>, l |-> <<>>]
Null    == [k |-> "null", s |-> "", c |-> <<>>, l |-> <<>>]
Str(s)  == [k |-> "str", s |-> s, c |-> <<>>, l |-> <<>>]
IntT(s) == [k |-> "int", s |-> s, c |-> <<>>, l |-> <<>>]
Bool(s) == [k |-> "bool", s |-> s, c |-> <<>>, l |-> <<>>]
List(l) == [k |-> "list", s |-> "", c |-> <<>>, l |-> l]
E(k, s) == [k |-> k, s |-> s]       \* list element
\* port / code texts are spelled character by character in c (TLC strings are atomic)
PStr(c) == [k |-> "str", s |-> "", c |-> c, l |-> <<>>]
PInt(c) == [k |-> "int", s |-> "", c |-> c, l |-> <<>>]

Digits == {"0", "1", "2", "3", "4", "5", "6", "7", "8", "9"}
DigitVal(c) == CASE c = "0" -> 0 [] c = "1" -> 1 [] c = "2" -> 2 [] c = "3" -> 3 [] c = "4" -> 4
                 [] c = "5" -> 5 [] c = "6" -> 6 [] c = "7" -> 7 [] c = "8" -> 8 [] c = "9" -> 9
IsDec(s) == Len(s) >= 1 /\ \A i \in DOMAIN s : s[i] \in Digits
RECURSIVE StripZeros(_)
StripZeros(s) == IF Len(s) > 1 /\ s[1] = "0" THEN StripZeros(Tail(s)) ELSE s
RECURSIVE DecVal(_)
DecVal(s) == IF s = <<>> THEN 0 ELSE 10 * DecVal(SubSeq(s, 1, Len(s) - 1)) + DigitVal(s[Len(s)])
\* a decimal in 0..65535 (value computed only when short enough for TLC's integers)
InRange(s) == IsDec(s) /\ Len(StripZeros(s)) <= 5 /\ DecVal(StripZeros(s)) <= 65535
PortVal(s) == DecVal(StripZeros(s))
LeadingZero(s) == Len(s) > 1 /\ s[1] = "0"
RECURSIVE TrimL(_)
TrimL(s) == IF s # <<>> /\ s[1] = " " THEN TrimL(Tail(s)) ELSE s
RECURSIVE TrimR(_)
TrimR(s) == IF s # <<>> /\ s[Len(s)] = " " THEN TrimR(SubSeq(s, 1, Len(s) - 1)) ELSE s
Trim(s) == TrimR(TrimL(s))
Dashes(s) == {i \in DOMAIN s : s[i] = "-"}

\* Readings of a port text: a set of outcomes, each <<"rej">> or <<"port", lo, hi>>.
\* More than one element = the statement does not decide (ASSUMPTIONS of C22).
Rej == <<"rej">>
P(lo, hi) == <<"port", lo, hi>>
ReadDec(s) ==        \* one decimal: 0 is any
    IF ~InRange(s) THEN {Rej}
    ELSE (IF LeadingZero(s) THEN {Rej} ELSE {}) \cup {P(PortVal(s), PortVal(s))}
ReadRange(a, b) ==
    IF ~InRange(a) \/ ~InRange(b) THEN {Rej}
    ELSE (IF LeadingZero(a) \/ LeadingZero(b) THEN {Rej} ELSE {})
         \cup (IF PortVal(a) = 0 THEN {P(0, 0)} \cup (IF PortVal(b) >= 1 THEN {P(1, PortVal(b))} ELSE {})   \* "0-n": any, or the ports up to n
               ELSE IF PortVal(a) > PortVal(b) THEN {Rej}                      \* reversed range
               ELSE {P(PortVal(a), PortVal(b))})
ReadPortText(s) ==
    IF s = <<"a", "n", "y">> THEN {P(0, 0)}
    ELSE IF s = <<"f", "r", "a", "g", "m", "e", "n", "t">> THEN {P(-1, -1)}
    ELSE IF Cardinality(Dashes(s)) = 0 THEN (IF Trim(s) = s THEN ReadDec(s) ELSE {Rej} \cup ReadDec(Trim(s)))   \* blanks: not decided
    ELSE IF Cardinality(Dashes(s)) = 1
         THEN LET d == CHOOSE i \in Dashes(s) : TRUE
                  a == SubSeq(s, 1, d - 1)  b == SubSeq(s, d + 1, Len(s))
              IN  IF Trim(a) = a /\ Trim(b) = b THEN ReadRange(a, b)
                  ELSE {Rej} \cup ReadRange(Trim(a), Trim(b))                  \* blanks around the bounds: not decided
    ELSE {Rej}

\* MACHINE: parsePort / parsePortValue of firewall.go (strconv.ParseUint(s, 10, 16))
MParsePort(s) ==
    IF s = <<"a", "n", "y">> THEN P(0, 0)
    ELSE IF s = <<"f", "r", "a", "g", "m", "e", "n", "t">> THEN P(-1, -1)
    ELSE IF Dashes(s) = {} THEN (IF InRange(s) THEN P(PortVal(s), PortVal(s)) ELSE Rej)
    ELSE LET d == CHOOSE i \in Dashes(s) : \A j \in Dashes(s) : i <= j               \* SplitN(s, "-", 2)
             a == Trim(SubSeq(s, 1, d - 1))  b == Trim(SubSeq(s, d + 1, Len(s)))
         IN  IF a = <<>> \/ b = <<>> \/ ~InRange(a) \/ ~InRange(b) THEN Rej
             ELSE IF PortVal(a) = 0 THEN P(0, 0)
             ELSE IF PortVal(a) > PortVal(b) THEN Rej                                  \* refused later by addRule
             ELSE P(PortVal(a), PortVal(b))

\* scalar text of a token as fmt.Sprintf("%v") gives it; lists and null have no agreed text
Scalar(t) == t.k \in {"str", "int", "bool"}

\* a rule map: [port, code, proto, host, group, groups, cidr, local_cidr, ca_name, ca_sha : token]
Fields == {"port", "code", "proto", "host", "group", "groups", "cidr", "local_cidr", "ca_name", "ca_sha"}

CidrTexts == { [text |-> "10.0.0.2/32", cls |-> "valid", a |-> <<10, 0, 0, 2>>, n |-> 32],
               [text |-> "10.0.0.2/24", cls |-> "valid", a |-> <<10, 0, 0, 2>>, n |-> 24],       \* not canonical
               [text |-> "172.16.0.0/12", cls |-> "valid", a |-> <<172, 16, 0, 0>>, n |-> 12],
               [text |-> "fd00:0:0:1::/64", cls |-> "valid", a |-> V6(0), n |-> 64],
               [text |-> "any", cls |-> "any", a |-> <<>>, n |-> 0],
               [text |-> "10.0.0.2", cls |-> "bare", a |-> <<10, 0, 0, 2>>, n |-> 0],
               [text |-> "10.0.0.0/33", cls |-> "bad", a |-> <<>>, n |-> 0],
               [text |-> "10.0.0.2/32 ", cls |-> "bad", a |-> <<>>, n |-> 0],
               [text |-> "garbage", cls |-> "bad", a |-> <<>>, n |-> 0],
               [text |-> "", cls |-> "empty", a |-> <<>>, n |-> 0] }
LCidrTexts == { [text |-> "10.0.0.1/32", cls |-> "valid", a |-> <<10, 0, 0, 1>>, n |-> 32],
                [text |-> "192.168.0.1/24", cls |-> "valid", a |-> <<192, 168, 0, 1>>, n |-> 24],
                [text |-> "any", cls |-> "any", a |-> <<>>, n |-> 0],
                [text |-> "192.168.0.0/255.255.255.0", cls |-> "bad", a |-> <<>>, n |-> 0] }
\* CIDR texts are classified, not parsed character by character: [text, cls, net]
\*  cls: valid / any / bare (address without length) / bad
CidrReadings(t, texts) ==     \* set of <<"rej">>, <<"missing">>, <<"cidr", operand>>
    CASE t.k = "missing" -> {<<"missing">>}
      [] t.k = "null"    -> {<<"missing">>, Rej}
      [] t.k = "str"     -> LET x == CHOOSE x \in texts : x.text = t.s
                            IN  (CASE x.cls = "valid" -> {<<"cidr", C(x.a, x.n)>>}
                                   [] x.cls = "any"   -> {<<"cidr", AnyC>>}
                                   [] x.cls = "empty" -> {<<"missing">>, Rej}
                                   [] x.cls = "bare"  -> {Rej, <<"cidr", C(x.a, 8 * Len(x.a))>>}
                                   [] OTHER           -> {Rej})
      [] OTHER           -> {Rej}

\* a name-like field (host, ca_name, ca_sha, one group): set of <<"rej">>, <<"missing">>, <<"val", string>>
\* "?" stands for a text no certificate in the universe carries (e.g. "[a b]", "<nil>", "true")
NameReadings(t) ==
    CASE t.k = "missing" -> {<<"missing">>}
      [] t.k = "str"     -> (IF t.s = "" THEN {<<"missing">>, Rej} ELSE {<<"val", t.s>>})
      [] t.k = "int"     -> {<<"val", "?">>, Rej}
      [] t.k = "bool"    -> {<<"val", "?">>, Rej}
      [] t.k = "null"    -> {<<"missing">>, Rej, <<"val", "?">>}
      [] t.k = "list"    -> {Rej, <<"val", "?">>} \cup {<<"val", t.l[i].s>> : i \in {i \in DOMAIN t.l : t.l[i].k = "str"}}

\* group / groups: set of <<"rej">> or <<"groups", sequence>>; the empty sequence = not given
ElemName(e) == IF e.k = "str" THEN e.s ELSE "?"
GroupTokReadings(t) ==
    CASE t.k = "missing" -> {<<"groups", <<>>>>}
      [] t.k = "str"     -> (IF t.s = "" THEN {<<"groups", <<>>>>, Rej, <<"groups", <<"?">>>>} ELSE {<<"groups", <<t.s>>>>})
      [] t.k = "int"     -> {<<"groups", <<"?">>>>, Rej}
      [] t.k = "bool"    -> {<<"groups", <<"?">>>>, Rej}
      [] t.k = "null"    -> {<<"groups", <<>>>>, Rej, <<"groups", <<"?">>>>}
      [] t.k = "list"    -> (IF t.l = <<>> THEN {<<"groups", <<>>>>, Rej}
                             ELSE (IF \A i \in DOMAIN t.l : t.l[i].k = "str" THEN {} ELSE {Rej})
                                  \cup {<<"groups", [i \in DOMAIN t.l |-> ElemName(t.l[i])]>>})
\* `group' takes one value: a list of several is refused, or read like `groups'
GroupReadings(t) == GroupTokReadings(t) \cup (IF t.k = "list" /\ Len(t.l) > 1 THEN {Rej} ELSE {})
GroupsReadings(t) == GroupTokReadings(t)
BothGroups(g1, g2) ==      \* group and groups together: refused, or all of them
    IF g1 = Rej \/ g2 = Rej THEN {Rej}
    ELSE IF g1[2] = <<>> THEN {g2} ELSE IF g2[2] = <<>> THEN {g1}
    ELSE {Rej, <<"groups", g1[2] \o g2[2]>>}

ProtoReadings(t) ==
    IF t.k = "str" /\ t.s \in {"any", "tcp", "udp", "icmp"} THEN {<<"val", t.s>>} ELSE {Rej}

PortTokReadings(t) ==
    CASE t.k = "missing" -> {<<"missing">>}
      [] t.k = "null"    -> {<<"missing">>, Rej}
      [] t.k \in {"str", "int"} -> ReadPortText(t.c)
      [] OTHER           -> {Rej}
\* port and code: code is a deprecated alias ("has never been functional"): refused, used as the port, or ignored
PortCodeReadings(port, code, proto) ==
    LET pr == PortTokReadings(port)  cr == PortTokReadings(code)
        base == IF code.k = "missing" THEN pr
                ELSE IF port.k = "missing" THEN {Rej} \cup cr
                ELSE {Rej} \cup pr
        named == (base \ {<<"missing">>}) \cup (IF <<"missing">> \in base THEN {Rej} ELSE {})   \* a rule must name a port
    IN  IF proto = "icmp" THEN {P(0, 0)} \cup (IF Rej \in named /\ (port.k # "missing" \/ code.k # "missing") THEN {Rej} ELSE {})
        ELSE named

\* all readings of one rule map in direction dir: a set of <<"rej">> and <<"rule", r>>
RuleReadings(m, dir) ==
    LET protos == ProtoReadings(m.proto)
        hosts == NameReadings(m.host)  cans == NameReadings(m.ca_name)  cass == NameReadings(m.ca_sha)
        cidrs == CidrReadings(m.cidr, CidrTexts)  lcidrs == CidrReadings(m.local_cidr, LCidrTexts)
        groups == UNION {BothGroups(g1, g2) : g1 \in GroupReadings(m.group), g2 \in GroupsReadings(m.groups)}
        NameOf(x) == IF x = <<"missing">> THEN "" ELSE x[2]
        CidrOf(x) == IF x = <<"missing">> THEN NoC ELSE x[2]
    IN  UNION { IF pro = Rej \/ h = Rej \/ cn = Rej \/ cs = Rej \/ c = Rej \/ lc = Rej \/ g = Rej THEN {Rej}
                ELSE LET ports == PortCodeReadings(m.port, m.code, pro[2])
                         selectors == NameOf(h) # "" \/ g[2] # <<>> \/ CidrOf(c).k # "none"
                         weak == CidrOf(lc).k # "none" \/ NameOf(cn) # "" \/ NameOf(cs) # ""
                     IN  UNION { IF pt = Rej THEN {Rej}
                                 ELSE IF ~selectors /\ ~weak THEN {Rej}                         \* at least one selector
                                 ELSE (IF ~selectors THEN {Rej} ELSE {})                        \* only local_cidr / ca_*: not decided
                                      \cup {<<"rule", R(dir, pro[2], <<pt[2], pt[3]>>, g[2], NameOf(h), CidrOf(c), CidrOf(lc),
                                                         <<NameOf(cn), NameOf(cs)>>)>>}
                               : pt \in ports }
              : pro \in protos, h \in hosts, cn \in cans, cs \in cass, c \in cidrs, lc \in lcidrs, g \in groups }

\* A configuration = a sequence of rule maps for one direction. Its readings: all ways to read every rule.
RECURSIVE CfgReadings(_, _, _)
CfgReadings(cfg, dir, k) ==      \* set of <<"rej">> and <<"rules", sequence>>
    IF k = 0 THEN {<<"rules", <<>>>>}
    ELSE UNION { IF pre = Rej THEN {Rej}
                 ELSE { IF rr = Rej THEN Rej ELSE <<"rules", Append(pre[2], rr[2])>> : rr \in RuleReadings(cfg[k], dir) }
               : pre \in CfgReadings(cfg, dir, k - 1) }
Readings(cfg, dir) == CfgReadings(cfg, dir, Len(cfg))
\* Loads(cfg): "yes" every reading loads, "no" none does, "either" the statement does not decide
Loads(cfg, dir) == LET rd == Readings(cfg, dir)
                   IN  IF Rej \notin rd THEN "yes" ELSE IF rd = {Rej} THEN "no" ELSE "either"
RulesOf(cfg, dir) == { x[2] : x \in Readings(cfg, dir) \ {Rej} }      \* set of rule sequences

\* pp: the configuration is also evaluated on the port pairs (pallow / peither; the vectors that vary the port text)
ExpCfg(cfg, dir, envId, pp) ==
    LET rd == Readings(cfg, dir)
        rs == { x[2] : x \in rd \ {Rej} }
        los == { AllowSet(rules, envId, dir, FALSE) : rules \in rs }
        lo == IF rs = {} THEN {} ELSE { id \in Pairs(envId) : \A s \in los : id \in s }
        hi == UNION { AllowSet(rules, envId, dir, TRUE) : rules \in rs }
        PP == IF pp THEN PPairsIn[envId] ELSE {}
        plos == { AllowSetOn(PP, rules, envId, dir, FALSE) : rules \in rs }
        plo == IF rs = {} THEN {} ELSE { id \in {x.id : x \in PP} : \A s \in plos : id \in s }
        phi == UNION { AllowSetOn(PP, rules, envId, dir, TRUE) : rules \in rs }
    IN  [loads |-> IF Rej \notin rd THEN "yes" ELSE IF rd = {Rej} THEN "no" ELSE "either",
         allow |-> lo, either |-> hi \ lo, pallow |-> plo, peither |-> phi \ plo, nreadings |-> Cardinality(rd)]

(* the configuration lattice *)
any3 == <<"a", "n", "y">>
PortTextsQ == {
    any3, <<"f","r","a","g","m","e","n","t">>, <<"A","n","y">>, <<"f","r","a","g">>, <<>>,
    <<"0">>, <<"8","0">>, <<"7","9">>, <<"6","5","5","3","5">>, <<"6","5","5","3","6">>, <<"6","5","6","1","6">>,
    <<"4","2","9","4","9","6","7","3","7","6">>, <<"0","8","0">>, <<"0","1","2","0">>, <<"0","x","5","0">>,
    <<"+","8","0">>, <<"-","8","0">>, <<" ","8","0">>, <<"8","0"," ">>, <<"8","0",".","0">>, <<"8","e","1">>,
    <<"8","0","-","9","0">>, <<"8","0","-","8","0">>, <<"9","0","-","8","0">>, <<"8","0"," ","-"," ","9","0">>,
    <<" ","8","0","-","9","0">>, <<"8","0","-">>, <<"-">>, <<"8","0","-","9","0","-","9","1">>, <<"0","-","9","0">>,
    <<"0","-","0">>, <<"8","0","-","0">>, <<"1","-","6","5","5","3","6">>, <<"8","0","-","6","5","6","2","6">>,
    <<"6","5","6","1","6","-","6","5","6","2","6">>, <<"8","0","-","a","n","y">>, <<"a","n","y","-","9","0">>,
    <<"f","r","a","g","m","e","n","t","-","9","0">>, <<"0","x","5","0","-","0","x","5","a">>, <<"8","0",",","9","0">>,
    <<"8","0","-","0","9","0">>, <<"7","9","-","9","1">>, <<"9","1","-","6","5","5","3","5">>,
    \* the whole port space (a range, not `any': no port 0, no packet without ports), its neighbours, and written from 0
    <<"1","-","6","5","5","3","5">>, <<" ","1"," ","-"," ","6","5","5","3","5"," ">>, <<"1","-","6","5","5","3","4">>,
    <<"2","-","6","5","5","3","5">>, <<"0","-","6","5","5","3","5">>, <<"1","-","1","0","0">>, <<"6","5","0","0","0","-","6","5","5","3","5">>,
    <<"1">> }
PortTokens == {PStr(c) : c \in PortTextsQ}
              \cup {Missing, Null, Bool("true"), List(<<E("int", "80")>>),
                    PInt(<<"8","0">>), PInt(<<"0">>), PInt(<<"-","8","0">>), PInt(<<"6","5","6","1","6">>), PInt(<<"6","5","5","3","5">>)}

OddTokens == {Null, IntT("5"), Bool("true"), List(<<>>), List(<<E("str", "g1")>>),
              List(<<E("str", "g1"), E("str", "g2")>>), List(<<E("str", "g1"), E("int", "5")>>),
              List(<<E("int", "5")>>), List(<<E("str", "host-a"), E("str", "any")>>), Str("")}

BaseMap == [port |-> PStr(<<"8","0">>), code |-> Missing, proto |-> Str("tcp"), host |-> Str("host-a"), group |-> Missing,
            groups |-> Missing, cidr |-> Missing, local_cidr |-> Missing, ca_name |-> Missing, ca_sha |-> Missing]
NoSelMap == [BaseMap EXCEPT !.host = Missing]
Set1(m, f, v) == [m EXCEPT ![f] = v]
ValuesOf(f) ==
    CASE f \in {"port", "code"} -> PortTokens
      [] f = "proto" -> {Str("any"), Str("tcp"), Str("udp"), Str("icmp"), Str("TCP"), Str("gre"), Str("icmp6"), Str(""), Missing}
                         \cup {IntT("6"), Null, List(<<E("str", "tcp")>>)}
      [] f = "host" -> {Str("host-a"), Str("host-b"), Str("any"), Missing} \cup OddTokens
      [] f \in {"group", "groups"} -> {Str("g1"), Str("g3"), Str("any"), Missing} \cup OddTokens
                                      \cup {List(<<E("str", "g3"), E("str", "any")>>), List(<<E("str", "g1"), E("str", "g2"), E("str", "g3")>>)}
      [] f = "cidr" -> {Str(c.text) : c \in CidrTexts} \cup {Missing, Null, IntT("5"), List(<<>>)}
      [] f = "local_cidr" -> {Str(c.text) : c \in LCidrTexts} \cup {Missing, Null, IntT("5")}
      [] f = "ca_name" -> {Str("ca-one"), Str("ca-two"), Missing, Null, IntT("5"), List(<<E("str", "ca-one")>>), Str("")}
      [] f = "ca_sha" -> {Str("sha1"), Str("sha3"), Missing, Null, Str("")}

CfgVec(cfg, dir, env) == [kind |-> "cfg", env |-> env, dir |-> dir, cfg |-> cfg, pp |-> FALSE]
\* a vector that varies the port text: evaluated on the port pairs as well (ports inside, on the edges and just outside
\* the ranges of the lattice, port 0, packets without ports, tcp / udp / icmp / another protocol)
CfgVecP(cfg, dir, env) == [kind |-> "cfg", env |-> env, dir |-> dir, cfg |-> cfg, pp |-> TRUE]
\* (P) every port / code text under every protocol
CfgPort(u) == { CfgVecP(<<[BaseMap EXCEPT !.port = pt, !.proto = Str(pr), !.host = Str("any")]>>, dir, "plain")
             : pt \in PortTokens, pr \in {"any", "tcp", "udp", "icmp"}, dir \in Dirs }
           \cup { CfgVec(<<[BaseMap EXCEPT !.port = pt, !.code = ct, !.proto = Str(pr), !.host = Str("any")]>>, "in", "plain")
             : pt \in {Missing, PStr(<<"8","0">>)}, ct \in PortTokens, pr \in {"tcp", "icmp"} }
\* (K) one or two fields deviating from a base map
Devs(u) == { <<f, Missing>> : f \in Fields } \cup UNION { {<<f, v>> : v \in ValuesOf(f)} : f \in Fields }
CfgOne(u) == { CfgVec(<<Set1(base, d[1], d[2])>>, dir, env)
            : d \in Devs(0), base \in {BaseMap, NoSelMap}, dir \in Dirs, env \in {"plain", "unsafe"} }
PairFields == {f \in Fields : f \notin {"port", "code"}}
DevsSmall(u) == UNION { {<<f, v>> : v \in ValuesOf(f)} : f \in PairFields }
CfgTwoAll(u) == { CfgVec(<<Set1(Set1(base, d1[1], d1[2]), d2[1], d2[2])>>, de[1], de[2])
               : d1 \in DevsSmall(0), d2 \in DevsSmall(0), base \in IF Thorough THEN {NoSelMap, BaseMap} ELSE {NoSelMap},
                 de \in IF Thorough THEN Dirs \X {"plain", "unsafe"} ELSE {<<"in", "unsafe">>} }
\* (L) lists of two rules: every rule must be acceptable
GoodMaps == {BaseMap, [BaseMap EXCEPT !.port = PStr(any3), !.proto = Str("icmp"), !.host = Str("any")],
             [BaseMap EXCEPT !.host = Missing, !.groups = List(<<E("str", "g1"), E("str", "g2")>>), !.port = PStr(<<"8","0","-","9","0">>)]}
BadMaps == {NoSelMap, [BaseMap EXCEPT !.port = PStr(<<"6","5","6","1","6">>)], [BaseMap EXCEPT !.proto = Str("gre")],
            [BaseMap EXCEPT !.port = PStr(<<"9","0","-","8","0">>)], [BaseMap EXCEPT !.cidr = Str("garbage")]}
CfgLists(u) == { CfgVec(<<a, b>>, dir, "plain") : a \in GoodMaps \cup BadMaps, b \in GoodMaps \cup BadMaps, dir \in Dirs }
\* (N) two rules whose remote prefixes are nested (10.0.0.2/24 contains 10.0.0.2/32), each with its own node-side prefix, in
\* both orders: a rule admits what ITS text says, whatever other rule shares its place in the tables
NestLocals == {Str("10.0.0.1/32"), Str("192.168.0.1/24"), Str("any"), Missing}
NestMaps == { [NoSelMap EXCEPT !.cidr = Str(c), !.local_cidr = l] : c \in {"10.0.0.2/24", "10.0.0.2/32"}, l \in NestLocals }
CfgNested(u) == { CfgVec(<<q[1], q[2]>>, dir, env) : q \in {x \in NestMaps \X NestMaps : x[1] # x[2]}, dir \in Dirs, env \in {"plain", "unsafe"} }

-----------------------------------------------------------------------------
(* Vector mode: one state per input. The inputs are the initial states (done = FALSE, exp empty); the      *)
(* expected results are computed by the Next step so that TLC's workers share the work.                     *)
VARIABLES in, exp, done
vars == <<in, exp, done>>

ExpUniverse == [pkts |-> Pkts, peerIds |-> PeerIds, peers |-> Peers, cas |-> CAs, envs |-> Envs, envIds |-> EnvIds,
                laddr |-> LAddr, pairs |-> [e \in {"plain", "unsafe", "unsafeAny"} |-> Pairs(e)], rules17 |-> RuleSets17,
                ppkts |-> PPkts, ppairs |-> [e \in {"plain", "unsafe", "unsafeAny"} |-> {x.id : x \in PPairsIn[e]}],
                raddr |-> [j \in DOMAIN PeerIds |->
                             [cls \in {"vpn", "vpn6", "unsafe", "vpnout", "ext", "innet", "me"} |-> RAddr(PeerIds[j], cls)]]]

Expected(i) == CASE i.kind = "universe" -> ExpUniverse
                 [] i.kind = "rules"    -> ExpRules(i.rules, i.env)
                 [] i.kind = "prules"   -> ExpRulesOn(PPairsIn[i.env], i.rules, i.env)
                 [] i.kind = "attack"   -> Exp17(i)
                 [] i.kind = "cfg"      -> ExpCfg(i.cfg, i.dir, i.env, i.pp)
Pending == /\ exp = <<>> /\ done = FALSE

\* the port dimension (enumerated in Init: no big sets)
InitPortSingle == \E d \in Dirs, pr \in Protos : \E ps \in PortsSys : \E sc \in PortSelCAOf(ps), e \in PortEnvs :
                      in = PSingle(d, pr, ps, sc, e)
InitPortPair == \E b \in PortBuckets, p1 \in PortsPair : \E p2 \in PortsPair \ {p1}, hs \in PortPairHosts :
                    in = PPair(b, p1, p2, hs, "plain")
InitC16Single == (in = Universe \/ in \in SingleQuickA(0) \/ in \in SingleQuickB(0) \/ InitPortSingle) /\ Pending
\* the thorough lattice in three parts (one TLC run each)
InitC16SingleTA == (in = Universe \/ in \in SingleThoroughA(0) \/ InitPortSingle) /\ Pending
InitC16SingleTB == (in = Universe \/ in \in SingleThoroughB(0) \/ in \in SingleThoroughC(0)) /\ Pending
InitC16Multi  == (in = Universe \/ in \in MultiInputs(0) \/ in \in SiblingInputs(0) \/ in \in BucketPairInputs(0) \/ InitPortPair) /\ Pending
InitC17       == (in = Universe \/ in \in Inputs17(0)) /\ Pending
InitC22       == /\ \/ in = Universe
                    \/ in \in CfgPort(0) \/ in \in CfgOne(0) \/ in \in CfgLists(0) \/ in \in CfgNested(0)
                    \/ (Thorough /\ in \in CfgTwoAll(0))
                    \/ (~Thorough /\ in \in RandomSubset(NSample, CfgTwoAll(0)))
                 /\ Pending
Next == ~done /\ done' = TRUE /\ exp' = Expected(in) /\ in' = in

(* 3. LINK invariants, checked by TLC on every vector *)
\* the nested tables decide exactly what the documented semantics decides (within the undecided ICMP class)
LinkTable == (done /\ in.kind \in {"rules", "prules"}) =>
    \A dir \in Dirs :
       LET t == TableSetOn(PairSetOf(in.kind, in.env), in.rules, in.env, dir)
           lo == IF dir = "in" THEN exp.allowIn ELSE exp.allowOut
           ei == IF dir = "in" THEN exp.eitherIn ELSE exp.eitherOut
       IN  lo \subseteq t /\ t \subseteq lo \cup ei
\* every allow verdict of the Drop machine carries authentic addresses, whatever rules, conntrack and cache hold
GuardOnEveryAllow == (done /\ in.kind = "attack") => (exp.machine => exp.auth)
\* the guard of the code is the statement's guard, except that it also refuses a certified address outside my
\* networks when it lies inside the peer's own unsafe network (stricter, allowed by the statement)
LinkGuard == (done /\ in.kind = "attack") =>
    LET who == Peers[in.who]  env == Envs[in.env]  p == exp.pkt
    IN  /\ GuardLocal(env, p.la) = AuthLocal(env, p.la)
        /\ GuardRemote(who, env, p.ra) => AuthRemote(who, env, p.ra)
        /\ (AuthRemote(who, env, p.ra) /\ ~GuardRemote(who, env, p.ra)) => \E x \in who.nets : x.a = p.ra /\ ~InAny(p.ra, env.nets)
\* parsePort implements one of the readings of the grammar, for every port token of the lattice
LinkParse == (done /\ in.kind = "universe") => \A t \in PortTokens : t.k \in {"str", "int"} => MParsePort(t.c) \in ReadPortText(t.c)
\* under every reading the tables built from the configuration decide what Allowed(RulesOf(cfg)) decides
LinkCfg == (done /\ in.kind = "cfg") =>
    \A rules \in RulesOf(in.cfg, in.dir) :
        LET t == TableSet(rules, in.env, in.dir)
        IN  /\ AllowSet(rules, in.env, in.dir, FALSE) \subseteq t
            /\ t \subseteq AllowSet(rules, in.env, in.dir, TRUE)
            /\ exp.allow \subseteq t
            /\ t \subseteq exp.allow \cup exp.either
            /\ in.pp => LET pt == TableSetOn(PPairsIn[in.env], rules, in.env, in.dir)
                        IN  /\ AllowSetOn(PPairsIn[in.env], rules, in.env, in.dir, FALSE) \subseteq pt
                            /\ pt \subseteq AllowSetOn(PPairsIn[in.env], rules, in.env, in.dir, TRUE)
                            /\ exp.pallow \subseteq pt
                            /\ pt \subseteq exp.pallow \cup exp.peither

-----------------------------------------------------------------------------
(* MC_Firewall_C17: the Drop machine over every conntrack and cache content. *)
(* The machine state lives in exp = [conns, cache, allow, auth]; in = [kind |-> "mc"].                          *)
McEnv == "unsafe"
McL == IF Thorough THEN {"vpn", "unsafe", "innet"} ELSE {"vpn", "innet"}
McR == {RAddr("pa", "vpn"), RAddr("pb", "unsafe"), RAddr("pd", "vpnout")} \cup (IF Thorough THEN {RAddr("pa", "innet")} ELSE {})
McPkts == { [proto |-> "tcp", lp |-> 80, rp |-> 4000, frag |-> FALSE, la |-> LAddr[l], ra |-> ra] : l \in McL, ra \in McR }
McRuleSets == IF Thorough THEN {"none", "all", "inonly"} ELSE {"none", "all"}
McPeers == {"pa", "pb", "pd"}
McInit == /\ in = [kind |-> "mc"] /\ done = TRUE
          /\ exp \in [conns : SUBSET {p \in McPkts : p.la # LAddr["unsafe"]},     \* any conntrack content
                       cache : {{}} \cup {{p} : p \in McPkts},                       \* any routine-cache content
                       allow : {FALSE}, auth : {TRUE}]
\* one call of Drop by the routine that owns the cache (an empty cache = no cache)
McDrop(rs, who, p, dir) ==
    LET env == Envs[McEnv]  peer == Peers[who]
        allow == DropAllow(Tables17[McEnv][rs], exp.conns, exp.cache, p, peer, PeerCA(who), env, dir)
    IN  exp' = [conns |-> IF allow /\ p \notin exp.cache THEN exp.conns \cup {p} ELSE exp.conns,
                cache |-> exp.cache, allow |-> allow, auth |-> Authentic(peer, env, p)]
McNext == /\ \E rs \in McRuleSets, who \in McPeers, p \in McPkts, dir \in Dirs : McDrop(rs, who, p, dir)
          /\ UNCHANGED <<in, done>>
McGuard == in.kind = "mc" => (exp.allow => exp.auth)
=============================================================================
