SPECIFICATION Spec
CONSTANT Thorough = FALSE
INVARIANTS MachineOK Packing Rejects
CHECK_DEADLOCK FALSE
