SPECIFICATION Spec
CONSTANTS MaxEntries = 2
          MaxSegs = 3
          MaxBytes = 4
          N = 4
          Dests = {1, 2}
          Bad = {9}
          Sizes = {0, 1, 2}
          GsoInit = {TRUE, FALSE}
          Batches <- AllBatches
INVARIANTS TypeOK AtMostOnce CountOK OrderOK ShapeOK InOrderOnce Agree ChunkOrdered NoLoss RunAgrees
CHECK_DEADLOCK FALSE
