SPECIFICATION TSpec
CONSTANTS Thorough = FALSE
          MaxSegs = 64
          MaxBytes = 65535
          Design = "strict"
CHECK_DEADLOCK FALSE
