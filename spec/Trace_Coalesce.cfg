SPECIFICATION TSpec
CONSTANTS Thorough = FALSE
          MaxSegs = 64
          MaxBytes = 65535
          CrossSession = FALSE
          Design = "strict"
CHECK_DEADLOCK FALSE
