------------------------------ MODULE HsReject ------------------------------
(***************************************************************************)
(* C07 at the level of the HandshakeManager (handshake_manager.go:         *)
(* HandleIncoming / beginHandshake / continueHandshake), vector mode.      *)
(*                                                                         *)
(* Reference: a handshake message that is REJECTED is a stutter step of    *)
(* the manager state of the node that received it -- tunnels, pending      *)
(* handshakes, where each of them would send (remote), the underlay        *)
(* addresses and relays learned for the peer, relay records -- WHEREVER it *)
(* came from (the peer's underlay address, a foreign underlay address,     *)
(* through a relay).  Hence the genuine message delivered afterwards       *)
(* completes the handshake exactly as if the rejected message had never    *)
(* arrived: same state, same emissions from then on.  If the message makes *)
(* the pending Machine report itself failed, the statement allows one      *)
(* other outcome: the pending handshake is abandoned and every later input *)
(* for it is refused.                                                      *)
(*                                                                         *)
(* The vectors are S x R x source:                                         *)
(*   S      pending-handshake situations of the reading node               *)
(*   R      the rejection lattice of Handshake.tla (every delivery         *)
(*          operation on the genuine message, on the reader's own message  *)
(*          reflected, on stage 1 / stage 2 of another session, on         *)
(*          garbage), under each header treatment the manager routes on    *)
(*          (index, counter, subtype)                                      *)
(*   source peer | foreign | relay                                         *)
(* and for each the set of outcomes the statement allows, computed with    *)
(* the Machine of Handshake.tla (ProcessSet under Impl = "spec") in the    *)
(* state the real run is in: TLC first plays the two sessions              *)
(* (I1 -> R1 the one under test, I2 -> R2 the other session).              *)
(***************************************************************************)
EXTENDS Handshake

VARIABLES phase,   \* 0..3 script, 4 = all four messages exist, 45 = (situation, base, header) chosen, 5 = a vector
          vec
hvars == <<vars, phase, vec>>

Sits == {"init_direct", "init_relay", "init_both", "resp_fresh", "resp_relay", "resp_answered"}
InitSit(s) == s \in {"init_direct", "init_relay", "init_both"}

\* how the genuine message travels
GViaOf(s) == CASE s \in {"init_direct", "resp_fresh", "resp_answered"} -> {"direct"}
               [] s \in {"init_relay", "resp_relay"} -> {"relay"}
               [] OTHER -> {"direct", "relay"}
\* where the rejected message comes from: the peer's real underlay address, an address nobody owns, through the relay
PathsOf(s) == CASE s \in {"init_direct", "resp_fresh", "resp_answered"} -> {"peer", "foreign"}
                [] OTHER -> {"peer", "foreign", "relay"}

Garbage(xs) == [st |-> xs, e |-> Unk, s |-> JunkTok, p |-> JunkTok]   \* random bytes of the full length: a valid point, nothing opens
GarbageOps  == {"id", "short", "hdr", "in_e", "after_e", "in_s", "after_s", "in_p"}

BasesOf(s) == CASE InitSit(s) -> {"genuine", "own", "other1", "other2", "garbage"}
                [] s = "resp_answered" -> {"genuine", "own", "other2", "garbage"}
                [] OTHER -> {"genuine", "other2", "garbage"}
\* the stored message a base names (the reader of init situations is I1 on node A, of resp situations R1 on node B)
SlotOf(s, b) == CASE b = "genuine" -> IF InitSit(s) THEN "R1" ELSE "I1"
                  [] b = "own"     -> IF InitSit(s) THEN "I1" ELSE "R1"
                  [] b = "other1"  -> "I2"
                  [] b = "other2"  -> "R2"
                  [] OTHER -> ""
MsgOf(s, b) == IF b = "garbage" THEN Garbage(IF InitSit(s) THEN 2 ELSE 1) ELSE msgs[SlotOf(s, b)]

\* the header of a stored message as the manager sees it: counter and what the index field names for the READER
\* ("pending" = the reader's pending handshake, "zero", "stale" = an index that is not one of the reader's pending ones)
AsIs(s, b) == CASE b = "garbage" -> IF InitSit(s) THEN <<2, "pending">> ELSE <<1, "zero">>
                [] MsgOf(s, b).st = 1 -> <<1, "zero">>
                [] b = "genuine" -> <<2, "pending">>         \* init situations only: the awaited stage 2
                [] OTHER -> <<2, "stale">>
Hdrs == {"asis", "retarget", "wrongidx", "ctr1", "subtype"}
HdrOf(s, b, h) == CASE h = "retarget" -> IF InitSit(s) THEN <<2, "pending">> ELSE <<1, "zero">>
                    [] h = "wrongidx" -> <<2, "stale">>
                    [] h = "ctr1"     -> <<1, AsIs(s, b)[2]>>
                    [] OTHER -> AsIs(s, b)
Route(s, hd, sub) == IF sub THEN "drop"                                           \* HandleIncoming: unsupported subtype
                     ELSE IF hd[1] = 1 THEN (IF hd[2] = "zero" THEN "fresh" ELSE "drop")   \* stage 1 gate
                     ELSE IF hd[2] = "pending" /\ InitSit(s) THEN "pending" ELSE "drop"    \* continuation by index

\* the Machine that reads it
ReaderSlot(s, route) == IF route = "pending" THEN "I1" ELSE IF InitSit(s) THEN "RA" ELSE "R1"
ReaderMach(s, route) == IF route = "pending" THEN mach["I1"] ELSE NewMach(ReaderSlot(s, route), vc)

\* outcomes at the manager: Machine outcomes, except that a completion with the node's own identity is refused
\* ("Refusing to handshake with myself") and a stage 1 the node has already answered is a duplicate (answered again
\* from the cache, no new tunnel): neither is a rejection nor a state change
MKind(s, b, op, r, m) == IF r.kind # "ok" THEN r.kind
                         ELSE IF r.M.peer = Owner(m) THEN "reject"
                         ELSE "accepted"
KindsOf(s, b, op, arg, route) ==
  IF route = "drop" THEN {"dropped"}
  ELSE LET m == ReaderSlot(s, route)
           M == ReaderMach(s, route)
           v == View(MsgOf(s, b), op, arg, Expect(M))
       IN {MKind(s, b, op, r, m) : r \in ProcessSet(M, m, v)}

Allowed(kinds, route) ==
  (IF kinds \cap {"reject", "dropped", "refused"} # {} THEN {"same"} ELSE {}) \cup
  (IF "fail" \in kinds THEN (IF route = "pending" THEN {"abandoned"} ELSE {"same"}) ELSE {})

NoVec == [sit |-> "", gvia |-> "", path |-> "", base |-> "", op |-> "", arg |-> "", hdr |-> "", ctr |-> 0, idx |-> "",
          sub |-> FALSE, route |-> "", kinds |-> {}, allowed |-> {}, remote |-> ""]

RInit == Init /\ phase = 0 /\ vec = NoVec

Script ==
  \/ phase = 0 /\ Initiate("I1") /\ phase' = 1 /\ UNCHANGED vec
  \/ phase = 1 /\ Initiate("I2") /\ phase' = 2 /\ UNCHANGED vec
  \/ phase = 2 /\ Deliver("R2", "I2", "id", "") /\ phase' = 3 /\ UNCHANGED vec
  \/ phase = 3 /\ Deliver("R1", "I1", "id", "") /\ phase' = 4 /\ UNCHANGED vec

\* (the Machine outcomes are passed as an operator argument: TLC evaluates an argument once, a LET value at every use)
Emit(s, b, op, arg, h, hd, route, kinds) ==
  /\ kinds \cap {"accepted", "ok"} = {}                                \* rejections only (an accepted message is C05's)
  /\ \E gv \in GViaOf(s), pa \in PathsOf(s) :
       vec' = [sit |-> s, gvia |-> gv, path |-> pa, base |-> b, op |-> op, arg |-> arg, hdr |-> h, ctr |-> hd[1],
               idx |-> hd[2], sub |-> (h = "subtype"), route |-> route, kinds |-> kinds, allowed |-> Allowed(kinds, route),
               \* where the tunnel the genuine message completes has to send: the peer's address, or only the relay
               remote |-> IF gv = "direct" THEN "peer" ELSE "none"]

\* one state per (situation, base message, header treatment): TLC's workers then expand them in parallel
Fork ==
  /\ phase = 4
  /\ \E s \in Sits, b \in {"genuine", "own", "other1", "other2", "garbage"}, h \in Hdrs :
       /\ b \in BasesOf(s)
       /\ h \notin {"asis", "subtype"} => HdrOf(s, b, h) # AsIs(s, b)       \* the treatment changes something
       /\ vec' = [NoVec EXCEPT !.sit = s, !.base = b, !.hdr = h]
  /\ phase' = 45
  /\ UNCHANGED vars

Gen ==
  /\ phase = 45
  /\ \E op \in Ops : \E arg \in ArgsOf(op) :
       LET s     == vec.sit
           b     == vec.base
           h     == vec.hdr
           hd    == HdrOf(s, b, h)
           route == IF op = "short" THEN "drop" ELSE Route(s, hd, h = "subtype")   \* shorter than a header: never reaches the manager
       IN /\ b = "garbage" => op \in GarbageOps
          /\ OpApplies(op, arg, MsgOf(s, b), ReaderMach(s, route), SlotOf(s, b))
          /\ op \in {"splice_e", "splice_p"} => arg \in {"I1", "I2", "R1", "R2"}
          \* a stage 1 the responder has already answered, unmodified behind the header: a duplicate, not a rejection
          /\ ~(s = "resp_answered" /\ b = "genuine" /\ route = "fresh" /\ op \in {"id", "hdrflip"})
          /\ Emit(s, b, op, arg, h, hd, route, KindsOf(s, b, op, arg, route))
  /\ phase' = 5
  \* the handshake state is of no interest in a vector: keep the dump small
  /\ mach' = [m \in Honest |-> NewMach(m, vc)] /\ msgs' = [sl \in Slots |-> NoMsg]
  /\ obs' = Obs([m \in Honest |-> NewMach(m, vc)], [sl \in Slots |-> NoMsg], xr)
  /\ UNCHANGED <<adv, vc, xr, pol, chk, scn>>

RNext == Script \/ Fork \/ Gen
RSpec == RInit /\ [][RNext]_hvars

\* every vector allows something, and "abandoned" only where the pending Machine itself was reached
VecOK == phase = 5 => /\ vec.allowed # {}
                      /\ ("abandoned" \in vec.allowed) => vec.route = "pending"
                      /\ (vec.route = "drop") => vec.allowed = {"same"}
\* the script reaches the situation the real run is in: I1 awaits stage 2, R1 and R2 have answered, nothing failed
ScriptOK == phase = 4 => /\ mach["I1"].ns.mi = 1 /\ ~mach["I1"].failed /\ ~mach["I1"].done
                         /\ mach["R1"].done /\ mach["R2"].done /\ msgs["R1"].st = 2 /\ msgs["R2"].st = 2
=============================================================================
