----------------------------- MODULE PacketClass -----------------------------
(***************************************************************************)
(* C20 - classification of an inner IP packet (outside.go newPacket,       *)
(* iputil.IPv6FindUpperProtocol).                                          *)
(*                                                                         *)
(* A packet is a record of header descriptors plus a truncation point:     *)
(*   fam    version nibble (4, 6, anything else)                           *)
(*   len    number of bytes actually present (the truncation point)        *)
(*   v4:    ihl (0..15), df, mf, fo (13-bit fragment offset), proto, t     *)
(*   v6:    chain = sequence of extension header descriptors               *)
(*          [p |-> 0|43|60|44|51, n |-> length field, fo, mf], then the    *)
(*          upper protocol proto (never an extension header) with ICMP     *)
(*          type t                                                         *)
(*   sp, dp, id   source port, destination port, ICMP echo identifier      *)
(*                                                                         *)
(* Layer 1 (reference): Classify - an independent walker per RFC 791 /     *)
(* RFC 8200 with NO depth limit.  Layer 2 (implementation-shaped): Impl -  *)
(* the Go code's checks in the Go code's order, with its walk limit.       *)
(* Link: Impl conforms to Classify (TLC, on every vector).                 *)
(***************************************************************************)
EXTENDS Integers, Sequences, FiniteSets, TLC

CONSTANTS Thorough,   \* BOOLEAN: size of the vector lattice
          WalkLimit,  \* extension headers an implementation is required to walk (8)
          Design      \* "bounded-reject": a walker that refuses what it cannot resolve within WalkLimit
                      \* "as-written"    : the walker as found in iputil/packet.go at the pinned commit

ExtHdrs == {0, 43, 44, 51, 60}     \* hop-by-hop, routing, fragment, AH, destination options
TCP == 6   UDP == 17   ICMP4 == 1   ICMP6 == 58   NoNext == 59

HdrSize(h) == CASE h.p \in {0, 43, 60} -> (h.n + 1) * 8
                [] h.p = 44           -> 8
                [] h.p = 51           -> (h.n + 2) * 4

\* protocol number of the i-th element of the chain (the upper protocol after the last one)
NextP(p, i) == IF i <= Len(p.chain) THEN p.chain[i].p ELSE p.proto

-----------------------------------------------------------------------------
(* Results.  pk says which port fields the statement constrains:           *)
(*   "ports" TCP/UDP ports, "id" ICMP echo identifier, "zero" a non-first  *)
(*   fragment has none, "any" the protocol has none (not compared).        *)
(* may = rejecting is acceptable as well (see ASSUMPTIONS in C20.py).      *)
(* hl  = set of acceptable header lengths.                                 *)
Rej == [st |-> "reject", may |-> FALSE, proto |-> 0, frag |-> FALSE, fragAny |-> FALSE, hl |-> {}, pk |-> "any"]
Ok(may, proto, frag, fragAny, hl, pk) ==
    [st |-> "ok", may |-> may, proto |-> proto, frag |-> frag, fragAny |-> fragAny, hl |-> hl, pk |-> pk]

IsEcho(fam, proto, t) == \/ fam = 4 /\ proto = ICMP4 /\ t \in {0, 8}
                         \/ fam = 6 /\ proto = ICMP6 /\ t \in {128, 129}
HasPorts(proto) == proto \in {TCP, UDP}
\* bytes of the upper header that carry the reported fields
NeedMin(fam, proto, t) == IF HasPorts(proto) THEN 4 ELSE IF IsEcho(fam, proto, t) THEN 6 ELSE 0
\* bytes of a complete minimal upper header: from here on a host processes the packet
FullHdr(fam, proto) == CASE proto = TCP -> 20
                         [] proto = NoNext /\ fam = 6 -> 0
                         [] OTHER -> 8

Upper(p, off, fragAny, may0) ==
    LET avail == p.len - off IN
    IF avail < 0 \/ avail < NeedMin(p.fam, p.proto, p.t) THEN Rej
    ELSE Ok(may0 \/ avail < FullHdr(p.fam, p.proto), p.proto, FALSE, fragAny, {off},
            IF HasPorts(p.proto) THEN "ports" ELSE IF IsEcho(p.fam, p.proto, p.t) THEN "id" ELSE "any")

Classify4(p) ==
    IF p.len < 20 \/ p.ihl < 5 \/ p.len < p.ihl * 4 THEN Rej
    ELSE IF p.fo # 0 THEN Ok(FALSE, p.proto, TRUE, TRUE, {p.ihl * 4}, "zero")
    ELSE Upper(p, p.ihl * 4, p.mf, FALSE)

\* RFC 8200 walk over the whole chain; cnt = extension headers traversed
RECURSIVE Walk(_, _, _, _, _)
Walk(p, i, off, fa, cnt) ==
    IF i > Len(p.chain) THEN [st |-> "upper", off |-> off, fa |-> fa, cnt |-> cnt, proto |-> p.proto]
    ELSE LET h == p.chain[i] IN
         IF off + HdrSize(h) > p.len THEN [st |-> "reject", off |-> off, fa |-> fa, cnt |-> cnt, proto |-> 0]
         ELSE IF h.p = 44 /\ h.fo # 0
              THEN \* non-first fragment: the upper header is in another packet
                   IF NextP(p, i + 1) \in ExtHdrs
                   THEN [st |-> "reject", off |-> off, fa |-> TRUE, cnt |-> cnt + 1, proto |-> 0]
                   ELSE [st |-> "frag", off |-> off, fa |-> TRUE, cnt |-> cnt + 1, proto |-> NextP(p, i + 1)]
              ELSE Walk(p, i + 1, off + HdrSize(h), fa \/ h.p = 44, cnt + 1)

Classify6(p) ==
    IF p.len < 40 THEN Rej
    ELSE LET w == Walk(p, 1, 40, FALSE, 0) IN
         CASE w.st = "reject" -> Rej
           [] w.st = "frag"   -> Ok(w.cnt > WalkLimit, w.proto, TRUE, TRUE, {w.off, w.off + 8}, "zero")
           [] w.st = "upper"  -> Upper(p, w.off, w.fa, w.cnt > WalkLimit)

Classify(p) == CASE p.fam = 4 -> Classify4(p) [] p.fam = 6 -> Classify6(p) [] OTHER -> Rej

\* what the chain walker alone (IPv6FindUpperProtocol) has to find
WalkRef(p) ==
    IF p.fam # 6 \/ p.len < 40 THEN Rej
    ELSE LET w == Walk(p, 1, 40, FALSE, 0) IN
         CASE w.st = "reject" -> Rej
           [] w.st = "frag"   -> Ok(w.cnt > WalkLimit, w.proto, TRUE, TRUE, {w.off, w.off + 8}, "zero")
           [] w.st = "upper"  -> Ok(w.cnt > WalkLimit, w.proto, FALSE, w.fa, {w.off}, "any")

\* orientation: local/remote by direction
Orient(inc, p, c) ==
    LET src == IF c.pk = "ports" THEN p.sp ELSE 0
        dst == IF c.pk = "ports" THEN p.dp ELSE 0 IN
    [laddr |-> IF inc THEN "dst" ELSE "src", raddr |-> IF inc THEN "src" ELSE "dst",
     lport |-> IF c.pk = "id" THEN 0 ELSE IF inc THEN dst ELSE src,
     rport |-> IF c.pk = "id" THEN p.id ELSE IF inc THEN src ELSE dst]

-----------------------------------------------------------------------------
(* Conformance of an observed result r = [st, proto, frag, fragAny, hl,    *)
(* laddr, raddr, lport, rport] with the reference.  Verdict names the      *)
(* first disagreement ("ok" = conforms).                                   *)
Verdict(r, p, c, inc) ==
    LET o == Orient(inc, p, c) IN
    CASE r.st = "panic" -> "panic"
      [] r.st = "reject" -> IF c.st = "reject" \/ c.may THEN "ok" ELSE "rejected-wellformed"
      [] OTHER ->
         IF p.fam = 6 /\ r.proto \in ExtHdrs THEN "proto-is-ext-header"
         ELSE IF c.st = "reject" THEN "accepted-unresolvable"
         ELSE IF r.proto # c.proto THEN "proto"
         ELSE IF r.frag # c.frag THEN "fragment"
         ELSE IF r.fragAny # c.fragAny THEN "fragany"
         ELSE IF r.hl \notin c.hl THEN "hdrlen"
         ELSE IF r.laddr # o.laddr \/ r.raddr # o.raddr THEN "addrs"
         ELSE IF c.pk # "any" /\ (r.lport # o.lport \/ r.rport # o.rport) THEN "ports"
         ELSE "ok"

\* the chain walker reports no addresses and no ports
VerdictWalk(r, p, c) ==
    CASE r.st = "panic" -> "panic"
      [] r.st = "reject" -> IF c.st = "reject" \/ c.may THEN "ok" ELSE "rejected-wellformed"
      [] OTHER ->
         IF r.proto \in ExtHdrs THEN "proto-is-ext-header"
         ELSE IF c.st = "reject" THEN "accepted-unresolvable"
         ELSE IF r.proto # c.proto THEN "proto"
         ELSE IF r.frag # c.frag THEN "fragment"
         ELSE IF r.fragAny # c.fragAny THEN "fragany"
         ELSE IF r.hl \notin c.hl THEN "hdrlen"
         ELSE "ok"

-----------------------------------------------------------------------------
(* Layer 2: the implementation-shaped machine.                             *)
IRej == [st |-> "reject", proto |-> 0, frag |-> FALSE, fragAny |-> FALSE, hl |-> 0,
         laddr |-> "", raddr |-> "", lport |-> 0, rport |-> 0]
IOk(inc, proto, frag, fragAny, hl, lport, rport) ==
    [st |-> "ok", proto |-> proto, frag |-> frag, fragAny |-> fragAny, hl |-> hl,
     laddr |-> IF inc THEN "dst" ELSE "src", raddr |-> IF inc THEN "src" ELSE "dst",
     lport |-> lport, rport |-> rport]

\* parseV4: the first four payload bytes are ports whatever the protocol (-1 = bytes the model does not know)
Impl4(p, inc) ==
    IF p.len < 20 THEN IRej
    ELSE LET ihl  == p.ihl * 4
             frag == p.fo # 0                  \* flagsfrags & 0x1FFF
             fany == p.mf \/ p.fo # 0          \* flagsfrags & 0x3FFF
             minLen == ihl + (IF frag THEN 0 ELSE IF p.proto = ICMP4 THEN 6 ELSE 4)
             b01 == IF HasPorts(p.proto) THEN p.sp ELSE -1
             b23 == IF HasPorts(p.proto) THEN p.dp ELSE -1
         IN IF ihl < 20 \/ p.len < minLen THEN IRej
            ELSE IF frag THEN IOk(inc, p.proto, TRUE, fany, ihl, 0, 0)
            ELSE IF p.proto = ICMP4 THEN IOk(inc, p.proto, FALSE, fany, ihl, 0, p.id)
            ELSE IF inc THEN IOk(inc, p.proto, FALSE, fany, ihl, b23, b01)
            ELSE IOk(inc, p.proto, FALSE, fany, ihl, b01, b23)

\* IPv6FindUpperProtocol: k = iterations left; every read is guarded by a length check
RECURSIVE IWalk(_, _, _, _, _)
IWalk(p, i, off, fa, k) ==
    LET nh == NextP(p, i)
        err == [st |-> "reject", proto |-> nh, off |-> off, frag |-> FALSE, fa |-> fa]
        ret == [st |-> "ok", proto |-> nh, off |-> off, frag |-> FALSE, fa |-> fa]
    IN
    IF k = 0 THEN
        IF Design = "as-written" THEN ret
        ELSE IF nh \in ExtHdrs \/ off > p.len THEN err ELSE ret
    ELSE IF nh \in {0, 43, 60} THEN
        IF p.len < off + 2 THEN err ELSE IWalk(p, i + 1, off + (p.chain[i].n + 1) * 8, fa, k - 1)
    ELSE IF nh = 44 THEN
        IF p.len < off + 8 THEN err
        ELSE IF p.chain[i].fo # 0 THEN
            IF Design # "as-written" /\ NextP(p, i + 1) \in ExtHdrs THEN err
            ELSE [st |-> "ok", proto |-> NextP(p, i + 1), off |-> off, frag |-> TRUE, fa |-> TRUE]
        ELSE IWalk(p, i + 1, off + 8, TRUE, k - 1)
    ELSE IF nh = 51 THEN
        IF p.len < off + 2 THEN err ELSE IWalk(p, i + 1, off + (p.chain[i].n + 2) * 4, fa, k - 1)
    ELSE IF off > p.len THEN err ELSE ret

ImplWalk(p) ==
    IF p.len < 40 THEN IRej
    ELSE LET w == IWalk(p, 1, 40, FALSE, WalkLimit) IN
         IF w.st = "reject" THEN IRej
         ELSE [IRej EXCEPT !.st = "ok", !.proto = w.proto, !.frag = w.frag, !.fragAny = w.fa, !.hl = w.off]

\* parseV6
Impl6(p, inc) ==
    IF p.len < 40 THEN IRej
    ELSE LET w == IWalk(p, 1, 40, FALSE, WalkLimit) IN
         IF w.st = "reject" THEN IRej
         ELSE IF w.frag THEN IOk(inc, w.proto, TRUE, w.fa, w.off, 0, 0)
         ELSE IF w.proto = ICMP6 THEN
              IF p.len < w.off + 4 THEN IRej
              ELSE IF p.t \in {128, 129} THEN
                   IF p.len < w.off + 6 THEN IRej ELSE IOk(inc, w.proto, FALSE, w.fa, w.off, 0, p.id)
              ELSE IOk(inc, w.proto, FALSE, w.fa, w.off, 0, 0)
         ELSE IF w.proto \in {TCP, UDP} THEN
              IF p.len < w.off + 4 THEN IRej
              ELSE IF inc THEN IOk(inc, w.proto, FALSE, w.fa, w.off, p.dp, p.sp)
              ELSE IOk(inc, w.proto, FALSE, w.fa, w.off, p.sp, p.dp)
         ELSE IOk(inc, w.proto, FALSE, w.fa, w.off, 0, 0)

Impl(p, inc) == IF p.len < 1 THEN IRej
                ELSE CASE p.fam = 4 -> Impl4(p, inc) [] p.fam = 6 -> Impl6(p, inc) [] OTHER -> IRej

-----------------------------------------------------------------------------
(* The vector lattice.                                                     *)
SP == 4660   DP == 43981   ID == 22136       \* 0x1234 0xabcd 0x5678

Base == [fam |-> 4, len |-> 0, sp |-> SP, dp |-> DP, id |-> ID, ihl |-> 5, df |-> FALSE, mf |-> FALSE,
         fo |-> 0, proto |-> TCP, t |-> 0, chain |-> <<>>]

Nat0(S) == {x \in S : x >= 0}

\* ---- IPv4: <<df, mf, fo>>
V4Ihl == IF Thorough THEN 0..15 ELSE {0, 4, 5, 6, 7, 10, 15}
V4Frags == {<<FALSE, FALSE, 0>>, <<TRUE, FALSE, 0>>, <<FALSE, TRUE, 0>>, <<FALSE, FALSE, 1>>,
            <<FALSE, FALSE, 256>>, <<FALSE, FALSE, 4096>>, <<FALSE, TRUE, 8191>>}
           \cup (IF Thorough THEN {<<TRUE, TRUE, 0>>, <<TRUE, FALSE, 7>>, <<FALSE, FALSE, 255>>, <<FALSE, TRUE, 4095>>,
                                   <<FALSE, FALSE, 2048>>, <<FALSE, TRUE, 512>>, <<FALSE, TRUE, 185>>} ELSE {})
V4Protos == {<<TCP, 0>>, <<UDP, 0>>, <<ICMP4, 8>>, <<ICMP4, 3>>, <<47, 0>>, <<255, 0>>}
            \cup (IF Thorough THEN {<<ICMP4, 0>>, <<ICMP4, 13>>, <<0, 0>>, <<50, 0>>, <<51, 0>>, <<ICMP6, 128>>, <<44, 0>>,
                                    <<132, 0>>, <<41, 0>>} ELSE {})
V4Lens(ihl) == Nat0({0, 19, 20} \cup {ihl * 4 + d : d \in {-1, 0, 3, 4, 5, 6, 7, 8, 19, 20}}
                    \cup (IF Thorough THEN {1, 21, ihl * 4 + 1, ihl * 4 + 40} ELSE {}))
Mk4(ihl, fr, pr, l) == [Base EXCEPT !.ihl = ihl, !.df = fr[1], !.mf = fr[2], !.fo = fr[3], !.proto = pr[1], !.t = pr[2], !.len = l]

\* ---- other versions
OtherFams == {0, 1, 5, 7, 15}
OtherLens == {0, 1, 20, 40, 60}

\* ---- IPv6: extension header symbols
E(p, n, fo, mf) == [p |-> p, n |-> n, fo |-> fo, mf |-> mf]
Syms == << E(0, 0, 0, FALSE), E(0, 1, 0, FALSE), E(43, 0, 0, FALSE), E(43, 2, 0, FALSE), E(60, 0, 0, FALSE),
           E(60, 1, 0, FALSE), E(44, 0, 0, TRUE), E(44, 0, 0, FALSE), E(51, 1, 0, FALSE), E(51, 4, 0, FALSE),
           E(44, 0, 1, TRUE), E(44, 0, 32, FALSE) >>
NSym == 12          \* all symbols; the last two are non-first fragments
NFirst == 10        \* symbols 1..NFirst are walked through

ChainOf(ix) == [k \in 1..Len(ix) |-> Syms[ix[k]]]
ChainBytes(ch) == LET RECURSIVE S(_) S(k) == IF k = 0 THEN 0 ELSE S(k - 1) + HdrSize(ch[k]) IN S(Len(ch))

Seqs(n) == [1..n -> 1..NSym]
ShortIx == UNION {Seqs(n) : n \in 0..2}
MidIx   == IF Thorough THEN Seqs(3) ELSE {s \in Seqs(3) : (s[1] + 3 * s[2] + 5 * s[3]) % 12 = 0}
LongN   == IF Thorough THEN 4..12 ELSE {7, 8, 9, 10}
LongIx  == UNION { {[k \in 1..n |-> s] : s \in 1..NSym}
                   \cup {[k \in 1..n |-> ((r + k * st) % NFirst) + 1] : r \in 0..(NFirst - 1), st \in {1, 3}}
                   \cup {[k \in 1..n |-> IF k = n THEN NFirst + 1 + (r % 2) ELSE ((r + k) % NFirst) + 1] : r \in 0..(NFirst - 1)}
                   \cup {[k \in 1..n |-> ((r + k * 5) % NSym) + 1] : r \in {0, 3, 6, 9}}
                   : n \in LongN }

V6Uppers == {<<TCP, 0>>, <<UDP, 0>>, <<ICMP6, 128>>, <<ICMP6, 129>>, <<ICMP6, 135>>, <<NoNext, 0>>, <<132, 0>>, <<135, 0>>}
            \cup (IF Thorough THEN {<<ICMP6, 1>>, <<50, 0>>, <<253, 0>>, <<ICMP4, 8>>} ELSE {})
V6UppersFew == {<<TCP, 0>>, <<UDP, 0>>, <<ICMP6, 128>>, <<132, 0>>, <<NoNext, 0>>}
               \cup (IF Thorough THEN {<<135, 0>>} ELSE {})

LastOff(ch) == IF Len(ch) = 0 THEN 40 ELSE 40 + ChainBytes(SubSeq(ch, 1, Len(ch) - 1))
V6Lens(ch) == LET H == 40 + ChainBytes(ch) IN
              Nat0({39, 40, LastOff(ch) + 2} \cup {H + d : d \in {-1, 0, 3, 4, 5, 6, 8, 20}}
                   \cup (IF Thorough THEN {LastOff(ch) + 1, H + 40} ELSE {}))
V6LensFew(ch) == LET H == 40 + ChainBytes(ch) IN {LastOff(ch) + 2} \cup {H + d : d \in {-1, 0, 4, 20}}
                   \cup (IF Thorough THEN {H + 8} ELSE {})

Mk6(ch, up, l) == [Base EXCEPT !.fam = 6, !.chain = ch, !.proto = up[1], !.t = up[2], !.len = l]
Expected(p) == LET c == Classify(p) IN
               [c |-> c, in |-> Orient(TRUE, p, c), out |-> Orient(FALSE, p, c), walk |-> WalkRef(p)]

VARIABLES in, exp
vars == <<in, exp>>
\* the lattice is enumerated by the quantifiers of Init (one initial state = one vector)
Init == /\ \/ \E ihl \in V4Ihl, fr \in V4Frags, pr \in V4Protos : \E l \in V4Lens(ihl) : in = Mk4(ihl, fr, pr, l)
           \/ \E f \in OtherFams, l \in OtherLens : in = [Base EXCEPT !.fam = f, !.len = l]
           \/ \E ix \in ShortIx, up \in V6Uppers : \E l \in V6Lens(ChainOf(ix)) : in = Mk6(ChainOf(ix), up, l)
           \/ \E ix \in MidIx \cup LongIx, up \in V6UppersFew : \E l \in V6LensFew(ChainOf(ix)) : in = Mk6(ChainOf(ix), up, l)
        /\ exp = Expected(in)
Next == UNCHANGED vars
Spec == Init /\ [][Next]_vars

-----------------------------------------------------------------------------
(* Checked by TLC on every vector.                                         *)
\* the link: the implementation-shaped machine conforms to the reference in both directions
Link == /\ Verdict(Impl(in, TRUE), in, exp.c, TRUE) = "ok"
        /\ Verdict(Impl(in, FALSE), in, exp.c, FALSE) = "ok"
        /\ in.fam = 6 => VerdictWalk(ImplWalk(in), in, exp.walk) = "ok"
\* the clause of the statement on the implementation layer
ProtoNeverExt == \A inc \in BOOLEAN : LET r == Impl(in, inc) IN (in.fam = 6 /\ r.st = "ok") => r.proto \notin ExtHdrs
\* laws of the reference itself
RefNeverExt == (in.fam = 6 /\ exp.c.st = "ok") => exp.c.proto \notin ExtHdrs
RefOrient == /\ exp.in.laddr = exp.out.raddr /\ exp.in.raddr = exp.out.laddr
             /\ exp.in.lport = exp.out.rport \/ exp.c.pk = "id"
             /\ exp.c.pk = "id" => (exp.in = [exp.out EXCEPT !.laddr = "dst", !.raddr = "src"])
\* more bytes never turn a classification into a different one (only reject -> ok and may -> must)
RefMonotone == LET c2 == Classify([in EXCEPT !.len = in.len + 1]) IN
               exp.c.st = "ok" => (c2.st = "ok" /\ c2.proto = exp.c.proto /\ c2.frag = exp.c.frag
                                   /\ c2.hl = exp.c.hl /\ c2.pk = exp.c.pk /\ (c2.may => exp.c.may))
=============================================================================
