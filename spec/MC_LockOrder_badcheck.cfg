CONSTANTS Which = "bad"
          MaxLocks = 3
INIT Init
NEXT Next
INVARIANTS TypeOK NoWaitCycle NoSelfRelock NoRecursiveRLock NoBadUnlock
CHECK_DEADLOCK TRUE
