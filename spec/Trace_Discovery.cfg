SPECIFICATION TraceSpec
CONSTANTS Nodes <- TNodes
POSTCONDITION TraceAccepted
CHECK_DEADLOCK FALSE
