--------------------------- MODULE Trace_Discovery ---------------------------
(* Trace validation of whole nodes against Discovery.tla (harness/e2e/zz_verif_disc_test.go).                      *)
(*  {"ev":"reset", "amlh":[..], "lhs":[[n,l]..], "hostile":[..], "deny":[[n,u]..], "denyPeer":[[n,x,u]..],          *)
(*   "static":[[n,x,u]..], "adv":[[n,u]..], "respond":[..], "strict":bool}  a new world: the configuration the rules read *)
(*  {"ev":"Step", "n":node, "stim":{k,from,src,mt,x,addrs,fresh}, "tuns":[..], "pend":[..],                         *)
(*   "known":[[x,o,kind,u]..], "out":[{k,to,peer,mt,x,addrs}..]}   one stimulus handled to quiescence by node n:   *)
(*   its tunnels, pending handshakes and address table AFTER the step and everything it emitted                   *)
(* Deterministic given the log: one state per consumed line, every logged field is bound.                          *)
EXTENDS Discovery, Json

Log == ndJsonDeserialize("trace.ndjson")
VARIABLE l
tvars == <<vars, l>>

SetOfSeq(s) == {s[i] : i \in 1..Len(s)}
NoCfg == [amlh |-> {}, lhs |-> {}, hostile |-> {}, deny |-> {}, denyPeer |-> {}, static |-> {}, adv |-> {}, respond |-> {}, strict |-> FALSE]
CfgOf(e) == [amlh |-> SetOfSeq(e.amlh), lhs |-> SetOfSeq(e.lhs), hostile |-> SetOfSeq(e.hostile), deny |-> SetOfSeq(e.deny),
             denyPeer |-> SetOfSeq(e.denyPeer), static |-> SetOfSeq(e.static), adv |-> SetOfSeq(e.adv), respond |-> SetOfSeq(e.respond), strict |-> e.strict]
StimOf(e) == [k |-> e.stim.k, from |-> e.stim.from, src |-> e.stim.src, mt |-> e.stim.mt, x |-> e.stim.x, addrs |-> SetOfSeq(e.stim.addrs), alist |-> e.stim.addrs, fresh |-> e.stim.fresh]

TraceInit == l = 1 /\ StartState(NoCfg) /\ known = [n \in Nodes |-> {}]
IsEvent(e) == l <= Len(Log) /\ Log[l].ev = e /\ l' = l + 1

\* static_host_map entries that pass the node's own filters are there from the start (lighthouse.go addStaticRemotes)
TraceReset ==
    /\ IsEvent("reset")
    /\ LET c == CfgOf(Log[l]) IN
       /\ cfg' = c
       /\ known' = [n \in Nodes |-> {<<q[2], n, "rep", q[3]>> : q \in {r \in c.static : r[1] = n /\ <<n, r[3]>> \notin c.deny /\ <<n, r[2], r[3]>> \notin c.denyPeer}}]
       /\ tuns' = [n \in Nodes |-> {}] /\ pend' = [n \in Nodes |-> {}]
       /\ wanted' = [n \in Nodes |-> {}] /\ resp' = [n \in Nodes |-> {}] /\ asked' = [n \in Nodes |-> {}] /\ ever' = [n \in Nodes |-> {}]
       /\ sched' = [n \in Nodes |-> EmptyBag] /\ refused' = [n \in Nodes |-> {}]

\* a line the rules do not permit is not consumed; the first violated rule is printed for tools/props/_disc.py
TraceStep ==
    /\ IsEvent("Step")
    /\ LET e == Log[l]
           v == Verdict(e.n, StimOf(e), SetOfSeq(e.tuns), SetOfSeq(e.pend), SetOfSeq(e.known), e.out)
       IN /\ (v = "ok" \/ ~PrintT(<<"VERIF_VERDICT", v, l>>))
          /\ Apply(e.n, StimOf(e), SetOfSeq(e.tuns), SetOfSeq(e.pend), SetOfSeq(e.known), e.out)

TraceNext == TraceReset \/ TraceStep
TraceSpec == TraceInit /\ [][TraceNext]_tvars
TraceAccepted == TLCGet("stats").diameter - 1 = Len(Log)
=============================================================================
