SPECIFICATION Spec
CONSTANTS Thorough = FALSE
          StrictBytes = FALSE
          Def64 = FALSE
INVARIANTS MachineRefines OnlyRightPassphraseAndData RoundTrip WrongBannerRefused ClassesAsIntended
CHECK_DEADLOCK FALSE
