---------------------------- MODULE TraceMC_Relay ----------------------------
EXTENDS Trace_Relay
TNodes == {"A", "R", "T", "M"}
TAddrOf == [n \in TNodes |-> CASE n = "A" -> "a" [] n = "R" -> "r" [] n = "T" -> "t" [] n = "M" -> "m"]
TAmRelay == [n \in TNodes |-> n = "R"]
=============================================================================
