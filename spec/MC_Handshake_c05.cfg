\* C05: R graph - adversary initiator vs honest responder, honest initiator vs adversary responder, honest pair
\* (bin/check builds the same text with tools/props/C05.py:cfg(); this file is the quick-tier instance, for running TLC by hand)
SPECIFICATION Spec
CONSTANTS
  HI = {"I1"}
  HR = {"R1"}
  AI = {"XI"}
  AR = {"XR"}
  AdvIds = {"M", "U", "X", "L", "K"}
  VerCfgs = {1, 4}
  Ops = {"id", "hdrflip", "hdr", "after_s", "flip_p", "flip_s", "idx", "sub_e", "splice_e", "splice_p", "cert_keep", "cert_swap", "cert_strip"}
  PKinds = {"full", "empty", "junk", "nocert", "noidx", "zeroidx", "keep", "swap"}
  SKinds = {"own"}
  Misuse = FALSE
  Scns = {"advinit", "advresp", "pair"}
  Impl = "spec"
  Budget = 0
INVARIANTS TypeOK C05_Auth C05_Secrecy C06_Agree C06_Exclusive C07_RejectClean
CHECK_DEADLOCK FALSE
