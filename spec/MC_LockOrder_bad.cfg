CONSTANTS Which = "bad"
          MaxLocks = 3
INIT Init
NEXT Next
INVARIANTS EnumReport
CHECK_DEADLOCK FALSE
