-------------------------- MODULE Trace_RemoteList --------------------------
(* Trace validation of recorded calls on a real RemoteList against            *)
(* RemoteList.tla.  One ndjson line per call:                                 *)
(*   {"ev":"reset","tab":{...}}      new RemoteList; attribute table of the   *)
(*                                   concrete random addresses of this trace  *)
(*   {"ev":"op","op":["rep",1,[31,52]]}   any operation of Apply              *)
(*   {"ev":"rebuild","p":2,"addrs":[..],"relays":[..]}   CopyAddrs / relays   *)
(* The logged lists are compared with the REFERENCE lists (RefAddrs,          *)
(* RefRelaySet); the machine state is carried along by TLC.                   *)
EXTENDS RemoteList, Json

Log == ndJsonDeserialize("trace.ndjson")

VARIABLES l, st, tab
tvars == <<in, exp, l, st, tab>>

TraceInit == l = 1 /\ st = EmptySt /\ tab = StdTab /\ in = 0 /\ exp = 0

IsEvent(e) == l <= Len(Log) /\ Log[l].ev = e /\ l' = l + 1

TraceReset == /\ IsEvent("reset")
              /\ tab' = Log[l].tab /\ st' = EmptySt
              /\ UNCHANGED <<in, exp>>

TraceOp == /\ IsEvent("op")
           /\ st' = Apply(tab, st, Log[l].op)
           /\ UNCHANGED <<tab, in, exp>>

\* relays: the de-duplicated union, ascending by address inside a family (the statement does not order families)
RelaysOK(g, s) == /\ Range(g) = RefRelaySet(s)
                  /\ Cardinality(Range(g)) = Len(g)
                  /\ \A i, j \in 1..Len(g) : (i < j /\ tab.rfam[g[i]] = tab.rfam[g[j]]) => tab.rrank[g[i]] < tab.rrank[g[j]]

TraceRebuild == /\ IsEvent("rebuild")
                /\ st' = Rebuild(tab, st, Log[l].p)
                /\ Log[l].addrs = RefAddrs(tab, Log[l].p, st')
                /\ RelaysOK(Log[l].relays, st')
                /\ UNCHANGED <<tab, in, exp>>

TraceNext == TraceReset \/ TraceOp \/ TraceRebuild
TraceSpec == TraceInit /\ [][TraceNext]_tvars

TraceAccepted == TLCGet("stats").diameter - 1 = Len(Log)
=============================================================================
