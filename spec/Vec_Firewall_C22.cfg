INIT InitC22
NEXT Next
CONSTANT Thorough = FALSE
CONSTANT NSample = 1500
INVARIANTS LinkCfg LinkParse
CHECK_DEADLOCK FALSE
