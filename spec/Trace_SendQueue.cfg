SPECIFICATION TraceSpec
CONSTANTS MaxIds = 400
          Cap = 128
INVARIANTS AtMostOnce OfferedOnce QueueFresh OrderKept NoInvention
POSTCONDITION TraceAccepted
CHECK_DEADLOCK FALSE
