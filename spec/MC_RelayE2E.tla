---------------------------- MODULE MC_RelayE2E ----------------------------
EXTENDS RelayE2E
\* quick: every byte of the clear-text inner header is hit once, plus ciphertext and tag positions
QuickBits == {8 * b + ((3 * b) % 8) : b \in 0..15} \cup {128, 135, 200, 263, 300}
AllBits == 0..895
\* handshake/ix, message/relay (nested relay), lighthouse, test request, test reply, close tunnel, control
MCRetypes == {0, 17, 48, 64, 65, 80, 96}
=============================================================================
