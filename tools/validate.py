#!/usr/bin/env python3
"""Validate MANIFEST.json and evidence/*.json against the schemas (uses the tooling venv's jsonschema)."""
import json, glob, sys, os
import jsonschema
ROOT = os.path.dirname(os.path.dirname(os.path.abspath(__file__)))
jsonschema.validate(json.load(open(ROOT + '/MANIFEST.json')), json.load(open('/root/.vp/MANIFEST.schema.json')))
es = json.load(open('/root/.vp/EVIDENCE.schema.json'))
n = 0
for f in sorted(glob.glob(ROOT + '/evidence/*.json')):
    try:
        jsonschema.validate(json.load(open(f)), es); n += 1
    except Exception as e:
        print('INVALID', f, str(e)[:300]); sys.exit(1)
print('manifest ok; %d evidence files ok' % n)
