#!/usr/bin/env python3
"""bin/check <ID> quick|thorough [--replay <file>]

exit 0  property held on everything explored (KNOWN-FINDING lines may be printed)
exit 1  VIOLATION property=<id> replay=<path>   (real code disagreed with the specification, reproduced)
exit 2  the machinery could not decide (TLC error, build failure, vacuous run, timeout ...)
"""
import os, sys, json, time, shutil, subprocess, tempfile, importlib, re, collections, traceback

ROOT = os.path.dirname(os.path.dirname(os.path.abspath(__file__)))
REPO = os.environ.get('VERIF_REPO', '/repo')
sys.path.insert(0, ROOT)


class MachineryError(Exception):
    pass


class Ctx:
    def __init__(self, pid, tier, seed):
        self.pid, self.tier, self.seed = pid, tier, seed
        self.quick = tier == 'quick'
        self.scratch = tempfile.mkdtemp(prefix='verif_%s_' % pid, dir=os.environ.get('VERIF_SCRATCH'))
        self.t0 = time.time()
        self.states = 0
        self.transitions = 0
        self.traces = 0
        self.evaluations = 0
        self.distinct = 0
        self.samples = []
        self.assumptions = []
        self.actions = collections.Counter()
        self.tlc_runs = []
        self.go_runs = []
        self.violations = []      # dicts: key, what, detail
        self.extra = {}
        self.level = 'model_checking'
        self.meta = {}

    # ------------------------------------------------------------------ TLC
    def spec_dir(self):
        d = os.path.join(self.scratch, 'spec')
        if not os.path.isdir(d):
            shutil.copytree(os.path.join(ROOT, 'spec'), d)
        return d

    def tlc(self, module, cfg, args=(), timeout=900, workers=int(os.environ.get('VERIF_TLC_WORKERS', '4')), expect_ok=True, count=True, files=None,
            java_opts=None, cfgtext=None):
        """Run TLC on spec/<module>.tla with spec/<cfg>. Returns dict(ok, out, generated, distinct, depth, violated)."""
        d = self.spec_dir()
        for name, content in (files or {}).items():
            with open(os.path.join(d, name), 'w') as f:
                f.write(content)
        if cfgtext is not None:
            with open(os.path.join(d, cfg), 'w') as f:
                f.write(cfgtext)
        meta = tempfile.mkdtemp(prefix='meta_', dir=self.scratch)
        cmd = ['timeout', str(timeout), 'tlc', '-metadir', meta, '-workers', str(workers), '-config', cfg]
        cmd += list(args) + [module + '.tla']
        env = dict(os.environ)
        env['JAVA_TOOL_OPTIONS'] = (env.get('JAVA_TOOL_OPTIONS', '') + ' -Xss512m -XX:ParallelGCThreads=4 ' + (java_opts or '')).strip()
        t = time.time()
        p = subprocess.run(cmd, cwd=d, stdout=subprocess.PIPE, stderr=subprocess.STDOUT, text=True, env=env)
        out = p.stdout
        shutil.rmtree(meta, ignore_errors=True)
        r = {'rc': p.returncode, 'out': out, 'generated': 0, 'distinct': 0, 'depth': 0, 'violated': None,
             'wall_s': round(time.time() - t, 2), 'module': module, 'cfg': cfg}
        m = re.findall(r'(\d[\d,]*) states generated, (\d[\d,]*) distinct states found', out)
        if m:
            r['generated'] = int(m[-1][0].replace(',', ''))
            r['distinct'] = int(m[-1][1].replace(',', ''))
        m = re.search(r'depth of the complete state graph search is (\d+)', out)
        if m:
            r['depth'] = int(m.group(1))
        m = re.search(r'Invariant (\S+) is violated', out)
        if m:
            r['violated'] = m.group(1)
        m2 = re.search(r'Action property (\S+) is violated|Temporal properties were violated', out)
        if m2 and not r['violated']:
            r['violated'] = m2.group(1) or 'temporal'
        r['ok'] = (p.returncode == 0 and 'No error has been found' in out) or \
                  (p.returncode == 0 and 'Finished in' in out and 'Error:' not in out)
        if count and r['ok']:
            self.states += r['distinct']
            self.transitions += r['generated']
        self.tlc_runs.append({k: r[k] for k in ('module', 'cfg', 'generated', 'distinct', 'depth', 'wall_s', 'ok')})
        if expect_ok and not r['ok']:
            self.save('tlc_%s_%s.out' % (module, cfg), out)
            if p.returncode == 124:
                raise MachineryError('TLC timeout on %s/%s' % (module, cfg))
            raise MachineryError('TLC failed on %s/%s (rc=%d, violated=%s):\n%s' %
                                 (module, cfg, p.returncode, r['violated'], out[-3000:]))
        return r

    def tlc_vectors(self, module, cfg, out='vectors.ndjson', timeout=900, workers=int(os.environ.get('VERIF_TLC_WORKERS', '4')), cfgtext=None, sample=2, java_opts=None):
        """Vector mode: every (initial) state of the module is one vector; TLC checks the module's
        invariants on each and dumps them; they are rewritten as ndjson for the harness. Returns the count."""
        from tools import tlaval
        d = self.spec_dir()
        dump = os.path.join(d, 'vec_%s' % re.sub(r'\W', '_', cfg))
        self.tlc(module, cfg, args=['-dump', dump], timeout=timeout, workers=workers, cfgtext=cfgtext, java_opts=java_opts)
        path = dump + '.dump' if os.path.exists(dump + '.dump') else dump
        states = tlaval.parse_states_file(path)
        os.remove(path)
        with open(os.path.join(self.scratch, out), 'w') as f:
            for st in states:
                f.write(json.dumps(st, separators=(',', ':')) + '\n')
        for st in states[:: max(1, len(states) // sample)][:sample]:
            self.samples.append({'vector': st})
        return len(states)

    # ------------------------------------------------------------------ Go harness
    def overlay(self, pkg, also=(), extra_overlay=None, extra_files=None):
        """pkg: path relative to the repository root ('.' for the root package).
        Only harness files tagged with this property's id (zz_verif_c11_test.go, zz_verif_c11_x_test.go) or with a tag
        listed in `also` (zz_verif_<tag>_test.go) are injected, so unrelated harness files cannot break the build.
        Optional (C34): extra_files = {path: source} more files to ADD (path absolute or relative to the repository root;
        must not exist); extra_overlay = {absolute original path: replacement} entries that MAY replace repository files
        (copies of the current tree instrumented at check time)."""
        tags = [self.pid.lower()] + [a.lower() for a in also]
        if self.pid == 'warm':
            tags = None
        hdir = os.path.join(ROOT, 'harness', '_root' if pkg in ('.', '') else pkg)
        if not os.path.isdir(hdir):
            raise MachineryError('no harness directory for package %s' % pkg)
        rep = {}
        pkgname = None
        for fn in sorted(os.listdir(hdir)):
            if not fn.endswith('.go'):
                continue
            if tags is not None and not any(('_%s_' % tg) in fn or ('_%s.' % tg) in fn for tg in tags):
                continue
            src = os.path.join(hdir, fn)
            if pkgname is None and fn.endswith('_test.go'):
                with open(src) as f:
                    m = re.search(r'^package (\w+)', f.read(), re.M)
                    pkgname = m.group(1)
            rep[os.path.normpath(os.path.join(REPO, pkg, fn))] = src
        with open(os.path.join(ROOT, 'harness', 'common', 'common_test.go.tmpl')) as f:
            common = f.read().replace('package PKGNAME', 'package ' + pkgname)
        cpath = os.path.join(self.scratch, 'zz_verif_common_%s_test.go' % re.sub(r'\W', '_', pkg))
        with open(cpath, 'w') as f:
            f.write(common)
        rep[os.path.normpath(os.path.join(REPO, pkg, 'zz_verif_common_test.go'))] = cpath
        # extra non-test files to add to other packages: harness/<pkg>/_extra/<relpath>
        extra = os.path.join(hdir, '_extra')
        if os.path.isdir(extra):
            for dp, _, fns in os.walk(extra):
                for fn in fns:
                    rel = os.path.relpath(os.path.join(dp, fn), extra)
                    rep[os.path.normpath(os.path.join(REPO, rel))] = os.path.join(dp, fn)
        for dst, src in (extra_files or {}).items():
            rep[os.path.normpath(os.path.join(REPO, dst))] = src
        for dst in rep:
            if os.path.exists(dst):
                raise MachineryError('overlay would replace an existing repository file: %s' % dst)
        rep.update(extra_overlay or {})
        opath = os.path.join(self.scratch, 'overlay_%s.json' % re.sub(r'\W', '_', pkg))
        with open(opath, 'w') as f:
            json.dump({'Replace': rep}, f)
        return opath

    def gotest(self, pkg, run, env=None, tags='verif', timeout=1200, indir=None, name=None, count=True, also=(),
               extra_overlay=None, extra_files=None):
        """Run one harness test of package pkg. The test reads $VERIF_IN/*, writes $VERIF_OUT/result.json."""
        ov = self.overlay(pkg, also, extra_overlay=extra_overlay, extra_files=extra_files)
        name = name or run
        outdir = os.path.join(self.scratch, 'out_' + re.sub(r'\W', '_', name))
        shutil.rmtree(outdir, ignore_errors=True)
        os.makedirs(outdir)
        e = dict(os.environ)
        e.update({'GOFLAGS': '-mod=mod', 'GOPROXY': 'off', 'VERIF_IN': indir or self.scratch, 'VERIF_OUT': outdir,
                  'VERIF_SEED': str(self.seed), 'VERIF_TIER': self.tier, 'VERIF_PROP': self.pid})
        e.pop('GOSUMDB', None)       # GOSUMDB=off breaks the switch to the cached go1.26 toolchain
        e['GOTOOLCHAIN'] = 'auto'    # plain go is 1.23; /repo needs the cached 1.26 toolchain whatever the caller exported
        e.update(env or {})
        if os.environ.get('VERIF_GOTEST_TIMEOUT'):      # development aid: cap the harness run
            timeout = min(timeout, int(os.environ['VERIF_GOTEST_TIMEOUT']))
        cmd = ['go', 'test', '-overlay', ov, '-tags', tags, '-run', '^%s$' % run, '-count=1', '-vet=off',
               '-timeout', '%ds' % timeout, '.']
        t = time.time()
        p = subprocess.run(['timeout', str(timeout + 120)] + cmd, cwd=os.path.join(REPO, pkg),
                           stdout=subprocess.PIPE, stderr=subprocess.STDOUT, text=True, env=e)
        wall = round(time.time() - t, 2)
        rp = os.path.join(outdir, 'result.json')
        res = None
        if os.path.exists(rp):
            with open(rp) as f:
                res = json.load(f)
        self.go_runs.append({'pkg': pkg, 'run': run, 'rc': p.returncode, 'wall_s': wall,
                             'evaluations': (res or {}).get('evaluations')})
        if res is None:
            self.save('gotest_%s.out' % name, p.stdout)
            if '[build failed]' in p.stdout or 'setup failed' in p.stdout:
                raise MachineryError('harness does not build against the tree (%s %s):\n%s' % (pkg, run, p.stdout[-4000:]))
            raise MachineryError('harness %s %s produced no result (rc=%d):\n%s' % (pkg, run, p.returncode, p.stdout[-4000:]))
        if 'no tests to run' in p.stdout:
            raise MachineryError('harness test %s not found in %s' % (run, pkg))
        if p.returncode != 0:
            self.save('gotest_%s.out' % name, p.stdout)
            raise MachineryError('harness %s %s failed (rc=%d) although it wrote a result:\n%s' % (pkg, run, p.returncode, p.stdout[-3000:]))
        res['_stdout'] = p.stdout
        res['_outdir'] = outdir
        res['_rc'] = p.returncode
        if count:
            self.evaluations += res.get('evaluations', 0)
            self.distinct += res.get('distinct', 0)
            self.traces += res.get('traces', 0)
            for k, v in (res.get('actions') or {}).items():
                self.actions[k] += v
            for s in (res.get('samples') or [])[:3]:
                self.samples.append(s)
        return res

    # ------------------------------------------------------------------ trace validation
    def validate_traces(self, module, cfg, tracefile, cfgtext=None, target='trace.ndjson', max_fail=6,
                        timeout=900, reset_ev='reset', java_opts=None, deterministic=True):
        """Validate concatenated ndjson traces (each starting with a reset line) with TLC.
        Returns (failures, n_traces_accepted). A failure = {'trace': k, 'lineno': n, 'line': obj, 'context': [...]}.
        A trace that is rejected is cut out and validation continues with the rest."""
        with open(tracefile) as f:
            lines = [ln for ln in f.read().split('\n') if ln.strip()]
        traces = []
        for ln in lines:
            o = json.loads(ln)
            if o.get('ev') == reset_ev or not traces:
                traces.append([])
            traces[-1].append(ln)
        total = len(traces)
        fails = []
        d = self.spec_dir()
        while traces:
            flat = [ln for tr in traces for ln in tr]
            with open(os.path.join(d, target), 'w') as f:
                f.write('\n'.join(flat) + '\n')
            r = self.tlc(module, cfg, workers=1, expect_ok=False, cfgtext=cfgtext, timeout=timeout, java_opts=java_opts)
            if r['ok']:
                break
            if r['rc'] == 124 or ('TraceAccepted' not in r['out'] and 'violated' not in r['out'] and 'is violated' not in r['out']):
                self.save('tlc_%s.out' % module, r['out'])
                raise MachineryError('trace validation could not run (%s):\n%s' % (module, r['out'][-3000:]))
            m = re.search(r'VERIF_HIGHWATER (\d+)', r['out'])
            consumed = int(m.group(1)) if m else r['distinct'] - 1
            if r['violated'] and r['violated'] != 'TraceAccepted' and not m:
                # an invariant failed in the state reached after consuming `depth-1` lines
                consumed = max(r['distinct'] - 2, 0) if deterministic else consumed
            bad = min(consumed, len(flat) - 1)           # 0-based index of the line that could not be consumed
            k = 0
            acc = 0
            for k, tr in enumerate(traces):
                if bad < acc + len(tr):
                    break
                acc += len(tr)
            tr = traces[k]
            at = bad - acc
            fails.append({'trace_len': len(tr), 'lineno_in_trace': at, 'line': json.loads(tr[at]),
                          'violated': r['violated'],
                          'context': [json.loads(x) for x in tr[max(0, at - 6):at]],
                          'trace': [json.loads(x) for x in tr[:at + 1]] if at < 400 else None,
                          'full': [json.loads(x) for x in tr] if len(tr) < 2000 else None})
            del traces[k]
            if len(fails) >= max_fail:
                break
        return fails, total - len(fails)

    # ------------------------------------------------------------------ verdict helpers
    def violation(self, key, what, detail=None):
        self.violations.append({'key': key, 'what': what, 'detail': detail})

    def take_mismatches(self, res):
        for m in res.get('mismatches') or []:
            self.violation(m.get('key', 'mismatch'), m.get('what', ''), m.get('detail'))

    def require_actions(self, *names):
        missing = [n for n in names if self.actions.get(n, 0) == 0]
        if missing:
            raise MachineryError('vacuous run: actions/classes never exercised: %s' % missing)

    def save(self, name, text):
        d = os.path.join(ROOT, 'replays', 'logs')
        os.makedirs(d, exist_ok=True)
        with open(os.path.join(d, '%s_%s' % (self.pid, name)), 'w') as f:
            f.write(text)

    def cleanup(self):
        shutil.rmtree(self.scratch, ignore_errors=True)


def load_known():
    out = {}
    p = os.path.join(ROOT, 'known_findings.jsonl')
    if os.path.exists(p):
        with open(p) as f:
            for line in f:
                line = line.strip()
                if not line or line.startswith('#') or line.startswith('fixed:'):
                    continue
                r = json.loads(line)
                if r.get('status', 'open') == 'open':
                    out[(r['property'], r['key'])] = r
    return out


def write_evidence(ctx, mod, nviol, note=None):
    cov = {
        'states': ctx.states, 'transitions': ctx.transitions,
        'traces_validated_against_impl': ctx.traces,
        'evaluations': ctx.evaluations, 'distinct_nontrivial': ctx.distinct,
        'rule': getattr(mod, 'RULE', ''),
        'samples': ctx.samples[:8] if ctx.samples else [],
        'actions': dict(ctx.actions),
        'tlc_runs': ctx.tlc_runs, 'go_runs': ctx.go_runs,
        'checker_cmd': 'bin/check %s %s' % (ctx.pid, ctx.tier),
    }
    cov.update(ctx.extra)
    if note:
        cov['note'] = note
    ev = {'property_id': ctx.pid, 'tier': ctx.tier, 'seed': ctx.seed, 'level': ctx.level, 'coverage': cov,
          'assumptions': list(getattr(mod, 'ASSUMPTIONS', [])) + ctx.assumptions,
          'wall_s': round(time.time() - ctx.t0, 2), 'violations': nviol}
    os.makedirs(os.path.join(ROOT, 'evidence'), exist_ok=True)
    path = os.path.join(ROOT, 'evidence', ctx.pid + '.json')
    if os.path.realpath(REPO) != '/repo':
        # a run against a scratch worktree must not replace the evidence of /repo
        ev['coverage']['repo'] = REPO
        os.makedirs(os.path.join(ROOT, 'replays'), exist_ok=True)
        path = os.path.join(ROOT, 'replays', 'evidence_%s_scratch.json' % ctx.pid)
    with open(path, 'w') as f:
        json.dump(ev, f, indent=1, default=str)


def main():
    if len(sys.argv) < 3:
        print(__doc__)
        return 2
    pid, tier = sys.argv[1], sys.argv[2]
    replay = None
    if '--replay' in sys.argv:
        replay = sys.argv[sys.argv.index('--replay') + 1]
        with open(replay) as f:
            rp = json.load(f)
        os.environ['VERIF_SEED'] = str(rp.get('seed', 0))
        tier = rp.get('tier', tier)
    seed = int(os.environ.get('VERIF_SEED', '1') or '1')
    tier = os.environ.get('VERIF_TIER_OVERRIDE', tier)
    mod = importlib.import_module('tools.props.' + pid)
    ctx = Ctx(pid, tier, seed)
    rc = 0
    try:
        mod.run(ctx)
        if ctx.violations and getattr(mod, 'CONFIRM_BY_RERUN', True):
            # verdicts only from reproduced behaviour of the real code: run once more, keep what reproduces
            first = ctx.violations
            ctx2 = Ctx(pid, tier, seed)
            try:
                mod.run(ctx2)
                keys2 = {v['key'] for v in ctx2.violations}
            finally:
                ctx2.cleanup()
            ctx.violations = [v for v in first if v['key'] in keys2]
            if len(ctx.violations) != len(first):
                lost = sorted({v['key'] for v in first} - keys2)
                raise MachineryError('mismatch did not reproduce on re-execution: %s' % lost)
        known = load_known()
        seen = set()
        new = []
        for v in ctx.violations:
            if v['key'] in seen:
                continue
            seen.add(v['key'])
            if (pid, v['key']) in known:
                print('KNOWN-FINDING: property=%s %s (%s)' % (pid, v['key'], known[(pid, v['key'])].get('what', v['what'])))
            else:
                new.append(v)
        for v in new:
            os.makedirs(os.path.join(ROOT, 'replays'), exist_ok=True)
            path = os.path.join(ROOT, 'replays', '%s_%s_%s.json' % (pid, tier, re.sub(r'[^A-Za-z0-9_.-]', '_', v['key'])[:80]))
            with open(path, 'w') as f:
                json.dump({'property': pid, 'tier': tier, 'seed': seed, 'key': v['key'], 'what': v['what'],
                           'detail': v['detail']}, f, indent=1, default=str)
            print('VIOLATION property=%s replay=%s' % (pid, path))
            print('  %s: %s' % (v['key'], v['what']))
            rc = 1
        if ctx.states == 0 and ctx.level == 'model_checking':
            raise MachineryError('no TLC run contributed states')
        write_evidence(ctx, mod, len(new))
        if replay and rc == 0:
            print('replay: violation %s did not occur' % rp.get('key'))
    except MachineryError as e:
        print('MACHINERY-ERROR property=%s: %s' % (pid, e))
        try:
            write_evidence(ctx, mod, 0, note='machinery error: %s' % str(e)[:500])
        except Exception:
            pass
        rc = 2
    except Exception:
        traceback.print_exc()
        rc = 2
    finally:
        if not os.environ.get('VERIF_KEEP'):
            ctx.cleanup()
        else:
            print('scratch kept:', ctx.scratch)
    print('%s %s seed=%d: exit %d (%.1fs; TLC states=%d transitions=%d; impl evaluations=%d traces=%d)' %
          (pid, tier, seed, rc, time.time() - ctx.t0, ctx.states, ctx.transitions, ctx.evaluations, ctx.traces))
    return rc


if __name__ == '__main__':
    sys.exit(main())
