// Package zzvlk is the runtime half of /verif/tools/lockinst (property C34). It is ADDED to the module under test by a
// `go build -overlay` mapping (import path <module>/zzvlk); nothing in the repository is edited.
//
// It records, in one global order, every lock operation (want = about to call the blocking operation, got = it returned,
// rel = about to call the unlocking operation), every goroutine creation and every access to a mutex-guarded map field,
// and writes them as ndjson to $VERIF_OUT/locks.ndjson. It also implements the GATE that turns a deadlock predicted by TLC
// (spec/LockOrder.tla) into a demonstration on real goroutines: see gate().
//
// Order of the log: `want` is logged before the blocking call, `got` after it returned and `rel` BEFORE the unlocking
// call, so the interval [got, rel] of the log lies inside the interval in which the goroutine really holds the lock and the
// log is a legal history of every mutex (no two overlapping writers).
package zzvlk

import (
	"bufio"
	"encoding/json"
	"fmt"
	"os"
	"path/filepath"
	"runtime"
	"strconv"
	"strings"
	"sync"
	"sync/atomic"
	"time"
	"unsafe"
)

type event struct {
	ev   byte // w want, g got, t got by Try*, u rel, f fork, c child (exact, GoFn), n new goroutine, a access, k mark, h hazard
	mode byte // 'w' / 'r'
	g    uint64
	addr uintptr
	own  uintptr
	aux  uint64
	cls  string
	site string
}

type heldLock struct {
	addr uintptr
	own  uintptr
	mode byte
	cls  string
	site string
}

type gstate struct {
	held []heldLock
	// the blocking call this goroutine is in (between the want hook and the got hook)
	waiting  bool
	wantAddr uintptr
	wantMode byte
	wantCls  string
	wantSite string
	wantAt   time.Time
	wantSeq  uint64
}

var (
	mu      sync.Mutex
	events  []event
	gs      = map[uint64]*gstate{}
	seq     uint64
	tokens  uint64
	outOnce sync.Once
	outFile *os.File
	outW    *bufio.Writer
	nflush  int
	enabled atomic.Bool
)

func init() {
	enabled.Store(os.Getenv("VERIF_OUT") != "")
	loadPlan()
}

func goid() uint64 {
	var buf [64]byte
	n := runtime.Stack(buf[:], false)
	// "goroutine 123 [running]:"
	s := buf[10:n]
	var id uint64
	for _, c := range s {
		if c < '0' || c > '9' {
			break
		}
		id = id*10 + uint64(c-'0')
	}
	return id
}

// state returns the goroutine state, creating it (and logging where the goroutine was created) on first sight. mu held.
func state(g uint64) *gstate {
	st := gs[g]
	if st != nil {
		return st
	}
	st = &gstate{}
	gs[g] = st
	// parent and creation line from the goroutine's own stack:
	//   created by github.com/slackhq/nebula.(*Control).Start in goroutine 7
	//   \t/repo/control.go:112 +0x1c5
	buf := make([]byte, 1<<16)
	n := runtime.Stack(buf, false)
	s := string(buf[:n])
	var parent uint64
	site := ""
	if i := strings.LastIndex(s, "\ncreated by "); i >= 0 {
		rest := s[i+12:]
		line, after, _ := strings.Cut(rest, "\n")
		if j := strings.LastIndex(line, " in goroutine "); j >= 0 {
			parent, _ = strconv.ParseUint(strings.TrimSpace(line[j+14:]), 10, 64)
			line = line[:j]
		}
		after = strings.TrimSpace(after)
		if k := strings.IndexByte(after, ' '); k >= 0 {
			after = after[:k]
		}
		site = after
		events = append(events, event{ev: 'n', g: g, aux: parent, site: site, cls: line})
	} else {
		events = append(events, event{ev: 'n', g: g})
	}
	return st
}

func logEv(e event) {
	events = append(events, e)
	if len(events) >= 1<<18 {
		flushLocked()
	}
}

// ---------------------------------------------------------------------------------------------------------------
// lock operations

// owner: address of the struct that declares the lock / the map field. Every owner ever seen is PINNED (a reference is
// kept for the life of the process), so the garbage collector can never hand the same address to a later object: an
// address identifies one object in the whole log.
func owner(addr uintptr, off int) uintptr {
	if off < 0 {
		off = 0
	}
	o := addr - uintptr(off)
	return o
}

var pinned = map[uintptr]unsafe.Pointer{}

// pin is called with mu held; ptr points into the object whose base address is own.
func pin(own uintptr, ptr unsafe.Pointer, addr uintptr) {
	if _, ok := pinned[own]; !ok {
		pinned[own] = unsafe.Add(ptr, -int(addr-own))
	}
}

func want(ptr unsafe.Pointer, addr, own uintptr, cls string, mode byte, site string) uint64 {
	g := goid()
	if !enabled.Load() {
		return g
	}
	mu.Lock()
	st := state(g)
	pin(own, ptr, addr)
	logEv(event{ev: 'w', mode: mode, g: g, addr: addr, own: own, cls: cls, site: site})
	// hazards that need no partner
	for _, h := range st.held {
		if h.addr == addr {
			if mode == 'w' || h.mode == 'w' {
				// Lock of an instance this goroutine already holds: it will block forever. Record and stop the process
				// (the blocking call below would never return).
				logEv(event{ev: 'h', mode: mode, g: g, addr: addr, own: own, cls: cls, site: site, aux: 1})
				demo := []parkedG{{g: g, wantAddr: addr, wantMode: mode, wantCls: cls, wantSite: site, held: append([]heldLock(nil), st.held...)}}
				abortDemonstrated("self", demo)
			} else {
				logEv(event{ev: 'h', mode: mode, g: g, addr: addr, own: own, cls: cls, site: site, aux: 2}) // recursive RLock
			}
			break
		}
	}
	if plan != nil {
		gate(g, st, addr, cls, mode, site)
	}
	wantCounter++
	st.waiting, st.wantAddr, st.wantMode, st.wantCls, st.wantSite, st.wantAt, st.wantSeq = true, addr, mode, cls, site, time.Now(), wantCounter
	if now := st.wantAt; now.Sub(lastStuckCheck) > time.Second {
		lastStuckCheck = now
		checkStuck(g, 3*time.Second)
	}
	mu.Unlock()
	return g
}

var (
	wantCounter    uint64
	lastStuckCheck time.Time
)

// checkStuck looks for a deadlock that HAPPENED (no gate involved): goroutines that have been inside a blocking Lock/RLock
// for at least minWait and wait for each other in a cycle. The books are conservative: a lock is "held" from after the
// blocking call returned until before the unlocking call, i.e. only while it is really held, so a cycle in the books is a
// cycle in reality. mu held. self = the calling goroutine (its own wait has not begun).
func checkStuck(self uint64, minWait time.Duration) {
	now := time.Now()
	var ws []*parkedG
	wseq := map[uint64]uint64{}
	for g, st := range gs {
		if g == self || !st.waiting || now.Sub(st.wantAt) < minWait {
			continue
		}
		ws = append(ws, &parkedG{g: g, role: -1, wantAddr: st.wantAddr, wantMode: st.wantMode, wantCls: st.wantCls, wantSite: st.wantSite,
			held: append([]heldLock(nil), st.held...)})
		wseq[g] = st.wantSeq
	}
	if len(ws) < 1 {
		return
	}
	blocksReal := func(q, p *parkedG) bool {
		for _, h := range q.held {
			if h.addr == p.wantAddr && (p.wantMode == 'w' || h.mode == 'w') {
				return true
			}
		}
		// a writer that called Lock BEFORE the reader called RLock excludes it
		return q != p && p.wantMode == 'r' && q.wantAddr == p.wantAddr && q.wantMode == 'w' && wseq[q.g] < wseq[p.g]
	}
	for _, s := range ws {
		path := []*parkedG{s}
		var dfs func(cur *parkedG) bool
		dfs = func(cur *parkedG) bool {
			for _, q := range ws {
				if !blocksReal(q, cur) {
					continue
				}
				if q == s {
					return true
				}
				dup := false
				for _, x := range path {
					if x == q {
						dup = true
					}
				}
				if dup {
					continue
				}
				path = append(path, q)
				if dfs(q) {
					return true
				}
				path = path[:len(path)-1]
			}
			return false
		}
		if dfs(s) {
			// Reported only when the SAME cycle (same goroutines, same blocking calls) is seen twice, at least two
			// seconds apart: a goroutine that is merely not being scheduled on a loaded machine makes progress in between.
			sig := ""
			for _, c := range path {
				sig += fmt.Sprintf("%d/%d;", c.g, wseq[c.g])
			}
			if sig == stuckSig && now.Sub(stuckAt) >= 2*time.Second {
				demo := make([]parkedG, len(path))
				for i, c := range path {
					demo[i] = *c
				}
				abortDemonstrated("observed", demo)
			}
			if sig != stuckSig {
				stuckSig, stuckAt = sig, now
				time.AfterFunc(2100*time.Millisecond, func() { mu.Lock(); checkStuck(0, minWait); mu.Unlock() })
			}
			return
		}
	}
}

var (
	stuckSig string
	stuckAt  time.Time
)

// CheckStuck is called by the harness when a workload does not terminate.
func CheckStuck() {
	if !enabled.Load() {
		return
	}
	mu.Lock()
	checkStuck(0, time.Second)
	mu.Unlock()
	time.Sleep(2200 * time.Millisecond)
	mu.Lock()
	checkStuck(0, time.Second) // does not return if the cycle of the first look is still there
	mu.Unlock()
}

func got(g uint64, ptr unsafe.Pointer, addr, own uintptr, cls string, mode byte, site string, try bool) {
	if !enabled.Load() {
		return
	}
	mu.Lock()
	st := state(g)
	ev := byte('g')
	if try {
		ev = 't'
	}
	pin(own, ptr, addr)
	st.waiting = false
	logEv(event{ev: ev, mode: mode, g: g, addr: addr, own: own, cls: cls, site: site})
	st.held = append(st.held, heldLock{addr: addr, own: own, mode: mode, cls: cls, site: site})
	mu.Unlock()
}

func rel(addr, own uintptr, cls string, mode byte, site string) {
	if !enabled.Load() {
		return
	}
	g := goid()
	mu.Lock()
	st := state(g)
	found := uint64(0)
	for i := len(st.held) - 1; i >= 0; i-- {
		if st.held[i].addr == addr && st.held[i].mode == mode {
			st.held = append(st.held[:i], st.held[i+1:]...)
			found = 1
			break
		}
	}
	logEv(event{ev: 'u', mode: mode, g: g, addr: addr, own: own, cls: cls, site: site, aux: found})
	mu.Unlock()
}

func p(m unsafe.Pointer) uintptr { return uintptr(m) }

func MLock(m *sync.Mutex, cls string, off int, site string) {
	a := p(unsafe.Pointer(m))
	g := want(unsafe.Pointer(m), a, owner(a, off), cls, 'w', site)
	m.Lock()
	got(g, unsafe.Pointer(m), a, owner(a, off), cls, 'w', site, false)
}
func MUnlock(m *sync.Mutex, cls string, off int, site string) {
	a := p(unsafe.Pointer(m))
	rel(a, owner(a, off), cls, 'w', site)
	m.Unlock()
}
func MTryLock(m *sync.Mutex, cls string, off int, site string) bool {
	a := p(unsafe.Pointer(m))
	ok := m.TryLock()
	if ok {
		got(goid(), unsafe.Pointer(m), a, owner(a, off), cls, 'w', site, true)
	}
	return ok
}
func RWLock(m *sync.RWMutex, cls string, off int, site string) {
	a := p(unsafe.Pointer(m))
	g := want(unsafe.Pointer(m), a, owner(a, off), cls, 'w', site)
	m.Lock()
	got(g, unsafe.Pointer(m), a, owner(a, off), cls, 'w', site, false)
}
func RWUnlock(m *sync.RWMutex, cls string, off int, site string) {
	a := p(unsafe.Pointer(m))
	rel(a, owner(a, off), cls, 'w', site)
	m.Unlock()
}
func RWRLock(m *sync.RWMutex, cls string, off int, site string) {
	a := p(unsafe.Pointer(m))
	g := want(unsafe.Pointer(m), a, owner(a, off), cls, 'r', site)
	m.RLock()
	got(g, unsafe.Pointer(m), a, owner(a, off), cls, 'r', site, false)
}
func RWRUnlock(m *sync.RWMutex, cls string, off int, site string) {
	a := p(unsafe.Pointer(m))
	rel(a, owner(a, off), cls, 'r', site)
	m.RUnlock()
}
func RWTryLock(m *sync.RWMutex, cls string, off int, site string) bool {
	a := p(unsafe.Pointer(m))
	ok := m.TryLock()
	if ok {
		got(goid(), unsafe.Pointer(m), a, owner(a, off), cls, 'w', site, true)
	}
	return ok
}
func RWTryRLock(m *sync.RWMutex, cls string, off int, site string) bool {
	a := p(unsafe.Pointer(m))
	ok := m.TryRLock()
	if ok {
		got(goid(), unsafe.Pointer(m), a, owner(a, off), cls, 'r', site, true)
	}
	return ok
}

// ...P: the mutex is reached through a pointer-typed field; pp is the address of that field (off is the field's offset),
// so the owner is still the struct that declares the field.
func MLockP(pp **sync.Mutex, cls string, off int, site string) {
	m, o := *pp, owner(p(unsafe.Pointer(pp)), off)
	a := p(unsafe.Pointer(m))
	g := want(unsafe.Pointer(m), a, o, cls, 'w', site)
	m.Lock()
	got(g, unsafe.Pointer(m), a, o, cls, 'w', site, false)
}
func MUnlockP(pp **sync.Mutex, cls string, off int, site string) {
	m, o := *pp, owner(p(unsafe.Pointer(pp)), off)
	rel(p(unsafe.Pointer(m)), o, cls, 'w', site)
	m.Unlock()
}
func MTryLockP(pp **sync.Mutex, cls string, off int, site string) bool {
	m, o := *pp, owner(p(unsafe.Pointer(pp)), off)
	ok := m.TryLock()
	if ok {
		got(goid(), unsafe.Pointer(m), p(unsafe.Pointer(m)), o, cls, 'w', site, true)
	}
	return ok
}
func RWLockP(pp **sync.RWMutex, cls string, off int, site string) {
	m, o := *pp, owner(p(unsafe.Pointer(pp)), off)
	a := p(unsafe.Pointer(m))
	g := want(unsafe.Pointer(m), a, o, cls, 'w', site)
	m.Lock()
	got(g, unsafe.Pointer(m), a, o, cls, 'w', site, false)
}
func RWUnlockP(pp **sync.RWMutex, cls string, off int, site string) {
	m, o := *pp, owner(p(unsafe.Pointer(pp)), off)
	rel(p(unsafe.Pointer(m)), o, cls, 'w', site)
	m.Unlock()
}
func RWRLockP(pp **sync.RWMutex, cls string, off int, site string) {
	m, o := *pp, owner(p(unsafe.Pointer(pp)), off)
	a := p(unsafe.Pointer(m))
	g := want(unsafe.Pointer(m), a, o, cls, 'r', site)
	m.RLock()
	got(g, unsafe.Pointer(m), a, o, cls, 'r', site, false)
}
func RWRUnlockP(pp **sync.RWMutex, cls string, off int, site string) {
	m, o := *pp, owner(p(unsafe.Pointer(pp)), off)
	rel(p(unsafe.Pointer(m)), o, cls, 'r', site)
	m.RUnlock()
}
func RWTryLockP(pp **sync.RWMutex, cls string, off int, site string) bool {
	m, o := *pp, owner(p(unsafe.Pointer(pp)), off)
	ok := m.TryLock()
	if ok {
		got(goid(), unsafe.Pointer(m), p(unsafe.Pointer(m)), o, cls, 'w', site, true)
	}
	return ok
}
func RWTryRLockP(pp **sync.RWMutex, cls string, off int, site string) bool {
	m, o := *pp, owner(p(unsafe.Pointer(pp)), off)
	ok := m.TryRLock()
	if ok {
		got(goid(), unsafe.Pointer(m), p(unsafe.Pointer(m)), o, cls, 'r', site, true)
	}
	return ok
}

// ---------------------------------------------------------------------------------------------------------------
// guarded map fields

func acc(fp unsafe.Pointer, cls string, off int, mode byte, site string) {
	if !enabled.Load() {
		return
	}
	g := goid()
	a := uintptr(fp)
	mu.Lock()
	state(g)
	pin(owner(a, off), fp, a)
	logEv(event{ev: 'a', mode: mode, g: g, addr: a, own: owner(a, off), cls: cls, site: site})
	mu.Unlock()
}

// RP: the map field *fp is read (index, range, len, copy of the map value).
func RP[M any](fp *M, cls string, off int, site string) M {
	acc(unsafe.Pointer(fp), cls, off, 'r', site)
	return *fp
}

// WP: the map *fp is written (m[k] = v, m[k]++, delete, clear).
func WP[M any](fp *M, cls string, off int, site string) M {
	acc(unsafe.Pointer(fp), cls, off, 'w', site)
	return *fp
}

// AP: the field itself is assigned (x.m = make(...)).
func AP[M any](fp *M, cls string, off int, site string) *M {
	acc(unsafe.Pointer(fp), cls, off, 'w', site)
	return fp
}

// ---------------------------------------------------------------------------------------------------------------
// goroutines

// Fork is called immediately before a go statement at `site` (the child finds its parent and the creation line in its stack).
func Fork(site string) {
	if !enabled.Load() {
		return
	}
	g := goid()
	mu.Lock()
	state(g)
	logEv(event{ev: 'f', g: g, site: site})
	mu.Unlock()
}

// GoFn wraps a function handed to a spawner (sync.WaitGroup.Go, time.AfterFunc): exact fork edge by token.
func GoFn(site string, fn func()) func() {
	if !enabled.Load() {
		return fn
	}
	g := goid()
	mu.Lock()
	state(g)
	tokens++
	tok := tokens
	logEv(event{ev: 'f', g: g, site: site, aux: tok})
	mu.Unlock()
	return func() {
		c := goid()
		mu.Lock()
		state(c)
		logEv(event{ev: 'c', g: c, site: site, aux: tok})
		mu.Unlock()
		fn()
	}
}

// Mark separates workloads (one mark per test).
func Mark(kind, name string) {
	if !enabled.Load() {
		return
	}
	g := goid()
	mu.Lock()
	logEv(event{ev: 'k', g: g, cls: kind, site: name})
	mu.Unlock()
}

// ---------------------------------------------------------------------------------------------------------------
// output

type jsonEv struct {
	N uint64 `json:"n"`
	E string `json:"e"`
	G uint64 `json:"g"`
	C string `json:"c,omitempty"`
	A uint64 `json:"a,omitempty"`
	O uint64 `json:"o,omitempty"`
	M string `json:"m,omitempty"`
	S string `json:"s,omitempty"`
	X uint64 `json:"x,omitempty"`
}

var evNames = map[byte]string{'w': "want", 'g': "got", 't': "try", 'u': "rel", 'f': "fork", 'c': "child", 'n': "new", 'a': "acc", 'k': "mark", 'h': "hazard"}

func flushLocked() {
	outOnce.Do(func() {
		dir := os.Getenv("VERIF_OUT")
		f, err := os.OpenFile(filepath.Join(dir, "locks.ndjson"), os.O_CREATE|os.O_WRONLY|os.O_APPEND, 0o644)
		if err != nil {
			fmt.Fprintln(os.Stderr, "zzvlk: cannot open the log:", err)
			return
		}
		outFile = f
		outW = bufio.NewWriterSize(f, 1<<20)
	})
	if outW == nil {
		events = events[:0]
		return
	}
	for i := range events {
		e := &events[i]
		seq++
		je := jsonEv{N: seq, E: evNames[e.ev], G: e.g, C: e.cls, A: uint64(e.addr), O: uint64(e.own), S: e.site, X: e.aux}
		if e.mode != 0 {
			je.M = string(rune(e.mode))
		}
		b, _ := json.Marshal(je)
		outW.Write(b)
		outW.WriteByte('\n')
	}
	outW.Flush()
	events = events[:0]
	nflush++
}

// Flush writes everything recorded so far.
func Flush() {
	mu.Lock()
	flushLocked()
	mu.Unlock()
}

// ---------------------------------------------------------------------------------------------------------------
// the gate: realise a predicted deadlock on real goroutines
//
// plan (file named by $VLK_PLAN): a list of roles. Role = "a goroutine that arrives at WantSite about to acquire a lock of
// class WantCls in mode WantMode while holding locks acquired at Hold[i].Site of class Hold[i].Cls". Whoever matches a
// role is parked (at most MaxParks times per role, at most TimeoutMs each) before its blocking call. After every arrival
// the wait-for relation among the parked goroutines is computed on the REAL lock instances:
//     p -> q   if q holds the instance p is about to acquire in a conflicting mode, or
//              p is about to RLock an instance on which q is about to Lock (a pending writer excludes new readers)
// A cycle means: real goroutines exist simultaneously, each about to block on something only another one of the cycle
// can release. That is the demonstration; it is recorded ($VERIF_OUT/deadlock.json + a `hazard` line) and the process is
// stopped (exit status 97), because the goroutines could only be released by letting them deadlock.

type planHold struct {
	Site string `json:"site"`
	Cls  string `json:"cls"`
}
type planRole struct {
	WantSite string     `json:"want_site"`
	WantCls  string     `json:"want_cls"`
	WantMode string     `json:"want_mode"`
	Hold     []planHold `json:"hold"`
}
type planT struct {
	TimeoutMs int        `json:"timeout_ms"`
	MaxParks  int        `json:"max_parks"`
	Roles     []planRole `json:"roles"`
	Key       string     `json:"key"`
}

type parkedG struct {
	inCycle  bool
	g        uint64
	role     int
	wantAddr uintptr
	wantMode byte
	wantCls  string
	wantSite string
	held     []heldLock
}

var (
	gateDemo     []parkedG // the cycle the gate caught (members are being released into their blocking calls)
	releasePhase int
	plan      *planT
	parked    []*parkedG
	parkCount []int
	parkStats = map[string]int{}
)

func loadPlan() {
	fn := os.Getenv("VLK_PLAN")
	if fn == "" {
		return
	}
	b, err := os.ReadFile(fn)
	if err != nil {
		fmt.Fprintln(os.Stderr, "zzvlk: cannot read the gate plan:", err)
		os.Exit(96)
	}
	var pl planT
	if err := json.Unmarshal(b, &pl); err != nil {
		fmt.Fprintln(os.Stderr, "zzvlk: bad gate plan:", err)
		os.Exit(96)
	}
	if pl.TimeoutMs <= 0 {
		pl.TimeoutMs = 300
	}
	if pl.MaxParks <= 0 {
		pl.MaxParks = 25
	}
	plan = &pl
	parkCount = make([]int, len(pl.Roles))
}

func roleMatches(r *planRole, st *gstate, cls string, mode byte, site string) bool {
	if r.WantSite != site || r.WantCls != cls || (r.WantMode != "" && r.WantMode[0] != mode) {
		return false
	}
	for _, h := range r.Hold {
		ok := false
		for _, x := range st.held {
			if x.site == h.Site && x.cls == h.Cls {
				ok = true
				break
			}
		}
		if !ok {
			return false
		}
	}
	return true
}

// blocks: does q stand in the way of p's acquisition?
func blocks(q, pp *parkedG) bool {
	for _, h := range q.held {
		if h.addr == pp.wantAddr && (pp.wantMode == 'w' || h.mode == 'w') {
			return true
		}
	}
	if q != pp && pp.wantMode == 'r' && q.wantAddr == pp.wantAddr && q.wantMode == 'w' {
		return true
	}
	return false
}

func findCycle() []*parkedG {
	n := len(parked)
	// n is tiny (<= number of roles): depth-first search from every node
	var path []*parkedG
	var dfs func(start, cur *parkedG, depth int) bool
	dfs = func(start, cur *parkedG, depth int) bool {
		if depth > n {
			return false
		}
		for _, q := range parked {
			if !blocks(q, cur) {
				continue
			}
			if q == start {
				return true
			}
			seen := false
			for _, x := range path {
				if x == q {
					seen = true
				}
			}
			if seen {
				continue
			}
			path = append(path, q)
			if dfs(start, q, depth+1) {
				return true
			}
			path = path[:len(path)-1]
		}
		return false
	}
	for _, s := range parked {
		path = []*parkedG{s}
		if dfs(s, s, 0) {
			return path
		}
	}
	return nil
}

// gate is called with mu held, before the blocking call.
func gate(g uint64, st *gstate, addr uintptr, cls string, mode byte, site string) {
	for ri := range plan.Roles {
		r := &plan.Roles[ri]
		if !roleMatches(r, st, cls, mode, site) {
			continue
		}
		parkStats[fmt.Sprintf("role%d_arrivals", ri)]++
		if parkCount[ri] >= plan.MaxParks || gateDemo != nil {
			return
		}
		// A role that holds nothing (a goroutine that is merely about to Lock: the pending writer of a cycle) is the
		// last ingredient: it only joins goroutines of other roles that are already parked, it never waits alone.
		if len(r.Hold) == 0 {
			other := false
			for _, q := range parked {
				if q.role != ri {
					other = true
				}
			}
			if !other {
				parkStats[fmt.Sprintf("role%d_passed", ri)]++
				return
			}
		}
		// do not park a second goroutine in a role that is already occupied unless it is a different goroutine
		me := &parkedG{g: g, role: ri, wantAddr: addr, wantMode: mode, wantCls: cls, wantSite: site, held: append([]heldLock(nil), st.held...)}
		parked = append(parked, me)
		parkCount[ri]++
		if cyc := findCycle(); cyc != nil && gateDemo == nil {
			// The predicted state is reached on real goroutines. It is not reported yet: the members are now let into
			// their blocking calls - the goroutines about to Lock first, the readers 100 ms later, which is the order of
			// the predicted schedule - and only if they are then REALLY blocked on each other for seconds (checkStuck on
			// the conservative books) is the deadlock recorded and the process stopped. Otherwise the prediction stays
			// unconfirmed and the workload simply goes on.
			gateDemo = make([]parkedG, len(cyc))
			for i, c := range cyc {
				gateDemo[i] = *c
				c.inCycle = true
			}
			releasePhase = 1
			parkStats["cycles_caught"]++
			time.AfterFunc(100*time.Millisecond, func() { mu.Lock(); releasePhase = 2; mu.Unlock() })
			time.AfterFunc(3*time.Second, func() { mu.Lock(); checkStuck(0, 2*time.Second); mu.Unlock() }) // looks again 2.1 s later
			time.AfterFunc(8*time.Second, func() {
				// still running: the released goroutines did not stay blocked on each other
				mu.Lock()
				parkStats["cycles_not_blocking"]++
				writeGateOnly()
				mu.Unlock()
			})
		}
		deadline := time.Now().Add(time.Duration(plan.TimeoutMs) * time.Millisecond)
		for time.Now().Before(deadline) {
			if me.inCycle && (releasePhase == 2 || (releasePhase == 1 && me.wantMode == 'w')) {
				break
			}
			if me.inCycle {
				deadline = time.Now().Add(time.Second)
			}
			mu.Unlock()
			time.Sleep(500 * time.Microsecond)
			mu.Lock()
		}
		for i, q := range parked {
			if q == me {
				parked = append(parked[:i], parked[i+1:]...)
				break
			}
		}
		if me.inCycle {
			return
		}
		parkStats[fmt.Sprintf("role%d_timeouts", ri)]++
		return
	}
}

type demoLock struct {
	Cls  string `json:"cls"`
	Addr uint64 `json:"addr"`
	Mode string `json:"mode"`
	Site string `json:"site"`
}
type demoG struct {
	G    uint64     `json:"g"`
	Role int        `json:"role"`
	Want demoLock   `json:"want"`
	Held []demoLock `json:"held"`
	Stk  string     `json:"stack,omitempty"`
}

// abortDemonstrated records the demonstrated deadlock and stops the process. mu held.
func abortDemonstrated(key string, cyc []parkedG) {
	var out struct {
		Key   string         `json:"key"`
		Cycle []demoG        `json:"cycle"`
		Stats map[string]int `json:"stats"`
	}
	out.Key = key
	if key == "observed" && gateDemo != nil && plan != nil {
		out.Key = "observed-after-gate:" + plan.Key
	}
	out.Stats = parkStats
	for _, c := range cyc {
		d := demoG{G: c.g, Role: c.role, Want: demoLock{c.wantCls, uint64(c.wantAddr), string(rune(c.wantMode)), c.wantSite}}
		for _, h := range c.held {
			d.Held = append(d.Held, demoLock{h.cls, uint64(h.addr), string(rune(h.mode)), h.site})
		}
		out.Cycle = append(out.Cycle, d)
	}
	b, _ := json.MarshalIndent(out, "", " ")
	os.WriteFile(filepath.Join(os.Getenv("VERIF_OUT"), "deadlock.json"), b, 0o644)
	flushLocked()
	fmt.Fprintf(os.Stderr, "zzvlk: DEADLOCK DEMONSTRATED (%s): %s\n", key, b)
	os.Exit(97)
}

// writeGateOnly: the gate saw the predicted state but the goroutines did not stay blocked: diagnostics only. mu held.
func writeGateOnly() {
	var out struct {
		Key   string  `json:"key"`
		Cycle []demoG `json:"cycle"`
	}
	out.Key = plan.Key
	for _, c := range gateDemo {
		d := demoG{G: c.g, Role: c.role, Want: demoLock{c.wantCls, uint64(c.wantAddr), string(rune(c.wantMode)), c.wantSite}}
		for _, h := range c.held {
			d.Held = append(d.Held, demoLock{h.cls, uint64(h.addr), string(rune(h.mode)), h.site})
		}
		out.Cycle = append(out.Cycle, d)
	}
	b, _ := json.MarshalIndent(out, "", " ")
	os.WriteFile(filepath.Join(os.Getenv("VERIF_OUT"), "gate_only.json"), b, 0o644)
}

// GateStats is written by the harness into its result.
func GateStats() map[string]int {
	mu.Lock()
	defer mu.Unlock()
	out := map[string]int{}
	for k, v := range parkStats {
		out[k] = v
	}
	return out
}
