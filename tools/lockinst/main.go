// lockinst: source-to-source instrumentation of sync.Mutex / sync.RWMutex operations, goroutine creation and
// accesses to mutex-guarded map fields, for property C34 of /verif. Standard library only.
//
//	go run /verif/tools/lockinst/main.go -repo /repo -out <scratch>/inst -tags e2e_testing -pkgs .,./config
//
// It type-checks the CURRENT working tree of the listed packages (non-test files selected by the build tags), writes an
// instrumented copy of every file it changes under <out>/src/, an overlay fragment <out>/overlay.json for
// `go build -overlay` (original path -> instrumented copy, plus the runtime package zzvlk) and <out>/meta.json (lock
// classes, guarded map fields, sites, everything that could not be instrumented).
//
// All edits are textual replacements of expressions that never add or remove a newline, so line numbers of the
// instrumented copy equal those of the original (stack traces and "created by ... file:line" stay exact).
//
//	x.Lock()                -> zzvlk.WLock(&x.RWMutex, "HostMap.RWMutex", off, "hostmap.go:123")   (deferred calls too)
//	x.m[k] / range x.m ...  -> zzvlk.RP(&x.m, "HostMap.Hosts", off, site)[k]                       (WP for writes, AP for x.m = ...)
//	go f(x)                 -> zzvlk.Fork(site); go f(x)            (the child finds parent + creation line in its own stack)
//	wg.Go(fn), time.AfterFunc(d, fn) -> fn wrapped in zzvlk.GoFn(site, fn)
//
// off = offset of the mutex / map field inside the struct that declares it; the runtime computes the address of that
// struct ("owner") from it, which is how a map field is related to the mutex instance of the same struct.
package main

import (
	"bytes"
	"encoding/json"
	"flag"
	"fmt"
	"go/ast"
	"go/importer"
	"go/parser"
	"go/token"
	"go/types"
	"io"
	"os"
	"os/exec"
	"path/filepath"
	"sort"
	"strings"
)

const rtImportSuffix = "/zzvlk"

type listPkg struct {
	ImportPath string
	Dir        string
	Export     string
	GoFiles    []string
	CgoFiles   []string
	ImportMap  map[string]string
	Module     *struct{ Path, Dir string }
	Error      *struct{ Err string }
	DepOnly    bool
}

type edit struct {
	start, end int // byte offsets; start==end: insertion
	text       string
	closing    bool // text closes an expression that ends at start
	order      int
}

type mapField struct {
	Class    string   `json:"class"`  // Struct.field
	Struct   string   `json:"struct"` // declaring struct
	Field    string   `json:"field"`
	Type     string   `json:"type"`
	Mutexes  []string `json:"mutexes"` // lock classes declared in the same struct
	Decl     string   `json:"decl"`    // file:line of the field
	Reads    int      `json:"reads"`
	Writes   int      `json:"writes"`
	Escapes  []string `json:"escapes,omitempty"`  // sites where the map value / its address leaves the expression
	Skipped  []string `json:"skipped,omitempty"`  // sites that could not be instrumented
	Accesses []string `json:"accesses,omitempty"` // all instrumented sites "r|w file:line"
}

type lockClass struct {
	Class string   `json:"class"`
	Kind  string   `json:"kind"` // mutex | rwmutex
	Decl  string   `json:"decl,omitempty"`
	Sites []string `json:"sites"` // "op file:line"
}

type meta struct {
	Packages   []string              `json:"packages"`
	Files      []string              `json:"files"`
	Classes    map[string]*lockClass `json:"classes"`
	Maps       map[string]*mapField  `json:"maps"`
	Forks      []string              `json:"forks"`
	Skipped    []string              `json:"skipped"` // lock operations / go statements left uninstrumented, with the reason
	LockCalls  int                   `json:"lock_calls"`
	MapAccess  int                   `json:"map_accesses"`
	GoStmts    int                   `json:"go_stmts"`
	ModulePath string                `json:"module"`
}

func die(f string, a ...any) {
	fmt.Fprintf(os.Stderr, "lockinst: "+f+"\n", a...)
	os.Exit(2)
}

func main() {
	repo := flag.String("repo", "/repo", "repository root (module root)")
	out := flag.String("out", "", "output directory (scratch)")
	tags := flag.String("tags", "e2e_testing", "build tags")
	pkgs := flag.String("pkgs", ".,./config", "packages to instrument, relative to the repository root")
	rt := flag.String("runtime", "", "path of the runtime source (zz_vlk_runtime.go)")
	flag.Parse()
	if *out == "" || *rt == "" {
		die("-out and -runtime are required")
	}
	absRepo, _ := filepath.Abs(*repo)
	if r, err := filepath.EvalSymlinks(absRepo); err == nil {
		absRepo = r
	}
	os.RemoveAll(filepath.Join(*out, "src"))
	if err := os.MkdirAll(filepath.Join(*out, "src"), 0o755); err != nil {
		die("%v", err)
	}

	// 1. package graph with export data of the current tree
	args := []string{"list", "-e", "-deps", "-export", "-json=ImportPath,Dir,Export,GoFiles,CgoFiles,ImportMap,Module,Error,DepOnly", "-tags", *tags}
	want := strings.Split(*pkgs, ",")
	args = append(args, want...)
	cmd := exec.Command("go", args...)
	cmd.Dir = absRepo
	cmd.Stderr = os.Stderr
	raw, err := cmd.Output()
	if err != nil {
		die("go list failed: %v", err)
	}
	dec := json.NewDecoder(bytes.NewReader(raw))
	exports := map[string]string{}
	var targets []*listPkg
	modPath := ""
	for {
		var p listPkg
		if err := dec.Decode(&p); err == io.EOF {
			break
		} else if err != nil {
			die("go list output: %v", err)
		}
		if p.Export != "" {
			exports[p.ImportPath] = p.Export
		}
		if !p.DepOnly {
			if p.Error != nil {
				die("package %s: %s", p.ImportPath, p.Error.Err)
			}
			q := p
			targets = append(targets, &q)
			if p.Module != nil {
				modPath = p.Module.Path
			}
		}
	}
	if len(targets) == 0 || modPath == "" {
		die("no target packages")
	}
	rtImport := modPath + rtImportSuffix

	m := &meta{Classes: map[string]*lockClass{}, Maps: map[string]*mapField{}, ModulePath: modPath}
	replace := map[string]string{}
	for _, p := range targets {
		m.Packages = append(m.Packages, p.ImportPath)
		instrumentPackage(p, absRepo, modPath, rtImport, exports, *out, m, replace)
	}
	// runtime package, added (never replacing anything)
	rtDst := filepath.Join(absRepo, "zzvlk", "zz_vlk_runtime.go")
	if _, err := os.Stat(filepath.Dir(rtDst)); err == nil {
		die("the repository already has a directory zzvlk")
	}
	replace[rtDst] = *rt
	b, _ := json.MarshalIndent(map[string]any{"Replace": replace}, "", " ")
	if err := os.WriteFile(filepath.Join(*out, "overlay.json"), b, 0o644); err != nil {
		die("%v", err)
	}
	for _, c := range m.Classes {
		sort.Strings(c.Sites)
	}
	sort.Strings(m.Skipped)
	sort.Strings(m.Files)
	b, _ = json.MarshalIndent(m, "", " ")
	if err := os.WriteFile(filepath.Join(*out, "meta.json"), b, 0o644); err != nil {
		die("%v", err)
	}
	fmt.Printf("lockinst: %d packages, %d files rewritten, %d lock operations, %d lock classes, %d guarded map fields, %d map accesses, %d go statements, %d skipped\n",
		len(m.Packages), len(m.Files), m.LockCalls, len(m.Classes), len(m.Maps), m.MapAccess, m.GoStmts, len(m.Skipped))
}

// ---------------------------------------------------------------------------------------------------------------

type inst struct {
	fset    *token.FileSet
	info    *types.Info
	pkg     *types.Package
	sizes   types.Sizes
	rel     func(token.Pos) string // "file:line" relative to the repository root
	prefix  string                 // class prefix for non-root packages ("config.")
	m       *meta
	gmaps   map[*types.Var]*mapField
	edits   []edit
	order   int
	structN map[*types.Struct]string // struct type -> name of the named type that declares it
}

func instrumentPackage(p *listPkg, repo, modPath, rtImport string, exports map[string]string, out string, m *meta, replace map[string]string) {
	fset := token.NewFileSet()
	var files []*ast.File
	var paths []string
	srcs := map[string][]byte{}
	for _, fn := range p.GoFiles {
		path := filepath.Join(p.Dir, fn)
		src, err := os.ReadFile(path)
		if err != nil {
			die("%v", err)
		}
		f, err := parser.ParseFile(fset, path, src, parser.ParseComments|parser.SkipObjectResolution)
		if err != nil {
			die("parse %s: %v", path, err)
		}
		files = append(files, f)
		paths = append(paths, path)
		srcs[path] = src
	}
	if len(p.CgoFiles) > 0 {
		die("package %s uses cgo", p.ImportPath)
	}
	imp := importer.ForCompiler(fset, "gc", func(path string) (io.ReadCloser, error) {
		if mp, ok := p.ImportMap[path]; ok {
			path = mp
		}
		e, ok := exports[path]
		if !ok {
			return nil, fmt.Errorf("no export data for %s", path)
		}
		return os.Open(e)
	})
	info := &types.Info{Types: map[ast.Expr]types.TypeAndValue{}, Selections: map[*ast.SelectorExpr]*types.Selection{},
		Uses: map[*ast.Ident]types.Object{}, Defs: map[*ast.Ident]types.Object{}}
	var terrs []string
	conf := types.Config{Importer: imp, Sizes: types.SizesFor("gc", "amd64"), Error: func(err error) { terrs = append(terrs, err.Error()) }}
	pkg, _ := conf.Check(p.ImportPath, fset, files, info)
	if len(terrs) > 0 {
		die("type errors in %s:\n  %s", p.ImportPath, strings.Join(terrs[:min(len(terrs), 10)], "\n  "))
	}
	prefix := ""
	if p.ImportPath != modPath {
		prefix = strings.TrimPrefix(p.ImportPath, modPath+"/") + "."
	}
	in := &inst{fset: fset, info: info, pkg: pkg, sizes: conf.Sizes, prefix: prefix, m: m, gmaps: map[*types.Var]*mapField{}, structN: map[*types.Struct]string{}}
	in.rel = func(pos token.Pos) string {
		ps := fset.Position(pos)
		r, err := filepath.Rel(repo, ps.Filename)
		if err != nil {
			r = ps.Filename
		}
		return fmt.Sprintf("%s:%d", filepath.ToSlash(r), ps.Line)
	}
	in.findGuardedMaps(files)

	for i, f := range files {
		in.edits = nil
		in.walkFile(f)
		if len(in.edits) == 0 {
			continue
		}
		src := srcs[paths[i]]
		// import of the runtime: appended to the package clause line (no new line)
		tf := fset.File(f.Pos())
		nameEnd := tf.Offset(f.Name.End())
		in.edits = append(in.edits, edit{start: nameEnd, end: nameEnd, text: "; import zzvlk \"" + rtImport + "\"", order: -1})
		res := applyEdits(src, in.edits)
		if bytes.Count(res, []byte("\n")) != bytes.Count(src, []byte("\n")) {
			die("internal: line count changed in %s", paths[i])
		}
		relp, _ := filepath.Rel(repo, paths[i])
		dst := filepath.Join(out, "src", relp)
		os.MkdirAll(filepath.Dir(dst), 0o755)
		if err := os.WriteFile(dst, res, 0o644); err != nil {
			die("%v", err)
		}
		replace[paths[i]] = dst
		m.Files = append(m.Files, filepath.ToSlash(relp))
	}
}

func applyEdits(src []byte, edits []edit) []byte {
	sort.SliceStable(edits, func(i, j int) bool {
		a, b := edits[i], edits[j]
		if a.start != b.start {
			return a.start < b.start
		}
		if a.closing != b.closing {
			return a.closing // closings first
		}
		if a.closing {
			return a.order > b.order // inner expressions close first
		}
		return a.order < b.order // outer expressions open first
	})
	var out bytes.Buffer
	pos := 0
	for _, e := range edits {
		if e.start < pos {
			die("internal: overlapping edits at offset %d (%q)", e.start, e.text)
		}
		out.Write(src[pos:e.start])
		out.WriteString(e.text)
		pos = e.end
	}
	out.Write(src[pos:])
	return out.Bytes()
}

func (in *inst) off(pos token.Pos) int { return in.fset.File(pos).Offset(pos) }

func (in *inst) insert(pos token.Pos, text string, closing bool) {
	o := in.off(pos)
	in.order++
	in.edits = append(in.edits, edit{start: o, end: o, text: text, closing: closing, order: in.order})
}

func (in *inst) replaceRange(from, to token.Pos, text string) {
	in.order++
	in.edits = append(in.edits, edit{start: in.off(from), end: in.off(to), text: text, order: in.order})
}

// ---------------------------------------------------------------------------------------------------------------
// types

func isSyncType(t types.Type) (kind string, ptr bool) {
	if p, ok := t.(*types.Pointer); ok {
		t = p.Elem()
		ptr = true
	}
	n, ok := t.(*types.Named)
	if !ok || n.Obj().Pkg() == nil || n.Obj().Pkg().Path() != "sync" {
		return "", false
	}
	switch n.Obj().Name() {
	case "Mutex":
		return "mutex", ptr
	case "RWMutex":
		return "rwmutex", ptr
	}
	return "", false
}

func deref(t types.Type) types.Type {
	if p, ok := t.Underlying().(*types.Pointer); ok {
		return p.Elem()
	}
	return t
}

func hasTypeParam(t types.Type, depth int) bool {
	if depth > 6 {
		return false
	}
	switch x := t.(type) {
	case *types.TypeParam:
		return true
	case *types.Named:
		if x.TypeArgs() != nil {
			for i := 0; i < x.TypeArgs().Len(); i++ {
				if hasTypeParam(x.TypeArgs().At(i), depth+1) {
					return true
				}
			}
		}
		if _, ok := x.Underlying().(*types.Struct); ok {
			return hasTypeParam(x.Underlying(), depth+1)
		}
		return false
	case *types.Struct:
		for i := 0; i < x.NumFields(); i++ {
			if hasTypeParam(x.Field(i).Type(), depth+1) {
				return true
			}
		}
	case *types.Array:
		return hasTypeParam(x.Elem(), depth+1)
	}
	return false
}

// typeName: name of a (possibly instantiated) named type without type arguments.
func (in *inst) typeName(t types.Type) string {
	t = deref(t)
	if n, ok := t.(*types.Named); ok {
		return n.Obj().Name()
	}
	if a, ok := t.(*types.Alias); ok {
		return a.Obj().Name()
	}
	return ""
}

// fieldStep describes one field selection step: the struct that declares the field, its name and the field.
type fieldStep struct {
	owner string // name of the declaring struct ("" if anonymous and unknown)
	st    *types.Struct
	idx   int
}

// walkPath follows a selection index path from type t and returns the steps.
func (in *inst) walkPath(t types.Type, path []int) []fieldStep {
	var steps []fieldStep
	name := ""
	for _, i := range path {
		t = deref(t)
		if n := in.typeName(t); n != "" {
			name = n
		}
		st, ok := t.Underlying().(*types.Struct)
		if !ok {
			return nil
		}
		steps = append(steps, fieldStep{owner: name, st: st, idx: i})
		name = name + "." + st.Field(i).Name()
		t = st.Field(i).Type()
	}
	return steps
}

// offsetOf returns the byte offset of field idx in st, or -1 if it depends on a type parameter.
func (in *inst) offsetOf(st *types.Struct, idx int) int64 {
	var fs []*types.Var
	for i := 0; i <= idx; i++ {
		f := st.Field(i)
		if hasTypeParam(f.Type(), 0) {
			if i == idx && idx == 0 {
				return 0
			}
			return -1
		}
		fs = append(fs, f)
	}
	return in.sizes.Offsetsof(fs)[idx]
}

func (in *inst) findGuardedMaps(files []*ast.File) {
	// every struct type declared in the package (named at any level)
	var visit func(name string, t types.Type, pos token.Pos)
	seen := map[*types.Struct]bool{}
	visit = func(name string, t types.Type, pos token.Pos) {
		st, ok := t.Underlying().(*types.Struct)
		if !ok || seen[st] {
			return
		}
		seen[st] = true
		in.structN[st] = name
		var mutexes []string
		var maps []int
		for i := 0; i < st.NumFields(); i++ {
			f := st.Field(i)
			if k, _ := isSyncType(f.Type()); k != "" {
				mutexes = append(mutexes, in.prefix+name+"."+f.Name())
				in.class(in.prefix+name+"."+f.Name(), k, in.rel(f.Pos()))
			}
			if _, ok := f.Type().Underlying().(*types.Map); ok {
				maps = append(maps, i)
			}
			// anonymous struct typed fields
			if _, ok := f.Type().(*types.Struct); ok {
				visit(name+"."+f.Name(), f.Type(), f.Pos())
			}
		}
		if len(mutexes) == 0 {
			return
		}
		for _, i := range maps {
			f := st.Field(i)
			mf := &mapField{Class: in.prefix + name + "." + f.Name(), Struct: in.prefix + name, Field: f.Name(), Type: types.TypeString(f.Type(), types.RelativeTo(in.pkg)),
				Mutexes: mutexes, Decl: in.rel(f.Pos())}
			in.gmaps[f] = mf
			in.m.Maps[mf.Class] = mf
		}
	}
	for _, f := range files {
		ast.Inspect(f, func(n ast.Node) bool {
			ts, ok := n.(*ast.TypeSpec)
			if !ok {
				return true
			}
			obj := in.info.Defs[ts.Name]
			if obj == nil {
				return true
			}
			if _, isAlias := obj.Type().(*types.Alias); isAlias {
				return true
			}
			visit(ts.Name.Name, obj.Type(), ts.Pos())
			return true
		})
	}
}

func (in *inst) class(name, kind, decl string) *lockClass {
	c := in.m.Classes[name]
	if c == nil {
		c = &lockClass{Class: name, Kind: kind, Decl: decl}
		in.m.Classes[name] = c
	}
	return c
}

// ---------------------------------------------------------------------------------------------------------------
// walk

var lockOps = map[string]string{"Lock": "Lock", "Unlock": "Unlock", "RLock": "RLock", "RUnlock": "RUnlock", "TryLock": "TryLock", "TryRLock": "TryRLock"}

func (in *inst) walkFile(f *ast.File) {
	var stack []ast.Node
	ast.Inspect(f, func(n ast.Node) bool {
		if n == nil {
			stack = stack[:len(stack)-1]
			return true
		}
		switch x := n.(type) {
		case *ast.CallExpr:
			in.call(x)
		case *ast.GoStmt:
			in.m.GoStmts++
			site := in.rel(x.Pos())
			in.insert(x.Pos(), fmt.Sprintf("zzvlk.Fork(%q); ", site), false)
			in.m.Forks = append(in.m.Forks, site)
		case *ast.SelectorExpr:
			in.selector(x, stack)
		}
		stack = append(stack, n)
		return true
	})
}

func (in *inst) skip(pos token.Pos, why string) {
	in.m.Skipped = append(in.m.Skipped, in.rel(pos)+": "+why)
}

func simpleExpr(e ast.Expr) bool {
	switch x := e.(type) {
	case *ast.Ident:
		return true
	case *ast.SelectorExpr:
		return simpleExpr(x.X)
	case *ast.ParenExpr:
		return simpleExpr(x.X)
	case *ast.StarExpr:
		return simpleExpr(x.X)
	}
	return false
}

func (in *inst) call(c *ast.CallExpr) {
	sel, ok := c.Fun.(*ast.SelectorExpr)
	if !ok {
		return
	}
	// spawners: wg.Go(fn), time.AfterFunc(d, fn)
	if fn, ok := in.info.Uses[sel.Sel].(*types.Func); ok && fn.Pkg() != nil {
		full := fn.FullName()
		argi := -1
		switch full {
		case "(*sync.WaitGroup).Go":
			argi = 0
		case "time.AfterFunc":
			argi = 1
		}
		if argi >= 0 && len(c.Args) > argi {
			a := c.Args[argi]
			site := in.rel(c.Pos())
			in.insert(a.Pos(), fmt.Sprintf("zzvlk.GoFn(%q, ", site), false)
			in.insert(a.End(), ")", true)
			in.m.GoStmts++
			in.m.Forks = append(in.m.Forks, site)
			return
		}
	}
	op, ok := lockOps[sel.Sel.Name]
	if !ok || len(c.Args) != 0 {
		return
	}
	s := in.info.Selections[sel]
	if s == nil || s.Kind() != types.MethodVal {
		return
	}
	fn, ok := s.Obj().(*types.Func)
	if !ok || fn.Pkg() == nil || fn.Pkg().Path() != "sync" {
		return
	}
	sig := fn.Type().(*types.Signature)
	kind, _ := isSyncType(sig.Recv().Type())
	if kind == "" {
		return
	}
	site := in.rel(c.Pos())
	path := s.Index()
	fieldPath := path[:len(path)-1]
	xt := in.info.Types[sel.X]
	var cls string
	var off int64
	addrExpr := ""     // text inserted after X to reach the mutex ("" or ".RWMutex" or ".a.Mutex")
	ptrField := false  // the mutex is reached through a pointer-typed field: pass the address of that field
	takeAddr := true   // prefix with &
	if len(fieldPath) > 0 {
		steps := in.walkPath(s.Recv(), fieldPath)
		if steps == nil {
			in.skip(c.Pos(), "lock operation through an unexpected embedding")
			return
		}
		last := steps[len(steps)-1]
		for _, st := range steps {
			addrExpr += "." + st.st.Field(st.idx).Name()
		}
		cls = in.prefix + last.owner + "." + last.st.Field(last.idx).Name()
		off = in.offsetOf(last.st, last.idx)
		if _, p := isSyncType(last.st.Field(last.idx).Type()); p {
			ptrField = true
		}
		if !xt.Addressable() {
			if _, isPtr := xt.Type.Underlying().(*types.Pointer); !isPtr {
				in.skip(c.Pos(), "receiver of "+op+" is not addressable")
				return
			}
		}
	} else {
		// X itself is the mutex (or a pointer to it)
		_, isPtr := isSyncType(xt.Type)
		x := ast.Unparen(sel.X)
		if fs, ok := x.(*ast.SelectorExpr); ok && in.info.Selections[fs] != nil && in.info.Selections[fs].Kind() == types.FieldVal {
			fsel := in.info.Selections[fs]
			steps := in.walkPath(fsel.Recv(), fsel.Index())
			if steps == nil {
				in.skip(c.Pos(), "lock field through an unexpected embedding")
				return
			}
			last := steps[len(steps)-1]
			cls = in.prefix + last.owner + "." + last.st.Field(last.idx).Name()
			off = in.offsetOf(last.st, last.idx)
			ptrField = isPtr
			if !in.info.Types[fs].Addressable() {
				in.skip(c.Pos(), "lock field is not addressable")
				return
			}
		} else if id, ok := x.(*ast.Ident); ok {
			obj := in.info.Uses[id]
			cls = in.prefix + "var." + id.Name
			if obj != nil {
				cls += "@" + in.rel(obj.Pos())
			}
			off = 0
			takeAddr = !isPtr
		} else {
			if !isPtr && !xt.Addressable() {
				in.skip(c.Pos(), "receiver of "+op+" is not addressable")
				return
			}
			cls = in.prefix + "expr@" + site
			off = 0
			takeAddr = !isPtr
		}
	}
	fname := map[string]string{"mutex": "M", "rwmutex": "RW"}[kind] + op
	if ptrField {
		fname += "P"
	}
	if off < 0 {
		off = -1 // owner unknown (generic struct): the lock address itself identifies the instance
	}
	pre := "zzvlk." + fname + "("
	if takeAddr {
		pre += "&"
	}
	in.insert(c.Pos(), pre, false)
	in.replaceRange(sel.X.End(), c.End(), fmt.Sprintf("%s, %q, %d, %q)", addrExpr, cls, off, site))
	in.m.LockCalls++
	lc := in.class(cls, kind, "")
	lc.Sites = append(lc.Sites, op+" "+site)
}

func (in *inst) selector(sel *ast.SelectorExpr, stack []ast.Node) {
	s := in.info.Selections[sel]
	if s == nil || s.Kind() != types.FieldVal {
		return
	}
	fv, ok := s.Obj().(*types.Var)
	if !ok {
		return
	}
	if origin := fv.Origin(); origin != nil {
		fv = origin
	}
	mf := in.gmaps[fv]
	if mf == nil {
		return
	}
	site := in.rel(sel.Pos())
	steps := in.walkPath(s.Recv(), s.Index())
	if steps == nil {
		mf.Skipped = append(mf.Skipped, site+": unexpected embedding")
		return
	}
	last := steps[len(steps)-1]
	off := in.offsetOf(last.st, last.idx)
	if off < 0 {
		mf.Skipped = append(mf.Skipped, site+": offset depends on a type parameter")
		return
	}
	if !in.info.Types[sel].Addressable() {
		mf.Skipped = append(mf.Skipped, site+": field not addressable")
		return
	}
	// context
	var parent, grand ast.Node
	k := len(stack) - 1
	for k >= 0 {
		if _, ok := stack[k].(*ast.ParenExpr); ok {
			k--
			continue
		}
		break
	}
	if k >= 0 {
		parent = stack[k]
		if k >= 1 {
			grand = stack[k-1]
		}
	}
	mode, fn, deref, escape := "r", "RP", false, false
	isLHS := func(a *ast.AssignStmt, e ast.Expr) bool {
		for _, l := range a.Lhs {
			if ast.Unparen(l) == e {
				return true
			}
		}
		return false
	}
	switch p := parent.(type) {
	case *ast.IndexExpr:
		if ast.Unparen(p.X) == sel {
			switch g := grand.(type) {
			case *ast.AssignStmt:
				if isLHS(g, p) {
					mode, fn = "w", "WP"
				}
			case *ast.IncDecStmt:
				if ast.Unparen(g.X) == p {
					mode, fn = "w", "WP"
				}
			}
		} else {
			escape = true // used as an index value?! (maps are not comparable; cannot happen)
		}
	case *ast.CallExpr:
		if id, ok := ast.Unparen(p.Fun).(*ast.Ident); ok && len(p.Args) > 0 && ast.Unparen(p.Args[0]) == sel {
			if _, isBuiltin := in.info.Uses[id].(*types.Builtin); isBuiltin {
				switch id.Name {
				case "delete", "clear":
					mode, fn = "w", "WP"
				case "len":
				default:
					escape = true
				}
			} else {
				escape = true
			}
		} else {
			escape = true
		}
	case *ast.RangeStmt:
		if ast.Unparen(p.X) != sel {
			escape = true
		} else if simpleExpr(sel.X) && p.Body != nil {
			// the lock has to be held during the whole loop: one more read event per iteration
			in.insert(p.Body.Lbrace+1, fmt.Sprintf(" zzvlk.RP(&%s, %q, %d, %q);", in.text(sel), mf.Class, off, in.rel(p.Body.Lbrace)), false)
		}
	case *ast.AssignStmt:
		if isLHS(p, sel) {
			mode, fn, deref = "w", "AP", true
		} else {
			escape = true
		}
	case *ast.BinaryExpr:
		// comparison with nil
	case *ast.UnaryExpr:
		if p.Op == token.AND {
			mf.Escapes = append(mf.Escapes, site+" (address taken)")
			mf.Skipped = append(mf.Skipped, site+": address of the field taken")
			return
		}
		escape = true
	default:
		escape = true
	}
	if escape {
		mf.Escapes = append(mf.Escapes, site)
	}
	pre := "zzvlk." + fn + "(&"
	if deref {
		pre = "*" + pre
	}
	in.insert(sel.Pos(), pre, false)
	in.insert(sel.End(), fmt.Sprintf(", %q, %d, %q)", mf.Class, off, site), true)
	in.m.MapAccess++
	if mode == "w" {
		mf.Writes++
	} else {
		mf.Reads++
	}
	mf.Accesses = append(mf.Accesses, mode+" "+site)
}

// text returns the source text of a simple expression (identifiers, selectors, stars, parens only).
func (in *inst) text(e ast.Expr) string {
	switch x := e.(type) {
	case *ast.Ident:
		return x.Name
	case *ast.SelectorExpr:
		return in.text(x.X) + "." + x.Sel.Name
	case *ast.ParenExpr:
		return "(" + in.text(x.X) + ")"
	case *ast.StarExpr:
		return "*" + in.text(x.X)
	}
	die("internal: text of a non-simple expression")
	return ""
}
