"""Parser for TLA+ values as printed by TLC (dump files, -simulate files, dot labels, error traces).

  integers, strings, TRUE/FALSE, model values (bare identifiers), sets {..}, intervals a..b,
  sequences <<..>>, records [a |-> v, ..], functions (k :> v @@ k :> v)

Python image:  set -> list (sorted when elements are comparable)    sequence -> list
               record -> dict    function -> dict keyed by str(key) (ints become "3")
               model value -> its name as a string
"""
import re

_tok = re.compile(r'''\s*(?:
    (?P<int>-?\d+) |
    (?P<str>"(?:[^"\\]|\\.)*") |
    (?P<sym><<|>>|\|->|:>|@@|\.\.|[\[\]{}(),]) |
    (?P<id>[A-Za-z_][A-Za-z0-9_!]*)
)''', re.X)


class _P:
    def __init__(self, s):
        self.toks = []
        pos = 0
        s = s.strip()
        while pos < len(s):
            m = _tok.match(s, pos)
            if not m or m.end() == pos:
                raise ValueError("bad TLA value at %r" % s[pos:pos + 40])
            pos = m.end()
            k = m.lastgroup
            self.toks.append((k, m.group(k)))
        self.i = 0

    def peek(self):
        return self.toks[self.i] if self.i < len(self.toks) else (None, None)

    def eat(self, v=None):
        t = self.toks[self.i]
        if v is not None and t[1] != v:
            raise ValueError("expected %r got %r" % (v, t[1]))
        self.i += 1
        return t

    def value(self):
        v = self.atom()
        k, t = self.peek()
        if t == '..':
            self.eat()
            hi = self.atom()
            return list(range(v, hi + 1))
        return v

    def atom(self):
        k, t = self.eat()
        if k == 'int':
            return int(t)
        if k == 'str':
            return bytes(t[1:-1], 'utf-8').decode('unicode_escape')
        if k == 'id':
            if t == 'TRUE':
                return True
            if t == 'FALSE':
                return False
            return t
        if t == '{':
            out = []
            while self.peek()[1] != '}':
                out.append(self.value())
                if self.peek()[1] == ',':
                    self.eat()
            self.eat('}')
            try:
                out.sort()
            except TypeError:
                pass
            return out
        if t == '<<':
            out = []
            while self.peek()[1] != '>>':
                out.append(self.value())
                if self.peek()[1] == ',':
                    self.eat()
            self.eat('>>')
            return out
        if t == '[':
            out = {}
            while self.peek()[1] != ']':
                name = self.eat()[1]
                self.eat('|->')
                out[name] = self.value()
                if self.peek()[1] == ',':
                    self.eat()
            self.eat(']')
            return out
        if t == '(':
            out = {}
            while True:
                key = self.value()
                self.eat(':>')
                out[_key(key)] = self.value()
                if self.peek()[1] == '@@':
                    self.eat()
                    continue
                break
            self.eat(')')
            return out
        raise ValueError("unexpected token %r" % t)


def _key(k):
    if isinstance(k, str):
        return k
    if isinstance(k, bool):
        return "true" if k else "false"
    if isinstance(k, int):
        return str(k)
    import json
    return json.dumps(k, sort_keys=True)


def parse(s):
    p = _P(s)
    v = p.value()
    if p.i != len(p.toks):
        raise ValueError("trailing tokens in %r" % s[:80])
    return v


def parse_state(text):
    """text: '/\\ a = 1\n/\\ b = <<>>' (one conjunct per variable, values may span lines)."""
    out = {}
    parts = re.split(r'(?:^|\n)\s*/\\ ', text.strip())
    for part in parts:
        part = part.strip()
        if not part:
            continue
        name, _, val = part.partition(' = ')
        out[name.strip()] = parse(val)
    return out


def parse_states_file(path):
    """A `tlc -dump file` or `-simulate file=` text file: 'State N:' headers followed by conjuncts."""
    states = []
    cur = []
    with open(path) as f:
        for line in f:
            if line.startswith('State ') and line.rstrip().endswith(':'):
                if cur:
                    states.append(parse_state(''.join(cur)))
                cur = []
            elif line.strip() == '' and not cur:
                continue
            else:
                cur.append(line)
    if cur and ''.join(cur).strip():
        states.append(parse_state(''.join(cur)))
    return states


if __name__ == '__main__':
    import sys, json
    print(json.dumps(parse(sys.argv[1])))
