#!/usr/bin/env python3
"""tools/seedeval.py <PROP> <name> <worktree> <outdir> <pkg-of-demo> [checks...]
Confirms a seeded change (patch + demonstration) in its scratch worktree and runs the given checks against it.
Writes /verif/seeded/<PROP>_<name>/{patch.diff, demo test, meta.json}."""
import sys, os, subprocess, json, shutil, glob, time
ROOT = os.path.dirname(os.path.dirname(os.path.abspath(__file__)))


def sh(cmd, cwd=None, env=None, timeout=3600):
    e = dict(os.environ, GOFLAGS='-mod=mod', GOPROXY='off', GOTOOLCHAIN='auto')
    e.pop('GOSUMDB', None)
    e.update(env or {})
    p = subprocess.run(cmd, shell=True, cwd=cwd, env=e, stdout=subprocess.PIPE, stderr=subprocess.STDOUT, text=True, timeout=timeout)
    return p.returncode, p.stdout


def main():
    prop, name, wt, outdir, pkg = sys.argv[1:6]
    checks = sys.argv[6:] or [prop]
    dst = os.path.join(ROOT, 'seeded', '%s_%s' % (prop, name))
    os.makedirs(dst, exist_ok=True)
    patch = os.path.join(outdir, 'patch.diff')
    shutil.copy(patch, os.path.join(dst, 'patch.diff'))
    demos = [f for f in glob.glob(os.path.join(outdir, '*_test.go'))]
    for d in demos:
        shutil.copy(d, dst)
    if os.path.exists(os.path.join(outdir, 'notes.txt')):
        shutil.copy(os.path.join(outdir, 'notes.txt'), dst)
    meta = {'property': prop, 'name': name, 'ran': [], 'at': time.strftime('%Y-%m-%d %H:%M')}
    pkgdir = os.path.join(wt, pkg)
    tags = '-tags e2e_testing' if pkg.startswith('e2e') else ''
    demo_names = [os.path.basename(d) for d in demos]
    # 1. state of the worktree: patch applied + demo present
    sh('git checkout -- . && git apply %s' % patch, cwd=wt)
    for d in demos:
        shutil.copy(d, pkgdir)
    rc_with, out = sh('go test -count=1 %s -run "Seed|seed|Demo" . 2>&1 | tail -5' % tags, cwd=pkgdir)
    failed_with = 'FAIL' in out
    # 2. without the patch
    sh('git apply -R %s' % patch, cwd=wt)
    rc_wo, out2 = sh('go test -count=1 %s -run "Seed|seed|Demo" . 2>&1 | tail -5' % tags, cwd=pkgdir)
    pass_without = 'ok' in out2 and 'FAIL' not in out2
    # 3. patch applied, demo removed: existing tests
    sh('git apply %s' % patch, cwd=wt)
    for d in demo_names:
        os.remove(os.path.join(pkgdir, d))
    rc_b, outb = sh('go build ./... 2>&1 | tail -3', cwd=wt)
    pk = './%s/...' % pkg if pkg not in ('.', '') else '.'
    rc_t, outt = sh('go test -count=1 -vet=off %s 2>&1 | tail -4' % ('./...' if os.environ.get('SEED_FULL') else pk), cwd=wt)
    suite_ok = 'FAIL' not in outt and 'FAIL' not in outb
    meta.update({'demo_fails_with_change': failed_with, 'demo_passes_without': pass_without, 'existing_tests_pass_with_change': suite_ok,
                 'demo_output_with': out[-600:], 'suite_output': outt[-400:]})
    # 4. our checks against the worktree (patch applied, no demo file)
    for c in checks:
        t = time.time()
        rc, o = sh('VERIF_REPO=%s bin/check %s quick 2>&1 | tail -6' % (wt, c), cwd=ROOT, timeout=7200)
        lines = [l for l in o.split('\n') if 'VIOLATION' in l or 'exit' in l or l.startswith('  ')]
        verdict = 'caught' if 'exit 1' in o else ('missed' if 'exit 0' in o else 'undecided(exit 2)')
        meta['ran'].append({'check': 'VERIF_REPO=<worktree with patch> bin/check %s quick' % c, 'verdict': verdict, 'wall_s': round(time.time() - t),
                            'output': '\n'.join(lines)[-900:]})
    with open(os.path.join(dst, 'meta.json'), 'w') as f:
        json.dump(meta, f, indent=1)
    print(json.dumps({k: meta[k] for k in ('demo_fails_with_change', 'demo_passes_without', 'existing_tests_pass_with_change')}),
          [(r['check'].split()[-2], r['verdict']) for r in meta['ran']])


if __name__ == '__main__':
    main()
