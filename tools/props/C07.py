"""C07 — a rejected handshake message never wedges the handshake (spec/Handshake.tla; shared code in C05.py)."""
import json, os, random, re
from tools import tlaval
from tools.check import MachineryError
from tools.props import C05 as hs

RULE = ("MC: TLC checks C07_RejectClean on Handshake.tla (Impl=\"spec\": where a failed ReadMessage touched live Noise state the Machine "
        "either leaves it untouched or marks itself failed) for every truncation point, token flip/substitution, invalid ephemeral/static, "
        "cross-stage and cross-session replay, API misuse; the model of the library as vendored (Impl=\"asis\") must be refuted. R: for the "
        "graph's states, each junk delivery J and each completing genuine delivery g: [path,g] vs [path,J,g] on real Machines, 2 curves x 2 "
        "ciphers; distinct = (combo, state, J, g). T: seeded random schedules with byte-level junk, then every usable machine must "
        "complete with a fresh honest peer and every failed one refuse everything. M (HandshakeManager level, spec/HsReject.tla in vector "
        "mode): situations {initiator awaiting stage 2 direct / through a relay / either, responder before stage 1 direct / through a relay, "
        "responder that has answered} x rejected message R (every delivery operation of Handshake.tla on the genuine message, the reader's "
        "own message reflected, stage 1 / stage 2 of another session, garbage; header index/counter/subtype treatments the manager routes on) "
        "x source {the peer's underlay address, a foreign underlay address, through the relay}, with the outcomes the statement allows computed "
        "by TLC from the Machine model; complete nodes in a synctest bubble run each vector against the undisturbed world: R is a stutter step "
        "of every node's projected state (tunnels, pending, remote, learned addresses, lighthouse cache, relays, relay records) and after the "
        "genuine message state and all later emissions equal the undisturbed run's; distinct = (situation, genuine path, source, R class)")
ASSUMPTIONS = [
    "'the genuine message' = any stored unmodified message from which the specification lets the machine complete in that state",
    "'exactly as if the rejected message had never arrived' compares the real run with junk against the real run without it on: error, "
    "Failed(), completion, remote certificate identity and version, own certificate version, message count, non-zero indexes, and for a "
    "responder whether the initiator completes with its answer and both directions decrypt",
    "a junk message that the code accepts (no error) is C05's subject, not C07's",
    "ChannelBinding() before/after is recorded as a diagnostic only; verdicts come from outcomes",
    "manager level: 'exactly as if the rejected message had never arrived' is compared on the projected state of all nodes and on the "
    "emissions after the genuine message by role (random tunnel indexes named by owner/peer, underlay addresses by node), without "
    "ciphertext, message counters and liveness flags (a rejected message that came through the relay legitimately consumes a counter of "
    "the relay tunnel); a message that makes the pending Machine report failed may instead abandon the pending handshake, the genuine "
    "message then completes nothing",
    "manager level: Curve25519/AES-GCM v2 certificates, no remote allow list, one relay; the quick tier runs a seeded sample with every "
    "(situation, genuine path, source) x (route, base, header treatment, Machine outcome) class at least once",
]


# ---------------------------------------------------------------------------------------------- manager level
MGR_OPS = ["id", "short", "hdr", "in_e", "after_e", "in_s", "after_s", "in_p", "flip_s", "flip_p", "idx", "sub_e", "bad_e", "splice_e", "splice_p"]
MGR_CFG = ("SPECIFICATION RSpec\nCONSTANTS\n  HI = {\"I1\", \"I2\"}\n  HR = {\"R1\", \"R2\"}\n  AI = {}\n  AR = {}\n  AdvIds = {\"M\"}\n"
           "  VerCfgs = {1}\n  Ops = %s\n  PKinds = {\"full\"}\n  SKinds = {\"own\"}\n  Misuse = FALSE\n  Scns = {\"all\"}\n  Impl = \"spec\"\n"
           "  Budget = 0\nINVARIANTS TypeOK VecOK ScriptOK C07_RejectClean\nCHECK_DEADLOCK FALSE\n" % hs._set(MGR_OPS))
_vec = re.compile(r'/\\ vec = (\[.*?\])\n(?:/\\|\n|$)', re.S)


def mgr_vectors(ctx):
    """HsReject.tla in vector mode: S x R x source with the outcomes the statement allows (only `vec` is read from the dump)."""
    dump = os.path.join(ctx.spec_dir(), 'vec_hsreject')
    ctx.tlc('HsReject', 'MC_HsReject_run.cfg', args=['-dump', dump], cfgtext=MGR_CFG, timeout=900)
    path = dump + '.dump' if os.path.exists(dump + '.dump') else dump
    with open(path) as f:
        txt = f.read()
    os.remove(path)
    vecs = [tlaval.parse(m.group(1)) for m in _vec.finditer(txt)]
    vecs = [v for v in vecs if v['sit'] and v['op']]      # (states of phase 45 carry only situation/base/header)
    if not vecs:
        raise MachineryError('HsReject.tla produced no vectors')
    keyf = lambda v: (v['sit'], v['gvia'], v['path'], v['base'], v['hdr'], v['op'], v['arg'])
    vecs.sort(key=keyf)         # TLC's dump order is not deterministic
    return vecs


def mgr_sample(vecs, rnd, per_class, extra_pending, drops):
    """Per (situation, genuine path, source of R): one vector of every class (route, base, header treatment, Machine
    outcomes) -- `drops` of those the manager never hands to a Machine -- plus extra_pending more that reach the pending Machine."""
    combos = {}
    for v in vecs:
        combos.setdefault((v['sit'], v['gvia'], v['path']), []).append(v)
    out = []
    for ck in sorted(combos):
        classes = {}
        for v in combos[ck]:
            classes.setdefault((v['route'], v['base'], v['hdr'], tuple(v['kinds'])), []).append(v)
        chosen, dropped = [], []
        for k in sorted(classes):
            pick = rnd.sample(classes[k], min(per_class, len(classes[k])))
            (dropped if k[0] == 'drop' else chosen).extend(pick)
        chosen += rnd.sample(dropped, min(drops, len(dropped)))
        ids = {id(v) for v in chosen}
        rest = [v for v in combos[ck] if v['route'] == 'pending' and id(v) not in ids]
        chosen += rnd.sample(rest, min(extra_pending, len(rest)))
        out += chosen
    return out


def run_mgr(ctx):
    vecs = mgr_vectors(ctx)
    rnd = random.Random(ctx.seed * 7919 + 7)
    if ctx.quick:
        pick = mgr_sample(vecs, rnd, 1, 2, 2)
    else:
        pick = list(vecs)       # every vector
    if os.environ.get('VERIF_C07_MGR_MAX'):
        pick = rnd.sample(pick, min(len(pick), int(os.environ['VERIF_C07_MGR_MAX'])))
    pick.sort(key=lambda v: (v['sit'], v['gvia']))
    with open(os.path.join(ctx.scratch, 'c07_vectors.ndjson'), 'w') as f:
        for v in pick:
            f.write(json.dumps(v, separators=(',', ':')) + '\n')
    ctx.extra['manager_vectors'] = {'specified': len(vecs), 'run': len(pick)}
    res = ctx.gotest('e2e', 'TestVerif_C07Mgr', tags='verif e2e_testing', also=('net',), timeout=900 if ctx.quick else 3000)
    hs.finish(ctx, res, 'manager')
    acts = res.get('actions') or {}
    if acts.get('unrealisable', 0) * 10 > len(pick):
        raise MachineryError('manager stage: %d of %d vectors could not be built in the real world' % (acts.get('unrealisable', 0), len(pick)))
    return res


MGR_GUARDS = ['sit:init_direct', 'sit:init_relay', 'sit:init_both', 'sit:resp_fresh', 'sit:resp_relay', 'sit:resp_answered',
              'from:peer', 'from:foreign', 'from:relay', 'route:pending', 'route:fresh', 'route:drop', 'outcome:same',
              'base:genuine', 'base:own', 'base:other1', 'base:other2', 'base:garbage',
              # a rejected message from a foreign underlay address / through the relay met a pending handshake whose genuine
              # message then came the other way
              'init_direct:g-direct:from-foreign', 'init_relay:g-relay:from-foreign', 'init_relay:g-relay:from-peer',
              'init_relay:g-relay:from-relay', 'init_both:g-relay:from-foreign', 'init_both:g-direct:from-relay',
              'init_both:g-direct:from-foreign', 'resp_relay:g-relay:from-foreign', 'resp_fresh:g-direct:from-foreign']


def run(ctx):
    if os.environ.get('VERIF_C07_STAGE') == 'mgr':      # development only
        run_mgr(ctx)
        if not ctx.violations:
            ctx.require_actions(*MGR_GUARDS)
        return
    base = dict(HI=("I1",), HR=("R1",), AR=("XR",), adv=("M",), ops=hs.ALL_OPS, pk=("full", "empty"), sk=("own", "bad"), misuse=True)
    vcs = (1,) if ctx.quick else (1, 2, 3)
    graphs = [hs.build_graph(ctx, 'c07', hs.cfg(vcs=vcs, **base))]
    hs.asis_refuted(ctx, hs.cfg(vcs=(1,), impl="asis", budget=2, **base))
    if not ctx.quick:   # two sessions per side, junk spliced across sessions: invariants only
        ctx.tlc('Handshake', 'MC_Handshake_c07_big_run.cfg', timeout=1500,
                cfgtext=hs.cfg(HI=("I1", "I2"), HR=("R1", "R2"), AR=("XR",), adv=("M",), vcs=(1,), sk=("own", "bad"),
                               ops=["id", "after_e", "in_s", "after_s", "bad_e", "splice_e"]))
    plan = {'graphs': graphs, 'limit': 2500 if ctx.quick else 60000, 'random': 200 if ctx.quick else 4000, 'length': 40}
    with open(os.path.join(ctx.scratch, 'c07_plan.json'), 'w') as f:
        json.dump(plan, f)
    res = ctx.gotest('handshake', 'TestVerif_C07', also=('hs',), timeout=1500)
    hs.finish(ctx, res, 'harness')
    run_mgr(ctx)
    if not ctx.violations:      # vacuity only matters for a run that reports no disagreement
        ctx.require_actions(*MGR_GUARDS)
        ctx.require_actions('scenario', 'junk:truncated-after-ephemeral', 'junk:truncated-inside-static', 'junk:ephemeral-all-zero',
                        'junk:ephemeral-low-order', 'junk:ephemeral-off-curve', 'junk:payload-bit-flip', 'junk:truncated-header-only',
                        'T:Deliver', 'T:settle')


META = {
    'category': 'model_checking',
    'technique': 'TLA+ spec Handshake.tla with flynn/noise checkpoint/rollback modelled per token as implemented; TLC invariant C07_RejectClean '
                 '(and refutation of the as-vendored variant); junk-then-genuine scenarios generated from the state graph and executed on real '
                 'Machines against the undisturbed run; seeded random junk schedules; HsReject.tla (vector mode over situation x rejected '
                 'message x source, outcomes from the Machine model) run differentially on complete nodes in a synctest bubble',
    'text': 'The model distinguishes the ReadMessage error exits that restore ck/h from those that return after tokens were mixed. Under the '
            'specification (state untouched or Machine failed) TLC proves that after a rejection every genuine message still yields the same '
            'result and that a failed Machine refuses everything. The harness delivers each junk class at each reachable state to real Machines, '
            'then the genuine message, and compares with the run without junk.',
    'design_ref': '3.2 C07',
    'note': 'Manager level: spec/HsReject.tla vectors on complete nodes (harness/e2e/zz_verif_c07_test.go); side effects of continueHandshake/'
            'beginHandshake applied before the message is authenticated show up as a non-stutter rejected step.',
}
