"""C07 — a rejected handshake message never wedges the handshake (spec/Handshake.tla; shared code in C05.py)."""
import json, os
from tools.props import C05 as hs

RULE = ("MC: TLC checks C07_RejectClean on Handshake.tla (Impl=\"spec\": where a failed ReadMessage touched live Noise state the Machine "
        "either leaves it untouched or marks itself failed) for every truncation point, token flip/substitution, invalid ephemeral/static, "
        "cross-stage and cross-session replay, API misuse; the model of the library as vendored (Impl=\"asis\") must be refuted. R: for the "
        "graph's states, each junk delivery J and each completing genuine delivery g: [path,g] vs [path,J,g] on real Machines, 2 curves x 2 "
        "ciphers; distinct = (combo, state, J, g). T: seeded random schedules with byte-level junk, then every usable machine must "
        "complete with a fresh honest peer and every failed one refuse everything")
ASSUMPTIONS = [
    "'the genuine message' = any stored unmodified message from which the specification lets the machine complete in that state",
    "'exactly as if the rejected message had never arrived' compares the real run with junk against the real run without it on: error, "
    "Failed(), completion, remote certificate identity and version, own certificate version, message count, non-zero indexes, and for a "
    "responder whether the initiator completes with its answer and both directions decrypt",
    "a junk message that the code accepts (no error) is C05's subject, not C07's",
    "ChannelBinding() before/after is recorded as a diagnostic only; verdicts come from outcomes",
]


def run(ctx):
    base = dict(HI=("I1",), HR=("R1",), AR=("XR",), adv=("M",), ops=hs.ALL_OPS, pk=("full", "empty"), sk=("own", "bad"), misuse=True)
    vcs = (1,) if ctx.quick else (1, 2, 3)
    graphs = [hs.build_graph(ctx, 'c07', hs.cfg(vcs=vcs, **base))]
    hs.asis_refuted(ctx, hs.cfg(vcs=(1,), impl="asis", budget=2, **base))
    if not ctx.quick:   # two sessions per side, junk spliced across sessions: invariants only
        ctx.tlc('Handshake', 'MC_Handshake_c07_big_run.cfg', timeout=1500,
                cfgtext=hs.cfg(HI=("I1", "I2"), HR=("R1", "R2"), AR=("XR",), adv=("M",), vcs=(1,), sk=("own", "bad"),
                               ops=["id", "after_e", "in_s", "after_s", "bad_e", "splice_e"]))
    plan = {'graphs': graphs, 'limit': 2500 if ctx.quick else 60000, 'random': 200 if ctx.quick else 4000, 'length': 40}
    with open(os.path.join(ctx.scratch, 'c07_plan.json'), 'w') as f:
        json.dump(plan, f)
    res = ctx.gotest('handshake', 'TestVerif_C07', also=('hs',), timeout=1500)
    hs.finish(ctx, res, 'harness')
    if not ctx.violations:      # vacuity only matters for a run that reports no disagreement
        ctx.require_actions('scenario', 'junk:truncated-after-ephemeral', 'junk:truncated-inside-static', 'junk:ephemeral-all-zero',
                        'junk:ephemeral-low-order', 'junk:ephemeral-off-curve', 'junk:payload-bit-flip', 'junk:truncated-header-only',
                        'T:Deliver', 'T:settle')


META = {
    'category': 'model_checking',
    'technique': 'TLA+ spec Handshake.tla with flynn/noise checkpoint/rollback modelled per token as implemented; TLC invariant C07_RejectClean '
                 '(and refutation of the as-vendored variant); junk-then-genuine scenarios generated from the state graph and executed on real '
                 'Machines against the undisturbed run; seeded random junk schedules',
    'text': 'The model distinguishes the ReadMessage error exits that restore ck/h from those that return after tokens were mixed. Under the '
            'specification (state untouched or Machine failed) TLC proves that after a rejection every genuine message still yields the same '
            'result and that a failed Machine refuses everything. The harness delivers each junk class at each reachable state to real Machines, '
            'then the genuine message, and compares with the run without junk.',
    'design_ref': '3.2 C07',
    'note': 'Manager level (continueHandshake keeps the pending entry when Failed()==false) is not driven here; it inherits the Machine verdict.',
}
