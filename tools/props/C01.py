"""C01 — certificate acceptance equals the documented trust rule (spec/CertTrust.tla)."""
import json, os, random, re
from tools import tours, tlaval

RULE = ("V: every (certificate, pool) vector of CertTrust.tla's lattice (time sweep over all NotBefore/NotAfter pairs, "
        "groups x networks x unsafe networks x window crossed, all pairs of small network sets, IPv6/mixed, signature forms x "
        "pools x curves x isCA) is one TLC state with the trust rule's verdict for every blocklist row and every second "
        "0..TMax; each cell is executed on the real VerifyCertificate (every third v2 certificate is issued with details that are "
        "not the canonical encoding of their content - a trailing element this version does not know - and signed over exactly "
        "those bytes: 'the signature verifies under the CA key' is about the bytes as issued) and, for certificates accepted once, on "
        "VerifyCachedCertificate; distinct = (vector, blocklist, time[, cached]). R: one replayed step per edge of TLC's "
        "graph of the cached-check machine. T: seeded random concrete cases (16-bit address universe, dozens of networks and "
        "groups) whose logged verdicts TLC validates against Accept")
ASSUMPTIONS = [
    "times are whole seconds (certificates store seconds): valid at t means NotBefore <= t <= NotAfter",
    "'inside the CA's network ranges' is read per entry (cert.go: 'contained by an entry in this list'): the range of each "
    "network lies inside the range of one CA entry; vectors where only the union of several CA entries covers a network are "
    "left out of the lattice, so neither reading can raise an alarm",
    "an empty CA list (groups, networks, unsafe networks) constrains nothing",
    "the statement does not mention isCA of the presented certificate or blocklisting of the CA: Accept does not depend on them",
    "verdicts are accept/reject; the error kind is compared only where the blocklist is the *only* reason for rejection "
    "(must be ErrBlockListed: connection_manager branches on it) and ErrBlockListed must not appear without a blocklisted form",
    "'re-checking a previously accepted certificate' is read strongly: the cached re-check must equal the full check in every "
    "later trust state and time (blocklist changes, pool replaced, clock advanced), for pools built by AddCA; for pools whose "
    "map key is not the CA's fingerprint (CAPool.CAs is exported) only 'cached accepts => full check accepts' is demanded",
    "the lattice is bounded by the structural rules of C03 (v1 is IPv4 only, host certificates have a network, ...): only "
    "certificates that decode are presented",
    "key material comes from crypto/rand (no verdict depends on it); every mismatch carries the PEM certificates and the time",
]

JOPTS_QUICK = '-XX:TieredStopAtLevel=1'      # short runs: C1 only (JIT warm-up dominates otherwise)


def vectors(ctx, cfgname, cfgtext, out='vectors.ndjson', timeout=2400):
    """Vector mode of CertTrust.tla: initial states are the inputs (m="in"), one step computes the expected result (m="out",
    shared by TLC's workers); only the "out" states are vectors."""
    d = ctx.spec_dir()
    dump = os.path.join(d, 'vec_' + re.sub(r'\W', '_', cfgname))
    ctx.tlc('CertTrust', cfgname, args=['-dump', dump], cfgtext=cfgtext, timeout=timeout,
            java_opts=JOPTS_QUICK if ctx.quick else None)
    path = dump + '.dump' if os.path.exists(dump + '.dump') else dump
    n = 0
    with open(path) as f, open(os.path.join(ctx.scratch, out), 'w') as o:
        for block in re.split(r'^State \d+:\s*$', f.read(), flags=re.M):
            if '/\\ m = "out"' not in block:
                continue
            st = tlaval.parse_state(block)
            rec = {'in': st['in'], 'exp': st['exp']}
            o.write(json.dumps(rec, separators=(',', ':')) + '\n')
            if n % 3001 == 7 and len(ctx.samples) < 3:
                ctx.samples.append({'vector': rec})
            n += 1
    os.remove(path)
    # the dump holds inputs and vectors: count each vector once
    ctx.states -= n
    return n


def cfg_for(ctx, name, tmax):
    s = open(os.path.join(ctx.spec_dir(), name)).read()
    s = s.replace('TMax = 4', 'TMax = %d' % tmax)
    if not ctx.quick:
        s = s.replace('Thorough = FALSE', 'Thorough = TRUE')
    return s


def run(ctx):
    from tools.check import MachineryError
    tmax = 4 if ctx.quick else 5
    n = vectors(ctx, 'Vec_CertTrust_C01_run.cfg', cfg_for(ctx, 'Vec_CertTrust_C01.cfg', tmax))
    ctx.extra['vectors'] = n
    # R: the cached-check machine
    dot = os.path.join(ctx.spec_dir(), 'mach.dot')
    ctx.tlc('CertTrust', 'MC_CertTrust_run.cfg', args=['-dump', 'dot,actionlabels', dot],
            cfgtext=cfg_for(ctx, 'MC_CertTrust.cfg', 4 if ctx.quick else 5).replace('Thorough = TRUE', 'Thorough = FALSE'),
            workers=1,          # one worker: the dump (hence the tours and the mismatch keys of a re-run) is deterministic
            java_opts=JOPTS_QUICK if ctx.quick else None)
    gpath = os.path.join(ctx.scratch, 'c01_machine.json')
    st = tours.build(dot, gpath, max_len=40, rnd=random.Random(ctx.seed), keep_vars={'in', 'exp', 'm'})
    os.remove(dot)
    if st['edges_covered'] != st['edges']:
        raise MachineryError('edge cover of the cached-check machine incomplete: %s' % st)
    g = json.load(open(gpath))
    init = set(g['init'])
    for i, s in enumerate(g['states']):          # certificate and pool table are constant along a behaviour
        if i not in init:
            g['states'][i] = {'m': s['m']}
    json.dump(g, open(gpath, 'w'), separators=(',', ':'))
    ctx.extra['machine_graph'] = st
    plan = {'tmax': tmax, 'graph': 'c01_machine.json', 'random': 400 if ctx.quick else 4000, 'random_ab': 16}
    with open(os.path.join(ctx.scratch, 'c01_plan.json'), 'w') as f:
        json.dump(plan, f)
    res = ctx.gotest('cert', 'TestVerif_C01', also=('certtrust',))
    if res['_rc'] != 0 and not res.get('mismatches'):
        ctx.save('gotest_C01.out', res['_stdout'])
        raise MachineryError('harness failed without a verdict:\n%s' % res['_stdout'][-3000:])
    ctx.take_mismatches(res)
    ctx.traces += st['tours']
    # T: the recorded random cases, validated by TLC against Accept
    cfg = open(os.path.join(ctx.spec_dir(), 'Trace_CertTrust.cfg')).read()
    fails, ok = ctx.validate_traces('Trace_CertTrust', 'Trace_CertTrust_run.cfg',
                                    os.path.join(res['_outdir'], 'c01_trace.ndjson'), cfgtext=cfg, timeout=300,
                                    java_opts=JOPTS_QUICK if ctx.quick else None)
    ctx.traces += ok
    for fl in fails:
        ln = fl['line']
        c = ln.get('c', {})
        ctx.violation('random:full=%s:cached=%s:blocked=%s:v%s:%s:sig=%s' % (ln.get('full'), ln.get('cached'), ln.get('blocked'),
                                                                           c.get('ver'), c.get('curve'), c.get('sig')),
                      'recorded verification #%s (full check accepted=%s, cached re-check=%s, ErrBlockListed=%s) is not what the '
                      'trust rule of CertTrust.tla gives' % (ln.get('n'), ln.get('full'), ln.get('cached'), ln.get('blocked')), fl)
    ctx.require_actions('presented:v2-details-not-canonical-as-signed')
    ctx.require_actions('full:ok', 'full:exp', 'full:caexp', 'full:win', 'full:grp', 'full:net', 'full:unsafe', 'full:sig',
                        'full:noca', 'full:curve', 'full:bl!', 'cached:ok', 'cached:exp', 'cached:caexp', 'cached:bl!',
                        'FullCheck', 'CachedCheck', 'Blocklist', 'Unblock', 'ReplacePool', 'Tick',
                        'random:accepted', 'random:blocklisted')


META = {
    'category': 'model_checking',
    'technique': 'TLA+ spec CertTrust.tla: reference trust rule (Accept/Within) + code-shaped verify/cached-verify machine; TLC '
                 'checks the refinement links on the whole lattice and on the cached-check machine; every vector cell and every '
                 'machine edge is executed on the real CAPool; recorded random concrete verifications are validated by TLC',
    'text': 'The trust rule is written from the statement (closed validity interval, group subset, inclusion of address ranges, '
            'both signature forms against the blocklist). TLC enumerates abstract (certificate, pool) vectors, proves that the '
            'code-shaped verify/checkCAConstraints/cached re-check decide exactly that rule, and emits the verdict for every '
            'blocklist and second; the harness builds real v1/v2 Curve25519/P-256 certificates (also outside their CA, in both S '
            'forms, with stale signatures) and compares VerifyCertificate / VerifyCachedCertificate. The cached-check machine '
            '(verify, blocklist, replace pool, tick, re-check) is replayed edge by edge; random concrete cases beyond the lattice '
            'are judged by TLC.',
    'design_ref': '3.1 C01',
    'note': 'Finite lattice (3-bit address universe embedded order-preservingly into IPv4/IPv6, times 0..TMax, <=2 networks per '
            'list) plus random cases in a 16-bit universe; cryptography itself is trusted (real signatures are made and checked).',
}
