"""C11 — the replay window accepts each counter exactly once when in range (spec/Window.tla)."""
import json, os, random
from tools import tours

RULE = ("R: one replayed step per edge of TLC's state graph of Window.tla (W,B small), each under 4 "
        "concretisations (unscaled; scaled so model word boundaries = real 64-bit word boundaries); distinct = "
        "(graph, map, edge). T: seeded random call sequences on real windows (8192/128/64 slots, incl. a region "
        "ending at 2^64-1) validated line by line by TLC against Window.tla")
ASSUMPTIONS = [
    "TLC integers are 32-bit: counters near 2^64 are carried in the trace as model values base+x and shifted by the "
    "harness by a multiple of the window length (the rule depends only on order, differences < W and residues mod W)",
    "scaled replay relies on the reference being invariant under i -> k*i-off with W -> k*W",
]
HIGH_BASE = 1 << 30


def run(ctx):
    graphs = [('4_2', 4, 2), ('4_8', 4, 8)] if ctx.quick else [('4_2', 4, 2), ('4_8', 4, 8), ('8_4', 8, 4), ('8_2', 8, 2)]
    plan = {'graphs': [], 'traceW': [8192, 64] if ctx.quick else [8192, 64, 128],
            'traces': 30 if ctx.quick else 150, 'events': 400 if ctx.quick else 1500, 'highBase': HIGH_BASE}
    rnd = random.Random(ctx.seed)
    for name, W, B in graphs:
        dot = os.path.join(ctx.spec_dir(), 'g%s.dot' % name)
        ctx.tlc('Window', 'MC_Window_%s.cfg' % name, args=['-dump', 'dot,actionlabels', dot])
        out = 'graph_%s.json' % name
        st = tours.build(dot, os.path.join(ctx.scratch, out), max_len=60, rnd=rnd, keep_vars={'max', 'seen', 'res'})
        os.remove(dot)
        if st['edges_covered'] != st['edges']:
            raise ctx_error('edge cover incomplete for %s: %s' % (name, st))
        ctx.extra.setdefault('graphs', {})[name] = st
        plan['graphs'].append({'file': out, 'W': W, 'B': B})
    if not ctx.quick:
        ctx.tlc('Window', 'MC_Window_16_4.cfg', timeout=1500)
    with open(os.path.join(ctx.scratch, 'c11_plan.json'), 'w') as f:
        json.dump(plan, f)
    res = ctx.gotest('.', 'TestVerif_C11')
    ctx.take_mismatches(res)
    ctx.traces += sum(st['tours'] for st in ctx.extra['graphs'].values())
    for W in plan['traceW']:
        cfg = open(os.path.join(ctx.spec_dir(), 'Trace_Window.cfg')).read().replace('W = 8192', 'W = %d' % W)
        fails, ok = ctx.validate_traces('Trace_Window', 'Trace_Window_%d.cfg' % W,
                                        os.path.join(res['_outdir'], 'trace_W%d.ndjson' % W), cfgtext=cfg)
        ctx.traces += ok
        for fl in fails:
            ln = fl['line']
            i = ln.get('i', 0)
            region = 'high' if i >= HIGH_BASE else 'low'
            ctx.violation('trace:%s:%s:W%d' % (ln.get('ev'), region, W),
                          'recorded call %s is not a behaviour of Window.tla (window %d; counter %s)' %
                          (json.dumps(ln), W, ('2^64-%d' % (4 * W - (i - HIGH_BASE))) if region == 'high' else i),
                          fl)
    ctx.require_actions('Update', 'Check', 'T:Update')


def ctx_error(msg):
    from tools.check import MachineryError
    return MachineryError(msg)

META = {
    'category': 'model_checking',
    'technique': 'TLA+ spec Window.tla: TLC exhaustive refinement check (bitmap machine vs set reference); every state-graph '
                 'edge replayed on real Bits (scaled to 64-bit word boundaries); recorded traces of real 8192/128/64-slot '
                 'windows (incl. counters up to 2^64-1) validated by TLC',
    'text': 'TLC proves on small windows (W in 4..16, word sizes 2..8) that the word-packed circular bitmap machine refines the '
            'set-based rule of the statement for all call sequences; every transition of that graph is then executed on the real '
            'Bits and its result, highest counter and Check of every counter in a band compared; beyond the model bounds, seeded '
            'call sequences on production-size windows are recorded and accepted or rejected by TLC against the same spec.',
    'design_ref': '3.4 C11',
    'note': 'Trusts TLC, the tours/trace tooling in /verif/tools, and the scaling arguments listed under assumptions. '
            'Metrics counters (lost/dupe) are not part of the property.',
}
