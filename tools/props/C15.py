"""C15 — relays never see or alter end-to-end traffic (spec/RelayE2E.tla, whole nodes)."""

RULE = ("V: RelayE2E.tla enumerates what a (lying) relay forwards to the target: sender x inner alteration (none, single-bit "
        "flips (quick: one in every byte of the clear-text inner header + 5 in ciphertext/tag; thorough: all 128 header bits + every bit "
        "of ciphertext and tag), clear-text type/subtype rewritten to handshake, nested relay, lighthouse, test request/reply, close "
        "tunnel, control, fresh counter over the genuine ciphertext, truncation, splice with another endpoint's ciphertext, "
        "replay, garbage) x relay record used (the sender's "
        "or another endpoint's). Each vector is executed on 4 complete nodes in a synctest bubble with the harness re-wrapping "
        "real inner packets under the relay's real hop keys; address attribution: after the target learned a direct address for a "
        "relayed peer, frames of the peer that come through the relay must not move the tunnel to the relay's address; distinct = vectors")
ASSUMPTIONS = [
    "the lying relay is played with the real relay node's hop keys and relay records (in-package access); it cannot mint "
    "relay records that the endpoints never negotiated (that is C39)",
    "attribution is observed at the tun output (source address, payload) and at the replay-window top of each tunnel of the target",
    "'never holds the plaintext' is observed as: no datagram entering or leaving the relay node contains the payload bytes",
]


def run(ctx):
    import os
    cfg = open(os.path.join(os.path.dirname(os.path.dirname(os.path.dirname(os.path.abspath(__file__)))), 'spec', 'Vec_RelayE2E.cfg')).read()
    if not ctx.quick:
        cfg = cfg.replace('QuickBits', 'AllBits')
    n = ctx.tlc_vectors('MC_RelayE2E', 'Vec_RelayE2E.cfg', cfgtext=cfg)
    res = ctx.gotest('e2e', 'TestVerif_C15', tags='verif e2e_testing', also=('net',), timeout=600 if ctx.quick else 1500)
    ctx.take_mismatches(res)
    if res.get('actions', {}).get('uncaptured'):
        from tools.check import MachineryError
        raise MachineryError('relayed tunnel could not be established in the scenario: %s' % str(res.get('extra'))[:1500])
    # address attribution: a relayed frame never moves the endpoint's underlay address to the relay's
    res2 = ctx.gotest('e2e', 'TestVerif_C15Roam', tags='verif e2e_testing', also=('net',), timeout=300, name='roam')
    ctx.take_mismatches(res2)
    if not ctx.violations:
        ctx.require_actions('roam:direct-address-learned', 'roam:relayed-frame-after-direct', 'roam:address-kept')
    ctx.require_actions('alter:none', 'alter:flipbit', 'flip:header', 'alter:splice', 'alter:replayed', 'alter:newcounter', 'alter:recverr_self', 'alter:recverr_third', 'retype:80', 'retype:64', 'retype:96',
                        'claim:other', 'claim:own')


META = {
    'category': 'model_checking',
    'technique': 'TLA+ function specification RelayE2E.tla (attribution by authenticating key, altered inner packets dropped) '
                 'enumerated by TLC; each vector executed on complete nodes in a synctest bubble with the harness acting as a '
                 'lying relay that holds the real hop keys',
    'text': 'The specification says a relayed packet is attributed to the endpoint whose tunnel key opens the inner packet, whatever '
            'relay record carries it, and that any inner packet the relay touched is dropped without effect; on real nodes the '
            'harness re-wraps captured inner packets (altered, spliced, replayed, under the other endpoint\'s relay record) with '
            'the relay\'s own keys and checks tun output, per-tunnel accounting, unchanged state, no answer and a still working tunnel on drops, bit-exact forwarding by '
            'the honest relay and absence of the plaintext in everything the relay handles.',
    'design_ref': '3.4 C15',
    'note': 'Terminal relays only (the target is the last hop); relay re-establishment is covered by C39\'s histories.',
}
