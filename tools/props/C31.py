"""C31 — concurrent handshakes converge to one working tunnel (spec/Converge.tla, whole nodes)."""
import os, json, random
from tools import tlaval

RULE = ("MC: Converge.tla (two nodes, both handshakes, delivery in any order with loss/duplication of single copies, data in "
        "between; connection-manager checks with traffic in both directions) -- safety: at most one node swaps; every "
        "environment history of the handshake phase is exported. R: each history (quick: a seeded sample) replayed on two "
        "complete nodes in a synctest bubble with the real connection manager on virtual time; hostmap after the handshake "
        "phase compared with the model, then 90 quiet seconds with traffic both ways and the statement's oracle on the real "
        "nodes (flow, swaps, single matching tunnel); histories that end with GiveUp (an incomplete handshake whose copies "
        "and retransmissions are lost until the initiator gives up) are followed by 90 silent seconds, or by traffic with "
        "handshake datagrams lost for 25 s, and then inside packets must get through again; distinct = histories")
ASSUMPTIONS = [
    "'once the network is quiet' = either every started handshake has completed on both sides (single copies may be lost or "
    "duplicated), or (GiveUp) an incomplete one is abandoned by its initiator after all its datagrams were lost; "
    "the steady phase follows one of three traffic patterns (continuous; 7 s silent, 3 s traffic, 45 s silent; 12 s silent, 40 s traffic, 25 s silent); connection_alive_interval 5 s, pending_deletion_interval 10 s",
    "a swap is observed as a change of the primary at a node while its set of tunnels is unchanged",
    "the convergence clause is decided on the real nodes (oracle at the end of the quiet period); the model's own liveness is "
    "not claimed: Converge.tla abstracts check timing too coarsely to prove it",
    "recv_error is off in the scenario",
]


def run(ctx):
    cfg = open(os.path.join(ctx.spec_dir(), 'MC_Converge_hist.cfg')).read()
    if not ctx.quick:
        cfg = cfg.replace('MaxHist = 8', 'MaxHist = 9')
    d = ctx.spec_dir()
    dump = os.path.join(d, 'converge_states')
    ctx.tlc('Converge', 'MC_Converge_run.cfg', cfgtext=cfg, args=['-dump', dump])
    ctx.tlc('Converge', 'MC_Converge_live.cfg', cfgtext=open(os.path.join(d, 'MC_Converge_live.cfg')).read().replace('PROPERTIES Convergence\n', ''))
    path = dump + '.dump' if os.path.exists(dump + '.dump') else dump
    cases = {}
    for st in tlaval.parse_states_file(path):
        h = st['hist']
        if h and h[-1] in ('Settle', 'GiveUp'):
            cases[tuple(h)] = {'hist': h, 'ta': st['ta'], 'tb': st['tb'], 'pa': st['pa'], 'pb': st['pb'], 'dropped': st['dropped']}
    os.remove(path)
    keys = sorted(cases)
    rnd = random.Random(ctx.seed)
    limit = int(os.environ.get('VERIF_C31_LIMIT', 450)) if ctx.quick else 100000
    if len(keys) > limit:
        # keep every history in which both nodes initiate and a stage-1 datagram overtakes ... plus a seeded sample
        gave = [k for k in keys if k[-1] == 'GiveUp']
        keys = [k for k in keys if k[-1] != 'GiveUp']
        both = [k for k in keys if 'StartA' in k and 'StartB' in k]
        rnd.shuffle(both)
        rest = [k for k in keys if k not in set(both)]
        rnd.shuffle(rest)
        rnd.shuffle(gave)
        # (sorted, so that neighbours differ in the tail and the alternating traffic patterns spread over the histories)
        keys = sorted(both[:limit * 4 // 9] + rest[:limit * 2 // 9]) + sorted(gave[:limit // 3])
    ctx.extra['histories_total'] = len(cases)
    ctx.extra['histories_replayed'] = len(keys)
    with open(os.path.join(ctx.scratch, 'c31_cases.ndjson'), 'w') as f:
        for k in keys:
            f.write(json.dumps(cases[k]) + '\n')
    res = ctx.gotest('e2e', 'TestVerif_C31', tags='verif e2e_testing', also=('net',), timeout=900 if ctx.quick else 2400)
    ctx.take_mismatches(res)
    if not ctx.violations:
        ctx.require_actions('StartA', 'StartB', 'Deliver:hs1x', 'Deliver:hs2y', 'DataA', 'double-tunnel-case', 'swap-observed', 'give-up', 'GiveUp')


META = {
    'category': 'model_checking',
    'technique': 'TLA+ spec Converge.tla (simultaneous handshakes + connection-manager swap/delete rules) checked by TLC; every '
                 'handshake-phase history of the model replayed on two complete nodes in a synctest bubble with virtual time, '
                 'hostmaps compared with the model and the statement evaluated on the real nodes after a quiet period',
    'text': 'TLC enumerates who initiates and every delivery order, loss and duplication of the four handshake datagrams with '
            'data in between; each history is executed on real nodes (state after the handshake phase must equal the model\'s), '
            'then both nodes exchange traffic for 90 virtual seconds while the real connection managers run, and flow of data, '
            'the nodes that swapped their primary and the final single matching tunnel are checked.',
    'design_ref': '3.3 C31',
    'note': 'Two-node scenario, static hosts. Convergence is an oracle on the real code, not a model-level proof.',
}
