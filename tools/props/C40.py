"""C40 — multipath routing is deterministic and weight-proportional (spec/Balance.tla: exhaustive model + observations)."""
import json, os

RULE = ("MC: every gateway list with <=4 gateways and weights 1..6 (thorough: <=5, 1..7) over a hash space of 2^8: the code's "
        "hash-threshold formula and first-fit walk satisfy the statement's relation (monotone, exact cover, every hash in exactly "
        "one bucket, share = exact share rounded down or up, choice a function of the port pair), and the wide-arithmetic form "
        "of the relation agrees with the integer form. V/T: each of these lists scaled x1/x1000/x(2^31-1)/MaxW plus seeded random "
        "lists (1..16 gateways, weights up to 2^31-1) through the real CalculateBucketsForGateways/BalancePacket; one TLC state "
        "per observed table judges the relation at H=31 in multi-limb arithmetic; the lists are not in address order and every list "
        "is formatted the way the node's log lines format it (String, %v, slog) between bucket calculation and balancing, which "
        "must leave it unchanged; distinct = distinct weight lists")
ASSUMPTIONS = [
    "'proportional up to rounding': each gateway's share of the hash space is its exact share w_i*2^31/sum(w) rounded down or up "
    "(any rounding of the bucket boundaries satisfies it; the code rounds to nearest)",
    "'unrelated packet fields' = everything but the port pair (addresses, protocol, fragment flag), as the code documents its hash; "
    "'same flow, same gateway' = repeated evaluation gives the same gateway",
    "uniformity of the hash function is not part of the statement and is not checked; its range 0..2^31-1 is",
    "gateway lists of any length with weights 1..2^31-1 are reachable from the configuration (overlay/route.go accepts each weight "
    "in 1..MaxInt32 and any number of gateways per route); the harness builds them with NewGateway because package overlay cannot "
    "be imported from an in-package test of package routing",
]


def run(ctx):
    cfg = open(ctx.spec_dir() + '/MC_Balance.cfg').read()
    if not ctx.quick:
        cfg = cfg.replace('MaxGw = 4', 'MaxGw = 5').replace('MaxW = 6', 'MaxW = 7')
    n = ctx.tlc_vectors('Balance', 'MC_Balance_run.cfg', cfgtext=cfg, timeout=1500)
    ctx.extra['model_states'] = n
    res = ctx.gotest('routing', 'TestVerif_C40', env={'C40_MAXW': '6' if ctx.quick else '7'})
    ctx.take_mismatches(res)
    obs = {}
    with open(os.path.join(res['_outdir'], 'obs.ndjson')) as f, open(os.path.join(ctx.spec_dir(), 'obs.ndjson'), 'w') as g:
        for line in f:
            o = json.loads(line)
            obs[o['k']] = {x: o.pop(x) for x in ('weights', 'bounds', 'class', 'src')}
            obs[o['k']]['samples'] = [{'ports': s.pop('ports'), 'hash': s.pop('hash'), 'gateway': s['g']} for s in o['samples']]
            g.write(json.dumps(o, separators=(',', ':')) + '\n')
    m = ctx.tlc_vectors('Trace_Balance', 'Trace_Balance.cfg', out='verdicts.ndjson', sample=1, timeout=1500)
    if m != len(obs):
        from tools.check import MachineryError
        raise MachineryError('Trace_Balance judged %d of %d observations' % (m, len(obs)))
    ctx.traces += m
    classes = {}
    with open(os.path.join(ctx.scratch, 'verdicts.ndjson')) as f:
        for line in f:
            v = json.loads(line)['exp']
            o = obs[v['k']]
            c = o['class']
            classes[c] = classes.get(c, 0) + 1
            what = 'weights %s -> bucket upper bounds %s' % (o['weights'], o['bounds'])
            if not v['wellformed']:
                ctx.violation('bounds:malformed:' + c, what, o)
                continue
            if not v['monotone']:
                ctx.violation('monotone:' + c, 'bucket bounds are not monotone: ' + what, o)
            if not v['covers']:
                ctx.violation('cover:' + c, 'the last bucket does not end at 2^31-1 (gap or overshoot): ' + what, o)
            if v['badshare']:
                ctx.violation('share:' + c, 'share of gateway(s) %s is not its exact share rounded down or up: %s' % (v['badshare'], what), o)
            for j in v['badchoice']:
                s = o['samples'][j - 1]
                ctx.violation('choice:' + c, 'ports %s hash %d went to gateway %d (0 = fallback), which is not the bucket holding the hash: %s'
                              % (s['ports'], s['hash'], s['gateway'], what), o)
    ctx.extra['observed_tables'] = classes
    if not ctx.violations:      # a violation is a verdict; vacuity only matters for a pass
        ctx.require_actions('V', 'T', 'independence', 'boundary-hash', 'buckets:total<2^33-1', 'buckets:total>=2^33-1',
                            'formatted-like-a-log-line')


META = {
    'category': 'model_checking',
    'technique': 'TLA+ specification Balance.tla: relation between weights and bucket ends (reference), hash-threshold formula and '
                 'first-fit walk (machine), exhaustive link at H=8; the same relation in multi-limb arithmetic evaluated by TLC on '
                 'tables computed by the real code at H=31; field-independence by re-evaluating BalancePacket',
    'text': 'Buckets are given by exclusive ends e_i; the statement is Monotone, Covers (e_n = 2^H), every hash in exactly one '
            'bucket, |share_i*sum(w) - w_i*2^H| < sum(w), and the chosen gateway is the bucket holding the port-pair hash. TLC '
            'proves the code\'s formula satisfies this for all small lists and that the limb-arithmetic form of the relation is '
            'equivalent; real tables for scaled and random weight lists (including totals >= 2^33-1, where total*2^31 + total/2 no longer fits 64 bits) are then judged by TLC.',
    'design_ref': '3.10 C40',
}
