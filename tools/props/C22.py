"""C22 — the firewall configuration parses exactly (spec/Firewall.tla: grammar of a rule map, vector mode)."""
from tools.props.C16 import fw_vectors

RULE = ("every rule list of Firewall.tla's configuration lattice (every port/code text x protocol - among them the range over the "
        "whole port space 1-65535, with and without blanks, its neighbours 1-65534 / 2-65535, 0-65535, ranges that touch 1 and "
        "65535 -, each also evaluated on the port pairs of C16: ports inside, on both edges and just outside the ranges, port 0, "
        "packets without ports, tcp/udp/icmp/another protocol; one and two fields of a rule "
        "map deviating in kind (missing/string/int/bool/null/list) or text; lists of two rules, among them pairs whose remote "
        "prefixes are nested and whose node-side prefixes differ, in both orders) is one TLC state with "
        "Loads(cfg) and the verdict sets of Allowed(RulesOf(cfg)); each is rendered as real YAML, loaded through config.C and "
        "NewFirewallFromConfig, and the loaded Firewall is put through the C16 packets; distinct = distinct rule lists")
ASSUMPTIONS = [
    "a port text is 'any', 'fragment', a decimal 0..65535 (0 = any) or two such decimals joined by '-' with start <= end; "
    "everything else must be refused. Not decided by the statement (both load/refuse accepted; if loaded the meaning must be the "
    "natural one): blanks around the bounds of a range, leading zeros, a range starting at 0 (any, or the ports up to the end)",
    "a panic while loading is neither 'loads' nor 'is refused': it violates the property",
    "YAML ints are read as their decimal text (port: 80); for non-string kinds in name fields (int, bool, null, list) and for "
    "empty strings the statement is silent: refusing is accepted, and so is loading with a meaning that admits at most the "
    "peers the text names (never a wildcard)",
    "'at least one selector': host, group(s) or cidr certainly count; a rule with only local_cidr / ca_name / ca_sha may load "
    "(as the code does) or be refused",
    "`code` is a deprecated alias of port: refusing it, using it as the port, or ignoring it next to a port are all accepted",
    "`group` with a list of several values and `group` together with `groups` may be refused or read as all-of",
    "for proto icmp the port field is ignored (examples/config.yml): an invalid port text there may be refused or ignored",
    "CIDR texts are classified (valid / any / bare address / malformed), not parsed character by character",
    "verdict undecided for ICMP packets against proto any rules with a specific port (see C16)",
]


def run(ctx):
    n = fw_vectors(ctx, 'Vec_Firewall_C22.cfg', nsample=1500 if ctx.quick else 0)
    ctx.extra['vectors'] = n
    res = ctx.gotest('.', 'TestVerif_C22', also=('fw',), timeout=1800)
    ctx.take_mismatches(res)
    ctx.traces += n
    ctx.extra['drop_calls'] = (res.get('extra') or {}).get('drops')
    if not ctx.violations:      # a violation is a verdict; vacuity only matters for a pass
        ctx.require_actions('universe', 'loaded', 'refused', 'undecided-loaded', 'undecided-refused', 'allow', 'deny', 'tracked',
                            # port texts at the top of the port space, evaluated on the port pairs (port 0, fragments, edges)
                            'port-pairs', 'port-pairs:1-65535', 'port-pairs:1-65534', 'port-pairs:2-65535', 'port-pairs:0-65535',
                            'port-pairs:91-65535', 'port-pairs:65535')


META = {
    'category': 'model_checking',
    'technique': 'TLA+ grammar of a firewall rule map (character-level port grammar, field kinds, group/groups, code) with '
                 'nondeterministic readings where the statement is silent; TLC checks that parsePort (transcribed) implements a '
                 'reading and that the tables built from RulesOf(cfg) decide Allowed(RulesOf(cfg)); each configuration is '
                 'loaded as real YAML into a real Firewall',
    'text': 'Loads(cfg) and RulesOf(cfg) are defined over tokens; TLC enumerates the lattice and links it to the C16 semantics; the '
            'harness renders YAML, runs NewFirewallFromConfig (convertRule, parsePort, AddRule) under recover and compares '
            'load/refuse/panic and the verdicts of Drop for the C16 packets.',
    'design_ref': '3.7 C22',
    'note': 'Port texts are an explicit list of ~45 strings around the boundaries (65535/65536, hex, sign, blanks, reversed and '
            'partial ranges, values that are 80 modulo 2^16 and 2^32), not all strings.',
}
