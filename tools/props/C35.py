"""C35 — lighthouse information is accepted only from authorised senders (spec/Lighthouse.tla, modes C35V / C35R)."""
import json
from tools.check import MachineryError

RULE = ("V: every row of Lighthouse.tla's gate table (node is/is not a lighthouse x sender's certificate lists no / its primary / "
        "only its secondary address among the configured lighthouses x single / multi-address sender (v4+v4, v4+v6, v6+v4) x "
        "7 message types x claimed address {primary, secondary, another host's, unknown host's, unset} x v1/v2 encoding x "
        "payload {none, v4, v4+v6+relays, other v6 addresses, no Details}) after a legitimate warm-up that stores IPv4 and IPv6 addresses; R: histories of <= 3 messages from a "
        "26-message alphabet (the handler object is reused across the messages of a history as in a reader routine); each executed through LightHouseHandler.HandleRequest on a real LightHouse; messages sent, "
        "punches, punch-back, handshake trigger and the address cache projected after every message; distinct = distinct vectors")
ASSUMPTIONS = [
    "'records addresses for A only from a tunnel authenticated as A' is read as: a host update is recorded only when the address it "
    "claims is unset or one of the sender's certificate addresses, only in lists keyed by the sender's addresses, and every cache "
    "entry is owned by (keyed under) an address of the certificate that sent it",
    "a node that is a lighthouse AND has upstream lighthouses configured may store their answers (owned by the answering "
    "lighthouse, never served to others); the statement's second sentence is applied to it as well",
    "the positive direction (a permitted effect does happen) is machine-level: a difference there is reported as drift "
    "(exit 2), not as a violation",
    "an overlay address belongs to one certificate (histories never use two senders that share an address)",
]


def run(ctx):
    tot = 0
    for mode, out in (('C35V', 'c35v.ndjson'), ('C35R', 'c35r.ndjson')):
        cfg = open(ctx.spec_dir() + '/Vec_Lighthouse_%s.cfg' % mode).read()
        if not ctx.quick:
            cfg = cfg.replace('Thorough = FALSE', 'Thorough = TRUE')
        n = ctx.tlc_vectors('Lighthouse', 'Vec_Lighthouse_%s_run.cfg' % mode, out=out, cfgtext=cfg, timeout=1500, workers=2)
        ctx.extra['vectors_' + mode] = n
        tot += n
    res = ctx.gotest('.', 'TestVerif_C35', also=('lh',))
    if res['_rc'] != 0:
        raise MachineryError('harness failed:\n' + res['_stdout'][-3000:])
    ctx.take_mismatches(res)
    ctx.traces += tot
    drift = (res.get('extra') or {}).get('drift') or []
    if drift and not ctx.violations:
        raise MachineryError('the code differs from Lighthouse.tla\'s machine inside what the statement permits (specification '
                             'out of date?): %s' % json.dumps(drift[0])[:1500])
    if not ctx.violations:      # a violation ends its history early; it is a verdict by itself
        ctx.require_actions('type:Query', 'type:QueryReply', 'type:Update', 'type:Punch', 'type:UpdateAck', 'type:Moved', 'type:Unknown',
                        'effect:store', 'effect:answer', 'effect:ack', 'effect:punch', 'effect:trigger', 'garbage',
                        'file:c35v.ndjson', 'file:c35r.ndjson')


META = {
    'category': 'model_checking',
    'technique': 'TLA+ specification Lighthouse.tla: the four message handlers over an addrMap of shared per-certificate lists with '
                 'per-owner cells (machine) and Permitted / owner-authentication (reference); TLC checks that the machine stays inside '
                 'the reference on every row and history; every vector is executed on a real LightHouse through HandleRequest',
    'text': 'TLC enumerates the gate table and short histories, proves on each that the specified handlers only produce effects the '
            'statement permits and that every cache entry is owned by an address of the sending certificate, and emits the expected '
            'effects and cache; the harness replays the messages into a real LightHouse (built from configuration, recording '
            'EncWriter, punch socket, trigger channel, virtual time) and compares after every message.',
    'design_ref': '3.6 C35',
    'note': 'Role changes by reload are not covered. Certificates are represented by the authenticated address list passed to HandleRequest.',
}
