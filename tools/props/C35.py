"""C35 — lighthouse information is accepted only from authorised senders (spec/Lighthouse.tla, modes C35V / C35R)."""
import json
from tools.check import MachineryError

RULE = ("V: every row of Lighthouse.tla's gate table (node is/is not a lighthouse x sender's certificate lists no / its primary / "
        "only its secondary address among the configured lighthouses x single / multi-address sender (v4+v4, v4+v6, v6+v4) x "
        "7 message types x claimed address {primary, secondary, another host's, unknown host's, unset} x v1/v2 encoding x "
        "payload {none, v4, v4+v6+relays, other v6 addresses, no Details}) after a legitimate warm-up that stores IPv4 and IPv6 addresses, "
        "and every row once more after a configuration reload between warm-up and message that adds the sender to / removes it from "
        "lighthouse.hosts (none/primary/secondary -> none/primary/secondary) and/or flips lighthouse.am_lighthouse in the file (quick: a "
        "1/8 sample of the reload rows (1/40 for UpdateAck, Moved, unknown types) rotated by VERIF_SEED, thorough: all); R: histories of <= 3 steps from an alphabet of 26 messages "
        "and 4 reloads (lighthouse.hosts loses / gains a host, the role flips in the file; all of length 1 and 2, of length 3 a sample "
        "rotated by VERIF_SEED: 1/24 quick, 1/2 thorough); lighthouse.hosts is state of the "
        "specification and Permitted is evaluated against the configuration as of the last reload; a reload step reloads the real "
        "config.C (ReloadConfigString -> the callback NewLightHouseFromConfig registered -> LightHouse.reload) while the SAME "
        "LightHouseHandler object is kept, as in a reader routine; each message executed through LightHouseHandler.HandleRequest on the "
        "real LightHouse; messages sent, punches, punch-back, handshake trigger and the address cache projected after every step; "
        "distinct = distinct vectors")
ASSUMPTIONS_OBJ = [
    "'records addresses for A only from a tunnel authenticated as A' is read as: a host update is recorded only when the address it "
    "claims is unset or one of the sender's certificate addresses, only in lists keyed by the sender's addresses, and every cache "
    "entry is owned by (keyed under) an address of the certificate that sent it",
    "a node that is a lighthouse AND has upstream lighthouses configured may store their answers (owned by the answering "
    "lighthouse, never served to others); the statement's second sentence is applied to it as well",
    "the positive direction (a permitted effect does happen) is machine-level: a difference there is reported as drift "
    "(exit 2), not as a violation",
    "an overlay address belongs to one certificate (histories never use two senders that share an address)",
    "'its configured lighthouses' = lighthouse.hosts as of the last successful reload (LightHouse.reload stores a new list on every "
    "change; tunnels to former lighthouses are deliberately kept, so a removed host can still send); a reload adds the "
    "static_host_map entry a new lighthouse needs in the same file and keeps the entries of former lighthouses",
    "lighthouse.am_lighthouse is NOT reloadable: LightHouse.reload never reads it, the role is the value at start-up "
    "(NewLightHouseFromConfig). A reload whose file flips it is specified as changing nothing (machine level: a difference is drift, "
    "exit 2); at statement level 'configured as a lighthouse' is then read the weaker way (what either role may do is permitted)",
]

from tools.props import _disc as _d
ASSUMPTIONS = ASSUMPTIONS_OBJ + ['system level (Discovery.tla): ' + a for a in _d.ASSUMPTIONS[:4]]


def run(ctx):
    import threading
    ctx.spec_dir()
    counts, errs = {}, []

    def vectors(mode, out):
        try:
            cfg = open(ctx.spec_dir() + '/Vec_Lighthouse_%s.cfg' % mode).read()
            cfg = cfg.replace('Salt = 0', 'Salt = %d' % (ctx.seed % 1000))
            if 'Salt = %d' % (ctx.seed % 1000) not in cfg:
                raise MachineryError('Vec_Lighthouse_%s.cfg has no Salt constant' % mode)
            if not ctx.quick:
                cfg = cfg.replace('Thorough = FALSE', 'Thorough = TRUE')
            counts[mode] = ctx.tlc_vectors('Lighthouse', 'Vec_Lighthouse_%s_run.cfg' % mode, out=out, cfgtext=cfg, timeout=1500, workers=2)
        except BaseException as e:      # re-raised in the main thread
            errs.append(e)

    # the two vector sets are independent: both TLC runs at the same time (initial states are enumerated by one thread each)
    ths = [threading.Thread(target=vectors, args=a) for a in (('C35V', 'c35v.ndjson'), ('C35R', 'c35r.ndjson'))]
    for th in ths:
        th.start()
    for th in ths:
        th.join()
    if errs:
        raise errs[0]
    # (the counters are plain attributes updated by both threads: recompute them from the per-run records)
    ctx.states = sum(r['distinct'] for r in ctx.tlc_runs if r['ok'])
    ctx.transitions = sum(r['generated'] for r in ctx.tlc_runs if r['ok'])
    tot = 0
    for mode in ('C35V', 'C35R'):
        ctx.extra['vectors_' + mode] = counts[mode]
        tot += counts[mode]
    res = ctx.gotest('.', 'TestVerif_C35', also=('lh',))
    if res['_rc'] != 0:
        raise MachineryError('harness failed:\n' + res['_stdout'][-3000:])
    ctx.take_mismatches(res)
    ctx.traces += tot
    drift = (res.get('extra') or {}).get('drift') or []
    if drift and not ctx.violations:
        raise MachineryError('the code differs from Lighthouse.tla\'s machine inside what the statement permits (specification '
                             'out of date?): %s' % json.dumps(drift[0])[:1500])
    # system level: the discovery protocol on complete nodes (spec/Discovery.tla, rules R1-R4 and R6; R5 = destinations is C36's)
    if not ctx.violations:
        from tools.props import _disc
        _disc.mc(ctx)
        dres, tf = _disc.record(ctx)
        ctx.traces += _disc.validate(ctx, tf, only=lambda v: not v.startswith('R5'))
        if not ctx.violations:
            _disc.guards(ctx)
    if not ctx.violations:      # a violation ends its history early; it is a verdict by itself
        ctx.require_actions('type:Query', 'type:QueryReply', 'type:Update', 'type:Punch', 'type:UpdateAck', 'type:Moved', 'type:Unknown',
                        'effect:store', 'effect:answer', 'effect:ack', 'effect:punch', 'effect:trigger', 'garbage',
                        'file:c35v.ndjson', 'file:c35r.ndjson',
                        # lighthouse.hosts is state: messages judged after a reload, by the sender's relation to the old and new set
                        'type:Reload', 'after-reload:from-removed-lighthouse', 'after-reload:from-added-lighthouse',
                        'after-reload:from-lighthouse', 'after-reload:from-peer', 'after-reload:am_lighthouse-flipped-in-file',
                        'after-reload:refused:QueryReply:from-removed-lighthouse', 'after-reload:refused:Punch:from-removed-lighthouse',
                        'after-reload:honoured:QueryReply:from-added-lighthouse', 'after-reload:honoured:Punch:from-added-lighthouse')


META = {
    'category': 'model_checking',
    'technique': 'TLA+ specification Lighthouse.tla: the four message handlers over an addrMap of shared per-certificate lists with '
                 'per-owner cells (machine) and Permitted / owner-authentication (reference); TLC checks that the machine stays inside '
                 'the reference on every row and history; every vector is executed on a real LightHouse through HandleRequest',
    'text': 'TLC enumerates the gate table and short histories, proves on each that the specified handlers only produce effects the '
            'statement permits and that every cache entry is owned by an address of the sending certificate, and emits the expected '
            'effects and cache; the harness replays the messages into a real LightHouse (built from configuration, recording '
            'EncWriter, punch socket, trigger channel, virtual time) and compares after every message.',
    'design_ref': '3.6 C35',
    'note': 'Reloads change lighthouse.hosts (and add static_host_map entries); removal of static_host_map entries and reloads of the '
            'allow lists are not part of the histories. Certificates are represented by the authenticated address list passed to HandleRequest.',
}
