"""C20 — packet classification matches what the host will process (spec/PacketClass.tla, vector mode + judged observations)."""
import json, os, shutil

RULE = ("V: every element of PacketClass.tla's lattice (IPv4: ihl 0..15 x DF/MF/offset x protocol x truncation class; IPv6: all "
        "extension-header chains up to length 2 over 12 header symbols, sampled chains of length 3, structured chains of length "
        "4..10 (12 thorough), x upper protocol x truncation class; other versions) is one TLC state carrying the reference "
        "classification; each is concretised to bytes and run through the real newPacket (both directions) and "
        "IPv6FindUpperProtocol; distinct = distinct vectors. T: seeded random structured packets (random ports/addresses/"
        "lengths, chains up to 14, huge length fields, arbitrary truncation) run the same way, every observation judged by TLC")
ASSUMPTIONS = [
    "extension headers = hop-by-hop(0), routing(43), fragment(44), AH(51), destination options(60) (the statement's list); ESP(50), "
    "no-next-header(59), mobility(135), HIP(139), shim6(140), 253/254 and every other number are upper-layer protocols",
    "ports are compared only where the protocol has them: TCP/UDP ports; ICMP echo (v4 types 0/8, v6 128/129) identifier as remote "
    "port with local port 0; non-first fragments report ports 0/0; all other protocols: port fields not compared",
    "must reject: header or an extension header not completely inside the packet, ihl<5, unknown version, fewer upper-layer bytes than "
    "the reported fields need (4 for ports, 6 for the echo identifier), a non-first fragment whose fragment header names an "
    "extension header as next header (the upper protocol cannot be resolved from that packet)",
    "must classify: complete packets with at most 8 extension headers; rejection is accepted as well when more than 8 extension headers "
    "have to be walked (a bounded walker cannot resolve the chain) and when the upper-layer header is shorter than a minimal one "
    "(TCP 20, others 8 bytes) although the reported fields are present",
    "header length of an IPv6 non-first fragment: the offset of the fragment header or of its end are both accepted",
    "hop-by-hop headers are walked wherever they occur; an atomic fragment (offset 0, M=0) counts as fragmentation (FragAny)",
    "arbitrary byte strings / no-panic on unstructured input are not covered; a panic on a structured packet is a violation",
]


def run(ctx):
    from tools.check import MachineryError
    d = ctx.spec_dir()
    cfg = open(d + '/Vec_PacketClass.cfg').read()
    if not ctx.quick:
        cfg = cfg.replace('Thorough = FALSE', 'Thorough = TRUE')
    # Layer 2 as found in the code at the pinned commit: TLC shows where it leaves the reference. Information only,
    # never a verdict (HOWTO rule 1) - the verdict comes from the real code below.
    if not ctx.quick:
        r = ctx.tlc('PacketClass', 'MC_PacketClass_aswritten.cfg', expect_ok=False, count=False, timeout=600)
        if r['rc'] == 124:
            raise MachineryError('TLC timeout on the as-written model')
        ctx.extra['model_of_walker_as_written'] = {'refines_reference': r['ok'], 'violated': r['violated']}
    n = ctx.tlc_vectors('PacketClass', 'Vec_PacketClass_run.cfg', cfgtext=cfg, timeout=1500)
    ctx.extra['vectors'] = n
    res = ctx.gotest('.', 'TestVerif_C20')
    ctx.take_mismatches(res)
    ctx.traces += n
    # T: observations judged by TLC
    obs = os.path.join(res['_outdir'], 'obs.ndjson')
    lines = {}
    with open(obs) as f:
        for ln in f:
            if ln.strip():
                o = json.loads(ln)
                lines[o['n']] = o
    shutil.copy(obs, os.path.join(d, 'c20_obs.ndjson'))
    m = ctx.tlc_vectors('Trace_PacketClass', 'Trace_PacketClass.cfg', out='obs_verdicts.ndjson', timeout=1500, sample=1)
    if m != len(lines):
        raise MachineryError('TLC judged %d observations, harness wrote %d' % (m, len(lines)))
    ctx.extra['observations'] = m
    per = {}
    with open(os.path.join(ctx.scratch, 'obs_verdicts.ndjson')) as f:
        for ln in f:
            st = json.loads(ln)
            v = st['exp']
            ctx.actions['T:ref:' + v['ref']] += 1
            for part, tag in (('in', ''), ('out', ''), ('walk', '')):
                if v[part] == 'ok':
                    continue
                key = '%s:%s%s' % (v['cls'], tag, v[part])
                per[key] = per.get(key, 0) + 1
                if per[key] <= 2:
                    o = lines[st['in']]
                    ctx.violation(key, 'observation %d (%s): %s of the real code is not what PacketClass.tla allows for packet %s: %s'
                                  % (o['n'], part, 'IPv6FindUpperProtocol' if part == 'walk' else 'newPacket(%s)' % part,
                                     json.dumps(o['pkt']), json.dumps(o['g' + part])), o)
    ctx.traces += m
    ctx.require_actions('v4:plain', 'v4:options', 'v4:ihl-lt5', 'v4:later-fragment', 'v4:first-fragment', 'v6:ext-lt8', 'v6:ext-eq8',
                        'v6:ext-gt8', 'v6:later-fragment', 'v6:later-fragment-of-ext-header',
                        'other-version', 'ref:ok', 'ref:reject', 'ref:may', 'T:v6:ext-gt8', 'T:v4:plain', 'T:ref:ok', 'T:ref:reject')


META = {
    'category': 'model_checking',
    'technique': 'TLA+ function specification PacketClass.tla: reference walker (RFC 791/8200, no depth limit) + implementation-shaped '
                 'walker with the walk limit, link checked by TLC on every vector; vectors concretised to bytes and executed on the real '
                 'newPacket/IPv6FindUpperProtocol; random structured packets observed and judged by TLC',
    'text': 'Packets are sequences of header descriptors with a truncation point. TLC evaluates the reference classification on the '
            'whole lattice, checks that the implementation-shaped machine conforms and that its protocol is never an extension header, '
            'and emits one expected result per vector; the harness builds the bytes (exact-capacity buffers so that over-reads panic), '
            'runs the real code in both directions on a stale ParsedPacket and compares. Seeded random packets beyond the lattice are '
            'logged with their observed results and judged by TLC against the same reference.',
    'design_ref': '3.8 C20',
    'note': 'Structured packets only; the reference decides nothing about arbitrary byte strings.',
}
