"""C32 — pending handshakes retry, give up, and release queued packets correctly (spec/HsManager.tla, whole nodes)."""
from tools.props import _hs

RULE = ("MC: HsManager.tla exhaustively (retries 2, queue bound 2, timer entries incl. stale ones) with C32_Queue and the "
        "structural invariants. T: seeded schedules on 4 complete nodes with virtual time (try interval = 1 tick): retransmission "
        "times, give-up after `retries` attempts (pending entry and index gone), queue growth, release of queued packets in order "
        "on completion, hand-over of the queue after a wrong responder; every step validated by TLC incl. the back-off invariant "
        "C32_NoEarlyRetry and, at the end of every try interval, NoOverdue (no pending handshake has fallen out of the timer: "
        "its own back-off ran out at most two intervals ago); every trace ends with a silent drain after which nothing may be "
        "pending (Quiet); prologue in debug-level worlds: an unauthentic copy of the answer is being handled -- its goroutine parked "
        "at its log call inside continueHandshake, holding the handshake's lock -- when the retransmission timer fires; "
        "distinct = traces. Burst: HsManager.tla's TunSendBurst (a tun read that is a TSO/USO superpacket) -- MC "
        "with SpecBurst, and vectors (Vec_HsBurst.tla, MaxQueue = 100) run on the real consumeInsidePacket / packet store / "
        "continueHandshake release")
ASSUMPTIONS = _hs.ASSUME_COMMON + [
    "retries=4, try_interval=100ms in the recorded runs; the outbound firewall allows everything (the 'only if the firewall allows it' "
    "clause is decided by the firewall checks C16/C17 on the same Drop call)",
    "'linearly growing delay' is read as: attempt k+1 of a pending handshake happens no earlier than k intervals after attempt k",
    "the queue bound of 100 is exercised by a dedicated long run of inside packets in profile 2",
    "superpackets (burst stage, object level): one Interface + HandshakeManager + Firewall per vector; the fill levels are "
    "{0, 1, 100-k-1 .. 100} for burst sizes k in {1, 2, 10, 64} (thorough: also 3, 45, 120), single-packet firewall flags after three "
    "patterns (all allowed, all denied, alternating); all segments of one superpacket share the firewall's answer (they share the "
    "5-tuple); the handshake is completed by a real responder machine through continueHandshake; no concurrency between the "
    "inside reader and the completion in this stage (that is the whole-node stage's prologue)",
    "which packets stay when the bound is reached: the statement only bounds the number; HsManager.tla (TunSend and TunSendBurst) "
    "keeps the packets already queued and drops the newcomer, as the code does; another drop policy would be reported under "
    "burst:queue-content",
]


def relevant(ln, fl):
    return ln.get('ev') in ('Retry', 'TunSend', 'Quiet', 'Garbled', 'Tick') or (ln.get('ev') == 'Deliver' and ln.get('kind') == 'handshake')


def run(ctx):
    _hs.mc(ctx)
    res, tf = _hs.record(ctx)
    ctx.traces += _hs.validate(ctx, tf, relevant, strict_backoff=True)
    ctx.require_actions('ev:Deliver', 'ev:TunSend', 'ev:Retry', 'ev:Quiet', 'flush-interleave-prologue', 'garbled-reply-prologue',
                        'garbled-reply:parked-under-handshake-lock')
    burst(ctx)


def burst(ctx):
    """Additional stage: tun reads that are TSO/USO superpackets (HsManager.tla TunSendBurst), bound at object level to
    consumeInsidePacket / cachePacket / continueHandshake (harness/_root/zz_verif_c32_burst_test.go)."""
    import os, json
    from tools.check import MachineryError
    before = len(ctx.violations)
    # MC: the system of MC_HsManager with superpacket reads (SpecBurst) keeps the queue bound and the structural invariants
    if not os.environ.get('VERIF_SKIP_MC'):
        cfg = open(os.path.join(ctx.spec_dir(), 'MC_HsManager_burst.cfg')).read()
        if not ctx.quick:
            cfg = cfg.replace('MaxClock = 0', 'MaxClock = 1')
        ctx.tlc('MC_HsManager', 'MC_HsManager_burst_run.cfg', cfgtext=cfg, timeout=1500)
    # V: fill level x burst size x firewall flags with the code's bound (MaxQueue = 100); TLC checks the link to the statement
    # (RefQueue / Allowed) on every state; a vector is a state with pc = "done"
    cfg = open(os.path.join(ctx.spec_dir(), 'Vec_HsBurst.cfg')).read()
    if not ctx.quick:
        cfg = cfg.replace('Thorough = FALSE', 'Thorough = TRUE')
    maxq = int(cfg.split('MaxQueue =')[1].split()[0])
    ctx.tlc_vectors('Vec_HsBurst', 'Vec_HsBurst_run.cfg', out='burst_states.ndjson', cfgtext=cfg, timeout=900, sample=1)
    n = 0
    with open(os.path.join(ctx.scratch, 'burst_states.ndjson')) as f, open(os.path.join(ctx.scratch, 'burst_vectors.ndjson'), 'w') as g:
        for ln in f:
            st = json.loads(ln)
            if st.get('pc') != 'done':
                continue
            i = st['in']
            g.write(json.dumps({'pat': i['pat'], 'fill': i['fill'], 'k': i['k'], 'ok': i['ok'], 'q': st['q'],
                                'released': len(st['out']), 'maxqueue': maxq}, separators=(',', ':')) + '\n')
            n += 1
    os.remove(os.path.join(ctx.scratch, 'burst_states.ndjson'))
    if n == 0:
        raise MachineryError('Vec_HsBurst produced no vectors')
    ctx.extra['burst_vectors'] = n
    res = ctx.gotest('.', 'TestVerif_C32Burst', timeout=900)
    ctx.take_mismatches(res)
    ctx.traces += res.get('evaluations', 0)
    if len(ctx.violations) == before:
        ctx.require_actions('burst', 'burst:plain', 'burst:tso', 'burst:uso', 'burst:room', 'burst:crossing', 'burst:full',
                            'burst:k1', 'burst:k2', 'burst:k10', 'burst:k64', 'burst:firewall-allows-burst',
                            'burst:firewall-denies-burst', 'burst:completed', 'burst:released',
                            'burst:release-filtered-by-firewall')


META = {
    'category': 'model_checking',
    'technique': 'TLA+ spec HsManager.tla incl. the outbound timer wheel entries: TLC exhaustive on a small configuration; traces of '
                 'complete nodes under virtual time validated step by step by TLC with the back-off invariant',
    'text': 'The specification carries the pending table (attempt counter, queue, own back-off deadline) and the timer entries keyed '
            'by address as the code has them; TLC validates every recorded retransmission, give-up, queue change and release on '
            'completion of real nodes against it and evaluates C32_NoEarlyRetry at every step. Tun reads that are TSO/USO '
            'superpackets are a separate action (TunSendBurst: the unit of the bound is the packet, not the read); TLC checks the '
            'bound with it exhaustively and enumerates fill level x burst size x firewall flags with the real bound of 100, and '
            'each vector is run on a real Interface / HandshakeManager / Firewall through consumeInsidePacket and a real handshake '
            'completion (packet store and released datagrams compared by serial number).',
    'design_ref': '3.3 C32',
    'note': 'Known finding: a timer entry armed by an earlier handshake for the same address fires for the next pending handshake '
            '(known_findings.jsonl key retry:stale-timer-entry).',
}
