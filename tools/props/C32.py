"""C32 — pending handshakes retry, give up, and release queued packets correctly (spec/HsManager.tla, whole nodes)."""
from tools.props import _hs

RULE = ("MC: HsManager.tla exhaustively (retries 2, queue bound 2, timer entries incl. stale ones) with C32_Queue and the "
        "structural invariants. T: seeded schedules on 4 complete nodes with virtual time (try interval = 1 tick): retransmission "
        "times, give-up after `retries` attempts (pending entry and index gone), queue growth, release of queued packets in order "
        "on completion, hand-over of the queue after a wrong responder; every step validated by TLC incl. the back-off invariant "
        "C32_NoEarlyRetry; distinct = traces")
ASSUMPTIONS = _hs.ASSUME_COMMON + [
    "retries=4, try_interval=100ms in the recorded runs; the outbound firewall allows everything (the 'only if the firewall allows it' "
    "clause is decided by the firewall checks C16/C17 on the same Drop call)",
    "'linearly growing delay' is read as: attempt k+1 of a pending handshake happens no earlier than k intervals after attempt k",
    "the queue bound of 100 is exercised by a dedicated long run of inside packets in profile 2",
]


def relevant(ln, fl):
    return ln.get('ev') in ('Retry', 'TunSend') or (ln.get('ev') == 'Deliver' and ln.get('kind') == 'handshake')


def run(ctx):
    _hs.mc(ctx)
    res, tf = _hs.record(ctx)
    ctx.traces += _hs.validate(ctx, tf, relevant, strict_backoff=True)
    ctx.require_actions('ev:Deliver', 'ev:TunSend', 'ev:Retry', 'flush-interleave-prologue')


META = {
    'category': 'model_checking',
    'technique': 'TLA+ spec HsManager.tla incl. the outbound timer wheel entries: TLC exhaustive on a small configuration; traces of '
                 'complete nodes under virtual time validated step by step by TLC with the back-off invariant',
    'text': 'The specification carries the pending table (attempt counter, queue, own back-off deadline) and the timer entries keyed '
            'by address as the code has them; TLC validates every recorded retransmission, give-up, queue change and release on '
            'completion of real nodes against it and evaluates C32_NoEarlyRetry at every step.',
    'design_ref': '3.3 C32',
    'note': 'Known finding: a timer entry armed by an earlier handshake for the same address fires for the next pending handshake '
            '(known_findings.jsonl key retry:stale-timer-entry).',
}
