"""C39 — relays forward only for the pair they were set up for (spec/Relay.tla, whole nodes)."""
import os, json

RULE = ("MC: the permission rules of Relay.tla imply the relay invariants in a small closed world (any proposed single-record "
        "change or tunnel change, 3 nodes, at most 1 (thorough: 2) relay records in the world). T: seeded schedules on 4 complete nodes (initiator, relay, target, hostile "
        "authenticated peer sending create-relay requests/responses with arbitrary addresses and indexes; reordering, "
        "duplicates, replays, tunnel closes, time); tunnel churn (a node that forgets its tunnel with the relay and comes back, the relay closing one of two tunnels with a peer); every step's relay records, relay index table (HostMap.Relays), tunnel set and forwarded datagrams validated by "
        "TLC against the permission specification; distinct = traces")
ASSUMPTIONS = [
    "Relay.tla is a permission specification: it does not predict which records a node creates, it decides whether the change a "
    "node made in a step is one the statement allows (caused by one of the relay's two peers or by tunnel loss, valid transition, "
    "created on a live tunnel, forwarding records only on relays) and whether a forward was permitted",
    "Established -> Requested is accepted when caused by one of the relay's own two peers (the code re-requests on every retry)",
    "v2 control-message encoding only; relay.am_relay of the relay node is turned off and on again by configuration reloads in a "
    "quarter of the traces (am is a state variable of Relay.tla: forwarding needs am = on at the moment of forwarding)",
]


def run(ctx):
    if os.environ.get('VERIF_SKIP_MC'):
        ctx.states = 1
    else:
        # quick: at most one relay record in the world (~30 s); thorough: two (~30 M transitions, 40 min on 8 workers)
        cfg = open(os.path.join(os.path.dirname(os.path.dirname(os.path.dirname(os.path.abspath(__file__)))), 'spec', 'MC_Relay.cfg')).read()
        if ctx.quick:
            cfg = cfg.replace('MaxRecs = 2', 'MaxRecs = 1')
        ctx.tlc('MC_Relay', 'MC_Relay.cfg', timeout=6000, workers=8, cfgtext=cfg)
    res = ctx.gotest('e2e', 'TestVerif_C39', tags='verif e2e_testing', also=('net',), timeout=600 if ctx.quick else 1500)
    tf = os.path.join(res['_outdir'], 'trace_relay.ndjson')
    fails, ok = ctx.validate_traces('TraceMC_Relay', 'Trace_Relay.cfg', tf, max_fail=8)
    ctx.traces += ok
    for fl in fails:
        ln = fl['line']
        prev = None
        for x in reversed((fl.get('trace') or [])[:-1]):
            if x.get('n') == ln.get('n') and 'recs' in x:
                prev = x
                break
        key = 'relay:%s:%s' % (ln.get('ev'), ln.get('typ', ln.get('why', '')))
        stale = [x for x in (ln.get('ridx') or []) if x[1] == 0 or not any(r['lidx'] == x[0] and r['tun'] == x[1] for r in ln.get('recs', []))]
        if stale:
            key = 'relay:index-outlives-tunnel'
        elif fl.get('violated') and fl['violated'] != 'TraceAccepted':
            key = 'relay:inv:%s' % fl['violated']
        elif ln.get('ev') == 'Recv' and prev is not None:
            old = {(r['peer'], r['addr'], r.get('tun')): r for r in prev['recs']}
            new = {(r['peer'], r['addr'], r.get('tun')): r for r in ln['recs']}
            third = [k for k in set(old) | set(new) if old.get(k) != new.get(k) and k[0] != ln['s'] and k[1] != ln['s'].lower()]
            if third:
                key = 'relay:record-changed-by-third-party'
        ctx.violation(key, 'node %s, step %s: not permitted by Relay.tla (records before: %s, after: %s, forwarded to %s)' %
                      (ln.get('n'), json.dumps({k: ln.get(k) for k in ('ev', 's', 'typ', 'why')}),
                       json.dumps(prev['recs'] if prev else None), json.dumps(ln.get('recs')), ln.get('fwd')) +
                      (' -- relay index table still holds %s (index, tunnel; 0 = a tunnel the node no longer has)' % stale if stale else ''), fl)
    ctx.require_actions('ev:Recv', 'typ:control', 'typ:relay', 'hostile-control', 'churn:relay-closes-one-of-two', 'churn:relay-indexes-before-close',
                        'reload:am_relay-false', 'relayed-datagram-while-am_relay-off', 'hostile-response-for-foreign-requested-leg')


META = {
    'category': 'model_checking',
    'technique': 'TLA+ permission specification Relay.tla (who may change which relay record how, when forwarding is allowed) '
                 'checked by TLC to imply the relay invariants; traces of 4 complete nodes incl. a hostile authenticated peer in a '
                 'synctest bubble validated step by step by TLC',
    'text': 'Every relay-record change and every forwarded datagram of real nodes under legitimate set-up, hostile control '
            'messages with arbitrary addresses/indexes, duplicates, stale copies and tunnel churn must be a step the permission '
            'specification allows: changes only by one of the relay\'s two peers or tunnel loss, along valid transitions, forwarding '
            'only on a relay, only onto an established onward leg negotiated by the sender, never back or to itself.',
    'design_ref': '3.5 C39',
    'note': 'Permission (monitor) specification rather than a predictive model; v2 encoding; trusts the projection of relay records. '
            'Found and fixed: forwarding continued after a reload turned relay.am_relay off (known_findings.jsonl, fixed: C39 78a4ecc).',
}
