"""C10 — replayed handshakes do not create or replace tunnels (spec/HsManager.tla, whole nodes)."""
from tools.props import _hs

RULE = ("MC: HsManager.tla exhaustively for 4 nodes (wrong responder, untrusted CA, two-address certificate) with invariants "
        "C10_TooOld / C10_OnePerHs1 (the 'only resends the cached reply' clause is the AlreadySeen branch of RecvHs1). T: seeded adversarial network schedules (reordering, loss, replay of any earlier datagram, "
        "misdelivery, spoofed source, simultaneous initiators) on 4 complete nodes; every step's hostmap/pending projection and "
        "emitted datagrams validated by TLC; distinct = traces")
ASSUMPTIONS = _hs.ASSUME_COMMON + ["replays are delivered from their original source address and no preferred_ranges are configured, so the roam-to-preferred test packet of the AlreadySeen path does not occur", "per-address limit of five is reached only by long replay-free histories; rotation up to 2 tunnels per address is exhaustive in MC"]


def relevant(ln, fl):
    return ln.get('ev') == 'Deliver' and ln.get('kind') == 'handshake'


def run(ctx):
    _hs.mc(ctx)
    res, tf = _hs.record(ctx)
    ctx.traces += _hs.validate(ctx, tf, relevant, strict_backoff=False)
    ctx.require_actions('ev:Deliver', 'ev:TunSend', 'ev:Retry')


META = {
    'category': 'model_checking',
    'technique': 'TLA+ spec HsManager.tla (handshake manager + hostmap of several nodes, network owned by the environment): TLC '
                 'exhaustive on a small configuration; traces of 4 complete nebula nodes in a synctest bubble under a seeded '
                 'adversarial network validated step by step by TLC',
    'text': 'TLC checks that no two tunnels come from one stage-1 datagram and that a responder-created primary is only displaced by a '
            'strictly newer stage 1; real nodes are driven by a network that replays any earlier datagram at any later point '
            '(profile 1 is replay-heavy) and a replayed stage 1 must leave hosts unchanged and emit exactly the cached stage 2, '
            'as the AlreadySeen/TooOld branches of the specification say.',
    'design_ref': '3.3 C10',
    'note': 'Trusts TLC, the synctest bubble and the projection in harness/e2e/_extra. Static-host scenario only.',
}
