"""C09 — tunnels are bound to the certified overlay address (spec/HsManager.tla, whole nodes)."""
from tools.props import _hs

RULE = ("MC: HsManager.tla exhaustively for 4 nodes (wrong responder, untrusted CA, two-address certificate) with invariants "
        "C09_Bound / C09_Initiator. T: seeded adversarial network schedules (reordering, loss, replay of any earlier datagram, "
        "misdelivery, spoofed source, simultaneous initiators) on 4 complete nodes; every step's hostmap/pending projection and "
        "emitted datagrams validated by TLC; wrong responders certified for networks that overlap / are disjoint from / partly "
        "overlap the initiator's, at the asked address's underlay address: the initiator ends with nothing installed; distinct = traces")
ASSUMPTIONS = _hs.ASSUME_COMMON + ["lighthouse- and relay-learned paths are not part of this scenario (static hosts only)"]


def relevant(ln, fl):
    return ln.get('ev') == 'Deliver' and ln.get('kind') == 'handshake'


def run(ctx):
    _hs.mc(ctx)
    res, tf = _hs.record(ctx)
    ctx.traces += _hs.validate(ctx, tf, relevant, strict_backoff=False)
    # the wrong responder's certificate networks as a dimension of its own (overlapping / disjoint / mixed)
    res2 = ctx.gotest('e2e', 'TestVerif_C09Wrong', tags='verif e2e_testing', also=('net',), timeout=300, name='wrong')
    ctx.take_mismatches(res2)
    if not ctx.violations:
        ctx.require_actions('ev:Deliver', 'ev:TunSend', 'ev:Retry', 'wrong-responder:answered:overlapping',
                            'wrong-responder:answered:disjoint', 'wrong-responder:nothing-installed')


META = {
    'category': 'model_checking',
    'technique': 'TLA+ spec HsManager.tla (handshake manager + hostmap of several nodes, network owned by the environment): TLC '
                 'exhaustive on a small configuration; traces of 4 complete nebula nodes in a synctest bubble under a seeded '
                 'adversarial network validated step by step by TLC',
    'text': 'TLC checks that every tunnel in every reachable hostmap was created from a verified certificate listing the address, '
            'serves exactly that certificate\'s addresses and never one of the node\'s own; real nodes are then driven by an '
            'adversarial network (wrong responder at the expected underlay address, untrusted CA, replays, spoofing) and each '
            'step\'s projected hostmap, pending table and emissions must be a step of the same specification.',
    'design_ref': '3.3 C09',
    'note': 'Trusts TLC, the synctest bubble and the projection in harness/e2e/_extra. Static-host scenario only.',
}
