"""C41 — route configuration parses exactly (spec/RouteCfg.tla, vector mode)."""
import json, os
from tools.check import MachineryError

RULE = ("every element of RouteCfg.tla's lattice (tun.routes and tun.unsafe_routes entries with every pair of fields varied over "
        "{integer in/out of range, decimal string in/out of range, malformed string, bool, float, list, null, missing}, via forms, "
        "route prefixes inside/outside/around the overlay networks, install forms, two-entry lists, non-map entries) is one TLC "
        "state with Loads/Value computed by TLC; each is rendered as YAML and parsed by the real parseRoutes/parseUnsafeRoutes; "
        "distinct = distinct vectors")
ASSUMPTIONS = [
    "decimal strings are canonical (no sign prefix '+', no leading zeros, no surrounding blanks)",
    "a float with an integral value (mtu: 1400.0) may be refused or loaded, but only with exactly that value; bool, list, null, "
    "non-integral floats and malformed strings must be refused; a panic is never a refusal",
    "MTU has only the lower bound 500 (0 = unset for unsafe routes); metric 0..2^31-1; gateway weight 1..2^31-1",
    "an unsafe route that starts outside the overlay networks but contains one of them (e.g. a default route) may be refused "
    "or loaded; one whose address lies inside an overlay network must be refused",
    "install accepts booleans and the strings \"true\"/\"false\"; other spellings ParseBool accepts are not judged",
    "the order in which several defects of one entry are detected is not compared",
]


def ndev(v):
    n = 0
    for e in v['es']:
        if e['shape'] != 'map':
            n += 1
            continue
        n += e['mtu']['kind'] != 'int'
        n += e['route']['kind'] != 'pfx'
        if v['kind'] == 'unsafe':
            n += e['metric']['kind'] not in ('int', 'missing')
            n += e['install']['kind'] not in ('missing', 'bool')
            if e['via']['kind'] == 'list':
                n += sum(1 for g in e['via']['gws'] if g['kind'] != 'ok' or g['w']['kind'] not in ('int', 'missing'))
            elif e['via']['kind'] != 'addr':
                n += 1
    return n


def run(ctx):
    cfg = open(ctx.spec_dir() + '/Vec_RouteCfg.cfg').read()
    if not ctx.quick:
        cfg = cfg.replace('Wide = FALSE', 'Wide = TRUE')
    ctx.tlc_vectors('RouteCfg', 'Vec_RouteCfg_run.cfg', out='all.ndjson', cfgtext=cfg, timeout=1500)
    vecs = []
    with open(os.path.join(ctx.scratch, 'all.ndjson')) as f:
        for line in f:
            v = json.loads(line)['vec']
            if not v['kind'].startswith('seed:'):
                vecs.append(v)
    # entries that deviate in one field first: a symptom is attributed to a single field when that field alone shows it
    vecs.sort(key=lambda v: (ndev(v), json.dumps(v, sort_keys=True)))
    with open(os.path.join(ctx.scratch, 'vectors.ndjson'), 'w') as f:
        for v in vecs:
            f.write(json.dumps(v, separators=(',', ':')) + '\n')
    ctx.extra['vectors'] = len(vecs)
    res = ctx.gotest('overlay', 'TestVerif_C41')
    ctx.take_mismatches(res)
    ctx.traces += len(vecs)
    if not ctx.violations:
        ctx.require_actions('routes', 'unsafe', 'exp:ok', 'exp:refuse', 'exp:either', 'loaded', 'refused')


META = {
    'category': 'model_checking',
    'technique': 'TLA+ function specification RouteCfg.tla (field grammar, range rules on decimal digit sequences, prefix containment); '
                 'TLC enumerates the lattice, checks all-or-nothing / string-equals-integer / exact-or-refused on every vector, and '
                 'each vector is rendered as YAML and parsed by the real parseRoutes / parseUnsafeRoutes',
    'text': 'Every vector carries the expected verdict (loads / must be refused / either) and, when it loads, mtu, metric, prefix, '
            'gateways with weights and install; the harness loads the YAML through config.C and compares every field; panics are '
            'caught and reported as failures to refuse.',
    'design_ref': '3.10 C41',
    'note': 'The route tree (makeRouteTree) and platform route installation are not part of the property.',
}
