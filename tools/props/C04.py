"""C04 — issuance never exceeds the signing CA (spec/CertTrust.tla, shared with C01)."""
import json, os, re
from tools import tlaval
from tools.props import C01 as shared

RULE = ("V: every (TBS certificate, signer) vector of CertTrust.tla's lattice (the C01 certificate lattice as things to be "
        "signed, plus isCA x curve x self-signing) is one TLC state with SignOK and the trust rule's verdict on the issued "
        "certificate for every second; each is handed to the real Sign with the CA's own key, issued certificates are decoded "
        "and verified against a pool holding the signer at every second, P-256 signatures are checked for low-S (Sign, and "
        "SignWith with lambdas returning high-S and low-S signatures); every issuable v2 vector under a signer with an unsafe-network "
        "constraint is tried once more with its IPv4 unsafe networks written as IPv4-mapped IPv6 prefixes (must be refused); "
        "distinct = vector. T: seeded random TBS certificates "
        "(16-bit address universe, dozens of networks and groups) whose logged outcome TLC validates against SignOK. "
        "CLI: nebula-cert ca/sign command functions on files, per constraint class. H: every history of 3 operations "
        "(Sign / SignWith with an external signer / edit of the validity window) on 2-3 long-lived TBS objects x 4-5 CAs "
        "(second key, renewed certificate of the same key, narrower, expired, other curve) + self-signing of "
        "CertIssue.tla is replayed on real TBSCertificate objects; every call is compared with SignOK of the object's "
        "current fields and the signer of that call, every returned certificate is verified second by second against the "
        "pool holding exactly that signer and against the pool holding all CAs; distinct = (history, step)")
ASSUMPTIONS = [
    "'signing succeeds only when ...' is an only-if: a refusal of a certificate inside the constraints is counted in the "
    "evidence (refused_within_constraints, expected 0) but is not a violation; a run without any successful signing is vacuous",
    "the key handed to Sign is the signing CA's own key and the curve argument is that key's curve (nebula-cert checks this "
    "with VerifyPrivateKey); the curve constraint is then 'certificate curve = CA curve'",
    "Within is the same operator as in C01 (window by end points, groups subset, each network inside one CA entry; empty CA "
    "list = unconstrained); vectors where only the union of CA entries covers a network are left out",
    "'verifies against a pool containing its signer' is demanded at every second at which certificate and CA are both valid "
    "(TLC checks SignOK => Accept there); for a self-signed CA it means AddCA accepts it (ErrExpired = wall clock ignored)",
    "through the CLI the validity window is relative to the wall clock: margins of hours are used so that no verdict depends "
    "on timing",
    "key material comes from crypto/rand (no verdict depends on it); every mismatch carries the PEM certificates",
    "histories (CertIssue.tla): the statement speaks about a signing call, so the reference outcome of a call is a function of "
    "the TBS object's current fields and of the signer of that call; nothing of the object's past may show. A call inside the "
    "constraints that is refused on an object with a past is a violation only when the very same call on a fresh copy of the "
    "object succeeds (hist:refused-by-its-past: 'a refused call leaves the object usable'); otherwise it is counted like "
    "refused_within_constraints. For a self-signed CA only usability (AddCA) is demanded, not an empty issuer field",
    "histories: the caller's edits between calls are limited to the validity window (renewal); the other public fields of a "
    "TBS object stay as created",
]


def histories(ctx):
    """History mode of CertIssue.tla: depth 0 = the tables of a world, the leaves = the maximal histories."""
    from tools.check import MachineryError
    d = ctx.spec_dir()
    cfg = open(os.path.join(d, 'MC_CertIssue.cfg')).read()
    hlen = int(re.search(r'HLen = (\d+)', cfg).group(1))
    if not ctx.quick:
        cfg = cfg.replace('Thorough = FALSE', 'Thorough = TRUE')
    dump = os.path.join(d, 'c04_hist')
    ctx.tlc('CertIssue', 'MC_CertIssue_run.cfg', args=['-dump', dump], cfgtext=cfg, timeout=2400,
            java_opts=shared.JOPTS_QUICK if ctx.quick else None)
    path = dump + '.dump' if os.path.exists(dump + '.dump') else dump
    tables, hists = {}, []
    with open(path) as f:
        for block in re.split(r'^State \d+:\s*$', f.read(), flags=re.M):
            if '|-> "tbl"' in block:
                st = tlaval.parse_state(block)
                tables[str(st['in'])] = st['exp']
                continue
            mo = re.search(r'/\\ exp = (.*?)(?=\n/\\ |\Z)', block, re.S)
            if not mo:
                continue
            h = json.loads(mo.group(1).replace('<<', '[').replace('>>', ']'))       # ints and strings only
            if len(h) == hlen:
                hists.append((int(re.search(r'/\\ in = (\d+)', block).group(1)), h))
    os.remove(path)
    if not tables or not hists:
        raise MachineryError('CertIssue.tla emitted no histories')
    hists.sort()            # TLC's dump order depends on its workers
    with open(os.path.join(ctx.scratch, 'c04_hist_tables.json'), 'w') as f:
        json.dump(tables, f, separators=(',', ':'))
    with open(os.path.join(ctx.scratch, 'c04_hist.ndjson'), 'w') as f:
        for w, h in hists:
            f.write(json.dumps({'w': w, 'h': h}, separators=(',', ':')) + '\n')
    ctx.samples.append({'history': {'w': hists[len(hists) // 3][0], 'h': hists[len(hists) // 3][1]}})
    ctx.extra['histories'] = len(hists)
    ctx.extra['history_worlds'] = {w: {'objs': len(t['objs']), 'cas': len(t['cas']), 'curve': t['cu']} for w, t in tables.items()}
    return len(hists)


def run(ctx):
    from tools.check import MachineryError
    tmax = 4 if ctx.quick else 5
    histories(ctx)
    n = shared.vectors(ctx, 'Vec_CertTrust_C04_run.cfg', shared.cfg_for(ctx, 'Vec_CertTrust_C04.cfg', tmax))
    ctx.extra['vectors'] = n
    with open(os.path.join(ctx.scratch, 'c04_plan.json'), 'w') as f:
        json.dump({'random': 400 if ctx.quick else 4000, 'random_ab': 16}, f)
    res = ctx.gotest('cert', 'TestVerif_C04', also=('certtrust',))
    if res['_rc'] != 0 and not res.get('mismatches'):
        ctx.save('gotest_C04.out', res['_stdout'])
        raise MachineryError('harness failed without a verdict:\n%s' % res['_stdout'][-3000:])
    ctx.take_mismatches(res)
    ctx.extra['refused_within_constraints'] = (res.get('extra') or {}).get('refused_within_constraints', 0)
    cfg = open(os.path.join(ctx.spec_dir(), 'Trace_CertTrust.cfg')).read()
    fails, ok = ctx.validate_traces('Trace_CertTrust', 'Trace_CertTrust_run.cfg',
                                    os.path.join(res['_outdir'], 'c04_trace.ndjson'), cfgtext=cfg, timeout=300,
                                    java_opts=shared.JOPTS_QUICK if ctx.quick else None)
    ctx.traces += ok
    for fl in fails:
        ln = fl['line']
        c = ln.get('c', {})
        ctx.violation('random:signed=%s:low=%s:verifies=%s:v%s:%s' % (ln.get('signed'), ln.get('low'), ln.get('verifies'),
                                                                     c.get('ver'), c.get('curve')),
                      'recorded Sign #%s (succeeded=%s, low-S=%s, issued certificate verifies=%s) is not allowed by SignOK of '
                      'CertTrust.tla' % (ln.get('n'), ln.get('signed'), ln.get('low'), ln.get('verifies')), fl)
    # the nebula-cert command functions
    if os.path.isdir(os.path.join(os.path.dirname(os.path.dirname(os.path.dirname(os.path.abspath(__file__)))),
                                  'harness', 'cmd', 'nebula-cert')):
        cli = ctx.gotest('cmd/nebula-cert', 'TestVerif_C04', name='TestVerif_C04_cli')
        if cli['_rc'] != 0 and not cli.get('mismatches'):
            ctx.save('gotest_C04_cli.out', cli['_stdout'])
            raise MachineryError('CLI harness failed without a verdict:\n%s' % cli['_stdout'][-3000:])
        ctx.take_mismatches(cli)
        ctx.require_actions('cli:sign:ok', 'cli:class:ok', 'cli:class:win', 'cli:class:grp', 'cli:class:net', 'cli:class:unsafe')
    if not ctx.violations:
        # histories: the classes the object-with-a-past part of the property lives on
        ctx.require_actions('hist:ok:prior=other-ca',      # the same TBS object signed under two CAs
                            'hist:ok:last=refused',        # a refusal followed by a success on the same object
                            'hist:ok:op=ext',              # SignWith with an external signer
                            'hist:ok:prior=same-ca', 'hist:ok:prior=fresh', 'hist:ok:prior=none-issued', 'hist:ok:last=edit',
                            'hist:ok:op=sign', 'hist:ok:self', 'hist:ok:renewed-ca', 'hist:lowS:ext', 'hist:edit',
                            'hist:refused:curve', 'hist:refused:win', 'hist:refused:grp', 'hist:refused:isca',
                            'hist:refused:selfnotca', 'hist:issued:ok', 'hist:issued:exp', 'hist:issued:caexp')
    if not ctx.violations:      # a violation is a verdict; vacuity only matters for a pass
        ctx.require_actions('mapped-unsafe:tried', 'mapped-unsafe:refused')
    ctx.require_actions('sign:ok', 'class:ok', 'class:win', 'class:grp', 'class:net', 'class:unsafe',
                        'class:isca', 'class:curve', 'class:selfnotca', 'issued:self',
                        'lowS:Sign', 'lowS:SignWith(high-S lambda)', 'issued:ok', 'issued:exp', 'issued:caexp',
                        'random:signed', 'random:refused')


META = {
    'category': 'model_checking',
    'technique': 'TLA+ specs CertTrust.tla + CertIssue.tla (TBS objects with a past: all histories of 3 operations replayed on real '
                 'objects, every returned certificate verified against the signer of its call); CertTrust.tla: SignOK written from the statement over the same Within as the verifier; TLC checks '
                 'SignWith-shaped SignM = SignOK and SignOK => Accept on the whole lattice; every vector is executed on the real '
                 'Sign/SignWith and the issued certificate on the real verifier; recorded random signings validated by TLC; '
                 'nebula-cert ca/sign driven per constraint class',
    'text': 'TLC enumerates abstract (TBS certificate, CA) pairs, proves that the code-shaped guard of SignWith decides exactly '
            'SignOK and that everything SignOK allows is accepted by the trust rule while certificate and CA are valid, and emits '
            'the expected outcome; the harness signs each with real CA keys (both versions, both curves), compares success with '
            'SignOK, verifies each issued certificate second by second against a pool holding the signer, and checks low-S on '
            'every P-256 signature, including SignWith lambdas that return high-S signatures.',
    'design_ref': '3.1 C04',
    'note': 'Finite lattice plus random cases; PKCS#11 signing is not exercised (no token in the sandbox) - SignWith with a '
            'software lambda stands in for it.',
}
