"""C12 — a data packet is delivered at most once (spec/DataPlaneRx.tla)."""
import json, os, random
from tools import tours

RULE = ("MC: all interleavings of 3 (thorough 4) goroutines each handling one copy (counters with repetitions, inside/"
        "outside/beyond the window, genuine or forged) at the code's grain Check / AEAD / Update. R: every complete "
        "interleaving of the gate-grain model (quick: a seeded sample) imposed on a real ConnectionState (Decrypt and "
        "VerifyRelay) by parking goroutines inside the AEAD call, on a 4-slot and on the production 8192-slot window; "
        "every 4th schedule once more with every step started while the window's critical section is occupied by another "
        "reader (the step must wait, not be skipped); distinct = (path, window, occupied)")
ASSUMPTIONS = [
    "schedules are imposed at the grain pre-check / (open + update): the AEAD open has no effect on shared state, so "
    "separating it from the update adds no observable interleavings (TLC explores the fine grain as well)",
    "object level: what the callers do with a successfully decrypted packet (tun write, handler dispatch) is covered by the "
    "whole-node checks; here 'acted upon' = Decrypt/VerifyRelay returned success",
]


def run(ctx):
    rnd = random.Random(ctx.seed)
    ctx.tlc('DataPlaneRx', 'MC_DataPlaneRx_fine.cfg')
    dot = os.path.join(ctx.spec_dir(), 'rx.dot')
    ctx.tlc('DataPlaneRx', 'MC_DataPlaneRx_gate.cfg', args=['-dump', 'dot,actionlabels', dot])
    st = tours.build_paths(dot, os.path.join(ctx.scratch, 'rxpaths.json'), limit=2500 if ctx.quick else 10**6, rnd=rnd,
                           keep_vars={'ctr', 'genuine', 'pc'})
    os.remove(dot)
    ctx.extra['graph'] = st
    if not ctx.quick:
        cfg = open(os.path.join(ctx.spec_dir(), 'MC_DataPlaneRx_fine.cfg')).read().replace('{r1, r2, r3}', '{r1, r2, r3, r4}')
        ctx.tlc('DataPlaneRx', 'MC_DataPlaneRx_fine4.cfg', cfgtext=cfg, timeout=1800)
    with open(os.path.join(ctx.scratch, 'c12_plan.json'), 'w') as f:
        json.dump({'file': 'rxpaths.json', 'W': 4, 'hsMsgs': 2}, f)
    res = ctx.gotest('.', 'TestVerif_C12', also=('dp',))
    ctx.take_mismatches(res)
    ctx.extra['drift'] = {k: v for k, v in res.get('actions', {}).items() if k.startswith('drift')}
    ctx.require_actions('Check', 'Finish', 'schedule:critical-section-occupied')


META = {
    'category': 'model_checking',
    'technique': 'TLA+ spec DataPlaneRx.tla: TLC enumerates all interleavings of the split check/decrypt/update critical '
                 'sections over duplicated, forged and out-of-window copies; every complete interleaving is imposed on a real '
                 'ConnectionState (Decrypt, VerifyRelay) by parking goroutines inside the AEAD call',
    'text': 'TLC checks at-most-once delivery and inertness of forged copies over all schedules at the code\'s grain; each '
            'complete schedule of the gate-grain model is executed with real ciphertexts on the real replay window (4-slot and '
            '8192-slot) and a delivery the specification does not allow, or a second delivery of a counter, is a violation.',
    'design_ref': '3.4 C12',
    'note': 'Object level (ConnectionState); the dispatch after a successful decrypt is not part of this check.',
}
