"""C49 — stopping a node at any point releases everything (spec/Lifecycle.tla, whole nodes)."""
import os, json
from tools import tlaval

RULE = ("MC: Lifecycle.tla (Control state machine, one udp socket per configured routine of which activate() serves only as many as the device has queues, goroutine classes bound to context/socket/device, stop at every phase, "
        "second stop, start after stop) with the liveness property StopReleases under weak fairness. R: every distinct "
        "environment history of that model containing a Stop is replayed on 3 complete nodes (lighthouse, A, B) in a synctest "
        "bubble with each role as the node under test; stimuli include a rebind of the underlay socket (Control.RebindUDPServer) "
        "and half of the histories run with handshakes.query_buffer: 0; Stop runs on its own goroutine and one that has not "
        "returned after 3 virtual seconds is reported as hanging; distinct = (history, role)")
ASSUMPTIONS = [
    "goroutines are attributed through the synctest bubble: after the history all nodes and harness helpers are stopped and "
    "every goroutine still in the bubble is a leak",
    "'promptly' = Stop returns without virtual time passing (more than 1 s would be reported)",
    "scenario covers: never started, started idle, pending handshake, half-open and live tunnels, after reload, after "
    "connection-manager/lighthouse timer work; relayed tunnels, sshd, dns and stats listeners are not part of it",
    "the tester UDP socket cannot be probed for closedness without racing its own select; a socket that is not closed keeps "
    "its reader goroutine alive and is reported as a leak",
]


def run(ctx):
    d = ctx.spec_dir()
    dump = os.path.join(d, 'lifecycle_states')
    ctx.tlc('MC_Lifecycle', 'MC_Lifecycle.cfg', args=['-dump', dump])
    path = dump + '.dump' if os.path.exists(dump + '.dump') else dump
    hists = set()
    for st in tlaval.parse_states_file(path):
        h = tuple(st['hist'])
        if 'Stop' in h:
            hists.add(h)
    os.remove(path)
    # keep maximal histories only (a prefix is exercised by its extensions' stop points anyway: each has its own Stop)
    hl = sorted(hists)
    ctx.extra['histories'] = len(hl)
    with open(os.path.join(ctx.scratch, 'c49_plan.json'), 'w') as f:
        json.dump({'histories': [list(h) for h in hl]}, f)
    res = ctx.gotest('e2e', 'TestVerif_C49', tags='verif e2e_testing', also=('net',), timeout=600 if ctx.quick else 1500)
    ctx.take_mismatches(res)
    ctx.require_actions('Stop', 'Start', 'reload', 'lighthouse', 'hs2', 'routines:2', 'sockets:2', 'sockets:1', 'punchburst:sent', 'rebind:on-started-node', 'query_buffer:0')


META = {
    'category': 'model_checking',
    'technique': 'TLA+ spec Lifecycle.tla checked by TLC incl. liveness (stop leads to everything released); every environment '
                 'history of the model with a stop at any phase replayed on complete nodes in a synctest bubble, leaked goroutines '
                 'listed from the bubble',
    'text': 'TLC enumerates where in a multi-node scenario a stop (or a second stop, or a start after stop) can arrive and proves '
            'the modelled teardown releases every goroutine class, socket and device; each such history is executed on real nodes '
            'and after Stop the bubble must contain no goroutine of the node, Stop must not consume virtual time and the tun must '
            'refuse writes.',
    'design_ref': '3.10 C49',
    'note': 'Trusts TLC and testing/synctest goroutine accounting. sshd/dns/stats listeners and relayed tunnels are not in the scenario.',
}
