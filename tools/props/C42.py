"""C42 — certificate reload never changes a node's identity (spec/PkiReload.tla)."""
import json, os, re
from tools import tlaval, tours
from tools.check import MachineryError

RULE = ("MC: TLC explores every reload sequence over the configuration table (23 shapes; thorough also 119) and proves that the "
        "guards accept exactly what the statement accepts (Link) plus the identity invariants. R: every sequence of <= 3 "
        "reloads (quick: depth 3 from the v1-only initial configuration, depth 2 from the 14 others; thorough: depth 3 from all, plus the 119-shape table to depth 2) is applied to a real PKI built from "
        "inline-PEM YAML through config.C.ReloadConfigString; after every reload the projected PKI must be the target of a "
        "Reload edge of the model; distinct = distinct reload sequences")
ASSUMPTIONS = [
    "'change the node's overlay networks' is read per certificate version: a version present before and after must keep its "
    "network list, and when no version survives (v1-only replaced by v2-only, or the reverse) the new list must equal the "
    "old one; adding a v2 certificate with further networks next to an unchanged v1 (the upstream migration path) is accepted "
    "as long as the primary network is shared. The stricter reading (effective network list never changes) would "
    "additionally refuse that",
    "a CA bundle whose certificates are all expired may be refused or taken (the statement only speaks of unreadable "
    "bundles); a changed key pair with the same curve is not an identity change",
    "certificates and trust store are reloaded independently; a refused certificate reload does not block the CA reload",
    "'disconnected on the next check' is decided by C30 with the reloaded pool",
]


def cfg_table(out):
    mm = re.search(r'<<\s*"C42CFGS"', out)
    i = mm.start() if mm else -1
    if i < 0:
        raise MachineryError('configuration table not printed by TLC')
    depth, j = 0, i
    while j < len(out):
        if out.startswith('<<', j):
            depth += 1
            j += 2
            continue
        if out.startswith('>>', j):
            depth -= 1
            j += 2
            if depth == 0:
                break
            continue
        j += 1
    val = tlaval.parse(out[i:j])
    return val[1]


def explore(ctx, cfg, tag, depth, deep_of):
    """One TLC run over a configuration table + one harness pass over all reload sequences of that table."""
    d = ctx.spec_dir()
    dot = os.path.join(d, 'c42%s.dot' % tag)
    r = ctx.tlc('PkiReload', 'MC_PkiReload_run%s.cfg' % tag, args=['-dump', 'dot,actionlabels', dot], cfgtext=cfg)
    cfgs = sorted(cfg_table(r['out']), key=lambda c: c['id'])
    st = tours.build(dot, os.path.join(ctx.scratch, 'c42_graph%s.json' % tag), max_len=3, keep_vars={'st'})
    os.remove(dot)
    ctx.extra['graph' + tag] = st
    ctx.extra['configurations' + tag] = len(cfgs)
    with open(os.path.join(ctx.scratch, 'c42_plan%s.json' % tag), 'w') as f:
        json.dump({'cfgs': cfgs, 'depth': depth, 'deepInits': deep_of(cfgs)}, f)
    res = ctx.gotest('.', 'TestVerif_C42', env={'C42_SET': tag}, name='TestVerif_C42' + tag)
    ctx.take_mismatches(res)


def run(ctx):
    d = ctx.spec_dir()
    cfg = open(os.path.join(d, 'MC_PkiReload.cfg')).read()
    if ctx.quick:
        # depth 3 from the v1-only configuration, depth 2 from every other initial configuration
        explore(ctx, cfg, '', 3, lambda cfgs: ['v1A'])
    else:
        # the basic table to depth 3 from every initial configuration; the wide table (every certificate shape x CA bundle x
        # blocklist) to depth 2 from the certificate shapes with the plain CA bundle, depth 1 from the others
        explore(ctx, cfg, '', 3, lambda cfgs: [c['id'] for c in cfgs])
        explore(ctx, cfg.replace('Wide = FALSE', 'Wide = TRUE'), '_wide', 2, lambda cfgs: [c['id'] for c in cfgs if '/' not in c['id']])
        # the guard structure of the unchanged tree as a model: TLC is expected to refute Link (a candidate finding, not a verdict)
        un = ctx.tlc('PkiReload', 'MC_PkiReload_unp_run.cfg', cfgtext=cfg.replace('Patched = TRUE', 'Patched = FALSE'),
                     expect_ok=False, count=False)
        ctx.extra['model_of_unpatched_guards_violates'] = un['violated']
    if not ctx.violations:      # a reproduced disagreement is a verdict whatever else was or was not exercised
        ctx.require_actions('Reload', 'accepted', 'refused', 'pool-replaced', 'pool-kept', 'initial', 'initial-refused')


META = {
    'category': 'model_checking',
    'technique': 'TLA+ spec PkiReload.tla: reload guard of the statement (reference) vs guards of pki.go (machine), link and identity '
                 'invariants checked by TLC over all reload sequences; the state graph is the oracle for exhaustive reload sequences '
                 'replayed on a real PKI (real certificates, keys, CA bundles, YAML) through ReloadConfigString',
    'text': 'Every configuration shape (v1/v2/both, networks, curve, matching or mismatching key, expired, re-issued, CA bundle '
            'ok/unreadable/all-expired, blocklist) is rendered as real PEM; after each reload the certificates in use, key, '
            'effective networks, credentials, CA fingerprints and blocklist of the real PKI are compared with the model state.',
    'design_ref': '3.1 C42',
    'note': 'pkcs11 keys and FIPS mode are not covered.',
}
