"""C30 — tunnel teardown decisions follow the liveness policy (spec/ConnMgr.tla)."""
import json, os, re, glob
from tools import tlaval
from tools.check import MachineryError

RULE = ("V: every state of ConnMgr.tla's lattice (traffic flags x {idle boundary, certificate status x counter class, local "
        "certificate situation x counter class}; thorough adds the full product) is concretised on a real connectionManager "
        "and one check is run under two time scales; the observed outcome must be in Policy(state) (computed by TLC). "
        "R: TLC-simulated histories (<= 5 checks, all environment actions, explicit now) replayed step by step; "
        "distinct = distinct vectors + distinct histories")
ASSUMPTIONS = [
    "'an idle primary tunnel is closed only when drop_inactive is on and it has been idle at least the inactivity timeout' is "
    "read as exactly when, for a primary tunnel that saw neither inbound nor outbound traffic since the last check",
    "a non-primary tunnel without inbound traffic may be marked for removal without a probe (the statement only speaks of "
    "probed tunnels); removal for silence is then required only after a whole pending interval",
    "when a certificate is bad and the counter is exhausted either 'closed' or 'dropped' is accepted",
    "'re-handshake is started when the local certificate changed or the counter passed the rekey threshold' is required for "
    "a primary tunnel that received traffic since the last check (the only place the code considers it) and forbidden "
    "without one of these reasons; a configured certificate of the peer's higher version and a raised "
    "pki.initiating_version count as local certificate changes",
    "swap-primary versus migrate-relays for non-primary tunnels is C31's subject: both count as 'kept'",
    "whether a CloseTunnel packet actually leaves is recorded but not judged (the decision closeTunnel/deleteTunnel is)",
    "the timer wheel is trusted never to fire early (C33); the interval a tunnel is re-armed with is read from the wheel slot",
]

CONST = {'CheckI': 2, 'PendI': 3, 'ExpAt': 9}


def parse_sim_file(path):
    states, cur = [], []
    with open(path) as f:
        for line in f:
            if re.match(r'^STATE_\d+ ==', line):
                if cur:
                    states.append(tlaval.parse_state(''.join(cur)))
                cur = []
            elif line.startswith('\\*') or line.startswith('----') or line.startswith('===='):
                continue
            elif line.strip() == '' and not cur:
                continue
            else:
                cur.append(line)
    if cur and ''.join(cur).strip():
        states.append(tlaval.parse_state(''.join(cur)))
    return states


def slim(st):
    l = st['last']
    return {'t': st['t'], 'cfg': st['cfg'], 'clock': st['clock'],
            'last': {'act': l['act'], 'arg': l['arg'], 'now': l['now'], 'o': l['o'], 'tup': l['tup'], 'ok': l['ok']}}


def run(ctx):
    d = ctx.spec_dir()
    # ---- V: the lattice
    cfg = open(os.path.join(d, 'Vec_ConnMgr.cfg')).read()
    if not ctx.quick:
        cfg = cfg.replace('Full = FALSE', 'Full = TRUE')
    dump = os.path.join(d, 'c30vec')
    ctx.tlc('ConnMgr', 'Vec_ConnMgr_run.cfg', args=['-dump', dump], cfgtext=cfg, timeout=1500)
    path = dump + '.dump' if os.path.exists(dump + '.dump') else dump
    nvec = 0
    with open(os.path.join(ctx.scratch, 'c30_vectors.ndjson'), 'w') as f:
        for st in tlaval.parse_states_file(path):
            if st['last']['act'] != 'Vec':
                continue
            f.write(json.dumps(slim(st), separators=(',', ':')) + '\n')
            nvec += 1
    os.remove(path)
    ctx.extra['vectors'] = nvec
    # ---- MC: histories, exhaustively within small bounds (link invariants and the two history properties)
    mc = open(os.path.join(d, 'MC_ConnMgr.cfg')).read()
    if not ctx.quick:
        mc = mc.replace('MaxChecks = 4', 'MaxChecks = 5').replace('Acts = {"traffic", "prim"}', 'Acts = {"traffic", "prim", "cfg"}')
    ctx.tlc('ConnMgr', 'MC_ConnMgr_run.cfg', cfgtext=mc, timeout=1500)
    # ---- R: simulated histories with every environment action
    simdir = os.path.join(ctx.scratch, 'sim')
    os.makedirs(simdir)
    num = 12 if ctx.quick else 120
    r = ctx.tlc('ConnMgr', 'SIM_ConnMgr.cfg', workers=4, count=False, timeout=900,
                args=['-simulate', 'file=%s/sim,num=%d' % (simdir, num), '-depth', '45', '-seed', str(ctx.seed)])
    hist = []
    for fn in sorted(glob.glob(os.path.join(simdir, 'sim*'))):
        sts = parse_sim_file(fn)
        if len(sts) > 1:
            hist.append([slim(s) for s in sts])
    if not hist:
        raise MachineryError('TLC simulation produced no histories')
    with open(os.path.join(ctx.scratch, 'c30_histories.json'), 'w') as f:
        json.dump(hist, f)
    ctx.extra['histories'] = len(hist)
    ctx.extra['history_checks'] = sum(1 for h in hist for s in h if s['last']['act'] == 'Check')
    with open(os.path.join(ctx.scratch, 'c30_plan.json'), 'w') as f:
        json.dump({'checkI': CONST['CheckI'], 'pendI': CONST['PendI'], 'expAt': CONST['ExpAt']}, f)
    res = ctx.gotest('.', 'TestVerif_C30')
    ctx.take_mismatches(res)
    ctx.traces += nvec
    if not ctx.violations:      # a reproduced disagreement is a verdict whatever else was or was not exercised
        ctx.require_actions('Vec', 'Check', 'SetIn', 'Tick', 'fate:close', 'fate:drop', 'fate:keep', 'dec:sendTestPacket',
                        'dec:tryRehandshake', 'hist-fate:drop', 'hist-fate:keep', 'history-complete')
    if ctx.actions.get('allowed-deviation', 0):
        ctx.extra['note_allowed_deviations'] = ctx.actions['allowed-deviation']


META = {
    'category': 'model_checking',
    'technique': 'TLA+ spec ConnMgr.tla: statement clauses as a relation Policy(state, outcome), makeTrafficDecision+doTrafficCheck '
                 'as the machine Decide; TLC checks Decide in Policy on the lattice and on all bounded histories together with the two '
                 'history properties; every lattice state and TLC-simulated histories are executed on a real connectionManager',
    'text': 'Each abstract tunnel/config state becomes a real hostmap entry with a real peer certificate (expired, blocklisted, '
            'untrusted or CA-expired through a real CA pool), a real message counter and real timer wheel; doTrafficCheck runs with '
            'an explicit now and the fate of the tunnel, probe, re-handshake, pending mark, re-arm interval, traffic flags and '
            'lastUsed are compared with what TLC computed from the statement.',
    'design_ref': '3.3 C30',
    'note': 'System-level effects (packets on the wire between complete nodes) belong to the bubble runs of C09/C31; punch packets '
            'and relay migration are outside the statement.',
}
